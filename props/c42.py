"""C42 — PLAY emits the notes its music string specifies."""
import math
import signal
from fractions import Fraction

from vlib import basic

LEVEL = 'proof'
RULE = ('one case = one PLAY statement of a history run in a real Session in background mode with a recording audio '
        'queue; histories are 1-5 statements after CLEAR sharing one set of variables (integers, single, double, array, '
        'four MML strings); structured histories are rendered from command tokens (notes with #/+/-, length suffix, '
        'dots; N, P, L, T, O, <, >, MN/ML/MS/MF/MB, X substrings nested up to 4 deep, =var; and =arr(i); references, '
        'a catalogue of malformed commands) with random case, blanks and semicolons; fuzz histories are random byte '
        'strings over the MML alphabet; three-voice histories under syntax tandy and pcjr (after SOUND ON): 1-3 music '
        'strings per PLAY (empty and omitted arguments included), each voice generated from the same grammar plus V, '
        'several statements per history (state persists per voice), a deterministic family with every kind of state '
        'command in one voice against notes in another, and fuzz; non-trivial = the statement emits at least one tone or raises an error')
EXPLANATION = ('theorems (PcbV.Props.C42): one tone per note in order, duration and gap formulas, pauses, octave clamping '
               'and table bound over all strings, N = letter note, malformed commands raise Illegal function call, '
               'self-inserting substrings end in Out of memory, the tones of a voice of the three-voice PLAY are a run '
               'of that voice alone (voices_independent); correspondence: tone tuples, status and final play '
               'state of every statement compared with the compiled Lean model; oracle: expected tones computed from '
               'the command tokens by the formulas of the statement (exact fractions), independent of any parser')
TRUSTED_BASE = ['models PcbV.Model.Mml / PcbV.Model.Play are hand transcriptions of mlparser.py and Sound.play_/emit_tone '
                '(single voice; PcbV.Model.PlayVoices: the three-voice round-robin loop of the Tandy/PCjr syntaxes); NOTES, NOTE_FREQ shape, PlayState defaults and the nesting limit are '
                'regenerated into PcbV.Gen.Notes',
                'the float frequency table is compared numerically (1e-9 relative) with 440*2^((i-33)/12) for the 0-based '
                'table index i; float durations are identified with the nearest fraction of denominator <= 2*10^6']
ASSUMPTIONS = ['VARPTR$ references (byte <= 8 after = or X) are not driven; PCjr without SOUND ON (multi-string PLAY is a '
               'Syntax error there) is not driven',
               'the three synchronisation markers emit_synch queues at the first tone of a Tandy/PCjr PLAY are dropped '
               'before comparing (their durations are clock differences)',
               'variables referenced from MML hold integer values (to_int rounding belongs to the number properties)',
               'queue timing (MF waits, background buffer of 32) is not compared; statements are kept below 31 queue items']

S3_KEY = 'S3:frequency-index-is-note-number-minus-1'
LOW_KEY = 'TANDY110:notes-below-110Hz-are-played-at-110Hz'
SEMI = {'C': 0, 'D': 2, 'E': 4, 'F': 5, 'G': 7, 'A': 9, 'B': 11}
MAX_ITEMS = 30


class Hang(BaseException):
    """raised by the watchdogs; BaseException so that no `except Exception` swallows it"""


class RecordingQueue(object):
    """Queue interface of eventcycle.NullQueue, but remembers what is put."""

    def __init__(self):
        self.items = []

    def qsize(self):
        return 0

    def empty(self):
        return True

    def full(self):
        return False

    def put(self, item, block=False, timeout=False):
        self.items.append(item)

    put_nowait = put

    def get(self, block=False, timeout=False):
        try:
            import queue
        except ImportError:  # pragma: no cover
            import Queue as queue
        raise queue.Empty

    def task_done(self):
        pass

    def join(self):
        pass


class Impl(object):
    """A real Session with a recording audio queue; PLAY runs through Session.execute."""

    CPU_LIMIT = 4.0

    def __init__(self, syntax=None, prelude=None):
        self.errors = basic.error_table()
        self.session = None
        self.syntax, self.prelude = syntax, prelude
        self.fresh()

    def fresh(self):
        if self.session is not None:
            try:
                self.session.close()
            except BaseException:  # noqa
                pass
        self.session = basic.new_session(**({'syntax': self.syntax} if self.syntax else {}))
        if self.prelude:
            self.session.execute(self.prelude)
        self.q = RecordingQueue()
        queues = self.session._impl.queues
        queues.audio = self.q
        self.waits = 0
        orig_wait = queues.wait

        def wait():
            # a PLAY that waits for the queue to drain would make the check depend on real time
            self.waits += 1
            if self.waits > 100:
                raise Hang('queue wait')
            return orig_wait()
        queues.wait = wait

    def close(self):
        try:
            self.session.close()
        except BaseException:  # noqa
            pass

    def _on_timer(self, signum, frame):
        raise Hang('cpu')

    def execute(self, line):
        """(output bytes | None, 'ok' | 'exc:<name>' | 'hang')"""
        self.waits = 0
        old = signal.signal(signal.SIGVTALRM, self._on_timer)
        signal.setitimer(signal.ITIMER_VIRTUAL, self.CPU_LIMIT)
        try:
            try:
                out = self.session.execute(line)
            finally:
                signal.setitimer(signal.ITIMER_VIRTUAL, 0)
            return out, 'ok'
        except Hang:
            self.fresh()
            return None, 'hang'
        except Exception as e:
            name = type(e).__name__
            self.fresh()
            return None, 'exc:' + name
        finally:
            signal.signal(signal.SIGVTALRM, old)

    def drain(self):
        out = []
        for e in self.q.items:
            if getattr(e, 'event_type', None) == 'tone':
                out.append(tuple(e.params))
        del self.q.items[:]
        return out

    def status_of(self, out, how):
        if how != 'ok':
            return how
        text = out.replace(b'\xff', b'').strip()
        if not text:
            return 'ok'
        msg = text.split(b'\r')[0].strip()
        for m, n in self.errors.items():
            mb = m if isinstance(m, bytes) else m.encode('latin-1')
            if msg == mb:
                return 'err%d' % n
        return 'out:%r' % text[:40]

    def play_state(self, voice=0):
        """final PlayState of a voice as the model prints it (None if the internals moved)"""
        try:
            snd = self.session._impl.sound
            st = snd._state[voice]
            length = Fraction(st.length).limit_denominator(4096)
            tempo = Fraction(st.tempo).limit_denominator(4096)
            fill = Fraction(st.fill).limit_denominator(64)
            return '%d,%s,%s,%s,%d,%d' % (st.octave, 1 / length, 240 / tempo, fill * 8, st.volume,
                                          1 if snd._foreground else 0)
        except Exception:  # noqa
            return None

    def run_history(self, hist):
        """hist: dict(vars=[(name, kind, value)], stmts=[bytes]) -> list of (status, [tone tuples]), state"""
        if not self.setup(hist):
            return [('hang', [])] * len(hist['stmts']), None
        s = self.session
        return self.play_all(hist)

    def setup(self, hist):
        s = self.session
        out, how = self.execute(b'CLEAR')
        self.drain()
        if how != 'ok':
            return False
        for name, kind, val in hist['vars']:
            if kind == 's':
                s.set_variable(name, bytes(val))
            elif kind == 'n':
                self.execute(name + b'=' + str(val).encode())
            else:
                self.execute(b'DIM ' + name[:-1] + b'(%d)' % (len(val) - 1))
                for i, v in enumerate(val):
                    if v:
                        self.execute(name[:-1] + b'(%d)=%d' % (i, v))
        return True

    def run_history_multi(self, hist):
        """three-voice histories: every statement is [s0, s1, s2] with None for an omitted argument;
        -> list of (status, [tone tuples without the synchronisation markers]), 'st0|st1|st2'"""
        if not self.setup(hist):
            return [('hang', [])] * len(hist['stmts']), None
        s = self.session
        names = [b'ZZP$', b'ZZQ$', b'ZZR$']
        res = []
        dead = False
        for voices in hist['stmts']:
            if dead:
                res.append(('skipped', []))
                continue
            args = []
            for name, mml in zip(names, voices):
                if mml is None:
                    args.append(b'')
                else:
                    s.set_variable(name, bytes(mml))
                    args.append(name)
            while args and args[-1] == b'':
                args.pop()
            self.drain()
            out, how = self.execute(b'PLAY ' + b','.join(args))
            tones = self.drain() if how == 'ok' else []
            # emit_synch: at the first tone of a statement one silent marker per voice is queued whose
            # duration is a difference of clock readings; not part of the music
            if len(tones) >= 3 and all(t[0] == v and t[1] == 0 and t[4] == 0 and abs(t[2]) < 0.05
                                       for v, t in enumerate(tones[:3])):
                tones = tones[3:]
            res.append((self.status_of(out, how), tones))
            if how != 'ok':
                dead = True
                continue
            self.execute(b'SOUND 100,0')
        state = None
        if not dead:
            sts = [self.play_state(v) for v in range(3)]
            state = None if None in sts else '|'.join(sts)
        return res, state

    def play_all(self, hist):
        s = self.session
        res = []
        dead = False
        for mml in hist['stmts']:
            if dead:
                res.append(('skipped', []))
                continue
            s.set_variable(b'ZZP$', bytes(mml))
            self.drain()
            out, how = self.execute(b'PLAY ZZP$')
            tones = self.drain() if how == 'ok' else []
            res.append((self.status_of(out, how), tones))
            if how != 'ok':
                dead = True     # the session was replaced; the rest of the history has lost its state
                continue
            self.execute(b'SOUND 100,0')
        state = None if dead else self.play_state()
        return res, state


# --------------------------------------------------------------------------------------------------------------
# canonical form of tone tuples (the model's reply format)

def freq_index(f):
    """0-based index i with f = 440*2^((i-33)/12) within 1e-9 relative, else None"""
    if f <= 0:
        return None
    i = int(round(12 * math.log(f / 440.0, 2))) + 33
    exp = 440.0 * 2.0 ** ((i - 33) / 12.0)
    return i if abs(f - exp) <= 1e-9 * exp else None


def canon_tone(t):
    voice, freq, dur, loop, vol = t
    if freq == 0:
        note = 'r'
    else:
        i = freq_index(freq)
        note = 'i%d' % i if i is not None else 'f%r' % (freq,)
    fr = Fraction(dur).limit_denominator(2000000)
    if abs(float(fr) - dur) > 1e-9 * max(abs(dur), 1e-12):
        d = 'd%r' % (dur,)
    else:
        d = '%d/%d' % (fr.numerator, fr.denominator)
    extra = '' if (voice == 0 and not loop) else ':v%r:l%r' % (voice, loop)
    return '%s:%s:%d%s' % (note, d, vol, extra)


def canon_stmt(status, tones):
    return '/'.join([status] + [canon_tone(t) for t in tones])


def hx(b):
    b = bytes(b)
    return b.hex() if b else '-'


def model_line(hist, fuel=1500):
    binds = []
    for name, kind, val in hist['vars']:
        if kind == 's':
            binds.append('%s:s:%s' % (hx(name), hx(val)))
        elif kind == 'n':
            binds.append('%s:n:%d' % (hx(name), val))
        else:
            binds.append('%s:a:%s' % (hx(name), ','.join(str(v) for v in val)))
    return 'play %d %s %s' % (fuel, ';'.join(binds) or '-', ','.join(hx(m) for m in hist['stmts']))


# --------------------------------------------------------------------------------------------------------------
# structured generator: command tokens with a meaning, rendered with random spelling

NUM_POOL = [0, 1, 2, 3, 4, 5, 6, 7, 8, 12, 16, 24, 31, 32, 33, 34, 35, 45, 46, 48, 60, 63, 64, 65, 83, 84, 85,
            100, 120, 200, 254, 255, 256]

# malformed commands, each starting with a command letter so that it cannot merge with what precedes it;
# every one must raise Illegal function call
BAD = [b'H', b'Z', b'Q', b'R', b'U', b'W', b'Y', b'I', b'J', b'K', b'V10', b'V', b'MX', b'MM', b'M1', b'M;',
       b'N85', b'N-1', b'N100', b'N255', b'N', b'N;', b'N.', b'N- 5', b'N+ 5',
       b'L0', b'L65', b'L100', b'L', b'L-4', b'LC', b'T31', b'T0', b'T256', b'T', b'T-32', b'T1000',
       b'O7', b'O8', b'O-1', b'O', b'O>',
       b'E#', b'E+', b'B#', b'B+', b'C-', b'F-', b'P#4', b'P-4', b'P+4',
       b'P', b'P.', b'P65', b'P100', b'P0.', b'C65', b'G99', b'A100', b'C1 0 0',
       b'MN1', b'ML#', b'MS.', b'MN+', b'MN-', b'MN=', b'MN4', b'MB,', b'MF:', b'MN!', b'MN@', b'MN(', b'MN\x0b',
       b'MN\xff', b'MN\t', b'MN$', b'MN%', b'MN&', b'MN*', b'MN/', b'MN?', b'MN[', b'MN_', b'MN~', b'MN{',
       b'N=;', b'L=;', b'N=5;', b'X;', b'X1;', b'N==', b';;C']


BAD_MULTI = [b for b in BAD if b != b'V10']     # V is a command with Tandy/PCjr sound


def sp(rng):
    r = rng.random()
    return b'' if r < 0.75 else (b' ' if r < 0.95 else b'   ')


def cs(rng, b):
    return bytes(bytearray((c ^ 0x20) if (65 <= c <= 90 and rng.random() < 0.3) else c for c in bytearray(b)))


def lit(rng, k):
    """decimal literal with optional leading zeros and blanks between the digits"""
    s = str(k)
    if rng.random() < 0.1:
        s = '0' * rng.randint(1, 3) + s
    out = b''
    for ch in s:
        out += ch.encode() + (b' ' if rng.random() < 0.05 else b'')
    return out


class Gen(object):
    def __init__(self, rng, multivoice=False):
        self.rng = rng
        self.multivoice = multivoice
        rng = self.rng
        self.nums = {b'I%': rng.choice(NUM_POOL), b'J%': rng.randint(0, 6), b'K!': rng.choice(NUM_POOL),
                     b'Q#': rng.choice(NUM_POOL), b'LEN.GTH%': rng.choice([1, 2, 4, 8, 16, 32, 64]),
                     b'N': rng.randint(0, 90)}
        self.arr = [rng.choice(NUM_POOL) for _ in range(6)]
        self.subs = {}      # index -> (tokens, rendered bytes)

    # ---- numbers: (value, rendered bytes)
    def number(self, pool):
        rng = self.rng
        r = rng.random()
        if r < 0.72:
            k = rng.choice(pool)
            if k < 0:
                return k, sp(rng) + b'-' + lit(rng, -k)
            sign = b'+' if rng.random() < 0.08 else b''
            return k, sp(rng) + sign + lit(rng, k)
        if r < 0.90:
            name = rng.choice(sorted(self.nums))
            k = self.nums[name]
            ref = name if name != b'N' or rng.random() < 0.5 else b'N!'
            return k, sp(rng) + b'=' + sp(rng) + cs(rng, ref) + sp(rng) + b';'
        i = rng.randint(0, 5)
        k = self.arr[i]
        op, cl = rng.choice([(b'(', b')'), (b'[', b']'), (b'(', b']'), (b'[', b')')])
        if rng.random() < 0.4 and 0 <= self.nums[b'J%'] <= 5:
            i = self.nums[b'J%']
            k = self.arr[i]
            idx = cs(rng, b'J%')
        else:
            idx = lit(rng, i)
        return k, sp(rng) + b'=' + cs(rng, b'R') + sp(rng) + op + sp(rng) + idx + sp(rng) + cl + sp(rng) + b';'

    def dots(self):
        rng = self.rng
        n = rng.choice([0, 0, 0, 0, 1, 1, 2, 3])
        return n, b''.join(sp(rng) + b'.' for _ in range(n))

    def token(self, depth, allow_x):
        """-> (tok tuple, rendered bytes)"""
        rng = self.rng
        if self.multivoice and rng.random() < 0.06:
            # the volume command of the Tandy/PCjr sound chip
            k, text = self.number([-1, 0, 1, 7, 8, 14, 15, 15, 16])
            return ('V', k), cs(rng, b'V') + text
        r = rng.random()
        if r < 0.34:
            letter = rng.choice('CDEFGAB')
            acc = rng.choice(['', '', '', '#', '+', '-'])
            text = cs(rng, letter.encode())
            if acc:
                text += sp(rng) + acc.encode()
            ln = None
            if rng.random() < 0.5:
                ln = rng.choice([0, 1, 2, 3, 4, 8, 16, 32, 63, 64, 5, 7, 12])
                text += sp(rng) + lit(rng, ln)
            nd, dt = self.dots()
            return ('note', letter, acc, ln, nd), text + dt
        if r < 0.42:
            k, text = self.number([0, 1, 2, 12, 13, 33, 34, 35, 48, 83, 84] + list(range(1, 85, 7)))
            nd, dt = self.dots()
            return ('N', k, nd), cs(rng, b'N') + text + dt
        if r < 0.49:
            ln = rng.choice([1, 2, 4, 8, 16, 32, 64, 3, 63, 0])
            nd, dt = self.dots() if ln else (0, b'')
            return ('P', ln, nd), cs(rng, b'P') + sp(rng) + lit(rng, ln) + dt
        if r < 0.57:
            k, text = self.number([1, 2, 3, 4, 8, 16, 32, 63, 64])
            return ('L', k), cs(rng, b'L') + text
        if r < 0.64:
            k, text = self.number([32, 33, 60, 100, 120, 180, 254, 255])
            return ('T', k), cs(rng, b'T') + text
        if r < 0.72:
            k, text = self.number([0, 1, 2, 3, 4, 5, 6])
            return ('O', k), cs(rng, b'O') + text
        if r < 0.80:
            c = rng.choice([b'>', b'<'])
            return (c.decode(),), c
        if r < 0.88:
            m = rng.choice('NLS')
            return ('M' + m,), cs(rng, b'M') + sp(rng) + cs(rng, m.encode())
        if r < 0.90:
            # foreground only in the middle of a string: MF ... MB (a final MF would wait for real time)
            return ('MFMB',), cs(rng, b'MF') + sp(rng) + cs(rng, b'MB')
        if r < 0.97 and allow_x and depth < 4:
            j = rng.randint(depth, 3)
            self.make_sub(j)
            return ('X', j), cs(rng, b'X') + sp(rng) + cs(rng, b'S%d$' % j) + sp(rng) + b';'
        if r < 0.985:
            b = rng.choice(BAD if not self.multivoice else BAD_MULTI)
            text = cs(rng, b) if rng.random() < 0.5 else b
            head = b[:2].decode('latin-1')
            if head in ('MN', 'ML', 'MS', 'MB', 'MF') and len(b) > 2:
                # the mode command takes effect, then the rest is the malformed command
                return [(head if head not in ('MB', 'MF') else 'MB',), ('bad', b[2:].decode('latin-1'))], text
            return [('bad', b.decode('latin-1'))], text
        return ('MB',), cs(rng, b'M') + sp(rng) + cs(rng, b'B')

    def sequence(self, n, depth, allow_x=True):
        rng = self.rng
        toks, text = [], b''
        for i in range(n):
            t, b = self.token(depth, allow_x)
            if isinstance(t, list):
                toks.extend(t)
            else:
                toks.append(t)
            if i:
                r = rng.random()
                text += b'' if r < 0.6 else (b' ' if r < 0.8 else (b';' if r < 0.93 else b' ; '))
            text += b
        return toks, text

    def make_sub(self, j):
        """S<j>$ may only insert S<k>$ with k > j: no recursion in the structured part"""
        if j not in self.subs:
            self.subs[j] = None     # placeholder
            n = self.rng.choice([0, 1, 1, 2, 3, 4])
            self.subs[j] = self.sequence(n, j + 1)

    def history(self):
        rng = self.rng
        stmts = []
        for _ in range(rng.choice([1, 2, 2, 3, 4, 5])):
            toks, text = self.sequence(rng.choice([1, 2, 3, 4, 6, 8, 10]), 0)
            lead = rng.choice([b'MB', b'mb', b' M B ', b'MB;'])
            stmts.append(([('MB',)] + toks, lead + text))
        variables = [(n, 'n', v) for n, v in sorted(self.nums.items()) if n != b'N']
        variables.append((b'N!', 'n', self.nums[b'N']))
        variables.append((b'R!', 'a', list(self.arr)))
        for j in range(4):
            self.make_sub(j)
            variables.append((b'S%d$' % j, 's', self.subs[j][1]))
        return {'vars': variables, 'stmts': [t for _, t in stmts]}, [t for t, _ in stmts]


# --------------------------------------------------------------------------------------------------------------
# the oracle: expected tones from the command tokens, by the formulas of the property statement

class Expect(object):
    """state and expectations per the statement; never looks at the rendered text"""

    def __init__(self):
        self.octave, self.L, self.T, self.gap = 4, 4, 120, Fraction(1, 8)
        self.vol = 15

    def dur(self, L, dots):
        return Fraction(60 * 4, self.T) / L * Fraction(3, 2) ** dots

    def run(self, toks, subs, out):
        """appends ('note', n, D, gap) / ('rest', D) to out; returns None or the error number expected"""
        for t in toks:
            k = t[0]
            if k == 'note':
                _, letter, acc, ln, nd = t
                semi = SEMI[letter] + (1 if acc in ('#', '+') else (-1 if acc == '-' else 0))
                if (letter, acc) in (('E', '#'), ('E', '+'), ('B', '#'), ('B', '+'), ('C', '-'), ('F', '-')):
                    return 5
                if ln is not None and not 0 <= ln <= 64:
                    return 5
                L = ln if ln else self.L
                out.append(('note', self.octave * 12 + semi + 1, self.dur(L, nd), self.gap, self.vol))
            elif k == 'N':
                _, n, nd = t
                if not 0 <= n <= 84:
                    return 5
                if n == 0:
                    out.append(('rest', self.dur(self.L, nd)))
                else:
                    out.append(('note', n, self.dur(self.L, nd), self.gap, self.vol))
            elif k == 'P':
                _, ln, nd = t
                if not 0 <= ln <= 64:
                    return 5
                if ln:
                    out.append(('rest', self.dur(ln, nd)))
            elif k == 'L':
                if not 1 <= t[1] <= 64:
                    return 5
                self.L = t[1]
            elif k == 'T':
                if not 32 <= t[1] <= 255:
                    return 5
                self.T = t[1]
            elif k == 'O':
                if not 0 <= t[1] <= 6:
                    return 5
                self.octave = t[1]
            elif k == '>':
                self.octave = min(6, self.octave + 1)
            elif k == '<':
                self.octave = max(0, self.octave - 1)
            elif k == 'MN':
                self.gap = Fraction(1, 8)
            elif k == 'ML':
                self.gap = Fraction(0)
            elif k == 'MS':
                self.gap = Fraction(1, 4)
            elif k in ('MB', 'MFMB'):
                pass
            elif k == 'V':
                if not -1 <= t[1] <= 15:
                    return 5
                self.vol = 15 if t[1] == -1 else t[1]
            elif k == 'X':
                e = self.run(subs[t[1]][0], subs, out)
                if e:
                    return e
            elif k == 'bad':
                return 5
            else:
                raise ValueError(k)
        return None


def close(a, b):
    return abs(a - b) <= 1e-9 * max(abs(b), 1e-300)


def stmt_freq(n):
    """the statement's formula for note number n"""
    return 440.0 * 2.0 ** ((n - 33) / 12.0)


def check_stmt(ctx, state, tag, case, exp, exp_err, status, tones):
    """compare one statement's observation with the expectation; returns True if it agreed (S3 aside)"""
    def fail(what, detail):
        ctx.fail('%s:%s' % (what, tag), case, detail)
        return False

    if status.startswith('exc:'):
        return fail('host-exception', 'PLAY let %s escape' % status[4:])
    if status == 'hang':
        return fail('hang', 'PLAY did not return (CPU watchdog or endless queue wait)')
    want = 'ok' if exp_err is None else 'err%d' % exp_err
    if status != want:
        return fail('status', 'expected %s, got %s' % (want, status))
    return check_tones(ctx, state, tag, case, exp, tones)


def check_tones(ctx, state, tag, case, exp, tones, on_voice=0, prefix=False, multivoice=False):
    """one voice's queue against its expected notes and pauses; prefix: the statement was cut short by an
    error (possibly of another voice), so the queue may stop early, at a command boundary"""
    def fail(what, detail):
        ctx.fail('%s:%s' % (what, tag), case, detail)
        return False

    # regroup the observed signals: a note is a tone (freq > 0) followed, unless legato, by a silent gap
    pos = 0
    for idx, e in enumerate(exp):
        if pos >= len(tones):
            if prefix:
                return True
            return fail('count', 'expected %d notes/pauses, the queue has fewer signals (%d)' % (len(exp), len(tones)))
        voice, freq, dur, loop, vol = tones[pos]
        pos += 1
        if voice != on_voice or loop:
            return fail('signal', 'tone %d on voice %r loop %r' % (idx, voice, loop))
        if e[0] == 'rest':
            if freq != 0:
                return fail('pause', 'pause %d was emitted with frequency %r' % (idx, freq))
            if not close(dur, float(e[1])):
                return fail('pause-duration', 'pause %d lasts %r, expected %s' % (idx, dur, e[1]))
            continue
        n, D, gap = e[1:4]
        if freq <= 0:
            return fail('count', 'note %d (number %d) was emitted as silence' % (idx, n))
        if close(freq, stmt_freq(n)):
            pass
        elif close(freq, stmt_freq(n - 1)):
            if not state.get('s3'):
                state['s3'] = True
                ctx.fail(S3_KEY, case, 'note number %d is played at %r Hz = 440*2^((n-34)/12); the statement\'s formula '
                         '440*2^((n-33)/12) gives %r' % (n, freq, stmt_freq(n)))
            ctx.count('S3 notes one table index below the statement')
        elif multivoice and freq == 110.0 and stmt_freq(n - 1) < 110.0:
            if not state.get('low'):
                state['low'] = True
                ctx.fail(LOW_KEY, case, 'note number %d (%.2f Hz by the table) is played at 110 Hz: the Tandy/PCjr tone '
                         'generator does not go lower' % (n, stmt_freq(n - 1)))
            ctx.count('Tandy/PCjr notes below 110 Hz played at 110 Hz')
        else:
            return fail('frequency', 'note %d (number %d) has frequency %r, expected %r' % (idx, n, freq, stmt_freq(n)))
        if (vol != e[4]) if len(e) > 4 else (vol <= 0):
            return fail('volume', 'note %d is emitted with volume %r' % (idx, vol))
        if not close(dur, float(D * (1 - gap))):
            return fail('duration', 'note %d sounds for %r, expected %s*(1-%s)' % (idx, dur, D, gap))
        if gap:
            if pos >= len(tones):
                return fail('gap', 'note %d is not followed by its gap' % idx)
            gvoice, gfreq, gdur, gloop, gvol = tones[pos]
            pos += 1
            if gfreq != 0 or gvoice != on_voice or gloop:
                return fail('gap', 'note %d is followed by %r instead of a silent gap' % (idx, tones[pos - 1]))
            if not close(gdur, float(D * gap)):
                return fail('gap', 'gap after note %d lasts %r, expected %s*%s' % (idx, gdur, D, gap))
    if pos != len(tones):
        return fail('count', 'expected %d notes/pauses, the queue has %d more signals' % (len(exp), len(tones) - pos))
    return True


def last_kind(toks, subs):
    """tag for failure keys: the kinds of commands in the statement (order-free, short)"""
    kinds = set()

    def walk(ts, d):
        for t in ts:
            kinds.add(t[0] if t[0] != 'bad' else 'bad(%s)' % t[1])
            if t[0] == 'X' and d < 6:
                walk(subs[t[1]][0], d + 1)
    walk(toks, 0)
    return '+'.join(sorted(kinds))


def jsonable(hist):
    return {'vars': [[n.decode('latin-1'), k, (v.decode('latin-1') if k == 's' else v)] for n, k, v in hist['vars']],
            'stmts': [m.decode('latin-1') for m in hist['stmts']]}


def unjson(h):
    return {'vars': [(n.encode('latin-1'), k, (v.encode('latin-1') if k == 's' else v)) for n, k, v in h['vars']],
            'stmts': [m.encode('latin-1') for m in h['stmts']]}


PENDING = []


def compare_model(ctx, hist, res, state, label):
    """queue one history for the comparison with the model (one driver call per batch)"""
    PENDING.append((hist, res, state, label))
    if len(PENDING) >= 400:
        flush_model(ctx)


def flush_model(ctx):
    batch = list(PENDING)
    del PENDING[:]
    if not batch:
        return
    lines = [model_line(h) for h, _, _, _ in batch]
    mouts = ctx.model(lines)
    if mouts is None:
        return
    for (hist, res, state, label), line, m in zip(batch, lines, mouts):
        compare_one(ctx, hist, res, state, label, line, m)


def compare_one(ctx, hist, res, state, label, line, m):
    impl = 'ok ' + ';'.join(canon_stmt(st, tones) for st, tones in res)
    if state is None or any(st in ('skipped',) or st.startswith('exc') or st == 'hang' for st, _ in res):
        m_cmp = m.rsplit(' ', 1)[0]       # no state to compare
    else:
        impl += ' ' + state
        m_cmp = m
    if impl != m_cmp:
        ctx.disagree({'label': label, 'input': jsonable(hist), 'line': line[:2000]}, impl[:2000], m_cmp[:2000])


def structured(ctx, impl, n_hist, state):
    for _ in range(n_hist):
        g = Gen(ctx.rng)
        hist, toklists = g.history()
        # expectations first: keep every statement below the background buffer
        ex = Expect()
        plans = []
        too_long = False
        for toks in toklists:
            out = []
            err = ex.run(toks, g.subs, out)
            plans.append((out, err))
            if sum(2 if e[0] == 'note' else 1 for e in out) > MAX_ITEMS:
                too_long = True
        if too_long:
            ctx.count('structured: regenerated (too many tones for the background buffer)')
            continue
        res, st = impl.run_history(hist)
        compare_model(ctx, hist, res, st, 'structured')
        for i, ((out, err), (status, tones)) in enumerate(zip(plans, res)):
            if status == 'skipped':
                continue
            ctx.case(('s', hist['stmts'][i], tuple(sorted((n, repr(v)) for n, _, v in hist['vars']))))
            ctx.count('stmt:' + ('ok' if err is None else 'err%d' % err))
            ctx.count('tones expected', len(out))
            for t in toklists[i]:
                ctx.count('tok:' + t[0])
            case = {'kind': 'structured', 'hist': jsonable(hist), 'stmt': i,
                    'tokens': [[list(t) for t in tl] for tl in toklists],
                    'subs': {str(j): [list(t) for t in v[0]] for j, v in g.subs.items()}}
            check_stmt(ctx, state, last_kind(toklists[i], g.subs), case, out, err, status, tones)
        if len(ctx.samples) < 4:
            ctx.sample({'stmts': [m.decode('latin-1') for m in hist['stmts']],
                        'impl': [canon_stmt(s_, t_) for s_, t_ in res]})


FUZZ_ALPHABET = (b'CDEFGABcdefgab' * 3 + b'NLTOPMXnltopmx' * 2 + b'0123456789' * 3 + b'#+-..  ;;<>=' * 2
                 + b'SIJKRQ$%!()[],' + b'HZVWY*&@\x09\x80\xff:')   # no bytes <= 8: after = / X they start a VARPTR$ reference (not driven)


def fuzz(ctx, impl, n_hist, state):
    rng = ctx.rng
    hists = []
    for _ in range(n_hist):
        nums = {b'I%': rng.choice(NUM_POOL), b'J%': rng.randint(0, 6), b'K!': rng.choice(NUM_POOL),
                b'Q#': rng.choice(NUM_POOL)}
        arr = [rng.choice(NUM_POOL) for _ in range(6)]

        def rnd_string(maxlen):
            n = rng.choice([0, 1, 2, 3, 5, 8, 12, 20, maxlen])
            s = bytearray(rng.choice(bytearray(FUZZ_ALPHABET)) for _ in range(n))
            # sprinkle well-formed references so that the variable paths are reached
            for _ in range(rng.choice([0, 0, 1, 2])):
                ref = rng.choice([b'XS0$;', b'XS1$;', b'xs2$;', b'X S3$ ;', b'=I%;', b'=J%;', b'=K!;', b'= q# ;',
                                  b'=R(2);', b'=R(J%);', b'=R(S0$);', b'=R(9);', b'=R(1,1);', b'=S0$;', b'XI%;',
                                  b'=R(R(J%));', b'=R(2;', b'=UNSET;', b'XUNSET$;', b'=R(;', b'=R();', b'=%;'])
                p = rng.randint(0, len(s))
                s[p:p] = ref
            # never end in foreground mode (the statement would wait for real time)
            return bytes(s) + b' MB'
        variables = [(n, 'n', v) for n, v in sorted(nums.items())]
        variables.append((b'R!', 'a', arr))
        for j in range(4):
            variables.append((b'S%d$' % j, 's', rnd_string(10)))
        hists.append({'vars': variables,
                      'stmts': [b'MB' + rnd_string(30) for _ in range(rng.choice([1, 2, 3]))]})
    # the model predicts how many signals a statement queues; skip what would block on the buffer
    lines = [model_line(h) for h in hists]
    pres = ctx.model(lines)
    if pres is None:
        return
    for hist, line, pre in zip(hists, lines, pres):
        body = pre.split(' ')[1] if pre.startswith('ok ') else ''
        if not body or 'hang' in body or any(len(st.split('/')) - 1 > MAX_ITEMS for st in body.split(';')):
            ctx.count('fuzz: skipped (too many tones for the background buffer)')
            continue
        res, st = impl.run_history(hist)
        compare_one(ctx, hist, res, st, 'fuzz', line, pre)
        uses_vars = lambda m: (b'=' in m or b'X' in m.upper())
        for i, (status, tones) in enumerate(res):
            if status == 'skipped':
                continue
            ctx.case(('f', hist['stmts'][i], tuple(sorted((n, repr(v)) for n, _, v in hist['vars']))))
            ctx.count('fuzz:' + status.split(':')[0])
            case = {'kind': 'fuzz', 'hist': jsonable(hist), 'stmt': i}
            if status.startswith('exc:'):
                ctx.fail('host-exception:fuzz', case, 'PLAY %r let %s escape' % (hist['stmts'][i], status[4:]))
            elif status == 'hang':
                ctx.fail('hang:fuzz', case, 'PLAY %r did not return' % (hist['stmts'][i],))
            elif status.startswith('out:'):
                ctx.fail('output:fuzz', case, 'PLAY %r printed %s' % (hist['stmts'][i], status))
            elif status not in ('ok', 'err5') and not uses_vars(hist['stmts'][i]):
                ctx.fail('error-kind:fuzz', case, 'a string without variable references raised %s, not Illegal '
                         'function call' % status)
            # whatever the string, every signal is a table tone or silence, on voice 0, with a positive duration
            for t in tones:
                if t[0] != 0 or t[3] or not (t[1] == 0 or freq_index(t[1]) in range(0, 84)) or not t[2] > 0:
                    ctx.fail('signal:fuzz', case, 'PLAY %r queued %r' % (hist['stmts'][i], t))
                    break


RECURSIVE = [
    # (variables, statement): substrings that insert themselves, directly or in a cycle
    ([(b'A$', b'XA$;')], b'MBXA$;'),
    ([(b'A$', b'CXA$;')], b'MBT255L64XA$;'),
    ([(b'A$', b'XA$;C')], b'MBXA$;'),
    ([(b'A$', b'XB$;'), (b'B$', b'XA$;')], b'MBXA$;'),
    ([(b'A$', b'L64XB$;D'), (b'B$', b'T255 E XC$;'), (b'C$', b'xa$;')], b'MB T255 L64 C XA$; G'),
    ([(b'A$', b'X')], b'MBXA$;A$;'),
]


def recursion(ctx, impl, state):
    """substrings that insert themselves must end in a BASIC error, not hang or crash"""
    for variables, mml in RECURSIVE:
        hist = {'vars': [(n, 's', v) for n, v in variables], 'stmts': [mml]}
        res, st = impl.run_history(hist)
        status, tones = res[0]
        ctx.case(('r', mml, tuple(variables)))
        ctx.count('recursive:' + status.split(':')[0])
        case = {'kind': 'recursive', 'hist': jsonable(hist), 'stmt': 0}
        compare_model(ctx, hist, res, st, 'recursive')
        if status == 'hang':
            ctx.fail('hang:recursive-X', case, 'PLAY %r with %r does not return' % (mml, variables))
        elif status.startswith('exc:'):
            ctx.fail('host-exception:recursive-X', case, 'PLAY %r let %s escape' % (mml, status[4:]))
        elif not status.startswith('err'):
            ctx.fail('status:recursive-X', case, 'expected a BASIC error, got %s' % status)
    # deep but finite nesting plays to the end: S0$ inserts S1$ ... 20 levels
    names = [b'N%d$' % i for i in range(20)]
    variables = [(names[i], 's', b'C' + (b'X' + names[i + 1] + b';' if i + 1 < 20 else b'')) for i in range(20)]
    hist = {'vars': variables, 'stmts': [b'MBT255L64MLXN0$;']}
    res, st = impl.run_history(hist)
    compare_model(ctx, hist, res, st, 'nested')
    status, tones = res[0]
    ctx.case(('nested', 20))
    if status != 'ok' or len(tones) != 20:
        ctx.fail('nested-20:X', {'kind': 'nested', 'hist': jsonable(hist), 'stmt': 0},
                 '20 nested (non-recursive) substrings: status %s, %d tones' % (status, len(tones)))


def index_type(ctx, impl):
    """=ARR(S$); – a string variable as array index is a Type mismatch, not a host exception"""
    for mml in (b'MBN=R(S0$);', b'MBL=R(1,S0$);', b'MBXS1$;'):
        hist = {'vars': [(b'R!', 'a', [1, 2, 3]), (b'S0$', 's', b'C'), (b'S1$', 's', b'N=R(S0$);')], 'stmts': [mml]}
        res, st = impl.run_history(hist)
        compare_model(ctx, hist, res, st, 'index-type')
        status, _ = res[0]
        ctx.case(('index', mml))
        ctx.count('index-type:' + status.split(':')[0])
        if not status.startswith('err'):
            ctx.fail('string-array-index:' + ('host-exception' if status.startswith('exc') else 'status'),
                     {'kind': 'index', 'hist': jsonable(hist), 'stmt': 0},
                     'PLAY %r: expected a BASIC error, got %s' % (mml, status))


def table_check(ctx, impl, state):
    """every N and every octave/letter, one by one (exhaustive over the note table)"""
    letters = [('C', 0), ('C#', 1), ('D-', 1), ('D', 2), ('D+', 3), ('E-', 3), ('E', 4), ('F', 5), ('F#', 6), ('G-', 6),
               ('G', 7), ('G+', 8), ('A-', 8), ('A', 9), ('A#', 10), ('B-', 10), ('B', 11)]
    for o in range(7):
        stmts, toks = [], []
        for name, semi in letters:
            n = o * 12 + semi + 1
            stmts.append(b'MBT255L64O%d%sN%d' % (o, name.encode(), n))
            toks.append((n, name))
        hist = {'vars': [], 'stmts': stmts}
        res, st = impl.run_history(hist)
        compare_model(ctx, hist, res, st, 'table')
        for (n, name), (status, tones) in zip(toks, res):
            ctx.case(('table', o, name))
            D = Fraction(240, 255) / 64
            exp = [('note', n, D, Fraction(1, 8)), ('note', n, D, Fraction(1, 8))]
            case = {'kind': 'table', 'hist': jsonable(hist), 'octave': o, 'note': name}
            if check_stmt(ctx, state, 'table', case, exp, None, status, tones):
                # N n and the letter note are the same tone
                if tones[0][1] != tones[2][1]:
                    ctx.fail('n-vs-letter:O%d%s' % (o, name), case, 'O%d%s plays %r, N%d plays %r'
                             % (o, name, tones[0][1], n, tones[2][1]))
    ctx.count('table: octave x note name pairs', 7 * len(letters))


# --------------------------------------------------------------------------------------------------------------
# three-voice PLAY (syntax tandy, and pcjr after SOUND ON): one music string, one PlayState, one queue per voice

def canon_tone_v(t):
    return 'v%d:%s' % (t[0], canon_tone((0,) + tuple(t[1:])))


def model_line_multi(hist, fuel=3000):
    head = model_line({'vars': hist['vars'], 'stmts': []}).split(' ')
    stmts = ','.join('+'.join(hx(m or b'') for m in voices) for voices in hist['stmts'])
    return 'mplay %d %s %s' % (fuel, head[2], stmts)


def jsonable_multi(hist):
    return {'vars': jsonable({'vars': hist['vars'], 'stmts': []})['vars'],
            'stmts': [[None if m is None else m.decode('latin-1') for m in voices] for voices in hist['stmts']]}


def unjson_multi(h):
    return {'vars': unjson({'vars': h['vars'], 'stmts': []})['vars'],
            'stmts': [[None if m is None else m.encode('latin-1') for m in voices] for voices in h['stmts']]}


def compare_multi(ctx, batch, label):
    """batch of (hist, res, state): one driver call"""
    if not batch:
        return
    lines = [model_line_multi(h) for h, _, _ in batch]
    mouts = ctx.model(lines)
    if mouts is None:
        return
    for (hist, res, state), line, m in zip(batch, lines, mouts):
        impl = 'ok ' + ';'.join('/'.join([st] + [canon_tone_v(t) for t in tones]) for st, tones in res)
        if state is None or any(st == 'skipped' or st.startswith('exc') or st == 'hang' for st, _ in res):
            m_cmp = m.rsplit(' ', 1)[0]
        else:
            impl += ' ' + state
            m_cmp = m
        if impl != m_cmp:
            ctx.disagree({'label': label, 'input': jsonable_multi(hist), 'line': line[:2000]}, impl[:2000], m_cmp[:2000])


STATE_CMDS = [('O', b'O2', ('O', 2)), ('O', b'O6', ('O', 6)), ('>', b'>', ('>',)), ('<', b'<', ('<',)),
              ('L', b'L16', ('L', 16)), ('L', b'L1', ('L', 1)), ('T', b'T200', ('T', 200)), ('T', b'T40', ('T', 40)),
              ('ML', b'ML', ('ML',)), ('MS', b'MS', ('MS',)), ('MN', b'MN', ('MN',)), ('V', b'V5', ('V', 5))]


def family_multi(rng):
    """deterministic family: a state command in voice a, notes in voice b (every ordered pair, every kind of state
    command, the command before / between / after the other voice's notes in the round-robin order), preceded or
    not by a single-string PLAY that leaves voice 0 in a non-default state"""
    hists = []
    note = lambda ch: ('note', ch, '', None, 0)
    for kind, text, tok in STATE_CMDS:
        for a in range(3):
            for b in range(3):
                if a == b:
                    continue
                stmts, toks = [], []
                if rng.random() < 0.5:
                    stmts.append([b'MBT180O1L8MSC', None, None])
                    toks.append([[('MB',), ('T', 180), ('O', 1), ('L', 8), ('MS',), note('C')], [], []])
                va, ta = [b''] * 3, [[], [], []]
                pos = rng.randint(0, 2)
                names = 'CDEFGAB'
                seq_a = [rng.choice(names) for _ in range(3)]
                seq_b = [rng.choice(names) for _ in range(4)]
                pieces = [s_.encode() for s_ in seq_a]
                pieces.insert(pos, text)
                ta[a] = [('MB',)] + [note(c) for c in seq_a[:pos]] + [tok] + [note(c) for c in seq_a[pos:]]
                va[a] = b'MB' + b' '.join(pieces)
                ta[b] = [note(c) for c in seq_b]
                va[b] = b''.join(c.encode() for c in seq_b)
                third = 3 - a - b
                if rng.random() < 0.5:
                    va[third] = None if third > 0 and rng.random() < 0.5 else b''
                else:
                    va[third], ta[third] = b'P8 E.', [('P', 8, 0), note('E')[:4] + (1,)]
                stmts.append(va)
                toks.append(ta)
                # and once more: the states must have stayed with their voices
                stmts.append([b'MBC', b'D', b'E'])
                toks.append([[('MB',), note('C')], [note('D')], [note('E')]])
                hists.append(({'vars': [], 'stmts': stmts}, toks, {}))
    return hists


def random_multi(rng):
    g = Gen(rng, multivoice=True)
    stmts, toks = [], []
    for _ in range(rng.choice([1, 2, 3, 4])):
        nvoices = rng.choice([1, 2, 2, 3, 3, 3])
        which = sorted(rng.sample([0, 1, 2], nvoices))
        texts, tls = [b'', b'', b''], [[], [], []]
        for j, v in enumerate(which):
            tl, text = g.sequence(rng.choice([1, 2, 3, 4, 5, 7]), 0)
            if j == 0:
                tl, text = [('MB',)] + tl, rng.choice([b'MB', b'mb ', b'M B']) + text
            texts[v], tls[v] = text, tl
        for v in range(3):
            # an omitted argument instead of an empty string (PLAY A$,,C$ / PLAY ,B$)
            if v not in which and rng.random() < 0.5:
                texts[v] = None
        if all(not t for t in texts):
            texts[0], tls[0] = b'MB', [('MB',)]
        stmts.append(texts)
        toks.append(tls)
    variables = [(n, 'n', v) for n, v in sorted(g.nums.items()) if n != b'N']
    variables.append((b'N!', 'n', g.nums[b'N']))
    variables.append((b'R!', 'a', list(g.arr)))
    for j in range(4):
        g.make_sub(j)
        variables.append((b'S%d$' % j, 's', g.subs[j][1]))
    return {'vars': variables, 'stmts': stmts}, toks, g.subs


def fuzz_multi(rng):
    def rnd(maxlen):
        n = rng.choice([0, 0, 1, 2, 3, 5, 8, maxlen])
        return bytes(bytearray(rng.choice(bytearray(FUZZ_ALPHABET + b'VVvv')) for _ in range(n))) + b' MB'
    variables = [(b'I%', 'n', rng.choice(NUM_POOL)), (b'J%', 'n', rng.randint(0, 6)),
                 (b'R!', 'a', [rng.choice(NUM_POOL) for _ in range(6)])]
    variables += [(b'S%d$' % j, 's', rnd(8)) for j in range(2)]
    stmts = []
    for _ in range(rng.choice([1, 2, 3])):
        voices = [b'MB' + rnd(14), rng.choice([b'', None, rnd(14)]), rng.choice([b'', None, rnd(14), rnd(14)])]
        stmts.append(voices)
    return {'vars': variables, 'stmts': stmts}


def oracle_multi(ctx, state, syntax, hist, toklists, subs, res):
    """per voice: the voice's queue is what the voice's own string specifies, from the voice's own state"""
    exps = [Expect(), Expect(), Expect()]
    for i, (tls, (status, tones)) in enumerate(zip(toklists, res)):
        if status == 'skipped':
            return
        plans = []
        for v in range(3):
            out = []
            err = exps[v].run(tls[v], subs, out)
            plans.append((out, err))
        ctx.case(('m', syntax, i, repr(hist['stmts'][:i + 1]), repr(hist['vars'])))
        ctx.count('multi:%s:%d-voice' % (syntax, sum(1 for m in hist['stmts'][i] if m)))
        kinds = set(t[0] for tl in tls for t in tl)
        tag = 'multi:' + '+'.join(sorted(kinds))
        case = {'kind': 'multi', 'syntax': syntax, 'hist': jsonable_multi(hist), 'stmt': i,
                'tokens': [[[list(t) for t in tl] for tl in st] for st in toklists],
                'subs': {str(j): [list(t) for t in v[0]] for j, v in subs.items()}}
        if status.startswith('exc:'):
            ctx.fail('host-exception:' + tag, case, 'PLAY let %s escape' % status[4:])
            return
        if status == 'hang':
            ctx.fail('hang:' + tag, case, 'PLAY did not return')
            return
        any_err = any(err is not None for _, err in plans)
        want = 'err5' if any_err else 'ok'
        if status != want:
            ctx.fail('status:' + tag, case, 'expected %s, got %s' % (want, status))
            return
        stray = [t for t in tones if t[0] not in (0, 1, 2)]
        if stray:
            ctx.fail('signal:' + tag, case, 'tone on voice %r' % (stray[0][0],))
            return
        for v in range(3):
            queue_v = [t for t in tones if t[0] == v]
            ctx.count('multi: tones expected', len(plans[v][0]))
            if not check_tones(ctx, state, '%s:voice%d' % (tag, v), case, plans[v][0], queue_v, on_voice=v,
                               prefix=any_err, multivoice=True):
                return
        if any_err:
            # how far each voice got before the error is a matter of the round-robin order, which the
            # statement does not fix: the expected per-voice states are unknown from here on
            ctx.count('multi: oracle stops after a statement with an error')
            return


def multivoice(ctx, n_random, n_fuzz, state):
    ctx.log('three-voice PLAY (tandy, pcjr)')
    for syntax, prelude in (('tandy', None), ('pcjr', b'SOUND ON')):
        impl = Impl(syntax=syntax, prelude=prelude)
        try:
            cases = family_multi(ctx.rng) if (ctx.quick and syntax == 'tandy') or not ctx.quick else \
                family_multi(ctx.rng)[::3]
            cases += [random_multi(ctx.rng) for _ in range(n_random)]
            batch = []
            for hist, toklists, subs in cases:
                # keep every voice below the background buffer
                probe = [Expect(), Expect(), Expect()]
                too_long = False
                for tls in toklists:
                    for v in range(3):
                        out = []
                        probe[v].run(tls[v], subs, out)
                        if sum(2 if e[0] == 'note' else 1 for e in out) > MAX_ITEMS - 2:
                            too_long = True
                if too_long:
                    ctx.count('multi: regenerated (too many tones for the background buffer)')
                    continue
                res, st = impl.run_history_multi(hist)
                batch.append((hist, res, st))
                oracle_multi(ctx, state, syntax, hist, toklists, subs, res)
            compare_multi(ctx, batch, 'multi:' + syntax)
            if batch and len(ctx.samples) < 6:
                h, r, _ = batch[-1]
                ctx.sample({'syntax': syntax, 'stmts': jsonable_multi(h)['stmts'],
                            'impl': ['/'.join([s_] + [canon_tone_v(t) for t in tn]) for s_, tn in r]})
            # fuzz: model first (to skip what would block on the buffer), then the implementation
            hists = [fuzz_multi(ctx.rng) for _ in range(n_fuzz)]
            pres = ctx.model([model_line_multi(h) for h in hists])
            batch = []
            for hist, pre in zip(hists, pres or []):
                body = pre.split(' ')[1] if pre.startswith('ok ') else ''
                per_voice = [max([sum(1 for e in st.split('/')[1:] if e.startswith('v%d:' % v)) for v in range(3)])
                             for st in body.split(';')] if body else [99]
                if 'hang' in body or max(per_voice) > MAX_ITEMS - 2:
                    ctx.count('multi fuzz: skipped')
                    continue
                res, st = impl.run_history_multi(hist)
                batch.append((hist, res, st))
                for i, (status, tones) in enumerate(res):
                    if status == 'skipped':
                        continue
                    ctx.case(('mf', syntax, repr(hist)))
                    ctx.count('multi fuzz:' + status.split(':')[0])
                    case = {'kind': 'multifuzz', 'syntax': syntax, 'hist': jsonable_multi(hist), 'stmt': i}
                    if status.startswith('exc:') or status == 'hang' or status.startswith('out:'):
                        ctx.fail('%s:multifuzz' % status.split(':')[0], case, 'PLAY %r ended with %s'
                                 % (hist['stmts'][i], status))
                    for t in tones:
                        if t[0] not in (0, 1, 2) or t[3] or not (t[1] == 0 or freq_index(t[1]) in range(9, 84)) \
                                or not t[2] > 0:
                            ctx.fail('signal:multifuzz', case, 'PLAY %r queued %r' % (hist['stmts'][i], t))
                            break
            compare_multi(ctx, batch, 'multifuzz:' + syntax)
        finally:
            impl.close()


def run(ctx):
    impl = Impl()
    state = {}
    try:
        recursion(ctx, impl, state)
        index_type(ctx, impl)
        table_check(ctx, impl, state)
        structured(ctx, impl, 700 if ctx.quick else 6000, state)
        flush_model(ctx)
        fuzz(ctx, impl, 500 if ctx.quick else 5000, state)
    finally:
        flush_model(ctx)
        impl.close()
    multivoice(ctx, 60 if ctx.quick else 1000, 30 if ctx.quick else 500, state)
    ctx.notes['frequency_reference'] = '440*2^((i-33)/12) for the 0-based NOTE_FREQ index i, 1e-9 relative'


def replay(ctx, payload):
    case = payload.get('case', {})
    key = payload.get('key')
    sub = Ctx2(ctx)
    impl = Impl()
    state = {}
    try:
        kind = case.get('kind')
        if kind == 'structured':
            hist = unjson(case['hist'])
            toklists = [[tuple(t) for t in tl] for tl in case['tokens']]
            subs = {int(j): ([tuple(t) for t in v], b'') for j, v in case['subs'].items()}
            ex = Expect()
            res, st = impl.run_history(hist)
            for i, toks in enumerate(toklists):
                out = []
                err = ex.run(toks, subs, out)
                if res[i][0] != 'skipped':
                    check_stmt(sub, state, last_kind(toks, subs), case, out, err, res[i][0], res[i][1])
        elif kind in ('multi', 'multifuzz'):
            impl.close()
            impl = Impl(syntax=case['syntax'], prelude=b'SOUND ON' if case['syntax'] == 'pcjr' else None)
            hist = unjson_multi(case['hist'])
            res, st = impl.run_history_multi(hist)
            if kind == 'multi':
                toklists = [[[tuple(t) for t in tl] for tl in stt] for stt in case['tokens']]
                subs = {int(j): ([tuple(t) for t in v], b'') for j, v in case['subs'].items()}
                oracle_multi(sub, state, case['syntax'], hist, toklists, subs, res)
            else:
                for status, tones in res:
                    if status.startswith('exc:') or status == 'hang' or status.startswith('out:'):
                        return 'PLAY still ends with %s' % status
                return None
        elif kind == 'table':
            table_check(sub, impl, state)
        elif kind == 'recursive' or kind == 'nested':
            recursion(sub, impl, state)
        elif kind == 'index':
            index_type(sub, impl)
        elif kind == 'fuzz':
            hist = unjson(case['hist'])
            res, st = impl.run_history(hist)
            for status, tones in res:
                if status.startswith('exc:') or status == 'hang' or status.startswith('out:'):
                    return 'PLAY still ends with %s' % status
                for t in tones:
                    if t[0] != 0 or t[3] or not (t[1] == 0 or freq_index(t[1]) in range(0, 84)) or not t[2] > 0:
                        return 'PLAY still queues %r' % (t,)
                if key == 'error-kind:fuzz' and status not in ('ok', 'err5'):
                    return 'still raises %s' % status
            return None
        else:
            import random
            sub.rng = random.Random(payload.get('seed', 0))
            run(sub)
    finally:
        impl.close()
    hits = [f for f in sub.failures if f['key'] == key]
    return hits[0]['what'] if hits else None


class Ctx2(object):
    """thin proxy so replay can reuse the checks without touching the outer evidence"""
    def __init__(self, ctx):
        self.__dict__.update(ctx.__dict__)
        self._ctx = ctx
        self.failures = []
        self.disagreements = []

    def __getattr__(self, name):
        return getattr(self._ctx.__class__, name).__get__(self)
