import PcbV.Basic
import PcbV.Gen.Errors
/-
  C01 — the error funnel.  `Implementation._handle_exceptions` lets through only `Exit`;
  `Interpreter.parse` converts only `BASICError`; `float_safe` converts ValueError/ArithmeticError
  around value arithmetic; `safe_io`/`handle_oserror` convert EnvironmentError.  Anything else raised
  by a host call escapes.  The property therefore reduces to: every host-library call reachable from
  BASIC has its precondition established before the call.  This file models the funnel and the
  call sites whose validating code is not modelled elsewhere (clock/environ: Model/Clock.lean,
  struct.pack of integers: Model/IntOps.lean, exponent byte: Model/Mbf.lean).
-/
namespace PcbV.Funnel

/-- what a statement execution can raise -/
inductive Raised
  | basic (code : Nat)     -- error.BASICError
  | brk                    -- error.Break
  | exit                   -- error.Exit / Reset
  | valueOrArith           -- ValueError / ArithmeticError inside a float_safe function
  | osError                -- EnvironmentError inside safe_io / handle_oserror
  | host (tag : Nat)       -- any other host exception (KeyError, TypeError, struct.error, RecursionError, …)
deriving DecidableEq, Repr

/-- what the caller of `Session.execute` observes -/
inductive Outcome
  | done
  | reported (code : Nat)  -- BASIC error message / trappable ERR
  | brk
  | exit
  | escaped (tag : Nat)    -- a host exception leaves the session API: the violation
deriving DecidableEq, Repr

/-- the funnel: which layer converts what (`inFloatSafe`, `inSafeIo`: the raise site is wrapped) -/
def funnel (inFloatSafe inSafeIo : Bool) : Option Raised → Outcome
  | none => .done
  | some (.basic c) => .reported c
  | some .brk => .brk
  | some .exit => .exit
  | some .valueOrArith => if inFloatSafe then .reported PcbV.Gen.E.ifc else .escaped 0
  | some .osError => if inSafeIo then .reported PcbV.Gen.E.device_io_error else .escaped 1
  | some (.host t) => .escaped (t + 2)

/-! ### `Interpreter.renum_`: remapping of the active error / event trap lines -/

def lookup (m : List (Nat × Nat)) (k : Nat) : Option Nat := (m.find? (·.1 == k)).map (·.2)

/-- repaired code: `old_to_new.get(line, line)` -/
def renumTrap (oldToNew : List (Nat × Nat)) (line : Nat) : Except Raised Nat :=
  .ok ((lookup oldToNew line).getD line)

/-- code before the repair of D1: `old_to_new[line]` raises KeyError for a line that was not renumbered -/
def renumTrapOld (oldToNew : List (Nat × Nat)) (line : Nat) : Except Raised Nat :=
  match lookup oldToNew line with
  | some n => .ok n
  | none => .error (.host 0)

/-! ### `Memory._get_memory`: the preset PEEK table with the documented default `peek_values=None` -/

/-- repaired: `peek_values or {}` -/
def peekPreset (table : Option (List (Nat × Nat))) (addr : Nat) : Except Raised (Option Nat) :=
  .ok (lookup (table.getD []) addr)

/-- before the repair of D4: `None[addr]` raises TypeError -/
def peekPresetOld (table : Option (List (Nat × Nat))) (addr : Nat) : Except Raised (Option Nat) :=
  match table with
  | some t => .ok (lookup t addr)
  | none => .error (.host 1)

/-! ### `DataSegment.get_value_for_varptrstr`: the type byte of a VARPTR$-style operand in DRAW / PLAY strings -/

/-- `values.SIZE_TO_TYPE` (2 INT, 3 STR, 4 SNG, 8 DBL); the type is represented by its size -/
def sizeToType (size : Nat) : Option Nat :=
  if size = 2 ∨ size = 3 ∨ size = 4 ∨ size = 8 then some size else none

/-- repaired: `if size not in SIZE_TO_TYPE: raise IFC` before anything else -/
def varptrType (size : Nat) : Except Raised Nat :=
  match sizeToType size with
  | some t => .ok t
  | none => .error (.basic PcbV.Gen.E.ifc)

/-- before the repair: `SIZE_TO_TYPE[size]` raises KeyError for a detached pointer with another type byte -/
def varptrTypeOld (size : Nat) : Except Raised Nat :=
  match sizeToType size with
  | some t => .ok t
  | none => .error (.host 2)

/-! ### graphics PUT: `PackedSpriteBuilder.unpack` of an array buffer of `len` bytes -/

/-- bytes per row for a size record `rowBits` at `bpp` bits per pixel -/
def rowBytes (bpp rowBits : Nat) : Nat := ((rowBits / bpp) * bpp + 7) / 8

/-- repaired: number of packed bytes taken from the array behind the 4-byte size record; the array must hold the
    record and the whole sprite, else `ValueError` which `Graphics.put_` reports as Illegal function call -/
def spriteBytes (bpp len rowBits height : Nat) : Except Raised Nat :=
  if len < 4 then .error (.basic PcbV.Gen.E.ifc)
  else if len < 4 + rowBytes bpp rowBits * height then .error (.basic PcbV.Gen.E.ifc)
  else .ok (rowBytes bpp rowBits * height)

/-- before the repair: `struct.unpack('<HH', array[0:4])` on a shorter buffer raises struct.error; a buffer shorter
    than the sprite gave a clamped slice (rows of unequal length: AssertionError in ByteMatrix) -/
def spriteBytesOld (bpp len rowBits height : Nat) : Except Raised Nat :=
  if len < 4 then .error (.host 3)
  else .ok (min (len - 4) (rowBytes bpp rowBits * height))

/-! ### POINT(x, y) under a viewport with origin (x0, y0) (0, 0 for VIEW SCREEN) on a w x h pixel buffer -/

/-- repaired: the pixel is read only if its absolute position is on the screen; `none` is the value -1 -/
def pointIndex (w h x0 y0 : Nat) (x y : Int) : Option (Int × Int) :=
  if x < 0 ∨ y < 0 then none
  else if x + x0 < w ∧ y + y0 < h then some (x + x0, y + y0) else none

/-- before the repair: the bounds were tested on the viewport coordinates -/
def pointIndexOld (w h x0 y0 : Nat) (x y : Int) : Option (Int × Int) :=
  if x < 0 ∨ x ≥ w ∨ y < 0 ∨ y ≥ h then none else some (x + x0, y + y0)

/-! ### `TimedQueue.expiry`: the time the last queued sound ends, used by `Sound.emit_synch` (Tandy / PCjr voices) -/

/-- a queue is the list of expiry times of its entries; a looping sound (SOUND f,d with d < 1/44) has none.
    `self._deque[-1][1] or now()`, and `now()` for an empty queue: always a time, so that `max` and the subtraction in
    `emit_synch` are between times -/
def queueExpiry (queue : List (Option Int)) (now : Int) : Except Raised Int :=
  match queue.getLast? with
  | some (some t) => .ok t
  | some none => .ok now
  | none => .ok now

/-- without the fallback for a looping last entry the caller gets `None` and `max(None, datetime)` is a TypeError -/
def queueExpiryNoFallback (queue : List (Option Int)) (now : Int) : Except Raised Int :=
  match queue.getLast? with
  | some (some t) => .ok t
  | some none => .error (.host 4)
  | none => .ok now

end PcbV.Funnel
