"""C21 — Error trapping reports and resumes at the right place."""
import random
import re

from vlib import basic

LEVEL = 'proof'
RULE = ('one case = one generated program entered into a real Session (NEW, lines) followed by a history of '
        'direct lines (RUN, then PRINT ERR;ERL / RESUME forms / ERROR n / GOTO n / ... typed at the prompt): '
        '(a) structured programs: main lines, nested GOSUB subroutines and one or two handlers with each RESUME '
        'form, errors raised by ERROR n and by real faulting statements of each class from the first / middle / '
        'last statement of multi-statement lines, from subroutines, from the handler itself and from the direct '
        'line; (b) unstructured programs (any statement anywhere; jumps forward, RESUME n anywhere); '
        '(c) a fixed list of real faulting statements of every error class run trapped (RESUME NEXT / RESUME / '
        'RESUME n) and untrapped.  non-trivial = at least one error was raised')
EXPLANATION = ('theorems (PcbV.Props.C21) on PcbV.Model.ErrTrap, a transcription of parse/trap_error/resume_/'
               'on_error_goto_/erl_/err_/error_/_handle_error; correspondence: the printed trace (markers, ERR;ERL) '
               'and the final message + line of every direct line of the history, real interpreter vs the compiled '
               'Lean mechanism (whole history in one protocol line); oracle: an independent reference of the '
               'statement pointer written from the property statement on the line structure (line index, '
               'statement index; a single "failed at" position), with wildcards where the statement is silent')
TRUSTED_BASE = ['PcbV.Model.ErrTrap is a hand transcription of interpreter.py parse/trap_error/resume_/'
                'on_error_goto_/erl_/err_/error_/jump/jump_sub/return_ and implementation.py _handle_error/end_/run_ '
                'at statement granularity (byte offsets inside a statement are not modelled), validated by the '
                'correspondence on every run',
                'faulting statements are represented in the model by their error number only; the table of real '
                'statements is checked against the interpreter at the start of every run',
                'the harness replaces time.sleep(0) inside pcbasic.basic.eventcycle by a no-op and installs a '
                'line counter in Interpreter.step that breaks a runaway program (never triggered on a passing run)']
ASSUMPTIONS = ['PRINT of an integer value writes its decimal representation',
               'direct lines of the generated histories contain no GOSUB (a return address into a replaced direct '
               'line is a byte offset, outside the statement-level model)']

FUEL = 20000
UNDEF = 7777          # a line number that never exists
NFLAGS = 4

# real statements failing with a hard error whenever executed (no lasting side effect)
FAULTS = {
    1: ['NEXT', 'NEXT Q%'],
    2: ['PRINT )', 'Q%=1+*2', 'BOGUS 1'],
    4: ['READ Q%', 'READ Q$,R$'],
    5: ['Q%=ASC("")+ASC(":")', 'Q=SQR(-1)', 'Q$=MID$("A:B",0)', 'LOCATE 99', 'Q$=STRING$(-1,65)', 'Q=LOG(0)',
        'ERROR 0', 'ERROR 256', 'Q$=SPACE$(300)',
        # the error is raised inside the expression of PRINT / IF / ON..GOTO
        'PRINT SPC(0);SQR(-1)', 'IF SQR(-1) THEN TROFF', 'ON SQR(-1) GOTO 10', 'ON LOG(0) GOSUB 10,20'],
    6: ['Q%=32768', 'Q%=100000', 'Q%=-32769', 'Q%=32767+1', 'Q%=CINT(1E10)'],
    8: ['GOTO 7777', 'GOSUB 7777', 'ON ERROR GOTO 7777', 'RESTORE 7777', 'ON 1 GOTO 7777'],
    9: ['Q%=B%(11)', 'C%(12)=1'],
    10: ['DIM D%(1),D%(1)'],
    13: ['Q$=1', 'Q%="A"', 'Q%=1+"A:"', 'Q$=LEFT$(1,1)', 'PRINT 1+"A"', 'IF "A" THEN TROFF'],
    15: ['Q$=SPACE$(200)+SPACE$(200)'],
    18: ['Q%=FNU(1)'],
    22: ['Q%=1+'],
    30: ['WEND'],
    52: ['PRINT #1,1', 'INPUT #2,Q%', 'FIELD #3,1 AS Q$', 'Q%=EOF(1)'],
    54: ['GET #1'],
    76: ['OPEN "NOFILE" FOR INPUT AS 1'],
}
# fail while flag F<v>% is 0, pass without output once it is 1
CFAULTS = {
    6: ['Q%=32767+1-F{v}%', 'ON 32768-32766*F{v}% GOTO 7777'],
    9: ['Q%=A%(11-F{v}%)', 'IF A%(11-F{v}%)=0 THEN TROFF', 'PRINT SPC(A%(11-F{v}%));'],
    5: ['Q$=STRING$(F{v}%-1,65)', 'Q=SQR(F{v}%-1)',
        # inside the expression of PRINT / IF (condition true once repaired) / ON..GOTO (falls through)
        'PRINT SPC(0);LEFT$("A",F{v}%-1);', 'IF SQR(F{v}%-1)=0 THEN TROFF', 'ON SQR(F{v}%-1)+2 GOTO 7777'],
    8: ['ON F{v}%+1 GOTO 7777'],
}
# statements without effect on the mechanism; none of them reads the blanks that follow it, so that the
# next statement's separator is preceded by unread blanks (index 2 is the DATA line of programs with DATA)
DATA_TEXT = 'DATA ' + ','.join(['100000'] * 30)
NOPS = ['TROFF', 'KEY OFF', DATA_TEXT]
# READ of a DATA item that does not fit the variable (programs with the DATA line): conversion error in READ
RFAULTS = {6: ['READ Q%', 'READ Q%,R%']}
# user functions: definition, functions that must be defined for a call (nested calls), error class of the
# fault inside the body while the argument flag is 0, calling statements
DEFS = ['DEF FNA(X%)=SQR(X%-1)', 'DEF FNB%(X%)=32767+1-X%', 'DEF FNC(X%)=A%(11-X%)', 'DEF FND(X%)=FNA(X%)+1',
        'DEF FNE$(X%)=STRING$(X%-1,65)', 'DEF FNG(X%)=FND(X%)*2']
DEPS = [[0], [1], [2], [3, 0], [4], [5, 3, 0]]
ECLS = [5, 6, 9, 5, 5, 5]
FCALLS = [['Q=FNA(F{v}%)', 'PRINT SPC(0);LEFT$("A",FNA(F{v}%));', 'IF FNA(F{v}%)=0 THEN TROFF',
           'ON FNA(F{v}%)+2 GOTO 7777'],
          ['Q%=FNB%(F{v}%)', 'IF FNB%(F{v}%)>0 THEN TROFF'],
          ['Q%=FNC(F{v}%)'],
          ['Q=FND(F{v}%)', 'Q=FND(F{v}%)+FNA(1)'],
          ['Q$=FNE$(F{v}%)', 'PRINT FNE$(F{v}%);'],
          ['Q=FNG(F{v}%)']]
# FOR with a failing bound / step expression; once repaired the loop is empty (1 TO 0) and jumps over its NEXT
FORS = {5: ['FOR Q%=1 TO SQR(F{v}%-1)', 'FOR Q%=1+SQR(F{v}%-1) TO 0', 'FOR Q%=1 TO 0 STEP SQR(F{v}%-1)+1'],
        9: ['FOR Q%=1 TO A%(11-F{v}%)']}
# loop programs (reference only): WHILE conditions over W% that evaluate fine on entry and fail when the
# counter reaches `fail` at a later WEND re-check; false from `false_from` on: (text, fail, false_from, error)
CONDS = [('SQR(W%)<10', -1, 100, 5), ('LOG(W%+1)<4', -1, 54, 5),
         ('ASC(STRING$(W%+1,65+W%\\50))<67', -1, 100, 5)]
SEPS = [':'] * 11 + [' :', ' :', ': ', ': ', ' : ', ' : ', ' : ', '  :  ', ' :  ']
# float errors: soft-handled (message, execution goes on) unless a trap has been set up
SOFTS = {
    11: ['Q=1/0', 'Q#=7#/0', 'Q=7\\0', 'Q=7 MOD 0'],
    6: ['Q=1E38*10'],
}
SOFT_MSG = {b'Division by zero': 11, b'Overflow': 6}

# the fixed list of real faulting statements (c)
SPECIAL = sorted(set(t for l in FAULTS.values() for t in l) | set(t for l in SOFTS.values() for t in l) | {
    'KILL "NOFILE"', 'FILES "X:"', 'Q$=CVI("")', 'LOAD "NOFILE"', 'MERGE "NOFILE"', 'RUN "NOFILE"',
    'CHAIN "NOFILE"', 'NAME "NOFILE" AS "B"', 'RETURN', 'CONT',
    'CLOSE:INPUT #1,Q%', 'BLOAD "NOFILE"', 'CHDIR "NODIR"', 'Q%=VARPTR(ZZ)', 'ERASE ZZ', 'OPTION BASE 2',
    'ERROR 5', 'ERROR 255', 'ERROR 200', 'ERROR 77', 'ERROR 1.4', 'POKE -70000,1', 'COLOR 99', 'SCREEN 99',
    'Q$=CHR$(256)', 'Q=VAL("1")/0', 'Q%=1E5', 'LSET Q%=1', 'MID$(Q$,0)="A"', 'SWAP Q%,Q$', 'RANDOMIZE "A"',
    'ON 300 GOTO 10', 'KEY 99,"A"', 'LINE (0,0)-(1,1)', 'PLAY "Z"', 'DRAW "Z"', 'SOUND 1,1', 'VIEW PRINT 9 TO 2',
    'WIDTH 7', 'OUT -1,1', 'DEF SEG=-70000', 'CLEAR -1', 'OPEN "X" FOR INPUT AS 300', 'LOCK #1', 'UNLOCK #1',
    'TIME$="99"', 'DATE$="X"', 'ENVIRON "X"', 'Q$=ENVIRON$(0)', 'Q$=INPUT$(1,#1)', 'Q%=LOC(1)', 'Q%=LOF(1)',
    'LINE INPUT #1,Q$', 'WRITE #1,1', 'PUT #1', 'CLOSE:Q%=LPOS(9)', 'Q=FRE(1,2)',
    # faults inside DEF FN bodies (functions defined in lines 1-4 of every program of this list)
    'Q=FNA(-1)', 'Q=FNB(-1)', 'PRINT FNA(-4)', 'Q%=FNC%(1)', 'Q$=FND$(-1)', 'IF FNA(-1) THEN TROFF',
    'ON FNB(-1) GOTO 30', 'Q=FNA(FNA(-1))', 'Q=1+FNB(-2)*3', 'Q$="A"+FND$(-1)+"B"', 'Q=FNA(1)+FNB(-9)',
})
SPECIAL_DEFS = ['1 DEF FNA(X)=SQR(X)', '2 DEF FNB(X)=FNA(X)+1', '3 DEF FNC%(X)=X*40000', '4 DEF FND$(X)=STRING$(X,65)']


# ---------------------------------------------------------------------------------------------
# statements: BASIC text and driver protocol

def stext(s):
    k = s[0]
    if k == 'M':
        return 'PRINT %d' % s[1]
    if k == 'P':
        return 'PRINT "E";ERR;ERL'
    if k == 'E':
        return 'ERROR %d' % s[1]
    if k == 'F':
        return RFAULTS[s[1]][s[2]] if len(s) > 3 else FAULTS[s[1]][s[2]]
    if k == 'N':
        return NOPS[s[1]]
    if k == 'D':
        return DEFS[s[1]]
    if k == 'K':
        return FCALLS[s[1]][s[3]].format(v=s[2])
    if k == 'A':
        return FORS[s[2]][s[3]].format(v=s[1])
    if k == 'B':
        return 'NEXT'
    if k == 'WS':
        return 'W%%=%d' % s[1]
    if k == 'WD':
        return 'W%=W%-1'
    if k == 'WH':
        return 'WHILE ' + CONDS[s[1]][0]
    if k == 'WE':
        return 'WEND'
    if k == 'FI':
        return 'FOR I%=32766 TO 32767'
    if k == 'FN':
        return 'NEXT'
    if k == 'C':
        return CFAULTS[s[2]][s[3]].format(v=s[1])
    if k == 'S':
        return SOFTS[s[1]][s[2]]
    if k == 'T':
        return 'F%d%%=1' % s[1]
    if k == 'U':
        return 'GOSUB %d' % s[1]
    if k == 'R':
        return 'RETURN'
    if k == 'G':
        return 'GOTO %d' % s[1]
    if k == 'O':
        return 'ON ERROR GOTO %d' % s[1]
    if k == 'Z':
        return 'RESUME'
    if k == 'ZN':
        return 'RESUME NEXT'
    if k == 'ZL':
        return 'RESUME %d' % s[1]
    if k == 'X':
        return 'END'
    if k == 'I':
        return 'G%=G%+1'
    if k == 'Q':
        return 'IF G%%>%d THEN END' % s[1]
    if k == 'RUN':
        return 'RUN'
    raise ValueError(s)


def sproto(s):
    k = s[0]
    if k in ('M', 'E', 'T', 'U', 'G', 'O', 'ZL', 'Q'):
        return '%s,%d' % (k, s[1])
    if k in ('F', 'S'):
        return '%s,%d' % (k, s[1])
    if k == 'C':
        return 'C,%d,%d' % (s[1], s[2])
    if k == 'D':
        return 'D,%d' % s[1]
    if k == 'K':
        return 'K,%s,%d,%d' % ('+'.join(map(str, DEPS[s[1]])), s[2], ECLS[s[1]])
    if k == 'A':
        return 'A,%d,%d' % (s[1], s[2])
    return k


def join_stmts(texts, lrng):
    """statements of one line; lrng (or None) draws blanks before / after the ':' and at the line ends"""
    if lrng is None:
        return ':'.join(texts)
    out = ' ' * lrng.choice([0, 0, 0, 1, 2])
    for i, t in enumerate(texts):
        if i:
            out += lrng.choice(SEPS)
        out += t
    return out + ' ' * lrng.choice([0, 0, 0, 1, 3])


def prog_text(lines, lay=None):
    lrng = None if lay is None else random.Random(lay)
    return ['%d %s' % (num, join_stmts([stext(s) for s in st], lrng)) for num, st in lines]


def direct_texts(directs, lay=None):
    lrng = None if lay is None else random.Random(lay + 1)
    return [join_stmts([stext(s) for s in dl], lrng).lstrip() or ' ' for dl in directs]


def direct_text(dl):
    return ':'.join(stext(s) for s in dl)


def layout_of(pseed):
    """layout seed of a generated program: one in five has no extra blanks"""
    return None if pseed % 5 == 0 else pseed // 5


def proto(lines, directs):
    p = '|'.join('%d:%s' % (num, ';'.join(sproto(s) for s in st)) for num, st in lines) or '-'
    return 'sess 1 %d %s %s' % (FUEL, p, ' '.join(';'.join(sproto(s) for s in dl) for dl in directs))


# ---------------------------------------------------------------------------------------------
# independent reference of the statement pointer (written from the property statement)

class _Stop(Exception):
    def __init__(self, status):
        self.status = status


class _Error(Exception):
    def __init__(self, code, where=None):
        self.code, self.where = code, where


class _Unknown(Exception):
    """the statement does not say what happens next; comparison ends here"""


class Ref(object):
    """Positions are (line index, statement index) in the program or ('D', statement index) in the direct
    line.  One piece of trap state: `failed` = position of the statement whose error is being handled
    (None = not inside a handler)."""

    def __init__(self, lines, stats=None):
        self.lines = [(n, st) for n, st in lines]
        self.index = {}
        for i, (n, _st) in enumerate(self.lines):
            self.index.setdefault(n, i)
        self.trap = 0
        self.trap_was_set = False      # float errors after a trap has been set and removed: not specified
        self.failed = None
        self.err, self.erl = 0, 0
        self.flags = set()
        self.defs = set()
        self.g = 0
        self.stack = []
        self.w, self.i, self.forpos = 0, 0, None
        self.whiles = []               # (position of the WHILE, position of its WEND), innermost last
        self.events = []
        self.stats = stats if stats is not None else {}

    def note(self, tag):
        self.stats[tag] = self.stats.get(tag, 0) + 1

    # -- positions ------------------------------------------------------------------------
    def after(self, pos):
        if pos[0] == 'D':
            return ('D', pos[1] + 1)
        li, si = pos
        if si + 1 < len(self.lines[li][1]):
            return (li, si + 1)
        return (li + 1, 0)

    def find_wend(self, pos):
        depth, p = 0, self.after(pos)
        while p[0] < len(self.lines):
            k = self.lines[p[0]][1][p[1]][0]
            if k == 'WH':
                depth += 1
            elif k == 'WE':
                if depth == 0:
                    return p
                depth -= 1
            p = self.after(p)
        raise _Error(29)

    def while_cond(self, c):
        _text, fail, false_from, err = CONDS[c]
        if self.w <= fail:
            raise _Error(err)
        return self.w < false_from

    def line_start(self, n):
        if n not in self.index:
            raise _Error(8)
        return (self.index[n], 0)

    def line_no(self, pos):
        return None if pos[0] == 'D' else self.lines[pos[0]][0]

    def where_tag(self, pos):
        if pos[0] == 'D':
            return 'direct'
        n = len(self.lines[pos[0]][1])
        if n == 1:
            return 'only'
        return 'first' if pos[1] == 0 else 'last' if pos[1] == n - 1 else 'middle'

    # -- one direct line ------------------------------------------------------------------
    def execute(self, dl):
        """returns (items, status, complete); items may contain '?' fields"""
        self.items = []
        pos = ('D', 0)
        budget = FUEL
        try:
            while True:
                budget -= 1
                if budget < 0:
                    return self.items, 'fuel', True
                if pos[0] == 'D':
                    if pos[1] >= len(dl):
                        return self.items, 'ok', True
                    st = dl[pos[1]]
                else:
                    if pos[0] >= len(self.lines):
                        if self.failed is not None:
                            # handler ran off the end of the program: No RESUME (GW-BASIC manual, error 19)
                            self.note('event:no-resume')
                            self.failed = None
                            self.err, self.erl = 19, self.lines[-1][0]
                            raise _Stop('err19@%d' % self.lines[-1][0])
                        return self.items, 'ok', True
                    st = self.lines[pos[0]][1][pos[1]]
                try:
                    pos = self.stmt(st, pos)
                except _Error as e:
                    pos = self.error(e, pos)
        except _Stop as s:
            return self.items, s.status, True
        except _Unknown:
            return self.items, None, False

    def error(self, e, pos):
        line = self.line_no(pos)
        if e.where is not None:           # re-raised error keeps its own place
            code, erl = e.code, e.where
        else:
            code, erl = e.code, (65535 if line is None else line)
        self.events.append('error')
        if self.trap and self.failed is None:
            self.err, self.erl = code, erl
            self.failed = pos
            self.note('trap:' + self.where_tag(pos))
            self.note('trapdepth:%d' % min(len(self.stack), 3))
            self.events.append('trap')
            return self.line_start_noerr(self.trap)
        # not trapped: no handler, or already inside the handler
        self.note('stop:in-handler' if self.failed is not None else 'stop:untrapped')
        self.events.append('stop-in-handler' if self.failed is not None else 'stop-untrapped')
        self.failed = None
        self.err, self.erl = code, erl
        if code == 2:
            self.err = '?'                # the syntax-error EDIT prompt resets ERR (not in the statement)
        if erl == '?':
            raise _Unknown()
        raise _Stop('err%d' % code + ('' if erl == 65535 else '@%d' % erl))

    def line_start_noerr(self, n):
        return (self.index[n], 0)

    def leave_handler(self):
        self.failed = None
        self.err, self.erl = '?', '?'     # the statement does not say what ERR / ERL read after RESUME

    def stmt(self, st, pos):
        k = st[0]
        nxt = self.after(pos)
        if k == 'M':
            self.items.append('m%d' % st[1])
        elif k == 'P':
            self.items.append('e%s.%s' % (self.err, self.erl))
        elif k == 'E':
            raise _Error(st[1] if 1 <= st[1] <= 255 else 5)
        elif k == 'F':
            raise _Error(st[1])
        elif k == 'C':
            if st[1] not in self.flags:
                raise _Error(st[2])
            self.note('cfault-passed')
        elif k == 'S':
            if self.trap:
                raise _Error(st[1])
            if self.trap_was_set:
                raise _Unknown()
            self.items.append('s%d' % st[1])
        elif k == 'T':
            self.flags.add(st[1])
        elif k == 'N':
            pass
        elif k == 'D':
            if pos[0] == 'D':
                raise _Error(12)          # DEF FN in the direct line: Illegal direct
            self.defs.add(st[1])
        elif k == 'K':
            # the failing statement is the one that CALLS the function, wherever the DEF FN line is
            if not all(d in self.defs for d in DEPS[st[1]]):
                raise _Error(18)
            if st[2] not in self.flags:
                self.note('fn-body-fault:' + ('direct' if pos[0] == 'D' else 'run'))
                raise _Error(ECLS[st[1]])
            self.note('cfault-passed')
        elif k == 'A':
            if st[1] not in self.flags:
                raise _Error(st[2])
            return self.after(nxt)        # empty loop: execution goes on after its NEXT
        elif k == 'B':
            raise _Error(1)               # the NEXT of a FOR that failed: NEXT without FOR
        elif k == 'WS':
            self.w = st[1]
        elif k == 'WD':
            self.w -= 1
        elif k == 'WH':
            wend = self.find_wend(pos)
            if self.while_cond(st[1]):    # an error here belongs to the WHILE statement being executed
                self.whiles.append((pos, wend))
            else:
                return self.after(wend)
        elif k == 'WE':
            # the statement being executed is the WEND: an error in the re-evaluated condition is trapped
            # with the WEND as the statement to RESUME at / after (ERL: the line holding the expression)
            while self.whiles and self.whiles[-1][1] != pos:
                self.whiles.pop()
            if not self.whiles:
                raise _Error(30)
            wpos = self.whiles[-1][0]
            wline = self.lines[wpos[0]][0]
            try:
                go_on = self.while_cond(self.lines[wpos[0]][1][wpos[1]][1])
            except _Error as e:
                self.note('implicit-reeval:wend-condition-fault')
                raise _Error(e.code, wline if wline == self.line_no(pos) else '?')
            if go_on:
                return self.after(wpos)
            self.whiles.pop()
        elif k == 'FI':
            self.i = 32766
            self.forpos = nxt
        elif k == 'FN':
            # NEXT increments the counter first: overflow of the integer counter is an error of the NEXT
            if self.forpos is None:
                raise _Error(1)           # reached by a jump, the FOR was never executed
            if self.i + 1 > 32767:
                self.note('implicit-reeval:next-counter-overflow')
                raise _Error(6)
            self.i += 1
            return self.forpos
        elif k == 'U':
            tgt = self.line_start(st[1])
            self.stack.append(nxt)
            return tgt
        elif k == 'R':
            if not self.stack:
                raise _Error(3)
            return self.stack.pop()
        elif k == 'G':
            return self.line_start(st[1])
        elif k == 'O':
            if st[1] != 0 and st[1] not in self.index:
                raise _Error(8)
            self.trap = st[1]
            self.trap_was_set = st[1] != 0    # ON ERROR GOTO 0: float errors are soft-handled again
            if st[1] == 0 and self.failed is not None:
                # ON ERROR GOTO 0 inside the handler: the trapped error stops the program
                self.events.append('goto0-in-handler')
                self.note('event:goto0-in-handler')
                raise _Error(self.err, self.erl)
        elif k in ('Z', 'ZN', 'ZL'):
            if self.failed is None:
                self.events.append('resume-outside')
                self.note('event:resume-without-error')
                if self.trap:
                    raise _Unknown()      # whether this error can be trapped is not in the statement
                raise _Error(20)
            failed = self.failed
            self.leave_handler()
            if k == 'Z' or (k == 'ZL' and st[1] == 0):
                self.events.append('resume')
                self.note('event:resume')
                return failed
            if k == 'ZN':
                self.events.append('resume-next')
                self.note('event:resume-next:' + self.where_tag(failed))
                return self.after(failed)
            if st[1] not in self.index:
                raise _Unknown()          # RESUME to a line that does not exist: not in the statement
            self.events.append('resume-line')
            self.note('event:resume-line')
            return self.line_start(st[1])
        elif k == 'X' or (k == 'Q' and self.g > st[1]):
            self.failed = None
            raise _Stop('ok')
        elif k == 'Q':
            pass
        elif k == 'I':
            self.g += 1
        elif k == 'RUN':
            self.trap, self.failed, self.err, self.erl = 0, None, 0, 0
            self.flags, self.g, self.stack = set(), 0, []
            self.defs = set()
            self.w, self.i, self.whiles, self.forpos = 0, 0, [], None
            self.trap_was_set = False         # RUN starts afresh: float errors are soft-handled again
            return (0, 0)
        else:
            raise ValueError(st)
        return nxt


def ref_run(lines, directs, stats=None):
    """[(items, status)], complete?  — status None / a shorter list: not specified from there on"""
    r = Ref(lines, stats)
    res = []
    for dl in directs:
        items, status, complete = r.execute(dl)
        res.append((items, status))
        if not complete:
            return res, r.events, False
    return res, r.events, True


def item_match(want, got):
    if want == got:
        return True
    if want[0] != 'e' or got[0] != 'e':
        return False
    w, g = want[1:].split('.'), got[1:].split('.')
    return len(w) == 2 and len(g) == 2 and all(a == '?' or a == b for a, b in zip(w, g))


def ref_compare(res, complete, impl):
    """None if the implementation's canonical reply agrees with the reference, else a description"""
    if not impl.startswith('ok '):
        return 'implementation: %s' % impl
    execs = impl[3:].split('/')
    for i, (items, status) in enumerate(res):
        if i >= len(execs):
            return 'direct line %d: missing' % i
        if ':' not in execs[i]:
            return 'direct line %d: implementation output %s' % (i, execs[i])
        gi, gs = execs[i].rsplit(':', 1)
        gitems = [] if gi == '-' else gi.split(',')
        last = (i == len(res) - 1) and not complete
        for j, w in enumerate(items):
            if j >= len(gitems):
                return 'direct line %d: output item %d: expected %s, output ended (%s)' % (i, j, w, gs)
            if not item_match(w, gitems[j]):
                return 'direct line %d: output item %d: expected %s, got %s' % (i, j, w, gitems[j])
        if last:
            return None
        if len(gitems) > len(items):
            return 'direct line %d: unexpected output %s after %d items' % (i, gitems[len(items)], len(items))
        if status != gs:
            return 'direct line %d: expected to end with %s, got %s' % (i, status, gs)
    return None


# ---------------------------------------------------------------------------------------------
# generators

def pick_error(rng):
    """an ERROR n statement: every class of code (with message, without, boundaries, out of range)"""
    r = rng.random()
    if r < 0.45:
        return ('E', rng.choice([1, 2, 3, 4, 5, 6, 7, 8, 9, 10, 11, 13, 14, 15, 16, 18, 19, 20, 22, 23, 24, 25,
                                 26, 27, 29, 30, 50, 51, 52, 53, 54, 55, 57, 58, 61, 62, 63, 64, 66, 67, 68, 69,
                                 70, 71, 72, 73, 74, 75, 76, 77]))
    if r < 0.8:
        return ('E', rng.randint(1, 255))
    if r < 0.92:
        return ('E', rng.choice([1, 21, 28, 31, 49, 56, 59, 60, 65, 78, 127, 128, 254, 255, 255, 255, 1, 1]))
    return ('E', rng.choice([0, 256, 300, 1000]))


def pick_fault(rng, table, env=None):
    """a failing statement: ERROR n, a real fault, a conditional fault, a float error, a fault inside a
    DEF FN body, in a FOR expression, in the conversion of a DATA item; env = {'data': bool, 'defs': [k]}"""
    env = env or {'data': False, 'defs': []}
    r = rng.random()
    if r < 0.28:
        return pick_error(rng)
    if r < 0.50:
        if env['data'] and table['R'] and rng.random() < 0.3:
            e = rng.choice(sorted(table['R']))
            return ('F', e, rng.choice(table['R'][e]), 'R')
        e = rng.choice([x for x in sorted(table['F']) if not (env['data'] and x == 4)])
        return ('F', e, rng.choice(table['F'][e]))
    if r < 0.67:
        e = rng.choice(sorted(table['C']))
        return ('C', rng.randrange(NFLAGS), e, rng.choice(table['C'][e]))
    if r < 0.76:
        e = rng.choice(sorted(table['S']))
        return ('S', e, rng.choice(table['S'][e]))
    if r < 0.93 and (env['defs'] or rng.random() < 0.15):
        closed = [k for k in env['defs'] if all(d in env['defs'] for d in DEPS[k]) and k in table['K']]
        ks = closed if closed and rng.random() < 0.85 else sorted(table['K'])
        k = rng.choice(ks)
        return ('K', k, rng.randrange(NFLAGS), rng.choice(table['K'][k]))
    e = rng.choice(sorted(table['A']))
    return ('A', rng.randrange(NFLAGS), e, rng.choice(table['A'][e]))


def add_next(stmts):
    """every FOR of the generated statements is followed by its NEXT"""
    out = []
    for s in stmts:
        out.append(s)
        if s[0] == 'A':
            out.append(('B',))
    return out


def prelude(rng, nums, table):
    """optional first lines: the DATA line, DEF FN lines (run through at every RUN); returns lines, env"""
    lines, env = [], {'data': False, 'defs': []}
    if rng.random() < 0.25:
        env['data'] = True
        lines.append((nums.next(), [('N', 2)]))
    if rng.random() < 0.55:
        r = rng.random()
        if r < 0.6:
            ks = sorted(table['K'])
        else:
            ks = sorted(rng.sample(sorted(table['K']), rng.randint(1, len(table['K']))))
        env['defs'] = ks
        st = [('D', k) for k in ks]
        rng.shuffle(st)
        cut = rng.randint(1, len(st))
        lines.append((nums.next(), st[:cut]))
        if st[cut:]:
            lines.append((nums.next(), st[cut:]))
    return lines, env


class Numbers(object):
    """increasing line numbers with irregular gaps (1 .. 65529 reachable)"""

    def __init__(self, rng):
        self.rng = rng
        self.n = rng.choice([1, 2, 5, 10, 10, 10, 100, 1000])
        self.big = rng.random() < 0.06

    def next(self):
        n = self.n
        self.n += self.rng.choice([1, 1, 2, 5, 10, 10, 10, 50]) * (600 if self.big else 1)
        if self.n > 65000:
            self.n = n + 1
        return n


def gen_structured(pseed, table):
    rng = random.Random(pseed)
    nmain, nsub, nh = rng.randint(1, 5), rng.choice([0, 1, 1, 2, 3]), rng.choice([1, 1, 1, 2])
    nums = Numbers(rng)
    pre, env = prelude(rng, nums, table)
    main_no = [nums.next() for _ in range(nmain)]
    sub_no = [[nums.next() for _ in range(rng.randint(1, 2))] for _ in range(nsub)]
    h_no = [[nums.next() for _ in range(rng.randint(2, 3))] for _ in range(nh)]
    if UNDEF in main_no + sum(sub_no, []) + sum(h_no, []) + [n for n, _ in pre]:
        return gen_structured(pseed + 1, table)
    marker = [0]

    def mark():
        marker[0] += 1
        return ('M', marker[0])

    def body_stmt(later_main, later_subs, depth):
        r = rng.random()
        if r < 0.30:
            return mark() if rng.random() < 0.8 else ('N', rng.randrange(2))
        if r < 0.58:
            return pick_fault(rng, table, env)
        if r < 0.70 and later_subs:
            return ('U', rng.choice(later_subs)[0])
        if r < 0.76:
            return ('T', rng.randrange(NFLAGS))
        if r < 0.82:
            t = rng.random()
            return ('O', h_no[rng.randrange(nh)][0] if t < 0.6 else 0 if t < 0.9 else UNDEF)
        if r < 0.86:
            return ('P',)
        if r < 0.875:
            return rng.choice([('Z',), ('ZN',), ('ZL', rng.choice(main_no))])
        if r < 0.93 and later_main:
            return ('G', rng.choice(later_main))
        if r < 0.95 and depth == 0:
            return ('R',)
        if r < 0.965:
            return ('X',)
        return mark()

    lines = []
    for i, n in enumerate(main_no):
        st = []
        if i == 0 and rng.random() < 0.85:
            st.append(('O', h_no[0][0]))
        for _ in range(rng.randint(1, 4)):
            st.append(body_stmt(main_no[i + 1:], sub_no, 0))
        if i == nmain - 1 and rng.random() < 0.9:
            st.append(('X',))
        lines.append((n, st))
    for j, sl in enumerate(sub_no):
        for i, n in enumerate(sl):
            st = [body_stmt([], sub_no[j + 1:], 1) for _ in range(rng.randint(1, 3))]
            if i == len(sl) - 1 and rng.random() < 0.9:
                st.append(('R',))
            lines.append((n, st))
    all_lines = main_no + sum(sub_no, [])
    for j, hl in enumerate(h_no):
        lines.append((hl[0], [('I',), ('Q', rng.randint(2, 5))]))
        for i, n in enumerate(hl[1:]):
            st = []
            lastl = (i == len(hl) - 2)
            if i == 0 and rng.random() < 0.4:
                st.extend(('T', v) for v in range(NFLAGS))      # the handler repairs every conditional fault
            for _ in range(rng.randint(0, 3)):
                r = rng.random()
                if r < 0.35:
                    st.append(('P',))
                elif r < 0.55:
                    st.append(('T', rng.randrange(NFLAGS)))
                elif r < 0.75:
                    st.append(mark())
                elif r < 0.84:
                    st.append(pick_fault(rng, table, env))
                elif r < 0.89:
                    st.append(('O', rng.choice([0, 0, h_no[rng.randrange(nh)][0]])))
                elif r < 0.95 and sub_no:
                    st.append(('U', rng.choice(sub_no)[0]))
                else:
                    st.append(mark())
            if lastl:
                r = rng.random()
                if r < 0.30:
                    st.append(('Z',))
                elif r < 0.62:
                    st.append(('ZN',))
                elif r < 0.84:
                    st.append(('ZL', rng.choice(all_lines + [UNDEF] if rng.random() < 0.1 else all_lines)))
                elif r < 0.88:
                    st.append(('ZL', 0))
                elif r < 0.92:
                    st.append(('X',))
                elif r < 0.96:
                    st.append(('G', rng.choice(main_no)))
                # else: falls through (next handler's guard, or the end of the program: No RESUME)
                if rng.random() < 0.25:
                    st.append(mark())     # a statement after the RESUME (never reached through it)
            if not st:
                st.append(mark())
            lines.append((n, st))
    directs = gen_directs(rng, table, all_lines, [h[0] for h in h_no], env)
    return finish(pre + lines, directs)


def finish(lines, directs):
    return [(n, add_next(st)) for n, st in lines], [add_next(dl) for dl in directs]


def gen_directs(rng, table, targets, handlers, env=None):
    directs = []
    if rng.random() < 0.1:
        directs.append(rng.choice([[('P',)], [pick_error(rng)], [('O', handlers[0])] if handlers else [('P',)],
                                   [('Z',)], [('T', rng.randrange(NFLAGS))]]))
    directs.append([('RUN',)])
    for _ in range(rng.choice([0, 1, 1, 2, 2, 3, 4])):
        r = rng.random()
        if r < 0.25:
            dl = [('P',)]
        elif r < 0.45:
            dl = [rng.choice([('Z',), ('ZN',), ('ZL', rng.choice(targets + [0, UNDEF]))])]
            if rng.random() < 0.5:
                dl.insert(0, ('O', 0))      # trapping off: RESUME outside a handler must fail
        elif r < 0.58:
            dl = [('M', 90), pick_fault(rng, table, env), ('M', 91)]
            rng.shuffle(dl)
        elif r < 0.68:
            dl = [('G', rng.choice(targets + handlers + [UNDEF]))]
            if rng.random() < 0.4:
                dl.insert(0, ('T', rng.randrange(NFLAGS)))
        elif r < 0.78 and handlers:
            dl = [('O', rng.choice(handlers + [0])), pick_fault(rng, table, env), ('M', 92)]
        elif r < 0.86:
            dl = [('RUN',)]
        elif r < 0.91:
            dl = [('R',)]
        elif r < 0.95:
            dl = [('P',), pick_error(rng), ('P',)]
        elif r < 0.97:
            dl = [('D', rng.randrange(len(DEFS)))]      # DEF FN at the prompt: Illegal direct
        else:
            dl = [('X',)]
        directs.append(dl)
    if rng.random() < 0.5:
        directs.append([('P',)])
    return directs


def gen_random(pseed, table):
    """any statement anywhere; GOTO / GOSUB forward or undefined; trap lines are guard lines"""
    rng = random.Random(pseed)
    nums = Numbers(rng)
    pre, env = prelude(rng, nums, table)
    n = rng.randint(2, 9)
    numbers = [nums.next() for _ in range(n)]
    if UNDEF in numbers + [x for x, _ in pre]:
        return gen_random(pseed + 1, table)
    guards = sorted(rng.sample(range(n), rng.randint(1, min(3, n))))
    gno = [numbers[i] for i in guards]
    marker = [0]
    lines = []
    for i, num in enumerate(numbers):
        if i in guards:
            lines.append((num, [('I',), ('Q', rng.randint(2, 6))]))
            continue
        later = numbers[i + 1:]
        st = []
        for _ in range(rng.randint(1, 4)):
            r = rng.random()
            if r < 0.04:
                st.append(('N', rng.randrange(2)))
            elif r < 0.22:
                marker[0] += 1
                st.append(('M', marker[0]))
            elif r < 0.42:
                st.append(pick_fault(rng, table, env))
            elif r < 0.50:
                st.append(('P',))
            elif r < 0.58:
                st.append(('O', rng.choice(gno + gno + [0, UNDEF])))
            elif r < 0.66:
                st.append(rng.choice([('Z',), ('ZN',), ('ZN',), ('ZL', rng.choice(numbers + [0, UNDEF]))]))
            elif r < 0.70:
                st.append(('T', rng.randrange(NFLAGS)))
            elif r < 0.78:
                st.append(('U', rng.choice(later + [UNDEF]) if later else UNDEF))
            elif r < 0.84:
                st.append(('R',))
            elif r < 0.89:
                st.append(('G', rng.choice(later + [UNDEF]) if later else UNDEF))
            elif r < 0.94:
                st.append(('T', rng.randrange(NFLAGS)))
            elif r < 0.96:
                st.append(('X',))
            else:
                marker[0] += 1
                st.append(('M', marker[0]))
        lines.append((num, st))
    if rng.random() < 0.7:
        first = [i for i in range(n) if i not in guards]
        if first:
            lines[first[0]][1].insert(0, ('O', rng.choice(gno)))
    directs = gen_directs(rng, table, numbers, gno, env)
    return finish(pre + lines, directs)


def fixed_programs():
    """(name, lines, directs): the shapes named in the statement, and the repaired defect"""
    H = [(100, [('P',), ('ZN',)])]
    progs = []

    def one(name, lines, directs=None):
        progs.append((name, lines, directs or [[('RUN',)], [('P',)]]))

    for pos in range(3):
        st = [('M', 1), ('M', 2)]
        st.insert(pos, ('E', 5))
        for form, tag in ((('ZN',), 'next'), (('ZL', 30), 'line')):
            one('error-%d-of-3/resume-%s' % (pos, tag),
                [(10, [('O', 100)]), (20, st), (30, [('M', 3), ('X',)]), (100, [('P',), form])])
        st2 = [('M', 1), ('M', 2)]
        st2.insert(pos, ('C', 0, 9, 0))
        one('cfault-%d-of-3/resume-same' % pos,
            [(10, [('O', 100)]), (20, st2), (30, [('M', 3), ('X',)]), (100, [('P',), ('T', 0), ('Z',)])])
    one('resume-next-last-of-program', [(10, [('O', 100), ('M', 1)]), (20, [('G', 200)])] + H + [(200, [('E', 7)])])
    one('nested-gosub', [(10, [('O', 100), ('U', 50), ('M', 1), ('X',)]), (50, [('U', 60), ('M', 2), ('R',)]),
                         (60, [('M', 3), ('F', 13, 0), ('M', 4), ('R',)])] + H)
    one('error-in-handler', [(10, [('O', 100)]), (20, [('E', 5)]), (30, [('M', 1), ('X',)]), (100, [('E', 7)])],
        [[('RUN',)], [('P',)], [('ZN',)], [('P',)]])
    one('error-in-handler/goto-to-end', [(10, [('O', 100)]), (20, [('E', 5)]), (30, [('G', 200)]),
                                         (100, [('F', 13, 0)]), (200, [('M', 1)])],
        [[('RUN',)], [('G', 200)], [('P',)], [('Z',)]])
    one('no-resume', [(10, [('O', 100)]), (20, [('E', 5)]), (30, [('M', 1)]), (100, [('M', 2)])],
        [[('RUN',)], [('P',)], [('ZN',)], [('Z',)]])
    one('goto0-in-handler', [(10, [('O', 100)]), (20, [('M', 1), ('E', 9)]), (30, [('X',)]), (100, [('O', 0)])],
        [[('RUN',)], [('P',)], [('Z',)]])
    one('end-in-handler', [(10, [('O', 100)]), (20, [('E', 5)]), (30, [('M', 1), ('X',)]), (100, [('P',), ('X',)])],
        [[('RUN',)], [('O', 0)], [('ZN',)], [('P',)]])
    one('end-in-handler/one-line', [(10, [('O', 100)]), (20, [('M', 1), ('F', 13, 0), ('M', 2), ('X',)]),
                                    (100, [('X',)])], [[('RUN',)], [('O', 0), ('Z',), ('M', 3)]])
    one('resume-without-error', [(10, [('M', 1), ('Z',)])])
    one('resume-without-error/trap-active', [(10, [('O', 100), ('M', 1), ('ZN',), ('M', 2)])] + H)
    one('untrapped', [(10, [('M', 1)]), (20, [('M', 2), ('F', 9, 0), ('M', 3)])])
    one('direct-error-trapped', [(10, [('O', 100), ('X',)])] + H,
        [[('RUN',)], [('M', 1), ('E', 5), ('M', 2)], [('P',)], [('F', 13, 0)], [('S', 11, 0)]])
    one('direct-error-untrapped', [(10, [('M', 1)])], [[('RUN',)], [('E', 200)], [('P',)], [('E', 5)], [('P',)]])
    one('soft-no-trap', [(10, [('S', 11, 0), ('M', 1), ('S', 6, 0), ('M', 2)])])
    one('soft-trapped', [(10, [('O', 100), ('S', 11, 0), ('M', 1), ('S', 6, 0), ('M', 2), ('X',)])] + H)
    one('big-line-numbers', [(65000, [('O', 65529), ('E', 255), ('M', 1), ('X',)]), (65529, [('P',), ('ZN',)])])
    one('handler-guard-loop', [(10, [('O', 100)]), (20, [('E', 5)]), (100, [('I',), ('Q', 3)]), (110, [('P',), ('Z',)])])
    one('resume-undefined-line', [(10, [('O', 100)]), (20, [('E', 5)]), (30, [('X',)]), (100, [('I',), ('Q', 2)]),
                                  (110, [('P',), ('ZL', UNDEF)])])
    # faults inside DEF FN bodies: the failing statement is the CALLING one (line 50 / 70 / the direct line)
    D = [(1, [('D', 0), ('D', 3)]), (2, [('D', 1), ('D', 4)])]
    HR = [(100, [('P',), ('T', 0), ('T', 1), ('Z',)])]
    for form, tag in ((('ZN',), 'next'), (('Z',), 'same'), (('ZL', 60), 'line')):
        one('fn-body-fault/resume-%s' % tag,
            D + [(10, [('O', 100)]), (50, [('M', 1), ('K', 0, 0, 0), ('M', 2)]), (60, [('U', 70), ('M', 3), ('X',)]),
                 (70, [('K', 3, 1, 0), ('M', 4), ('R',)]), (100, [('I',), ('Q', 3)]),
                 (110, [('P',), ('T', 0), ('T', 1), form])],
            [[('RUN',)], [('P',)], [('M', 5), ('K', 4, 2, 0), ('M', 6)], [('P',)]])
    one('fn-body-fault/untrapped', D + [(40, [('M', 1)]), (50, [('M', 2), ('K', 3, 0, 1), ('M', 3)])],
        [[('RUN',)], [('P',)], [('K', 1, 0, 0)], [('P',)]])
    one('fn-undefined', [(1, [('D', 3)]), (10, [('O', 100), ('K', 3, 0, 0), ('M', 1), ('K', 0, 0, 0), ('M', 2), ('X',)])] + H,
        [[('RUN',)], [('D', 0)], [('P',)]])
    one('for-expression-fault', [(10, [('O', 100)]), (20, [('M', 1), ('A', 0, 5, 0), ('B',), ('M', 2)]),
                                 (30, [('A', 0, 9, 0), ('B',), ('M', 3), ('X',)])] + HR,
        [[('RUN',)], [('A', 1, 5, 1), ('B',), ('M', 4)]])
    one('for-expression-fault/resume-next', [(10, [('O', 100)]), (20, [('M', 1), ('A', 0, 5, 0), ('B',), ('M', 2), ('X',)])] + H)
    one('read-conversion', [(5, [('N', 2)]), (10, [('O', 100)]), (20, [('M', 1), ('F', 6, 0, 'R'), ('M', 2)]),
                            (30, [('F', 6, 1, 'R'), ('X',)])] + H, [[('RUN',)], [('F', 6, 0, 'R')], [('P',)]])
    one('after-nop', [(10, [('O', 100)]), (20, [('N', 0), ('E', 5), ('N', 1), ('F', 13, 0), ('O', 100), ('E', 7), ('M', 1)]),
                      (30, [('X',)])] + H, [[('RUN',)], [('N', 0), ('E', 9), ('M', 2)]])
    return progs


# ---------------------------------------------------------------------------------------------
# the implementation adapter

class _NoSleep0(object):
    """stand-in for the `time` module inside pcbasic.basic.eventcycle: sleep(0) returns at once"""

    def __init__(self, real):
        self._real = real

    def sleep(self, t):
        if t:
            self._real.sleep(t)

    def __getattr__(self, name):
        return getattr(self._real, name)


MSG_RX = re.compile(br'^(.*?)(?: in (\d+))?$')


class Impl(object):
    LIMIT = 4000          # program lines started within one direct line before the runaway break

    def __init__(self):
        from pcbasic.basic import eventcycle
        if not isinstance(eventcycle.time, _NoSleep0):
            eventcycle.time = _NoSleep0(eventcycle.time)
        self.errs = basic.error_table()
        self.n = 0
        self.session = None
        self.open()

    def open(self):
        from pcbasic.basic.base import error
        self.session = basic.new_session()
        self.session.__enter__()
        self.lines_run = 0
        try:
            interp = self.session._impl.interpreter

            def step(token, self=self):
                self.lines_run += 1
                if self.lines_run > self.LIMIT:
                    raise error.Break()
            interp.step = step
        except AttributeError:
            pass

    def close(self):
        self.session.__exit__(None, None, None)

    def reset(self):
        self.n += 1
        if self.n % 300 == 0:
            self.close()
            self.open()
        s = self.session
        # ON ERROR GOTO 0 switches trapping off and the soft handling of float errors back on
        s.execute(b'ON ERROR GOTO 0')
        s.execute(b'CLOSE')
        s.execute(b'NEW')

    def enter(self, text_lines):
        echo = b''
        for l in text_lines:
            echo += self.session.execute(l.encode('ascii'))
        return echo

    def direct(self, text):
        self.lines_run = 0
        out = self.session.execute(text.encode('ascii'))
        return self.canon(out)

    def run(self, text_lines, direct_texts):
        try:
            self.reset()
            echo = self.enter(text_lines)
            if echo.strip():
                return 'entry %r' % echo
            return 'ok ' + '/'.join(self.direct(t) for t in direct_texts)
        except Exception as e:   # a host exception escaping is reported, never a harness crash
            try:
                self.close()
            except Exception:
                pass
            self.open()
            return 'exc %s' % type(e).__name__

    def canon(self, out):
        items, status = [], 'ok'
        for raw in out.split(b'\n'):
            line = raw.strip(b'\r ')
            if not line:
                continue
            if status != 'ok':
                return 'unparsed-after-error<%s>:-' % out.hex()
            if b'\xff' in line:
                m = MSG_RX.match(line.replace(b'\xff', b''))
                msg, num = m.group(1), m.group(2)
                if msg == b'Break':
                    status = 'runaway'
                    continue
                if msg in self.errs:
                    code = self.errs[msg]
                elif msg == b'Unprintable error':
                    code = self.session.execute(b'PRINT ERR').strip().decode('ascii', 'replace')
                else:
                    return 'unparsed<%s>:-' % out.hex()
                status = 'err%s' % code + ('@%s' % num.decode() if num else '')
            elif line.startswith(b'E '):
                t = line.split()
                if len(t) != 3:
                    return 'unparsed<%s>:-' % out.hex()
                items.append('e%s.%s' % (t[1].decode(), t[2].decode()))
            elif line in SOFT_MSG:
                items.append('s%d' % SOFT_MSG[line])
            else:
                try:
                    items.append('m%d' % int(line))
                except ValueError:
                    return 'unparsed<%s>:-' % out.hex()
        return '%s:%s' % (','.join(items) or '-', status)


def validate_table(ctx, impl):
    """the real statements of the tables must raise the error NUMBER the model is told (untrapped, in a small
    program; float errors: the soft message); entries that do not are dropped.  The LINE named in the message
    is the property itself: an entry with the right error but the wrong line is kept and reported."""
    table = {'F': {}, 'C': {}, 'S': {}, 'K': {}, 'A': {}, 'R': {}}

    def keep(kind, key, i, st, out, e, tail=''):
        m = re.match(r'^ok -:err(\d+)(?:@(\d+))?(/.*)?$', out)
        if m and int(m.group(1)) == e and (m.group(3) or '') == tail:
            table[kind].setdefault(key, []).append(i)
            if m.group(2) != '20':
                ctx.fail('untrapped-line:' + stext(st), {'kind': 'table'},
                         'statement %r in line 20 fails untrapped with error %d, but the message names line %s (%s)'
                         % (stext(st), e, m.group(2), out))
        else:
            ctx.count('table-entry-dropped')
            ctx.notes.setdefault('table_dropped', []).append([stext(st), out])

    for e, texts in sorted(FAULTS.items()):
        for i, _t in enumerate(texts):
            st = ('F', e, i)
            keep('F', e, i, st, impl.run(prog_text([(20, [st])]), ['RUN']), e)
    for e, texts in sorted(CFAULTS.items()):
        for i, _t in enumerate(texts):
            st = ('C', 1, e, i)
            out = impl.run(prog_text([(20, [st]), (30, [('T', 1), st, ('M', 1)])]), ['RUN', 'GOTO 30'])
            keep('C', e, i, st, out, e, '/m1:ok')
    for e, texts in sorted(SOFTS.items()):
        for i, _t in enumerate(texts):
            out = impl.run(prog_text([(20, [('S', e, i), ('M', 1)])]), ['RUN'])
            if out == 'ok s%d,m1:ok' % e:
                table['S'].setdefault(e, []).append(i)
            else:
                ctx.count('table-entry-dropped')
                ctx.notes.setdefault('table_dropped', []).append([stext(('S', e, i)), out])
    for k, texts in enumerate(FCALLS):
        defs = (5, [('D', d) for d in sorted(DEPS[k])])
        for i, _t in enumerate(texts):
            st = ('K', k, 1, i)
            out = impl.run(prog_text([defs, (20, [st]), (30, [('T', 1), st, ('M', 1)])]), ['RUN', 'GOTO 30'])
            keep('K', k, i, st, out, ECLS[k], '/m1:ok')
    for e, texts in sorted(FORS.items()):
        for i, _t in enumerate(texts):
            st = ('A', 1, e, i)
            out = impl.run(prog_text([(20, [st, ('B',)]), (30, [('T', 1), st, ('B',), ('M', 1)])]), ['RUN', 'GOTO 30'])
            keep('A', e, i, st, out, e, '/m1:ok')
    for e, texts in sorted(RFAULTS.items()):
        for i, _t in enumerate(texts):
            st = ('F', e, i, 'R')
            keep('R', e, i, st, impl.run(prog_text([(10, [('N', 2)]), (20, [st])]), ['RUN']), e)
    for i in range(len(NOPS)):
        out = impl.run(prog_text([(20, [('N', i), ('M', 1)])]), ['RUN'])
        if out != 'ok m1:ok':
            raise RuntimeError('statement %r is not neutral: %s' % (NOPS[i][:20], out))
    for k in 'FCSKA':
        if not table[k]:
            raise RuntimeError('no usable entry in fault table %s' % k)
    return table


# ---------------------------------------------------------------------------------------------
# (c) real faulting statements, trapped and untrapped (oracle only; any error number)

def special_check(ctx, impl, text):
    """statement-level expectations for one real statement `text` that is expected to fail:
       untrapped: the program stops with a message naming line 20, ERR/ERL at the prompt agree with it;
       trapped: the handler runs with the same ERR and ERL = 20 from any position of the line, RESUME NEXT goes
       on with the next statement, RESUME n with line n, RESUME re-executes (and fails again the same way)."""
    case = {'kind': 'special', 'stmt': text}
    un = impl.run(SPECIAL_DEFS + ['20 PRINT 1:%s:PRINT 2' % text], ['RUN', 'PRINT "E";ERR;ERL'])
    soft = False
    m = re.match(r'^ok m1:err(\d+)@20/e(\d+)\.(\d+):ok$', un)
    if not m:
        if re.match(r'^ok m1,s\d+,m2:ok/', un):
            soft = True                     # float error: soft-handled without a trap
        elif re.match(r'^ok m1,m2:ok/', un) or un.startswith('ok m1:ok/'):
            ctx.count('special:does-not-fail')
            return
        else:
            ctx.fail('special-untrapped:' + text, case, 'untrapped %r in line 20: %s' % (text, un))
            return
    code = None
    if m:
        code = int(m.group(1))
        if code != 2 and (int(m.group(2)), int(m.group(3))) != (code, 20):
            ctx.fail('special-untrapped-errerl:' + text, case,
                     'after the untrapped error %d in 20 the prompt reads ERR;ERL = %s %s' % (code, m.group(2), m.group(3)))
    ctx.count('special:soft' if soft else 'special:err%d' % code)
    H = '100 PRINT "E";ERR;ERL:G%=G%+1:IF G%>2 THEN END'
    shapes = [
        ('next-middle', ['10 ON ERROR GOTO 100', '20 PRINT 1:%s:PRINT 2' % text, '30 PRINT 3:END', H, '110 RESUME NEXT'],
         'm1,e{c}.20,m2,m3:ok'),
        ('next-first', ['10 ON ERROR GOTO 100', '20 %s:PRINT 2' % text, '30 PRINT 3:END', H, '110 RESUME NEXT'],
         'e{c}.20,m2,m3:ok'),
        ('next-last', ['10 ON ERROR GOTO 100', '20 PRINT 1:%s' % text, '30 PRINT 3:END', H, '110 RESUME NEXT'],
         'm1,e{c}.20,m3:ok'),
        ('line', ['10 ON ERROR GOTO 100', '20 PRINT 1:%s:PRINT 2' % text, '30 PRINT 3:END', H, '110 RESUME 30'],
         'm1,e{c}.20,m3:ok'),
        ('same', ['10 ON ERROR GOTO 100', '20 PRINT 1:%s:PRINT 2' % text, '30 PRINT 3:END', H, '110 RESUME'],
         'm1,e{c}.20,e{c}.20,e{c}.20:ok'),
        ('gosub', ['10 ON ERROR GOTO 100', '15 GOSUB 20:PRINT 4:END', '20 PRINT 1:%s:PRINT 2' % text, '30 PRINT 3:RETURN',
                   H, '110 RESUME NEXT'], 'm1,e{c}.20,m2,m3,m4:ok'),
        # blanks around the separators; the statement in front does not read the blanks that follow it
        ('next-blanks', ['10 ON ERROR GOTO 100', '20  PRINT 1 : %s  :  PRINT 2 ' % text, '30 PRINT 3:END', H,
                         '110 RESUME NEXT'], 'm1,e{c}.20,m2,m3:ok'),
        ('next-after-nop', ['10 ON ERROR GOTO 100', '20 TROFF : %s : KEY OFF : PRINT 2' % text, '30 PRINT 3:END', H,
                            '110 RESUME NEXT'], 'e{c}.20,m2,m3:ok'),
        ('same-after-nop', ['10 ON ERROR GOTO 100', '20 PRINT 1:ON ERROR GOTO 100 : %s' % text, '30 PRINT 3:END', H,
                            '110 RESUME'], 'm1,e{c}.20,e{c}.20,e{c}.20:ok'),
    ]
    for name, prog, want in shapes:
        if name == 'gosub' and text == 'RETURN':
            continue
        got = impl.run(SPECIAL_DEFS + prog, ['RUN'])
        ctx.case(('special', text, name))
        if code is None:
            mm = re.search(r'e(\d+)\.20', got)
            c = mm.group(1) if mm else '?'
        else:
            c = str(code)
        if got != 'ok ' + want.format(c=c):
            key = 'special-%s:%s' % (name, text)
            ctx.fail(key, case, 'statement %r trapped (%s): expected %s, got %s; program %s'
                     % (text, name, want.format(c=c), got, ' / '.join(prog)))


# ---------------------------------------------------------------------------------------------

def classify(ctx, lines, directs, lay=None):
    kinds = set()
    for _n, st in lines:
        for s in st:
            kinds.add(s[0])
            if s[0] == 'F':
                ctx.count('fault-class:%d' % s[1])
            elif s[0] == 'C':
                ctx.count('cfault-class:%d' % s[2])
            elif s[0] == 'K':
                ctx.count('fn-call:%s' % DEFS[s[1]].split('(')[0][4:])
            elif s[0] == 'A':
                ctx.count('for-expression-class:%d' % s[2])
            elif s[0] == 'E':
                ctx.count('error-n:' + ('msg' if s[1] in ERRS_WITH_MSG else 'nomsg' if 1 <= s[1] <= 255 else 'range'))
    for k in kinds:
        ctx.count('stmt:' + k)
    ctx.count('directs:%d' % len(directs))
    ctx.count('layout:' + ('plain' if lay is None else 'blanks'))


ERRS_WITH_MSG = set(list(range(1, 21)) + list(range(22, 28)) + [29, 30] + [50, 51, 52, 53, 54, 55, 57, 58, 61, 62, 63,
                    64, 66, 67, 68, 69, 70, 71, 72, 73, 74, 75, 76, 77])


def run_batch(ctx, impl, progs):
    """progs: (name, lines, directs, case); programs of kind 'loop' have no Lean model (reference only)"""
    outs, protos, cases = [], [], []
    with_model = not (progs and progs[0][3].get('kind') == 'loop')
    for name, lines, directs, case in progs:
        lay = case.get('lay')
        out = impl.run(prog_text(lines, lay), direct_texts(directs, lay))
        outs.append(out)
        protos.append(proto(lines, directs) if with_model else '')
        cases.append(case)
        ctx.case(('prog', name))
        classify(ctx, lines, directs, lay)
        stats = {}
        res, events, complete = ref_run(lines, directs, stats)
        for k, v in stats.items():
            ctx.count(k, v)
        ctx.count('nontrivial' if 'error' in events else 'trivial')
        if not complete:
            ctx.count('reference:unspecified-tail')
        for _items, status in res:
            if status:
                ctx.count('status:' + re.sub(r'\d+', 'N', status))
        bad = ref_compare(res, complete, out)
        if bad is not None:
            ev = [e for e in events if e != 'error']
            key = '%s:%s' % (case.get('kind'), ev[-1] if ev else 'plain') if case.get('kind') != 'fixed' else name
            ctx.fail(key, case, '%s; program %s ; directs %s ; implementation %s'
                     % (bad, ' / '.join(prog_text(lines, lay)), ' / '.join(direct_texts(directs, lay)), out))
    if with_model:
        ctx.compare(cases, outs, protos, label='session')
    return outs


def gen_loop(pseed, table):
    """errors raised by the IMPLICIT re-evaluation at a loop end: the WHILE condition re-checked by WEND
    (fine on entry, failing when the counter has run down), the integer counter overflowing in NEXT; the
    statement in error is the WEND / NEXT being executed.  WHILE, body and WEND are cut into lines at random
    (WEND first / middle / last of its line, on the WHILE line or not); reference only (no Lean model)."""
    rng = random.Random(pseed)
    marker = [0]

    def mark():
        marker[0] += 1
        return ('M', marker[0])

    def filler(n):
        out = []
        for _ in range(n):
            r = rng.random()
            out.append(mark() if r < 0.6 else ('N', rng.randrange(2)) if r < 0.75 else
                       ('T', rng.randrange(NFLAGS)) if r < 0.85 else
                       ('C', rng.randrange(NFLAGS), 5, rng.choice(table['C'][5])))
        return out

    seq = [('WS', rng.randint(0, 2))] + filler(rng.randint(0, 2))
    blocks = ['while', 'for'] if rng.random() < 0.5 else ['for', 'while']
    if rng.random() < 0.5:
        blocks = ['while'] if rng.random() < 0.8 else ['for']
    for b in blocks:
        if b == 'while':
            seq += [('WH', rng.randrange(len(CONDS)))] + filler(rng.randint(0, 2)) + [('WD',)] + \
                   filler(rng.randint(0, 1)) + [('WE',)] + filler(rng.randint(0, 2))
        else:
            seq += [('FI',)] + filler(rng.randint(0, 2)) + [('FN',)] + filler(rng.randint(0, 2))
    seq += filler(rng.randint(1, 2)) + [('X',)]
    nums = Numbers(rng)
    body = []
    cur = [('O', 0)]                       # patched below with the handler's line number
    for st in seq:
        if len(cur) >= 5 or (cur and rng.random() < 0.3):
            body.append(cur)
            cur = []
        cur.append(st)
    body.append(cur)
    lines = [(nums.next(), st) for st in body]
    targets = [n for n, _ in lines]
    h0, h1 = nums.next(), nums.next()
    if UNDEF in targets + [h0, h1]:
        return gen_loop(pseed + 1, table)
    lines[0] = (lines[0][0], [('O', h0)] + lines[0][1][1:])
    hb = [('P',)] if rng.random() < 0.8 else []
    if rng.random() < 0.5:
        hb.extend(('T', v) for v in range(NFLAGS))
    if rng.random() < 0.25:
        hb.append(('WS', rng.choice([100, 100, 2])))
    r = rng.random()
    hb.append(('ZN',) if r < 0.5 else ('Z',) if r < 0.75 else ('ZL', rng.choice(targets)))
    lines += [(h0, [('I',), ('Q', rng.randint(2, 4))]), (h1, hb)]
    directs = [[('RUN',)]]
    if rng.random() < 0.4:
        directs.append([('P',)])
    return lines, directs


def fixed_cases():
    """every fixed program in the plain layout and with blanks around the separators"""
    progs = []
    for n, l, d in fixed_programs():
        progs.append((n, l, d, {'kind': 'fixed', 'name': n, 'lay': None}))
        progs.append((n + '/blanks', l, d, {'kind': 'fixed', 'name': n + '/blanks', 'lay': 7 + len(progs)}))
    return progs


def make(kind, pseed, table):
    if kind == 'struct':
        return gen_structured(pseed, table)
    if kind == 'random':
        return gen_random(pseed, table)
    if kind == 'loop':
        return gen_loop(pseed, table)
    raise ValueError(kind)


def run(ctx):
    impl = Impl()
    rng = ctx.rng
    try:
        table = validate_table(ctx, impl)
        ctx.notes['fault_table'] = {k: {str(e): len(v) for e, v in t.items()} for k, t in table.items()}
        progs = fixed_cases()
        outs = run_batch(ctx, impl, progs)
        for (n, l, d, _c), o in list(zip(progs, outs))[:4]:
            ctx.sample({'name': n, 'program': prog_text(l), 'directs': [direct_text(x) for x in d], 'impl': o})
        ctx.log('fixed programs done')
        for text in SPECIAL:
            special_check(ctx, impl, text)
        ctx.log('real faulting statements done')
        n_struct, n_rand, n_loop = (760, 420, 150) if ctx.quick else (5000, 3000, 1200)
        for kind, n in (('struct', n_struct), ('random', n_rand), ('loop', n_loop)):
            batch = []
            for _ in range(n):
                pseed = rng.randrange(1 << 40)
                lines, directs = make(kind, pseed, table)
                batch.append(('%s:%d' % (kind, pseed), lines, directs,
                              {'kind': kind, 'pseed': pseed, 'lay': layout_of(pseed)}))
                ctx.count('kind:' + kind)
                if len(batch) >= 250:
                    outs = run_batch(ctx, impl, batch)
                    batch = []
            if batch:
                outs = run_batch(ctx, impl, batch)
                l, d = batch[-1][1], batch[-1][2]
                ctx.sample({'kind': kind, 'program': prog_text(l), 'directs': [direct_text(x) for x in d],
                            'impl': outs[-1]})
            ctx.log('%s done' % kind)
    finally:
        impl.close()


def replay(ctx, payload):
    case = payload.get('case', {})
    impl = Impl()
    sub = Ctx2(ctx)
    try:
        if case.get('kind') == 'special':
            special_check(sub, impl, case['stmt'])
        elif case.get('kind') == 'table':
            validate_table(sub, impl)
        elif case.get('kind') == 'fixed':
            progs = [x for x in fixed_cases() if x[0] == case.get('name')]
            run_batch(sub, impl, progs)
        else:
            table = validate_table(sub, impl)
            lines, directs = make(case['kind'], case['pseed'], table)
            case = dict(case, lay=layout_of(case['pseed']))
            run_batch(sub, impl, [('%s:%d' % (case['kind'], case['pseed']), lines, directs, case)])
    finally:
        impl.close()
    hits = [f for f in sub.failures if f['key'] == payload.get('key')]
    return hits[0]['what'] if hits else None


class Ctx2(object):
    """thin proxy so replay can reuse run_batch() without touching the outer evidence"""

    def __init__(self, ctx):
        self.__dict__.update(ctx.__dict__)
        self._ctx = ctx
        self.failures = []
        self.disagreements = []
        self.notes = {}

    def __getattr__(self, name):
        return getattr(self._ctx.__class__, name).__get__(self)
