"""C02 — Integer operators follow 16-bit two's-complement semantics."""
import struct

from vlib import basic, translated

LEVEL = 'proof'
RULE = ('operand pairs from a boundary set (powers of two +-1, byte-carry 255/256, sign boundaries) crossed with '
        'itself, plus PRNG pairs; each (operator, a, b) is one case; non-trivial = not both operands zero; '
        'FOR loops with start/stop/step near the limits run through the real interpreter')
EXPLANATION = ('theorems: iadd/isub/ineg/iabs/idiv/imod/bitwise/gt/eq specs over all 16-bit patterns '
               '(PcbV.Props.C02); correspondence: Integer methods, values.* operators and Session-level '
               'PRINT / FOR compared with the Lean model; oracle: Python int two\'s-complement arithmetic'
               '; source tie: the arithmetic of Integer.idiv_int / imod behind the zero test is translated '
               'mechanically from the current Python AST into PcbV.Gen.Translated.idivCore / imodCore '
               '(gen/py2lean.py), proved equal to the model (translated_idiv_eq, translated_imod_eq) and compared '
               'with the real methods (vlib/translated.py)'
               '; source tie, part 2: the byte-level code of Integer.ineg / iadd / gt is translated mechanically '
               '(PcbV.Gen.Translated.inegCore / iaddCore / igtCore), proved equal to the model on all 16-bit '
               'patterns (translated_ineg_eq, translated_iadd_eq, translated_igt_eq) and compared with the real '
               'methods')
TRUSTED_BASE = ['model PcbV.Model.IntOps is a hand transcription of numbers.py:Integer and values.py bitwise operators',
                'translator gen/py2lean.py + PcbV.PyInt (Python int semantics of // % abs and ^ & | in Lean), validated by '
                'vlib/translated.py against the real idiv_int / imod and Python\'s own operators; it covers these two '
                'methods only',
                'for ineg / iadd / gt the translator glue (gen/tables_py2lean.py) fixes the conventions: buffer bytes '
                'as parameters, the stored byte pair as lo+256*hi, raise OVERFLOW as -6']
ASSUMPTIONS = ['struct.pack/unpack <h/<H behave as documented']


def s16(w):
    return w - 65536 if w >= 32768 else w


def boundary_values():
    vals = set()
    for k in range(17):
        for d in (-2, -1, 0, 1, 2):
            vals.add(((1 << k) + d) & 0xffff)
            vals.add((-(1 << k) + d) & 0xffff)
    for v in (0, 1, 2, 3, 7, 9, 10, 100, 255, 256, 257, 0x7f, 0x80, 0x81, 0xff00, 0x00ff, 0x7fff, 0x8000, 0x8001,
              0xffff, 0xfffe, 30000, 35536, 0x1234, 0xedcb, 0x5555, 0xaaaa, 0x7f00, 0x80ff, 0x7eff, 0xfeff):
        vals.add(v)
    return sorted(vals)


def trunc_div(a, b):
    q = abs(a) // abs(b)
    return q if (a >= 0) == (b >= 0) else -q


def oracle(op, a, b):
    """Expected ('ok', pattern) / ('err', n) from the property statement, on signed values."""
    x, y = s16(a), (s16(b) if b is not None else None)
    if op == 'idiv':
        if y == 0:
            return ('err', 11)
        q = trunc_div(x, y)
        return ('ok', q & 0xffff) if -32768 <= q <= 32767 else ('err', 6)
    if op == 'imod':
        if y == 0:
            return ('err', 11)
        q = trunc_div(x, y)
        if not -32768 <= q <= 32767:
            return ('err', 6)
        return ('ok', (x - y * q) & 0xffff)
    if op in ('iadd', 'isub'):
        r = x + y if op == 'iadd' else x - y
        return ('ok', r & 0xffff) if -32768 <= r <= 32767 else ('err', 6)
    if op == 'ineg':
        return ('ok', (-x) & 0xffff) if x != -32768 else ('err', 6)
    if op == 'iabs':
        return ('ok', abs(x) & 0xffff) if x != -32768 else ('err', 6)
    if op == 'and':
        return ('ok', a & b)
    if op == 'or':
        return ('ok', a | b)
    if op == 'xor':
        return ('ok', a ^ b)
    if op == 'eqv':
        return ('ok', ~(a ^ b) & 0xffff)
    if op == 'imp':
        return ('ok', (~a | b) & 0xffff)
    if op == 'not':
        return ('ok', ~a & 0xffff)
    if op == 'gt':
        return ('ok', int(x > y))
    if op == 'eq':
        return ('ok', int(x == y))
    raise ValueError(op)


class Impl(object):
    """The real code: numbers.Integer methods and values.* operator functions."""

    def __init__(self):
        from pcbasic.basic.values import values, numbers
        from pcbasic.basic.base import error
        self.values, self.numbers, self.error = values, numbers, error
        self.vs = values.Values(None, False)
        self.vs.set_handler(values.FloatErrorHandler(None))

    def integer(self, w):
        return self.numbers.Integer(None, self.vs).from_bytes(struct.pack('<H', w))

    def call(self, op, a, b=None):
        v, n = self.values, self.numbers
        x = self.integer(a)
        y = self.integer(b) if b is not None else None
        try:
            if op == 'iadd':
                r = x.iadd(y)
            elif op == 'isub':
                r = x.isub(y)
            elif op == 'ineg':
                r = x.ineg()
            elif op == 'iabs':
                r = x.iabs()
            elif op == 'idiv':
                r = v.intdiv(x, y)
            elif op == 'imod':
                r = v.mod_(x, y)
            elif op == 'and':
                r = v.and_(x, y)
            elif op == 'or':
                r = v.or_(x, y)
            elif op == 'xor':
                r = v.xor_(x, y)
            elif op == 'eqv':
                r = v.eqv_(x, y)
            elif op == 'imp':
                r = v.imp_(x, y)
            elif op == 'not':
                r = v.not_(x)
            elif op == 'gt':
                return 'ok %d' % int(bool(x.gt(y)))
            elif op == 'eq':
                return 'ok %d' % int(bool(x.eq(y)))
            else:
                raise ValueError(op)
        except self.error.BASICError as e:
            return 'err %d' % e.err
        except Exception as e:  # a host exception escaping is itself a violation of the spec
            return 'exc %s' % type(e).__name__
        if not isinstance(r, n.Integer):
            return 'type %s' % type(r).__name__
        return 'ok %d' % struct.unpack('<H', bytes(r.to_bytes()))[0]


BIN_OPS = ['iadd', 'isub', 'idiv', 'imod', 'and', 'or', 'xor', 'eqv', 'imp', 'gt', 'eq']
UN_OPS = ['ineg', 'iabs', 'not']
KNOWN_S2 = 'S2:imod:-32768:-1'


def check_cases(ctx, impl, cases):
    lines = ['%s %d %d' % (op, a, b) if b is not None else '%s %d' % (op, a) for op, a, b in cases]
    outs = [impl.call(op, a, b) for op, a, b in cases]
    ctx.compare(cases, outs, lines)
    for (op, a, b), out in zip(cases, outs):
        ctx.case((op, a, b))
        ctx.count('op:' + op)
        if op == 'isub' and b == 32768:
            # Integer.isub negates the subtrahend first; BASIC-level subtraction never uses it
            # (values.sub promotes to Single) – not part of the property statement
            continue
        exp = oracle(op, a, b)
        got = tuple(out.split()[:2])
        got = (got[0], int(got[1])) if got[0] in ('ok', 'err') else (out,)
        if got[0] == 'err':
            ctx.count('err:%s' % got[1])
        if got != exp:
            key = KNOWN_S2 if (op, a, b) == ('imod', 32768, 65535) and got == ('ok', 0) else \
                '%s:%d:%s' % (op, s16(a), s16(b) if b is not None else '')
            ctx.fail(key, {'op': op, 'a': a, 'b': b, 'level': 'values'},
                     'expected %s, implementation returned %s' % (exp, out))


def basic_level(ctx, n_expr, n_for):
    """The same operators through the real parser/evaluator, plus integer FOR counters."""
    rng = ctx.rng
    bv = boundary_values()
    s = basic.new_session()
    names = {'idiv': '\\', 'imod': 'MOD', 'and': 'AND', 'or': 'OR', 'xor': 'XOR', 'eqv': 'EQV', 'imp': 'IMP'}
    with s:
        for _ in range(n_expr):
            op = rng.choice(sorted(names))
            a, b = rng.choice(bv), rng.choice(bv)
            # operands as integer variables, so the literal parser is not involved
            s.execute(b'A%%=%d:B%%=%d' % (s16(a), s16(b)))
            out = s.execute(b'PRINT A%% %s B%%' % names[op].encode())
            ctx.case(('basic', op, a, b))
            ctx.count('basic:' + op)
            exp = oracle(op, a, b)
            text = out.strip()
            if exp[0] == 'ok':
                ok = text == b'%d' % s16(exp[1]) or text == b' %d' % s16(exp[1])
                ok = ok or text.split() == [b'%d' % s16(exp[1])]
            else:
                ok = (b'Overflow' in out) if exp[1] == 6 else (b'Division by zero' in out)
            if not ok:
                key = KNOWN_S2 if (op, a, b) == ('imod', 32768, 65535) and text.split() == [b'0'] else \
                    'basic:%s:%d:%d' % (op, s16(a), s16(b))
                ctx.fail(key, {'op': op, 'a': a, 'b': b, 'level': 'basic'},
                         'PRINT A%% %s B%% with A%%=%d B%%=%d printed %r, expected %s'
                         % (names[op], s16(a), s16(b), out, exp))
        # operands just outside the accepted range
        for lit, want in ((b'32768!', b'Overflow'), (b'-32769!', b'Overflow'), (b'65536!', b'Overflow'),
                          (b'1E10', b'Overflow')):
            for opn in (b'\\', b'MOD', b'AND', b'OR', b'XOR', b'EQV', b'IMP'):
                out = s.execute(b'PRINT 1 %s %s' % (opn, lit))
                ctx.case(('outside', opn, lit))
                if lit == b'32768!' and opn in (b'AND', b'OR', b'XOR', b'EQV', b'IMP'):
                    # statement: bitwise operators accept up to 65535 (S1)
                    if b'Overflow' in out:
                        ctx.fail('S1:unsigned-operand-overflow', {'expr': '1 %s 32768!' % opn.decode()},
                                 'bitwise operand 32768..65535 raises Overflow (operands are converted as signed)')
                    continue
                if want not in out:
                    ctx.fail('outside:%s:%s' % (opn.decode(), lit.decode()), {'expr': '1 %s %s' % (opn, lit)},
                             'expected Overflow, got %r' % out)
        # FOR loops with integer counters near the limits
        fuel = 12
        lines, cases, outs = [], [], []
        for _ in range(n_for):
            kind = rng.random()
            if kind < 0.5:
                start = rng.choice([32767, 32760, 32000, 30000, -32768, -32760, -30000, 0, 1, -1, 100])
                step = rng.choice([1, 2, 7, 255, 256, 1000, 30000, 32767, -1, -2, -255, -256, -1000, -30000, -32768, 0])
                stop = rng.choice([32767, 32766, -32768, -32767, 0, start, 20000, -20000])
            else:
                start, stop, step = (s16(rng.choice(bv)) for _ in range(3))
            prog = (b'10 K%%=0:FOR I%%=%d TO %d STEP %d\r20 PRINT I%%;:K%%=K%%+1:IF K%%>=%d THEN PRINT " fuel":END\r'
                    b'30 NEXT\r40 PRINT "end ";I%%\r' % (start, stop, step, fuel))
            s.execute(b'NEW')
            for l in prog.split(b'\r'):
                if l:
                    s.execute(l)
            out = s.execute(b'RUN')
            toks = out.replace(b'\xff', b' ').split()
            vals, status = [], None
            for i, t in enumerate(toks):
                if t == b'fuel':
                    status = 'fuel'
                    break
                if t == b'end':
                    status = 'end %d' % (int(toks[i + 1]) & 0xffff)
                    break
                if t == b'Overflow':
                    status = 'err 6'
                    break
                try:
                    vals.append(int(t) & 0xffff)
                except ValueError:
                    status = 'unparsed %r' % out
                    break
            impl_out = 'ok %s %s' % (','.join(map(str, vals)) or '-', status)
            cases.append(('for', start, stop, step))
            outs.append(impl_out)
            lines.append('for %d %d %d %d' % (fuel, start & 0xffff, stop & 0xffff, step & 0xffff))
            ctx.case(('for', start, stop, step))
            ctx.count('basic:for')
            ctx.count('for:' + (status or 'none').split()[0])
            # oracle: exact addition, Overflow exactly when leaving the range
            exp_vals, c = [], start
            empty = (start > stop) if step >= 0 else (stop > start)
            exp_status = None
            first = True
            while True:
                if not (empty and first):
                    if len(exp_vals) >= fuel:
                        exp_status = 'fuel'
                        break
                    exp_vals.append(c & 0xffff)
                    if len(exp_vals) >= fuel:
                        exp_status = 'fuel'
                        break
                first = False
                c += step
                if not -32768 <= c <= 32767:
                    exp_status = 'err 6'
                    break
                if (c > stop) if step > 0 else (stop > c):
                    exp_status = 'end %d' % (c & 0xffff)
                    break
            exp_out = 'ok %s %s' % (','.join(map(str, exp_vals)) or '-', exp_status)
            if impl_out != exp_out:
                ctx.fail('for:%d:%d:%d' % (start, stop, step), {'for': [start, stop, step], 'fuel': fuel},
                         'FOR I%%=%d TO %d STEP %d: got %s, expected %s' % (start, stop, step, impl_out, exp_out))
        ctx.compare(cases, outs, lines, label='for')
        if cases:
            ctx.sample({'for': cases[0], 'impl': outs[0]})


def run(ctx):
    translated.check_intbytes(ctx)
    translated.check_intdiv(ctx)
    impl = Impl()
    rng = ctx.rng
    bv = boundary_values()
    cases = []
    for op in BIN_OPS:
        for a in bv:
            for b in bv:
                cases.append((op, a, b))
    nrand = 20000 if ctx.quick else 2000000
    for _ in range(nrand):
        cases.append((rng.choice(BIN_OPS), rng.randrange(65536), rng.randrange(65536)))
    if ctx.quick:
        for op in UN_OPS:
            cases += [(op, a, None) for a in bv]
            cases += [(op, rng.randrange(65536), None) for _ in range(500)]
    else:
        for op in UN_OPS:
            cases += [(op, a, None) for a in range(65536)]
    ctx.log('%d value-level cases' % len(cases))
    for i in range(0, len(cases), 200000):
        check_cases(ctx, impl, cases[i:i + 200000])
    ctx.sample({'op': cases[0][0], 'a': cases[0][1], 'b': cases[0][2], 'impl': impl.call(*cases[0])})
    ctx.sample({'op': 'imod', 'a': 65529, 'b': 2, 'impl': impl.call('imod', 65529, 2)})
    basic_level(ctx, 600 if ctx.quick else 20000, 150 if ctx.quick else 3000)


def replay(ctx, payload):
    case = payload.get('case', {})
    impl = Impl()
    sub = Ctx2(ctx)
    if 'op' in case and case.get('level') == 'values':
        check_cases(sub, impl, [(case['op'], case['a'], case['b'])])
    else:
        # re-run the BASIC-level part deterministically with the recorded seed
        import random
        sub.rng = random.Random(payload.get('seed', 0))
        run(sub)
    hits = [f for f in sub.failures if f['key'] == payload.get('key')]
    return hits[0]['what'] if hits else None


class Ctx2(object):
    """thin proxy so replay can reuse run() without touching the outer evidence"""
    def __init__(self, ctx):
        self.__dict__.update(ctx.__dict__)
        self._ctx = ctx
        self.failures = []
        self.disagreements = []

    def __getattr__(self, name):
        return getattr(self._ctx.__class__, name).__get__(self)
