"""Generate lean/PcbV/Gen/Codepages.lean: box-drawing constants of codepage.py and the raw dicts of a few
representative single-byte codepage files (as read by data.codepages.read_codepage, clusters NFC-normalised
because NFC is a host function that the Lean model does not contain)."""
import unicodedata

from gen_tables import generator, HEADER, lean_list

PAGES = ('437', '850', '866')


def _entry(k, u):
    return '(%s, %s)' % (lean_list(bytearray(k)), lean_list(ord(c) for c in u))


@generator('Codepages')
def gen_codepages():
    import importlib
    cpmod = importlib.import_module('pcbasic.basic.codepage')
    from pcbasic.data.codepages import read_codepage
    out = [HEADER, 'namespace PcbV.Gen.Codepages\n']
    out.append('/-- `_BOX_LEFT_UNICODE` / `_BOX_RIGHT_UNICODE` as code-point strings -/')
    out.append('def boxLeft : List (List Nat) := %s'
               % lean_list(lean_list(ord(c) for c in s) for s in cpmod._BOX_LEFT_UNICODE))
    out.append('def boxRight : List (List Nat) := %s\n'
               % lean_list(lean_list(ord(c) for c in s) for s in cpmod._BOX_RIGHT_UNICODE))
    for name in PAGES:
        d = read_codepage(name)
        out.append('/-- read_codepage(%r), %d entries, dict order -/' % (name, len(d)))
        out.append('def cp%s : List (List Nat × List Nat) := [' % name)
        items = [_entry(k, unicodedata.normalize('NFC', u)) for k, u in d.items()]
        for i in range(0, len(items), 8):
            out.append('  ' + ', '.join(items[i:i + 8]) + (',' if i + 8 < len(items) else ''))
        out.append(']\n')
        # the effective code point of every byte (printable ASCII keeps its own character), as plain numbers,
        # and the code points that more than one byte maps to; the Lean side re-derives both from the dict
        eff = []
        for k, u in d.items():
            u = unicodedata.normalize('NFC', u)
            if len(k) != 1 or len(u) != 1:
                raise ValueError('codepage %s is not a plain single-byte table' % name)
            eff.append(k[0] if 0x20 <= k[0] < 0x7f else ord(u))
        dups = sorted(set(v for v in eff if eff.count(v) > 1))
        out.append('def cp%spairs : List (Nat × Nat) := %s\n'
                   % (name, lean_list('(%d, %d)' % (k[0], v) for k, v in zip(d, eff))))
        out.append('def cp%sdups : List Nat := %s\n' % (name, lean_list(dups)))
    out.append('end PcbV.Gen.Codepages\n')
    return '\n'.join(out)
