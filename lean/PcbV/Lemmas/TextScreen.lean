import PcbV.Model.TextScreen
/-
  Lemmas for C36: representation invariant of the text screen model and its preservation by every
  operation of PcbV.Model.TextScreen (PRINT path: `do_scroll_down = false`).
-/
namespace PcbV.TextScreen

/-- cursor-independent well-formedness -/
structure Geo (s : St) : Prop where
  w : s.width = 40 ∨ s.width = 80
  top1 : 1 ≤ s.top
  tb : s.top ≤ s.bottom
  b24 : s.bottom ≤ 24
  clen : s.chars.length = 25
  rlen : ∀ r ∈ s.chars, r.length = s.width
  wlen : s.wraps.length = 25
  /-- `ScrollArea.unset()` always restores rows 1..24 -/
  act : s.active = false → s.top = 1 ∧ s.bottom = 24
  /-- the theorems are about the adapters whose VIEW PRINT stops at row 24 (everything but Tandy/PCjr; the
      flag never changes) -/
  nt : s.tandy = false

/-- the representation invariant: the cursor is inside the scroll window, or on row 25 after `LOCATE 25,c`;
    a pending wrap (`overflow`) only exists on the last column -/
structure Inv (s : St) : Prop extends Geo s where
  col1 : 1 ≤ s.col
  colw : s.col ≤ s.width
  rowok : (s.top ≤ s.row ∧ s.row ≤ s.bottom ∧ s.bottomAllowed = false) ∨ (s.row = 25 ∧ s.bottomAllowed = true)
  ovf : s.overflow = true → s.col = s.width

theorem length_pyInsert (i : Nat) (x : α) (l : List α) : (pyInsert i x l).length = l.length + 1 := by
  simp [pyInsert]; omega

theorem length_pyDel (i : Nat) (l : List α) (h : i < l.length) : (pyDel i l).length = l.length - 1 := by
  simp [pyDel]; omega

theorem mem_pyInsert {i : Nat} {x y : α} {l : List α} (h : y ∈ pyInsert i x l) : y = x ∨ y ∈ l := by
  simp only [pyInsert, List.mem_append, List.mem_cons] at h
  rcases h with h | h | h
  · exact .inr (List.mem_of_mem_take h)
  · exact .inl h
  · exact .inr (List.mem_of_mem_drop h)

theorem mem_pyDel {i : Nat} {y : α} {l : List α} (h : y ∈ pyDel i l) : y ∈ l := by
  simp only [pyDel, List.mem_append] at h
  rcases h with h | h
  · exact List.mem_of_mem_take h
  · exact List.mem_of_mem_drop h

theorem length_blankRow (w : Nat) : (blankRow w).length = w := by simp [blankRow]

theorem length_ite_set (l : List α) (c : Prop) [Decidable c] (i : Nat) (v : α) :
    (if c then l.set i v else l).length = l.length := by split <;> simp

theorem length_scrollUpWraps (wr : List Bool) (a b : Nat) (h : a - 1 < wr.length + 1) :
    (scrollUpWraps wr a b).length = wr.length := by
  unfold scrollUpWraps
  simp only []
  rw [length_pyDel]
  · rw [length_ite_set, length_pyInsert]; omega
  · rw [length_ite_set, length_pyInsert]; exact h

theorem geo_scroll {s : St} (g : Geo s) : Geo (scroll s) := by
  have h1 : (scrollUpChars s.width s.chars s.top s.bottom).length = 25 := by
    unfold scrollUpChars
    rw [length_pyDel, length_pyInsert, g.clen]
    rw [length_pyInsert, g.clen]; have := g.tb; have := g.b24; omega
  have h2 : ∀ r ∈ scrollUpChars s.width s.chars s.top s.bottom, r.length = s.width := by
    intro r hr
    rcases mem_pyInsert (mem_pyDel hr) with h | h
    · rw [h, length_blankRow]
    · exact g.rlen r h
  have h3 : (scrollUpWraps s.wraps s.top s.bottom).length = 25 := by
    rw [length_scrollUpWraps, g.wlen]
    rw [g.wlen]; have := g.tb; have := g.b24; omega
  unfold scroll
  simp only []
  split <;> exact ⟨g.w, g.top1, g.tb, g.b24, h1, h2, h3, g.act, g.nt⟩

@[simp] theorem scroll_width (s : St) : (scroll s).width = s.width := by unfold scroll; simp only []; split <;> rfl
@[simp] theorem scroll_top (s : St) : (scroll s).top = s.top := by unfold scroll; simp only []; split <;> rfl
@[simp] theorem scroll_bottom (s : St) : (scroll s).bottom = s.bottom := by unfold scroll; simp only []; split <;> rfl
@[simp] theorem scroll_col (s : St) : (scroll s).col = s.col := by unfold scroll; simp only []; split <;> rfl
@[simp] theorem scroll_overflow (s : St) : (scroll s).overflow = s.overflow := by unfold scroll; simp only []; split <;> rfl
@[simp] theorem scroll_bottomAllowed (s : St) : (scroll s).bottomAllowed = s.bottomAllowed := by
  unfold scroll; simp only []; split <;> rfl
@[simp] theorem scroll_active (s : St) : (scroll s).active = s.active := by unfold scroll; simp only []; split <;> rfl
@[simp] theorem scroll_mode (s : St) : (scroll s).mode = s.mode := by unfold scroll; simp only []; split <;> rfl
@[simp] theorem scroll_colorswitch (s : St) : (scroll s).colorswitch = s.colorswitch := by
  unfold scroll; simp only []; split <;> rfl

theorem Geo.of_eq {s t : St} (g : Geo s) (h1 : t.width = s.width) (h2 : t.top = s.top) (h3 : t.bottom = s.bottom)
    (h4 : t.chars = s.chars) (h5 : t.wraps = s.wraps) (h6 : t.active = s.active)
    (h7 : t.tandy = s.tandy := by rfl) : Geo t :=
  ⟨h1 ▸ g.w, h2 ▸ g.top1, h2 ▸ h3 ▸ g.tb, h3 ▸ g.b24, h4 ▸ g.clen, h4 ▸ h1 ▸ g.rlen, h5 ▸ g.wlen,
   h6 ▸ h2 ▸ h3 ▸ g.act, h7 ▸ g.nt⟩

/-- column part of `_wrap_around_and_scroll_as_needed` -/
def wrapCol (s : St) (scrollOk : Bool) : St :=
  if s.col > s.width then
    if s.row < s.bottom ∨ scrollOk then
      { s with col := s.col - s.width, row := s.row + 1, overflow := false }
    else { s with col := s.width }
  else if s.col < 1 then
    if s.row > s.top then { s with col := s.col + s.width, row := s.row - 1 }
    else { s with col := 1 }
  else s

/-- row part of `_wrap_around_and_scroll_as_needed` -/
def wrapRow (s : St) (scrollOk : Bool) : St :=
  if s.row > s.bottom then
    let s := if scrollOk then scroll s else s
    { s with row := s.bottom }
  else if s.row < s.top then { s with row := s.top }
  else s

theorem wrapAround_eq (s : St) (ok : Bool) :
    wrapAround s ok =
      if s.bottomAllowed ∧ s.row = height then
        { s with col := if min s.width s.col < 1 then min s.width s.col + 1 else min s.width s.col }
      else wrapRow (wrapCol { s with bottomAllowed := false } ok) ok := rfl

theorem wrapCol_spec {s : St} (ok : Bool) (g : Geo s) (hc : s.col ≤ s.width + 1)
    (ho : s.overflow = true → s.width ≤ s.col) :
    Geo (wrapCol s ok) ∧ 1 ≤ (wrapCol s ok).col ∧ (wrapCol s ok).col ≤ (wrapCol s ok).width ∧
    ((wrapCol s ok).overflow = true → (wrapCol s ok).col = (wrapCol s ok).width) ∧
    (wrapCol s ok).bottomAllowed = s.bottomAllowed ∧ (wrapCol s ok).chars = s.chars ∧
    (wrapCol s ok).top = s.top ∧ (wrapCol s ok).bottom = s.bottom ∧ (wrapCol s ok).width = s.width := by
  have hw := g.w
  unfold wrapCol
  split
  · split
    · refine ⟨g.of_eq rfl rfl rfl rfl rfl rfl, ?_, ?_, ?_, rfl, rfl, rfl, rfl, rfl⟩ <;> simp only [] <;> first | omega | simp
    · refine ⟨g.of_eq rfl rfl rfl rfl rfl rfl, ?_, ?_, ?_, rfl, rfl, rfl, rfl, rfl⟩ <;> simp only [] <;> first | omega | simp
  · split
    · split
      · refine ⟨g.of_eq rfl rfl rfl rfl rfl rfl, ?_, ?_, ?_, rfl, rfl, rfl, rfl, rfl⟩ <;> simp only [] <;>
          first | omega | (intro h; have := ho h; omega)
      · refine ⟨g.of_eq rfl rfl rfl rfl rfl rfl, ?_, ?_, ?_, rfl, rfl, rfl, rfl, rfl⟩ <;> simp only [] <;>
          first | omega | (intro h; have := ho h; omega)
    · refine ⟨g, ?_, ?_, ?_, rfl, rfl, rfl, rfl, rfl⟩ <;> first | omega | (intro h; have := ho h; omega)

theorem wrapRow_spec {s : St} (ok : Bool) (g : Geo s) :
    Geo (wrapRow s ok) ∧ (wrapRow s ok).col = s.col ∧ (wrapRow s ok).width = s.width ∧
    (wrapRow s ok).overflow = s.overflow ∧ (wrapRow s ok).bottomAllowed = s.bottomAllowed ∧
    (wrapRow s ok).top = s.top ∧ (wrapRow s ok).bottom = s.bottom ∧
    s.top ≤ (wrapRow s ok).row ∧ (wrapRow s ok).row ≤ s.bottom := by
  have h2 := g.tb
  unfold wrapRow
  split
  · cases ok
    · exact ⟨g.of_eq rfl rfl rfl rfl rfl rfl, rfl, rfl, rfl, rfl, rfl, rfl, h2, Nat.le_refl _⟩
    · simp only [if_true]
      refine ⟨(geo_scroll g).of_eq rfl rfl rfl rfl rfl rfl, ?_, ?_, ?_, ?_, ?_, ?_, ?_, ?_⟩ <;> simp <;> omega
  · split
    · exact ⟨g.of_eq rfl rfl rfl rfl rfl rfl, rfl, rfl, rfl, rfl, rfl, rfl, Nat.le_refl _, h2⟩
    · refine ⟨g, rfl, rfl, rfl, rfl, rfl, rfl, ?_, ?_⟩ <;> omega

theorem wrapCol_geo {s : St} (ok : Bool) (g : Geo s) : Geo (wrapCol s ok) := by
  unfold wrapCol
  split
  · split <;> exact g.of_eq rfl rfl rfl rfl rfl rfl
  · split
    · split <;> exact g.of_eq rfl rfl rfl rfl rfl rfl
    · exact g

/-- `_wrap_around_and_scroll_as_needed` establishes the cursor invariant from any row and any column
    `0 ≤ col ≤ width + 1` -/
theorem inv_wrapAround {s : St} (ok : Bool) (g : Geo s) (hc : s.col ≤ s.width + 1)
    (ho : s.overflow = true → s.width ≤ s.col) : Inv (wrapAround s ok) := by
  have hw := g.w
  rw [wrapAround_eq]
  have hh : height = 25 := rfl
  by_cases hb : s.bottomAllowed = true ∧ s.row = height
  · rw [if_pos hb]
    refine { toGeo := g.of_eq rfl rfl rfl rfl rfl rfl, col1 := ?_, colw := ?_, rowok := ?_, ovf := ?_ }
    · simp only []; split <;> omega
    · simp only []; split <;> omega
    · exact .inr ⟨hh ▸ hb.2, hb.1⟩
    · simp only []; intro h; have := ho h; split <;> omega
  · rw [if_neg hb]
    obtain ⟨g1, c1, c2, c3, ba1, _, t1, t2, w1⟩ :=
      wrapCol_spec (s := { s with bottomAllowed := false }) ok (g.of_eq rfl rfl rfl rfl rfl rfl) hc ho
    obtain ⟨g2, d1, d2, d3, d5, _, d6, d7, d8⟩ := wrapRow_spec (s := wrapCol { s with bottomAllowed := false } ok) ok g1
    refine { toGeo := g2, col1 := ?_, colw := ?_, rowok := ?_, ovf := ?_ }
    · omega
    · omega
    · left; refine ⟨by omega, by omega, ?_⟩; rw [d5, ‹(wrapCol _ ok).bottomAllowed = _›]
    · rw [d3, d1, d2]; exact c3

theorem getElem?_pyInsert (b : Nat) (x : α) (l : List α) (hb : b ≤ l.length) (i : Nat) :
    (pyInsert b x l)[i]? = if i < b then l[i]? else if i = b then some x else l[i - 1]? := by
  unfold pyInsert
  rw [List.getElem?_append]
  simp only [List.length_take, Nat.min_eq_left hb]
  split
  · rw [List.getElem?_take]; simp [*]
  · rename_i h
    split
    · subst_vars; simp
    · have : i - b = (i - b - 1) + 1 := by omega
      rw [this, List.getElem?_cons_succ, List.getElem?_drop]
      congr 1; omega

theorem getElem?_pyDel (a : Nat) (l : List α) (i : Nat) :
    (pyDel a l)[i]? = if i < a then l[i]? else l[i + 1]? := by
  unfold pyDel
  rw [List.getElem?_append]
  simp only [List.length_take]
  by_cases ha : a ≤ l.length
  · rw [Nat.min_eq_left ha]
    split
    · rw [List.getElem?_take]; simp [*]
    · rw [List.getElem?_drop]; congr 1; omega
  · have ha' : l.length ≤ a := by omega
    rw [Nat.min_eq_right ha']
    split
    · rename_i h; rw [List.getElem?_take]; have : i < a := by omega
      simp [this]
    · rename_i h
      rw [List.getElem?_drop]
      have h1 : l[a + 1 + (i - l.length)]? = none := by apply List.getElem?_eq_none; omega
      rw [h1]
      split
      · symm; apply List.getElem?_eq_none; omega
      · symm; apply List.getElem?_eq_none; omega


/-! ### frames: what output inside the window can change -/

/-- rows (0-based index `i`, row number `i+1`) outside `[top, bottom]` are the same -/
def SameOutside (top bottom : Nat) (a b : List (List Nat)) : Prop :=
  ∀ i, (i + 1 < top ∨ bottom < i + 1) → a[i]? = b[i]?

/-- `t` was obtained from `s` by output confined to the scroll window -/
structure Win (s t : St) : Prop where
  ba : t.bottomAllowed = false
  width : t.width = s.width
  top : t.top = s.top
  bottom : t.bottom = s.bottom
  active : t.active = s.active
  mode : t.mode = s.mode
  out : SameOutside s.top s.bottom t.chars s.chars

theorem Win.refl {s : St} (h : s.bottomAllowed = false) : Win s s := ⟨h, rfl, rfl, rfl, rfl, rfl, fun _ _ => rfl⟩

theorem Win.trans {s t u : St} (a : Win s t) (b : Win t u) : Win s u :=
  ⟨b.ba, b.width.trans a.width, b.top.trans a.top, b.bottom.trans a.bottom, b.active.trans a.active,
   b.mode.trans a.mode, fun i hi => (b.out i (by rw [a.top, a.bottom]; exact hi)).trans (a.out i hi)⟩

/-- same text, same geometry -/
theorem Win.of_eq {s t : St} (hb : t.bottomAllowed = false) (h1 : t.width = s.width) (h2 : t.top = s.top)
    (h3 : t.bottom = s.bottom) (h4 : t.active = s.active) (h5 : t.mode = s.mode) (h6 : t.chars = s.chars) :
    Win s t := ⟨hb, h1, h2, h3, h4, h5, fun _ _ => by rw [h6]⟩

theorem scrollUp_outside (w : Nat) (ch : List (List Nat)) (top bottom : Nat) (h1 : 1 ≤ top) (h2 : top ≤ bottom)
    (h3 : bottom ≤ ch.length) : SameOutside top bottom (scrollUpChars w ch top bottom) ch := by
  intro i hi
  unfold scrollUpChars
  rw [getElem?_pyDel, getElem?_pyInsert _ _ _ h3, getElem?_pyInsert _ _ _ h3]
  rcases hi with hi | hi
  · have a : i < top - 1 := by omega
    have b : i < bottom := by omega
    simp [a, b]
  · have a : ¬ i < top - 1 := by omega
    have b : ¬ i + 1 < bottom := by omega
    have c : ¬ i + 1 = bottom := by omega
    simp [a, b, c]

theorem win_scroll {s : St} (g : Geo s) (hb : s.bottomAllowed = false) : Win s (scroll s) := by
  refine ⟨by simp [hb], by simp, by simp, by simp, by simp, by simp, ?_⟩
  have := scrollUp_outside s.width s.chars s.top s.bottom g.top1 g.tb (by have := g.b24; have := g.clen; omega)
  unfold scroll
  simp only []
  split <;> exact this

theorem win_wrapCol {s : St} (ok : Bool) (hb : s.bottomAllowed = false) : Win s (wrapCol s ok) := by
  unfold wrapCol
  split
  · split <;> exact Win.of_eq hb rfl rfl rfl rfl rfl rfl
  · split
    · split <;> exact Win.of_eq hb rfl rfl rfl rfl rfl rfl
    · exact Win.refl hb

theorem win_wrapRow {s : St} (ok : Bool) (g : Geo s) (hb : s.bottomAllowed = false) : Win s (wrapRow s ok) := by
  unfold wrapRow
  split
  · cases ok
    · exact Win.of_eq hb rfl rfl rfl rfl rfl rfl
    · have w := win_scroll g hb
      exact ⟨w.ba, w.width, w.top, w.bottom, w.active, w.mode, w.out⟩
  · split
    · exact Win.of_eq hb rfl rfl rfl rfl rfl rfl
    · exact Win.refl hb

theorem win_wrapAround {s : St} (ok : Bool) (g : Geo s) (hb : s.bottomAllowed = false) :
    Win s (wrapAround s ok) := by
  rw [wrapAround_eq, if_neg (by simp [hb])]
  have e : ({ s with bottomAllowed := false } : St) = s := by cases s; simp_all
  rw [e]
  exact (win_wrapCol ok hb).trans
    (win_wrapRow ok (wrapCol_geo ok g) ((win_wrapCol ok hb).ba))


/-- `_wrap_around_and_scroll_as_needed` never creates a pending wrap -/
theorem wrapAround_overflow_of (s : St) (ok : Bool) (h : (wrapAround s ok).overflow = true) : s.overflow = true := by
  rw [wrapAround_eq] at h
  split at h
  · exact h
  · have e2 : ∀ u : St, (wrapRow u ok).overflow = u.overflow := by
      intro u; unfold wrapRow; split
      · cases ok <;> simp
      · split <;> rfl
    rw [e2] at h
    unfold wrapCol at h
    split at h
    · split at h
      · simp at h
      · exact h
    · split at h
      · split at h <;> exact h
      · exact h

/-! ### set_pos, consume overflow, write_char -/

theorem inv_setPos {s : St} (r c : Nat) (ok : Bool) (g : Geo s) (hc : c ≤ s.width + 1) :
    Inv (setPos s r c ok) := by
  unfold setPos
  simp only []
  split
  · exact inv_wrapAround ok (g.of_eq rfl rfl rfl rfl rfl rfl) hc (by simp)
  · rename_i h
    exact inv_wrapAround ok (g.of_eq rfl rfl rfl rfl rfl rfl) hc (by intro _; simp only []; omega)

theorem win_setPos {s : St} (r c : Nat) (ok : Bool) (g : Geo s) (hb : s.bottomAllowed = false) :
    Win s (setPos s r c ok) := by
  have key : ∀ u : St, Geo u → u.bottomAllowed = false → u.width = s.width → u.top = s.top →
      u.bottom = s.bottom → u.active = s.active → u.mode = s.mode → u.chars = s.chars →
      Win s (wrapAround u ok) :=
    fun u gu hu a b c d e f => (Win.of_eq hu a b c d e f).trans (win_wrapAround ok gu hu)
  unfold setPos
  simp only []
  split
  · exact key _ (g.of_eq rfl rfl rfl rfl rfl rfl) hb rfl rfl rfl rfl rfl rfl
  · exact key _ (g.of_eq rfl rfl rfl rfl rfl rfl) hb rfl rfl rfl rfl rfl rfl

theorem geo_setWrap {s : St} (r : Nat) (v : Bool) (g : Geo s) : Geo (setWrap s r v) :=
  ⟨g.w, g.top1, g.tb, g.b24, g.clen, g.rlen, by simp [setWrap, g.wlen], g.act, g.nt⟩

/-- `_consume_overflow_before_write(False)`: a definite column, no pending wrap, same text -/
theorem consumeOverflow_spec {s : St} (i : Inv s) :
    let t := consumeOverflow s false
    Geo t ∧ 1 ≤ t.col ∧ t.col ≤ t.width ∧ t.overflow = false ∧ t.chars = s.chars ∧
    t.bottomAllowed = s.bottomAllowed ∧ t.width = s.width ∧ t.top = s.top ∧ t.bottom = s.bottom ∧
    t.active = s.active ∧ t.mode = s.mode := by
  have hw := i.w; have c1 := i.col1; have c2 := i.colw; have ho := i.ovf
  unfold consumeOverflow
  simp only [Bool.false_eq_true, false_and, if_false]
  by_cases h : s.overflow = true
  · have := ho h
    simp only [h, if_true]
    rw [if_pos (by omega)]
    split
    · split
      · refine ⟨(geo_setWrap _ _ (i.toGeo.of_eq rfl rfl rfl rfl rfl rfl)).of_eq rfl rfl rfl rfl rfl rfl, ?_⟩
        simp [setWrap]; omega
      · refine ⟨i.toGeo.of_eq rfl rfl rfl rfl rfl rfl, ?_⟩
        simp; omega
    · refine ⟨i.toGeo.of_eq rfl rfl rfl rfl rfl rfl, ?_⟩
      simp; omega
  · have h' : s.overflow = false := by simpa using h
    simp only [h', Bool.false_eq_true, if_false]
    rw [if_neg (by omega)]
    exact ⟨i.toGeo, c1, c2, h', rfl, rfl, rfl, rfl, rfl, rfl, rfl⟩

theorem length_putCell (ch : List (List Nat)) (r c v : Nat) : (putCell ch r c v).length = ch.length := by
  simp [putCell]

theorem getElem?_putCell (ch : List (List Nat)) (r c v i : Nat) :
    (putCell ch r c v)[i]? = if r - 1 = i then (ch[i]?).map (fun rw => rw.set (c - 1) v) else ch[i]? := by
  by_cases h : r - 1 = i <;> simp [putCell, h]

theorem rlen_putCell {ch : List (List Nat)} {w : Nat} (h : ∀ x ∈ ch, x.length = w) (r c v : Nat) :
    ∀ x ∈ putCell ch r c v, x.length = w := by
  intro x hx
  obtain ⟨i, hi⟩ := List.mem_iff_getElem?.mp hx
  rw [getElem?_putCell] at hi
  split at hi
  · cases hc : ch[i]? with
    | none => simp [hc] at hi
    | some y =>
      simp [hc] at hi
      rw [← hi, List.length_set]
      exact h y (List.mem_of_getElem? hc)
  · exact h x (List.mem_of_getElem? hi)

theorem geo_put {s : St} (g : Geo s) (r c v : Nat) : Geo { s with chars := putCell s.chars r c v } :=
  ⟨g.w, g.top1, g.tb, g.b24, by simp [length_putCell, g.clen], rlen_putCell g.rlen r c v, g.wlen, g.act, g.nt⟩

theorem putCell_outside {ch : List (List Nat)} {top bottom r : Nat} (h1 : top ≤ r) (h2 : r ≤ bottom) (h0 : 1 ≤ top)
    (c v : Nat) : SameOutside top bottom (putCell ch r c v) ch := by
  intro i hi
  rw [getElem?_putCell, if_neg (by omega)]

/-- the middle of `write_char`: put the character, advance -/
def putAdvance (s : St) (ch : Nat) : St :=
  let s := { s with chars := putCell s.chars s.row s.col ch }
  if s.col < s.width then { s with col := s.col + 1 }
  else if getWrap s s.row then { s with row := s.row + 1, col := 1 }
  else { s with overflow := true }

theorem writeChar_eq (s : St) (ch : Nat) (d : Bool) :
    writeChar s ch d = wrapAround (putAdvance (wrapAround (consumeOverflow s d) true) ch) true := rfl

theorem putAdvance_spec {s : St} (i : Inv s) (ho : s.overflow = false) (ch : Nat) :
    let t := putAdvance s ch
    Geo t ∧ t.col ≤ t.width + 1 ∧ (t.overflow = true → t.width ≤ t.col) ∧
    t.bottomAllowed = s.bottomAllowed ∧ t.width = s.width ∧ t.top = s.top ∧ t.bottom = s.bottom ∧
    t.active = s.active ∧ t.mode = s.mode ∧ t.chars = putCell s.chars s.row s.col ch := by
  have c2 := i.colw
  unfold putAdvance
  simp only []
  split
  · exact ⟨(geo_put i.toGeo _ _ _).of_eq rfl rfl rfl rfl rfl rfl, by simp only []; omega, by simp [ho], rfl, rfl, rfl, rfl, rfl, rfl, rfl⟩
  · split
    · exact ⟨(geo_put i.toGeo _ _ _).of_eq rfl rfl rfl rfl rfl rfl, by simp only []; omega, by simp [ho], rfl, rfl, rfl, rfl, rfl, rfl, rfl⟩
    · exact ⟨(geo_put i.toGeo _ _ _).of_eq rfl rfl rfl rfl rfl rfl, by simp only []; omega, by simp only []; omega, rfl, rfl, rfl, rfl, rfl, rfl, rfl⟩

theorem inv_writeChar {s : St} (i : Inv s) (ch : Nat) : Inv (writeChar s ch false) := by
  rw [writeChar_eq]
  obtain ⟨g1, a1, a2, a3, _⟩ := consumeOverflow_spec i
  have i2 := inv_wrapAround true g1 (by omega) (by simp [a3])
  have o2 : (wrapAround (consumeOverflow s false) true).overflow = false := by
    cases h : (wrapAround (consumeOverflow s false) true).overflow
    · rfl
    · exact absurd (wrapAround_overflow_of _ _ h) (by simp [a3])
  obtain ⟨g3, b1, b2, _⟩ := putAdvance_spec i2 o2 ch
  exact inv_wrapAround true g3 b1 b2

theorem win_writeChar {s : St} (i : Inv s) (hb : s.bottomAllowed = false) (ch : Nat) :
    Win s (writeChar s ch false) := by
  rw [writeChar_eq]
  obtain ⟨g1, a1, a2, a3, a4, a5, a6, a7, a8, a9, a10⟩ := consumeOverflow_spec i
  have w1 : Win s (consumeOverflow s false) := Win.of_eq (a5.trans hb) a6 a7 a8 a9 a10 a4
  have i2 := inv_wrapAround true g1 (by omega) (by simp [a3])
  have w2 := win_wrapAround true g1 w1.ba
  have o2 : (wrapAround (consumeOverflow s false) true).overflow = false := by
    cases h : (wrapAround (consumeOverflow s false) true).overflow
    · rfl
    · exact absurd (wrapAround_overflow_of _ _ h) (by simp [a3])
  obtain ⟨g3, b1, b2, b3, b4, b5, b6, b7, b8, b9⟩ := putAdvance_spec i2 o2 ch
  have inwin : (wrapAround (consumeOverflow s false) true).top ≤ (wrapAround (consumeOverflow s false) true).row ∧
      (wrapAround (consumeOverflow s false) true).row ≤ (wrapAround (consumeOverflow s false) true).bottom := by
    rcases i2.rowok with h | h
    · exact ⟨h.1, h.2.1⟩
    · rw [w2.ba] at h; exact absurd h.2 (by simp)
  have w3 : Win (wrapAround (consumeOverflow s false) true) (putAdvance (wrapAround (consumeOverflow s false) true) ch) :=
    ⟨b3.trans w2.ba, b4, b5, b6, b7, b8, by rw [b9]; exact putCell_outside inwin.1 inwin.2 i2.top1 _ _⟩
  exact (w1.trans w2).trans (w3.trans (win_wrapAround true g3 w3.ba))

theorem inv_writeChars {s : St} (i : Inv s) (l : List Nat) : Inv (writeChars s l false) := by
  unfold writeChars
  induction l generalizing s with
  | nil => exact i
  | cons c cs ih => exact ih (inv_writeChar i c)

theorem win_writeChars {s : St} (i : Inv s) (hb : s.bottomAllowed = false) (l : List Nat) :
    Win s (writeChars s l false) := by
  unfold writeChars
  induction l generalizing s with
  | nil => exact Win.refl hb
  | cons c cs ih =>
    have w := win_writeChar i hb c
    exact w.trans (ih (inv_writeChar i c) w.ba)

/-! ### clearing -/

theorem length_clearRowsChars (w : Nat) (ch : List (List Nat)) (a b : Nat) :
    (clearRowsChars w ch a b).length = ch.length := by
  simp [clearRowsChars]; omega

theorem length_clearRowsWraps (wr : List Bool) (a b : Nat) : (clearRowsWraps wr a b).length = wr.length := by
  simp [clearRowsWraps]; omega

theorem rlen_clearRowsChars {w : Nat} {ch : List (List Nat)} (h : ∀ x ∈ ch, x.length = w) (a b : Nat) :
    ∀ x ∈ clearRowsChars w ch a b, x.length = w := by
  intro x hx
  simp only [clearRowsChars, List.mem_append, List.mem_map] at hx
  rcases hx with (hx | ⟨_, _, hx⟩) | hx
  · exact h x (List.mem_of_mem_take hx)
  · rw [← hx, length_blankRow]
  · exact h x (List.mem_of_mem_drop hx)

theorem geo_clearRows {s : St} (g : Geo s) (a b : Nat) : Geo (clearRows s a b) :=
  ⟨g.w, g.top1, g.tb, g.b24, by simp [clearRows, length_clearRowsChars, g.clen],
   rlen_clearRowsChars g.rlen a b, by simp [clearRows, length_clearRowsWraps, g.wlen], g.act, g.nt⟩

theorem clearRows_outside (w : Nat) (ch : List (List Nat)) (a b : Nat) (h1 : 1 ≤ a) (h2 : a ≤ b) (h3 : b ≤ ch.length) :
    SameOutside a b (clearRowsChars w ch a b) ch := by
  intro i hi
  unfold clearRowsChars
  rcases hi with hi | hi
  · rw [List.append_assoc, List.getElem?_append_left (by simp; omega), List.getElem?_take, if_pos (by omega)]
  · rw [List.getElem?_append_right (by simp; omega)]
    simp only [List.length_append, List.length_take, List.length_map, List.length_drop]
    rw [List.getElem?_drop]
    congr 1
    omega

theorem inv_clearView {s : St} (g : Geo s) : Inv (clearView s) :=
  inv_setPos _ _ _ (geo_clearRows g _ _) (by simp [clearRows])

theorem win_clearView {s : St} (g : Geo s) (hb : s.bottomAllowed = false) : Win s (clearView s) := by
  have w1 : Win s (clearRows s s.top s.bottom) :=
    ⟨hb, rfl, rfl, rfl, rfl, rfl,
     clearRows_outside s.width s.chars s.top s.bottom g.top1 g.tb (by have := g.b24; have := g.clen; omega)⟩
  exact w1.trans (win_setPos _ _ _ (geo_clearRows g _ _) hb)

theorem inv_clearAll {s : St} (g : Geo s) : Inv (clearAll s) :=
  inv_setPos _ _ _ (geo_clearRows g _ _) (by simp [clearRows])

theorem inv_newline {s : St} (g : Geo s) (wrap : Bool) : Inv (newline s wrap) :=
  inv_setPos _ _ _ (geo_setWrap _ _ g) (by simp [setWrap])

theorem win_newline {s : St} (g : Geo s) (hb : s.bottomAllowed = false) (wrap : Bool) : Win s (newline s wrap) :=
  (Win.of_eq (s := s) (t := setWrap s s.row wrap) hb rfl rfl rfl rfl rfl rfl).trans
    (win_setPos _ _ _ (geo_setWrap _ _ g) hb)

/-! ### Console.write -/

theorem inv_consoleByte {s : St} (i : Inv s) (c : Nat) : Inv (consoleByte s c) := by
  have hw := i.w; have c2 := i.colw
  unfold consoleByte
  split; · exact inv_writeChars i _
  split; · exact inv_newline i.toGeo _
  split; · exact i
  split; · exact inv_setPos _ _ _ i.toGeo (by omega)
  split; · exact inv_clearView i.toGeo
  split; · exact inv_setPos _ _ _ i.toGeo (by omega)
  split; · exact inv_setPos _ _ _ i.toGeo (by omega)
  split; · exact inv_setPos _ _ _ i.toGeo (by omega)
  split; · exact inv_setPos _ _ _ i.toGeo (by omega)
  exact inv_writeChar i c

theorem win_consoleByte {s : St} (i : Inv s) (hb : s.bottomAllowed = false) (c : Nat) : Win s (consoleByte s c) := by
  unfold consoleByte
  split; · exact win_writeChars i hb _
  split; · exact win_newline i.toGeo hb _
  split; · exact Win.refl hb
  split; · exact win_setPos _ _ _ i.toGeo hb
  split; · exact win_clearView i.toGeo hb
  split; · exact win_setPos _ _ _ i.toGeo hb
  split; · exact win_setPos _ _ _ i.toGeo hb
  split; · exact win_setPos _ _ _ i.toGeo hb
  split; · exact win_setPos _ _ _ i.toGeo hb
  exact win_writeChar i hb c

theorem inv_setWrap {s : St} (i : Inv s) (r : Nat) (v : Bool) : Inv (setWrap s r v) :=
  { toGeo := geo_setWrap r v i.toGeo, col1 := i.col1, colw := i.colw, rowok := i.rowok, ovf := i.ovf }

theorem inv_foldl_consoleByte {s : St} (i : Inv s) (l : List Nat) : Inv (l.foldl consoleByte s) := by
  induction l generalizing s with
  | nil => exact i
  | cons c cs ih => exact ih (inv_consoleByte i c)

theorem win_foldl_consoleByte {s : St} (i : Inv s) (hb : s.bottomAllowed = false) (l : List Nat) :
    Win s (l.foldl consoleByte s) := by
  induction l generalizing s with
  | nil => exact Win.refl hb
  | cons c cs ih =>
    have w := win_consoleByte i hb c
    exact w.trans (ih (inv_consoleByte i c) w.ba)

theorem inv_consoleWrite {s : St} (i : Inv s) (l : List Nat) : Inv (consoleWrite s l) := by
  unfold consoleWrite
  split
  · exact i
  · exact inv_foldl_consoleByte (inv_setWrap i _ _) l

theorem win_consoleWrite {s : St} (i : Inv s) (hb : s.bottomAllowed = false) (l : List Nat) :
    Win s (consoleWrite s l) := by
  unfold consoleWrite
  split
  · exact Win.refl hb
  · exact (Win.of_eq (s := s) (t := setWrap s s.row false) hb rfl rfl rfl rfl rfl rfl).trans
      (win_foldl_consoleByte (inv_setWrap i _ _) hb l)

/-! ### SCRN: and PRINT -/

theorem inv_scrnLoop {s : St} (i : Inv s) (out l : List Nat) : Inv (scrnLoop s out l) := by
  induction l generalizing s out with
  | nil => exact inv_consoleWrite i out
  | cons c cs ih =>
    unfold scrnLoop
    by_cases h : s.col > s.width <;> by_cases hc : c = 10 ∨ c = 13 <;> simp only [h, hc, ↓reduceIte]
    · exact ih (inv_consoleWrite (inv_consoleWrite i _) _) _
    · exact ih (inv_consoleWrite i _) _
    · exact ih (inv_consoleWrite i _) _
    · exact ih i _

theorem win_scrnLoop {s : St} (i : Inv s) (hb : s.bottomAllowed = false) (out l : List Nat) :
    Win s (scrnLoop s out l) := by
  induction l generalizing s out with
  | nil => exact win_consoleWrite i hb out
  | cons c cs ih =>
    unfold scrnLoop
    have w1 := win_consoleWrite i hb (out ++ [13])
    have i1 := inv_consoleWrite i (out ++ [13])
    by_cases h : s.col > s.width <;> by_cases hc : c = 10 ∨ c = 13 <;> simp only [h, hc, ↓reduceIte]
    · have w2 := win_consoleWrite i1 w1.ba ([] ++ [c])
      exact (w1.trans w2).trans (ih (inv_consoleWrite i1 _) w2.ba _)
    · exact w1.trans (ih i1 w1.ba _)
    · have w2 := win_consoleWrite i hb (out ++ [c])
      exact w2.trans (ih (inv_consoleWrite i _) w2.ba _)
    · exact ih i hb _

theorem inv_scrnWrite {s : St} (i : Inv s) (l : List Nat) : Inv (scrnWrite s l) := by
  unfold scrnWrite
  split
  · exact i
  · simp only []
    split
    · exact inv_scrnLoop (inv_consoleWrite i _) _ _
    · exact inv_scrnLoop i _ _

theorem win_scrnWrite {s : St} (i : Inv s) (hb : s.bottomAllowed = false) (l : List Nat) : Win s (scrnWrite s l) := by
  unfold scrnWrite
  split
  · exact Win.refl hb
  · simp only []
    split
    · have w := win_consoleWrite i hb [13]
      exact w.trans (win_scrnLoop (inv_consoleWrite i _) w.ba _ _)
    · exact win_scrnLoop i hb _ _

theorem inv_printStr {s : St} (i : Inv s) (l : List Nat) (nl : Bool) : Inv (printStr s l nl) := by
  unfold printStr
  simp only []
  split
  · split
    · exact inv_consoleWrite (inv_consoleWrite (inv_scrnWrite i l) _) _
    · exact inv_consoleWrite (inv_scrnWrite i l) _
  · exact inv_scrnWrite i l

theorem win_printStr {s : St} (i : Inv s) (hb : s.bottomAllowed = false) (l : List Nat) (nl : Bool) :
    Win s (printStr s l nl) := by
  have w0 := win_scrnWrite i hb l
  have i0 := inv_scrnWrite i l
  unfold printStr
  simp only []
  split
  · split
    · have w1 := win_consoleWrite i0 w0.ba [13]
      exact (w0.trans w1).trans (win_consoleWrite (inv_consoleWrite i0 _) w1.ba [13])
    · exact w0.trans (win_consoleWrite i0 w0.ba [13])
  · exact w0

/-! ### error message, statements -/

theorem inv_startLine {s : St} (i : Inv s) : Inv (startLine s) := by
  have hw := i.w
  unfold startLine
  simp only []
  split
  · exact inv_setWrap (inv_setPos _ _ _ i.toGeo (by omega)) _ _
  · exact inv_setWrap i _ _

theorem inv_printError {s : St} (i : Inv s) : Inv (printError s) :=
  inv_consoleWrite (inv_consoleWrite (inv_consoleWrite (inv_startLine i) _) _) _

theorem inRange_iff (lo hi v : Int) : inRange lo hi v = true ↔ lo ≤ v ∧ v ≤ hi := by
  simp [inRange]

theorem inv_locate {s t : St} (i : Inv s) (r c : Option Int) (h : locate s r c = .ok t) : Inv t := by
  have hw := i.w
  unfold locate at h
  simp only [] at h
  by_cases h1 : (if s.active = true then inRange ↑s.top ↑s.bottom (r.getD ↑s.row)
      else inRange 1 ↑height (r.getD ↑s.row)) = true
  · by_cases h2 : inRange 1 ↑s.width (c.getD ↑s.col) = true
    · rw [if_neg (by simp [h1]), if_neg (by simp [h2])] at h
      injection h with h
      subst h
      have h2' := (inRange_iff _ _ _).mp h2
      apply inv_setPos
      · split <;> split <;> exact i.toGeo.of_eq rfl rfl rfl rfl rfl rfl
      · have e : ∀ u : St, u.width = s.width → (c.getD (s.col : Int)).toNat ≤ u.width + 1 := by
          intro u hu; rw [hu]; omega
        split <;> split <;> exact e _ rfl
    · rw [if_neg (by simp [h1]), if_pos (by simp [h2])] at h
      cases h
  · rw [if_pos (by simp [h1])] at h
    cases h

theorem inv_viewPrint {s t : St} (i : Inv s) (a : Option (Int × Int)) (h : viewPrint s a = .ok t) : Inv t := by
  have hw := i.w
  unfold viewPrint at h
  simp only [i.nt, Bool.false_eq_true, if_false] at h
  split at h
  · injection h with h
    subst h
    refine { toGeo := ⟨i.w, by simp, by simp [height], by simp [height], i.clen, i.rlen, i.wlen, by simp [height], by first | rfl | exact i.nt⟩, col1 := i.col1,
             colw := i.colw, rowok := ?_, ovf := i.ovf }
    rcases i.rowok with h | h
    · left
      have := i.top1; have := i.b24
      exact ⟨by simp only []; omega, by simp only [height]; omega, h.2.2⟩
    · exact .inr h
  · rename_i tt bb
    by_cases h1 : (inRange 1 24 tt && inRange 1 24 bb) = true
    · by_cases h2 : bb < tt
      · rw [if_neg (by simp [h1]), if_pos h2] at h
        cases h
      · rw [if_neg (by simp [h1]), if_neg h2] at h
        injection h with h
        subst h
        simp only [Bool.and_eq_true, inRange_iff] at h1
        refine { toGeo := ⟨i.w, ?_, ?_, ?_, i.clen, i.rlen, i.wlen, by simp, by first | rfl | exact i.nt⟩, col1 := ?_, colw := ?_, rowok := ?_, ovf := ?_ }
          <;> simp only [] <;> try omega
        · left; exact ⟨by omega, by omega, trivial⟩
        · simp
    · rw [if_pos (by simp [h1])] at h
      cases h

theorem inv_cls {s : St} (i : Inv s) : Inv (cls s) := by
  unfold cls
  split
  · exact inv_clearView i.toGeo
  · have j := inv_clearAll i.toGeo
    exact { toGeo := geo_clearRows j.toGeo _ _, col1 := j.col1, colw := j.colw, rowok := j.rowok, ovf := j.ovf }

theorem length_blankChars (w : Nat) : (blankChars w).length = 25 := by simp [blankChars, height]
theorem rlen_blankChars (w : Nat) : ∀ x ∈ blankChars w, x.length = w := by
  intro x hx
  simp only [blankChars, List.mem_replicate] at hx
  rw [hx.2, length_blankRow]

theorem inv_resetMode (s : St) (m w : Nat) (hw : w = 40 ∨ w = 80) (hb : s.bottom ≤ 24) (ht : s.tandy = false) :
    Inv (resetMode s m w) := by
  unfold resetMode
  have hk : decide (s.bottom = height) = false := by
    have : s.bottom ≠ 25 := by omega
    simp [height, this]
  simp only [hk, Bool.false_eq_true, if_false]
  apply inv_setPos
  · exact ⟨hw, by simp, by simp [height], by simp [height], length_blankChars w, rlen_blankChars w,
      by simp [blankWraps, height], by simp [height], ht⟩
  · simp only []; omega

theorem graphicsWidth_ok : ∀ p ∈ Gen.TextModes.graphicsWidth, p.2 = 40 ∨ p.2 = 80 := by decide
theorem textWidths_ok : ∀ w ∈ Gen.TextModes.textWidths, w = 40 ∨ w = 80 := by decide

theorem lookup2_mem {l : List (Nat × Nat)} {k v : Nat} (h : lookup2 l k = some v) : ∃ p ∈ l, p.2 = v := by
  unfold lookup2 at h
  cases hf : l.find? (fun p => p.1 == k) with
  | none => simp [hf] at h
  | some p =>
    simp [hf] at h
    exact ⟨p, List.mem_of_find?_eq_some hf, h⟩

theorem modeWidth_ok {m cur w : Nat} (hc : cur = 40 ∨ cur = 80) (h : modeWidth m cur = some w) : w = 40 ∨ w = 80 := by
  unfold modeWidth at h
  split at h
  · injection h with h; rw [← h]; exact hc
  · obtain ⟨p, hp, e⟩ := lookup2_mem h
    rw [← e]; exact graphicsWidth_ok p hp

theorem inv_screenStmt {s t : St} (i : Inv s) (m : Nat) (h : screenStmt s m = .ok t) : Inv t := by
  unfold screenStmt at h
  split at h
  · cases h
  · rename_i w hm
    injection h with h
    subst h
    split
    · exact inv_resetMode _ _ _ (modeWidth_ok i.w hm) i.b24 i.nt
    · exact i

theorem lookup3_mem {l : List (Nat × Nat × Nat)} {k1 k2 v : Nat} (h : lookup3 l k1 k2 = some v) :
    ∃ q ∈ l, q.2.1 = k2 ∧ q.2.2 = v := by
  unfold lookup3 at h
  cases hf : l.find? (fun p => p.1 == k1 && p.2.1 == k2) with
  | none => simp [hf] at h
  | some q =>
    simp [hf] at h
    have := List.find?_some hf
    simp at this
    exact ⟨q, List.mem_of_find?_eq_some hf, this.2, h⟩

theorem toWidth_ok : ∀ q ∈ Gen.TextModes.toWidth, q.2.1 = 40 ∨ q.2.1 = 80 := by decide

theorem inv_widthStmt {s t : St} (i : Inv s) (w : Nat) (h : widthStmt s w = .ok t) : Inv t := by
  unfold widthStmt at h
  split at h
  · injection h with h; subst h; exact i
  · split at h
    · split at h
      · rename_i hc
        injection h with h; subst h
        exact inv_resetMode _ _ _ (textWidths_ok w (by simpa using hc)) i.b24 i.nt
      · cases h
    · cases hl : lookup3 Gen.TextModes.toWidth s.mode w with
      | none => simp [hl] at h
      | some m =>
        obtain ⟨q, hq, e1, _⟩ := lookup3_mem hl
        have hw : w = 40 ∨ w = 80 := e1 ▸ toWidth_ok q hq
        cases hm : modeWidth m w with
        | none => simp [hl, hm] at h
        | some w' =>
          simp only [hl, hm] at h
          injection h with h; subst h
          exact inv_resetMode _ _ _ (modeWidth_ok hw hm) i.b24 i.nt

theorem inv_orError {s : St} (i : Inv s) (r : R St) (h : ∀ t, r = .ok t → Inv t) : Inv (orError s r).1 := by
  cases r with
  | ok t => have := h t rfl; simpa [orError] using this
  | error e => have := inv_printError i; simpa [orError] using this

theorem inv_step {s : St} (i : Inv s) (op : Op) : Inv (step s op) := by
  unfold step stepE
  cases op with
  | print l nl => exact inv_printStr i l nl
  | locate r c => exact inv_orError i _ (fun t h => inv_locate i r c h)
  | cls => exact inv_cls i
  | viewPrint a => exact inv_orError i _ (fun t h => inv_viewPrint i a h)
  | width w => exact inv_orError i _ (fun t h => inv_widthStmt i w h)
  | screen m => exact inv_orError i _ (fun t h => inv_screenStmt i m h)
  | screenFn r c =>
    apply inv_orError i
    intro t h
    cases hs : screenFn s r c with
    | ok v => simp [hs, Except.map] at h; rw [← h]; exact i
    | error e => simp [hs, Except.map] at h

theorem inv_init : Inv init :=
  { toGeo := ⟨.inr rfl, Nat.le_refl 1, by decide, by decide, length_blankChars 80, rlen_blankChars 80,
              by simp [init, blankWraps, height], fun _ => ⟨rfl, rfl⟩, rfl⟩,
    col1 := Nat.le_refl 1, colw := by decide, rowok := .inl ⟨Nat.le_refl 1, by decide, rfl⟩,
    ovf := by intro h; cases h }

theorem inv_run {s : St} (i : Inv s) (ops : List Op) : Inv (run s ops) := by
  unfold run
  induction ops generalizing s with
  | nil => exact i
  | cons op rest ih => exact ih (inv_step i op)

end PcbV.TextScreen
