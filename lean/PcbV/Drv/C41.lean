import PcbV.Model.Codepage
namespace PcbV.Drv.C41
open PcbV PcbV.Codepage

def hexNumAux : List Char → Nat → Option Nat
  | [], acc => some acc
  | c :: r, acc => match hexVal c with
    | some v => hexNumAux r (16 * acc + v)
    | none => none

def hexNum (s : String) : Option Nat := if s.isEmpty then none else hexNumAux s.toList 0

def allSome : List (Option α) → Option (List α)
  | [] => some []
  | none :: _ => none
  | some x :: xs => (allSome xs).map (x :: ·)

/-- code points: hex numbers separated by '.', "-" for the empty string -/
def parseCps (s : String) : Option Cluster :=
  if s == "-" then some [] else allSome ((s.splitOn ".").map hexNum)

def showHexNum (n : Nat) : String := String.ofList (Nat.toDigits 16 n)

def showCps (u : Cluster) : String := if u.isEmpty then "-" else ".".intercalate (u.map showHexNum)

def canon (l : List Nat) : Bytes := (List.range 256).filter fun c => l.contains c

def mkPreds (lead trail bl0 bl1 br0 br1 pres : Bytes) : Preds :=
  { lead := fun c => lead.contains c
    trail := fun c => trail.contains c
    boxL := fun b c => if b = 0 then bl0.contains c else bl1.contains c
    boxR := fun b c => if b = 0 then br0.contains c else br1.contains c
    preserve := fun c => pres.contains c }

def parseChunk (s : String) : Option (Bytes × Bool) :=
  if s.endsWith "!" then (ofHex (s.dropEnd 1).toString).map fun b => (b, true)
  else (ofHex s).map fun b => (b, false)

def showSeqs (l : List Bytes) : String := if l.isEmpty then "." else ",".intercalate (l.map toHex)

def convOne (p : Preds) (dbcs box : Bool) (inp : String) : String :=
  match allSome ((inp.splitOn ",").map parseChunk) with
  | some chunks =>
    let r := convert p dbcs box {} chunks
    showSeqs r.2 ++ "|" ++ toHex r.1.buf
  | none => "bad"

def parseEntry (s : String) : Option (Bytes × Cluster) :=
  match s.splitOn ":" with
  | [k, u] => match ofHex k, parseCps u with
    | some k, some u => some (k, u)
    | _, _ => none
  | _ => none

def boolOf (s : String) : Bool := s == "1"

def query (cp : Cp) (q : String) : String :=
  match q.splitOn ":" with
  | ["b", h, pres, flags] =>
    match ofHex h, ofHex pres, flags.toList with
    | some b, some pres, [ba, su] =>
      let boxArg : Option Bool := if ba == 'n' then none else some (ba == '1')
      showCps (bytesToUnicode cp b pres boxArg (su == '1'))
    | _, _, _ => "bad"
  | ["u", cps, r] =>
    match parseCps cps with
    | some u => toHex (unicodeToBytes cp u (boolOf r))
    | none => "bad"
  | ["s", cps] =>
    match parseCps cps with
    | some u => "/".intercalate ((splitUnicode cp u).map showCps)
    | none => "bad"
  | ["c", h, su] =>
    match ofHex h with
    | some k => showCps (codepointToUnicode cp k (boolOf su))
    | none => "bad"
  | ["i"] =>
    "/".intercalate [toHex (canon cp.lead), toHex (canon cp.trail),
      toHex (canon (cp.boxL.getD 0 [])), toHex (canon (cp.boxL.getD 1 [])),
      toHex (canon (cp.boxR.getD 0 [])), toHex (canon (cp.boxR.getD 1 [])),
      showBool cp.dbcs, toString cp.subst.length, toString cp.cpToU.length]
  | _ => "bad"

def handle : List String → String
  | ["conv", lead, trail, bl0, bl1, br0, br1, pres, dbcs, box, inputs] =>
    match ofHex lead, ofHex trail, ofHex bl0, ofHex bl1, ofHex br0, ofHex br1, ofHex pres with
    | some lead, some trail, some bl0, some bl1, some br0, some br1, some pres =>
      let p := mkPreds lead trail bl0 bl1 br0 br1 pres
      "ok " ++ ";".intercalate ((inputs.splitOn ";").map (convOne p (boolOf dbcs) (boolOf box)))
    | _, _, _, _, _, _, _ => "bad-op"
  | ["tab", dict, bp, queries] =>
    match allSome ((dict.splitOn ",").map parseEntry) with
    | some d =>
      let cp := build d (boolOf bp)
      "ok " ++ ";".intercalate ((queries.splitOn ";").map (query cp))
    | none => "bad-op"
  | _ => "bad-op"

end PcbV.Drv.C41
