"""C12 — Array subscripts address distinct elements within declared bounds."""
import copy
import itertools
import random

from vlib import basic

LEVEL = 'proof'
RULE = ('one case = one operation (OPTION BASE / DIM / ERASE / element read / element assignment / CLEAR / full dump) '
        'of a history executed statement by statement in a real Session; histories: (A) every shape with 1..3 '
        'dimensions and maximum subscripts <= 4 (thorough: <= 6, and 4 dimensions <= 2) under implicit base, '
        'OPTION BASE 0 and OPTION BASE 1, writing a unique value to every element, reading all back, then '
        'out-of-range / negative / wrong-rank probes per dimension, re-DIM, ERASE, DIM again; (B) shapes of 1..4 '
        'dimensions with maximum subscripts up to 30 touched at their corner/boundary tuples and just outside; '
        '(C) PRNG histories over six arrays of all four types; (D) Arrays.index / flat_length called directly; '
        '(F) short PRNG histories over {OPTION BASE 0/1, DIM with bounds 0..3, creation by first use, ERASE of one / '
        'several / the last / all arrays, access at subscript 0 / 1 / max / max+1, CLEAR, NEW, RUN} driving the base '
        'through unset / implied / explicit several times; (G) assignments and SWAPs whose target is an element of a '
        'not-yet-existing array and whose right-hand side raises an error / mentions the same array with another rank '
        '/ mentions other not-yet-existing arrays, followed by DIM, subscript-11 and rank probes; '
        'non-trivial = the operation names an array (everything except CLEAR and dump)')
EXPLANATION = ('theorems (PcbV.Props.C12): index_injective / index_surjective / index_lt_flatLength (flat index is a '
               'bijection between in-bounds tuples and buffer cells, for every shape and base), bounds_spec_* '
               '(which error, first bad subscript decides), bounds_error_changes_nothing, set_get_spec, autodim_spec, '
               'redim_dupdef, erase_then_dim, optionBase_spec / implicit_base / erase_base_rule / '
               'explicit_base_persists, step_frame, wf_reachable; correspondence: whole histories through '
               'Session.execute compared token by token and by full element dumps (Session.get_variable) with the '
               'compiled Lean model; oracle: a Python dict keyed by (array, subscript tuple)')
TRUSTED_BASE = ['model PcbV.Model.Arrays is a hand transcription of memory/arrays.py (index, allocate, check_dim, '
                'view_buffer/get/set, erase_, dim_, option_base_, clear, clear_base) and of Memory.clear',
                'a buffer of flat_length*size_bytes bytes is modelled as flat_length cells; the byte slice of '
                'view_buffer is cell number bigindex (validated with arrays of all four element sizes)']
ASSUMPTIONS = ['arrays fit in free memory: Memory.check_free / Out of memory is not modelled',
               'subscripts reach Arrays as Python ints in -32768..32767 (values.to_int in parse_indices; '
               'larger ones raise Overflow before any array code runs - checked by the oracle only)',
               'check_dim is never called with an empty subscript list (Memory routes those to the scalars)']

# array id -> BASIC name (with sigil).  A% and A! are different arrays; id 5 is also written without sigil.
NAMES = ['A%', 'B%', 'C!', 'D#', 'E$', 'A!']
SIZES = {'%': 2, '!': 4, '#': 8, '$': 3}
MEM_CAP = 38000     # bytes of array buffers a generated history may hold at any time


# ----------------------------------------------------------------------------------------------
# protocol encoding (model side)

def enc_ints(l):
    return ','.join(str(x) for x in l) if l else '_'


def enc_op(op):
    k = op[0]
    if k == 'ob':
        return 'ob%d' % op[1]
    if k == 'dim':
        return 'd:' + '/'.join('%d=%s' % (n, enc_ints(d)) for n, d in op[1])
    if k == 'erase':
        return 'e:' + enc_ints(op[1])
    if k == 'get':
        return 'g:%d:%s' % (op[1], enc_ints(op[2]))
    if k == 'set':
        return 's:%d:%s:%d' % (op[1], enc_ints(op[2]), op[3])
    if k in ('clear', 'new', 'run'):
        return 'c'      # Memory.clear(preserve_base=False): one model operation for CLEAR, NEW and RUN
    if k == 'dump':
        return 'dump'
    if k == 'let':
        return 'l:%d:%s:%s:%d:%d' % (op[1], enc_ints(op[2]),
                                     '+'.join('%d.%s' % (m, enc_ints(j)) for m, j in op[3]) or '_', op[4], op[5])
    if k == 'swap':
        return 'w:%d:%s:%d:%s' % (op[1], enc_ints(op[2]), op[3], enc_ints(op[4]))
    raise ValueError(op)


def enc_hist(ops):
    return 'hist ' + ';'.join(enc_op(o) for o in ops)


# ----------------------------------------------------------------------------------------------
# implementation adapter: the real interpreter, one statement per operation

class Impl(object):

    def __init__(self, rng):
        from pcbasic.basic.base import error
        self.msg = {v: k for k, v in error.BASICError.messages.items()}
        self.rng = rng
        self.broken = False
        self.s = basic.new_session()
        self.s.execute(b'NEW')

    def reset(self):
        try:
            self.s.close()
        except Exception:
            pass
        self.broken = False
        self.s = basic.new_session()
        self.s.execute(b'NEW')

    def close(self):
        self.s.close()

    def text(self, n):
        """name as written in the statement (id 5 sometimes relies on the default type)"""
        nm = NAMES[n]
        if n == 5 and self.rng.random() < 0.5:
            return 'A'
        return nm

    def ref(self, n, idx):
        br = '[]' if self.rng.random() < 0.1 else '()'
        return '%s%s%s%s' % (self.text(n), br[0], ','.join(str(i) for i in idx), br[1])

    def run_stmt(self, stmt):
        # LOCATE keeps the cursor on the top row: no text-screen scrolling (4x faster), same output stream
        try:
            out = self.s.execute(b'LOCATE 1,1:' + stmt.encode('ascii'))
        except Exception as e:      # a host exception escaping Session.execute
            self.broken = True
            return b'EXC %s: %s' % (type(e).__name__.encode(), str(e)[:80].encode('ascii', 'replace'))
        return out

    def classify(self, out):
        """'' -> ok; error message -> e<n>; else None"""
        if out == b'':
            return 'ok'
        lines = [l.rstrip(b'\xff') for l in out.replace(b'\r', b'').split(b'\n') if l]
        if lines and lines[-1] in self.msg:
            if len(lines) == 1:
                return 'e%d' % self.msg[lines[-1]]
            return 'x:%r' % out
        return None

    def do(self, op):
        k = op[0]
        if k == 'ob':
            out = self.run_stmt('OPTION BASE %d' % op[1])
        elif k == 'dim':
            out = self.run_stmt('DIM ' + ','.join(
                (self.ref(n, d) if d else self.text(n)) for n, d in op[1]))
        elif k == 'erase':
            out = self.run_stmt('ERASE ' + ','.join(self.text(n) for n in op[1]))
        elif k == 'clear':
            out = self.run_stmt('CLEAR')
        elif k == 'new':
            out = self.run_stmt('NEW')
        elif k == 'run':
            out = self.run_stmt('RUN')          # the stored program is empty: RUN only resets the variables
        elif k == 'set':
            n, idx, v = op[1], op[2], op[3]
            rhs = '"s%d"' % v if NAMES[n][-1] == '$' else str(v)
            out = self.run_stmt('%s%s=%s' % ('LET ' if self.rng.random() < 0.2 else '', self.ref(n, idx), rhs))
        elif k == 'get':
            n, idx = op[1], op[2]
            r = self.ref(n, idx)
            out = self.run_stmt('PRINT VAL(MID$(%s,2))' % r if NAMES[n][-1] == '$' else 'PRINT ' + r)
            c = self.classify(out)
            if c is not None and c != 'ok':
                return c
            try:
                return 'v%d' % int(out.strip())
            except ValueError:
                return 'x:%r' % out
        elif k == 'dump':
            return self.dump()[0]
        elif k == 'let':
            # numeric arrays only: target(idx) = src + src + ... + c  [+ a term that fails after the reads]
            n, idx, srcs, c, fail = op[1:6]
            terms = [self.ref(m, j) for m, j in srcs] + [str(c)]
            if fail == 13:
                terms.append('"x"')
            elif fail == 6:
                terms.append('40000')       # target is an integer array: Overflow on conversion
            out = self.run_stmt('%s%s=%s' % ('LET ' if self.rng.random() < 0.2 else '', self.ref(n, idx), '+'.join(terms)))
        elif k == 'swap':
            out = self.run_stmt('SWAP %s,%s' % (self.ref(op[1], op[2]), self.ref(op[3], op[4])))
        else:
            raise ValueError(op)
        c = self.classify(out)
        return c if c is not None else 'x:%r' % out

    def snapshot(self):
        """{id: (dims, values in lexicographic subscript order)} through the public Session API"""
        snap = {}
        base = None
        for n, nm in enumerate(NAMES):
            lst = self.s.get_variable(nm + '()')
            if lst == []:
                continue
            shape, x = [], lst
            while isinstance(x, list):
                shape.append(len(x))
                x = x[0]
            if base is None:
                # the lower bound is observable: element (0,…,0) of a declared array exists or not
                zero = '%s(%s)' % (nm, ','.join('0' for _ in shape))
                out = self.run_stmt('PRINT LEN(%s)' % zero if nm[-1] == '$' else 'PRINT ' + zero)
                base = 1 if self.classify(out) == 'e9' else 0

            def flat(x):
                if isinstance(x, list):
                    for y in x:
                        for z in flat(y):
                            yield z
                else:
                    yield x
            vals = []
            for x in flat(lst):
                if isinstance(x, bytes):
                    vals.append(int(x[1:]) if x[:1] == b's' and x[1:].isdigit() else (0 if x == b'' else -999999))
                elif isinstance(x, float):
                    vals.append(int(x) if x == int(x) else -999999)
                else:
                    vals.append(int(x))
            snap[n] = ([e - 1 + base for e in shape], vals)
        return snap

    def dump(self):
        snap = self.snapshot()
        tok = '[' + '|'.join('%d=%s=%s' % (n, enc_ints(snap[n][0]), ','.join(map(str, snap[n][1])))
                             for n in sorted(snap)) + ']'
        return tok, snap


# ----------------------------------------------------------------------------------------------
# independent oracle: a dict keyed by subscript tuple, written from the property statement

def tuples(lb, dims):
    return itertools.product(*[range(lb, d + 1) for d in dims])


class Oracle(object):
    """
    arrays: id -> (dims, {subscript tuple: value}); elements never written read 0.
    base: None (unset) / 0 / 1; kind: how it got fixed - 'implicit' (first DIM / first use), 'explicit'
    (OPTION BASE), or 'fuzzy' where the statement does not say whether an implicit 0 is still revocable
    (explicit OPTION BASE 0 confirming an implicit 0; an ERASE that failed half-way).  In fuzzy states
    with no array left both outcomes of OPTION BASE 1 are accepted and the observed one is adopted.
    """

    def __init__(self):
        self.arrays = {}
        self.base = None
        self.kind = None

    @property
    def lb(self):
        return self.base or 0

    def implicit_base(self):
        if self.base is None:
            self.base, self.kind = 0, 'implicit'

    def access(self, n, idx):
        """acceptable outcome class for an element access: ('ok',) or ('err', {codes}); auto-dimensions"""
        idx = tuple(idx)
        if n not in self.arrays:
            self.implicit_base()
            self.arrays[n] = ([10] * len(idx), {})
        dims = self.arrays[n][0]
        neg = any(i < 0 for i in idx)
        if len(idx) != len(dims):
            return ('err', {9, 5} if neg else {9})
        other = any(i >= 0 and (i < self.lb or i > d) for i, d in zip(idx, dims))
        if not neg and not other:
            return ('ok',)
        if neg and other:
            return ('err', {5, 9})
        return ('err', {5} if neg else {9})

    def step(self, op, tok):
        """check the observed token; returns None or (key, what)"""
        k = op[0]
        if tok.startswith('x:'):
            return ('%s:unparsed' % k, 'unexpected output %s' % tok)
        if k in ('get', 'set'):
            n, idx = op[1], tuple(op[2])
            fresh = n not in self.arrays
            exp = self.access(n, idx)
            tag = 'auto' if fresh else 'declared'
            if exp[0] == 'err':
                if not (tok[0] == 'e' and int(tok[1:]) in exp[1]):
                    return ('%s:%s:expected-e%s:got-%s' % (k, tag, '/'.join(map(str, sorted(exp[1]))), 'value' if tok[0] == 'v' else tok),
                            'subscripts %s of array %s%s: expected error %s, got %s'
                            % (list(idx), NAMES[n], self.arrays[n][0], sorted(exp[1]), tok))
                return None
            store = self.arrays[n][1]
            if k == 'get':
                want = 'v%d' % store.get(idx, 0)
                if tok != want:
                    return ('get:%s:wrong-value' % tag if tok[0] == 'v' else 'get:%s:in-bounds-error' % tag,
                            'element %s%s (dims %s, base %s) read %s, expected %s'
                            % (NAMES[n], list(idx), self.arrays[n][0], self.base, tok, want))
                return None
            if tok != 'ok':
                return ('set:%s:in-bounds-error' % tag, 'assignment to %s%s (dims %s, base %s) gave %s'
                        % (NAMES[n], list(idx), self.arrays[n][0], self.base, tok))
            store[idx] = op[3]
            return None
        if k == 'dim':
            want = 'ok'
            for n, dims in op[1]:
                if not dims:
                    continue
                if n in self.arrays:
                    want = 'e10'
                    break
                if any(d < 0 for d in dims):
                    want = 'e5'
                    break
                if self.base is None:
                    self.implicit_base()
                elif any(d < self.lb for d in dims):
                    want = 'e9'
                    break
                self.arrays[n] = (list(dims), {})
            if tok != want:
                return ('dim:expected-%s:got-%s' % (want, tok), 'DIM %s: expected %s, got %s' % (op[1], want, tok))
            return None
        if k == 'erase':
            want = 'ok'
            for n in op[1]:
                if n not in self.arrays:
                    want = 'e5'
                    break
                del self.arrays[n]
            if not self.arrays and self.kind == 'implicit':
                if want == 'ok':
                    self.base, self.kind = None, None
                else:
                    self.kind = 'fuzzy'
            if tok != want:
                return ('erase:expected-%s:got-%s' % (want, tok), 'ERASE %s: expected %s, got %s' % (op[1], want, tok))
            return None
        if k == 'ob':
            b = op[1]
            if self.base is None:
                accept = {'ok'}
            elif self.kind == 'fuzzy' and not self.arrays:
                accept = {'ok'} if b == self.base else {'ok', 'e10'}
            else:
                accept = {'ok'} if b == self.base else {'e10'}
            if tok not in accept:
                return ('ob:expected-%s:got-%s' % ('/'.join(sorted(accept)), tok),
                        'OPTION BASE %d with base %s (%s), %d arrays: expected %s, got %s'
                        % (b, self.base, self.kind, len(self.arrays), sorted(accept), tok))
            if tok == 'ok':
                if self.base is None:
                    self.base, self.kind = b, 'explicit'
                elif b != self.base:        # fuzzy, no arrays: the implicit 0 was revocable
                    self.base, self.kind = b, 'explicit'
                elif self.kind == 'implicit':
                    self.kind = 'fuzzy'
            return None
        if k in ('let', 'swap'):
            # the array references of the statement are used in reading order: target first, then the
            # right-hand side left to right (SWAP: first operand, then second); each first use dimensions
            if k == 'let':
                refs = [(op[1], tuple(op[2]))] + [(m, tuple(j)) for m, j in op[3]]
            else:
                refs = [(op[1], tuple(op[2])), (op[3], tuple(op[4]))]
            accept = None
            for m, j in refs:
                exp = self.access(m, j)
                if exp[0] == 'err':
                    accept = set('e%d' % c for c in exp[1])
                    break
            if accept is None and k == 'let' and op[5]:
                accept = {'e%d' % op[5]}
            if accept is None:
                accept = {'ok'}
            if tok not in accept:
                return ('%s:expected-%s:got-%s' % (k, '/'.join(sorted(accept)), 'value' if tok[0] == 'v' else tok),
                        '%s %s: expected %s, got %s (arrays %s, base %s)'
                        % (k, op[1:], sorted(accept), tok, {NAMES[x]: a[0] for x, a in self.arrays.items()}, self.base))
            if tok == 'ok':
                if k == 'let':
                    self.arrays[op[1]][1][refs[0][1]] = op[4] + sum(self.arrays[m][1].get(j, 0) for m, j in refs[1:])
                else:
                    (a, i), (b, j) = refs
                    va, vb = self.arrays[a][1].get(i, 0), self.arrays[b][1].get(j, 0)
                    self.arrays[a][1][i] = vb
                    self.arrays[b][1][j] = va
            return None
        if k in ('clear', 'new', 'run'):
            self.arrays, self.base, self.kind = {}, None, None
            return None if tok == 'ok' else ('%s:error' % k, '%s gave %s' % (k.upper(), tok))
        raise ValueError(op)

    def check_snapshot(self, snap):
        if sorted(snap) != sorted(self.arrays):
            return ('dump:array-set', 'arrays present %s, expected %s'
                    % ([NAMES[n] for n in sorted(snap)], [NAMES[n] for n in sorted(self.arrays)]))
        for n in sorted(snap):
            dims, vals = snap[n]
            odims, store = self.arrays[n]
            if list(dims) != list(odims):
                return ('dump:dims', 'array %s has maximum subscripts %s, expected %s (base %s)'
                        % (NAMES[n], dims, odims, self.base))
            want = [store.get(t, 0) for t in tuples(self.lb, odims)]
            if vals != want:
                bad = [(t, g, w) for t, g, w in zip(tuples(self.lb, odims), vals, want) if g != w][:4]
                return ('dump:element-changed', 'array %s%s: elements (subscripts, got, expected) %s'
                        % (NAMES[n], odims, bad))
        return None


# ----------------------------------------------------------------------------------------------
# running one history on both sides

def needs_bytes(orc, op):
    """upper bound of the array bytes held if `op` is executed in the oracle's (true) state"""
    held = sum(bytes_of(n, a[0], orc.lb) for n, a in orc.arrays.items())
    if op[0] in ('get', 'set') and op[1] not in orc.arrays:
        return held + bytes_of(op[1], [10] * len(op[2]), orc.lb)
    if op[0] in ('let', 'swap'):
        refs = [(op[1], op[2])] + ([(m, j) for m, j in op[3]] if op[0] == 'let' else [(op[3], op[4])])
        new = {}
        for m, j in refs:
            if m not in orc.arrays and m not in new:
                new[m] = bytes_of(m, [10] * len(j), orc.lb)
        return held + sum(new.values())
    if op[0] == 'dim':
        return held + sum(bytes_of(n, d, 0) for n, d in op[1] if d and n not in orc.arrays and min(d) >= 0)
    return 0


def run_history(ctx, impl, ops, label, collect):
    """Execute on the implementation with the oracle alongside; queue the model comparison."""
    orc = Oracle()
    if impl.broken:
        impl.reset()
    impl.s.execute(b'CLEAR')
    toks = []
    done = []
    h = label
    for op in ops:
        if needs_bytes(orc, op) > MEM_CAP:
            # Out of memory is outside the model (ASSUMPTIONS): such an operation is left out of the history
            ctx.count('skipped:would-exceed-memory-budget')
            continue
        i = len(done)
        done.append(op)
        h = '%s|%s' % (hash(h), enc_op(op))
        if op[0] == 'dump':
            tok, snap = impl.dump()
            bad = orc.check_snapshot(snap)
        else:
            tok = impl.do(op)
            bad = orc.step(op, tok)
            if tok[0] == 'e':
                ctx.count('err:' + tok[1:])
        toks.append(tok)
        ctx.case(h)
        ctx.count('op:' + op[0])
        if bad:
            ctx.fail(bad[0], {'ops': done, 'label': label}, bad[1] + ' [after %d operations]' % i)
            break
    if collect is not None:
        collect.append((done, 'ok ' + ' '.join(toks), enc_hist(done)))
    return toks


def flush(ctx, collect, label):
    if collect:
        ctx.compare([{'ops': c[0]} for c in collect], [c[1] for c in collect], [c[2] for c in collect], label=label)
        del collect[:]


# ----------------------------------------------------------------------------------------------
# generators

def probes(rng, lb, dims):
    """subscript tuples just outside the bounds, negative, wrong rank (the declared shape is `dims`)"""
    inside = [rng.randint(lb, d) for d in dims]
    out = []
    for k in range(len(dims)):
        for bad in (dims[k] + 1, lb - 1, -1, dims[k] + 7, -32768, 32767):
            t = list(inside)
            t[k] = bad
            out.append(t)
    # both kinds in one tuple, in both orders
    if len(dims) >= 2:
        t = list(inside); t[0] = dims[0] + 1; t[-1] = -1; out.append(t)
        t = list(inside); t[0] = -1; t[-1] = dims[-1] + 1; out.append(t)
    out.append(inside + [lb])
    out.append(inside + [-1])
    if len(dims) > 1:
        out.append(inside[:-1])
        out.append([-1] + inside[2:])
    out.append(list(dims))          # the far corner is inside
    out.append([lb] * len(dims))
    return out


def shape_history(rng, n, mode, dims, full):
    """(A)/(B): DIM, write unique values, read back, probe outside, dump, re-DIM, ERASE, DIM again."""
    ops = []
    if mode == 'ob0':
        ops.append(['ob', 0])
    elif mode == 'ob1':
        ops.append(['ob', 1])
    lb = 1 if mode == 'ob1' else 0
    ops.append(['dim', [[n, list(dims)]]])
    if full:
        cells = [list(t) for t in tuples(lb, dims)]
    else:
        axes = []
        for d in dims:
            axes.append(sorted(set(x for x in (lb, lb + 1, d - 1, d) if lb <= x <= d)))
        corner = [list(t) for t in itertools.product(*[(a[0], a[-1]) for a in axes])]
        cells = {tuple(t) for t in corner}
        for k in range(len(dims)):
            for x in axes[k]:
                t = list(rng.choice(corner)); t[k] = x
                cells.add(tuple(t))
        for _ in range(30):
            cells.add(tuple(rng.randint(lb, d) for d in dims))
        cells = [list(t) for t in sorted(cells)]
    rng.shuffle(cells)
    vals = rng.sample(range(1, 30000), len(cells))
    for t, v in zip(cells, vals):
        ops.append(['set', n, t, v])
    order = list(cells)
    rng.shuffle(order)
    for t in order:
        ops.append(['get', n, t])
    if not full:
        for _ in range(8):
            ops.append(['get', n, [rng.randint(lb, d) for d in dims]])
    for t in probes(rng, lb, dims):
        ops.append(['set', n, t, rng.randint(1, 29999)] if rng.random() < 0.5 else ['get', n, t])
    if full:
        ops.append(['dump'])
    else:
        for t in rng.sample(order, min(12, len(order))):
            ops.append(['get', n, t])
    # overwrite a few, re-DIM (Duplicate definition), still intact
    for t in rng.sample(cells, min(3, len(cells))):
        ops.append(['set', n, t, rng.randint(1, 29999)])
    ops.append(['dim', [[n, [rng.randint(lb, 5) for _ in dims]]]])
    ops.append(['dim', [[n, [3]]]])
    ops.append(['get', n, rng.choice(cells)])
    if full:
        ops.append(['dump'])
    ops.append(['erase', [n]])
    ops.append(['erase', [n]])
    nd = [rng.randint(lb, 4) for _ in range(rng.randint(1, 3))]
    if rng.random() < 0.3 and mode == 'none':
        ops.append(['ob', 1])          # implicit base was reset by erasing the only array
        nd = [max(1, x) for x in nd]
    ops.append(['dim', [[n, nd]]])
    ops.append(['get', n, list(nd)])
    ops.append(['get', n, [x + 1 for x in nd]])
    ops.append(['dump'])
    return ops


def bytes_of(n, dims, lb):
    p = SIZES[NAMES[n][-1]]
    for d in dims:
        p *= max(0, d + 1 - lb)
    return p


def random_history(rng, length):
    """(C) a structured random history; tracks just enough to keep memory bounded and accesses interesting"""
    ops = []
    known = {}      # id -> dims (generator's guess; the oracle keeps the truth)
    lb = 0
    nm = rng.sample(range(len(NAMES)), rng.randint(2, 5))
    if rng.random() < 0.5:
        b = rng.randint(0, 1)
        ops.append(['ob', b])
        lb = b

    def used():
        return sum(bytes_of(n, d, lb) for n, d in known.items())

    def rnd_dims():
        rank = rng.choice([1, 1, 2, 2, 3, 3, 4])
        top = {1: 30, 2: 12, 3: 6, 4: 3}[rank]
        d = [rng.choice([lb, lb + 1, rng.randint(0, top), rng.randint(0, top)]) for _ in range(rank)]
        if rng.random() < 0.08:
            d[rng.randrange(rank)] = rng.choice([-1, 0, -3])
        return d

    while len(ops) < length:
        r = rng.random()
        n = rng.choice(nm)
        if r < 0.07:
            ops.append(['ob', rng.randint(0, 1)])
        elif r < 0.22:
            items = []
            for _ in range(rng.choice([1, 1, 1, 2, 3])):
                m = rng.choice(nm)
                d = rnd_dims() if rng.random() > 0.05 else []
                if m not in known and d and min(d) >= lb and used() + bytes_of(m, d, lb) > MEM_CAP:
                    continue
                items.append([m, d])
            if not items:
                continue
            ops.append(['dim', items])
            for m, d in items:
                if m in known:
                    break
                if d and min(d) >= 0 and min(d) >= lb:
                    known[m] = d
                elif d:
                    break
        elif r < 0.32:
            l = [rng.choice(nm) for _ in range(rng.choice([1, 1, 2, 3]))]
            if known and rng.random() < 0.6:
                l[0] = rng.choice(sorted(known))
            ops.append(['erase', l])
            for m in l:
                if m not in known:
                    break
                del known[m]
        elif r < 0.35:
            ops.append(['clear'])
            known.clear()
            lb = 0
        elif r < 0.40:
            ops.append(['dump'])
        else:
            if n in known:
                dims = known[n]
                q = rng.random()
                if q < 0.7:
                    idx = [rng.choice([lb, d, rng.randint(min(lb, d), max(lb, d))]) for d in dims]
                elif q < 0.9:
                    idx = [rng.randint(lb, max(lb, d)) for d in dims]
                    idx[rng.randrange(len(idx))] = rng.choice([-1, lb - 1, dims[0] + 1, 11, 0, -2, 31])
                else:
                    idx = [rng.randint(lb, max(lb, d)) for d in dims]
                    idx = idx[:-1] if (len(idx) > 1 and rng.random() < 0.5) else idx + [rng.choice([lb, -1, 3])]
            else:
                rank = rng.choice([1, 1, 2, 2, 3])
                if used() + bytes_of(n, [10] * rank, lb) > MEM_CAP:
                    continue
                idx = [rng.choice([0, 1, 10, 11, -1, rng.randint(0, 10), rng.randint(0, 10)]) for _ in range(rank)]
                known[n] = [10] * rank
            if rng.random() < 0.55:
                ops.append(['set', n, idx, rng.randint(1, 29999)])
            else:
                ops.append(['get', n, idx])
    ops.append(['dump'])
    return ops


# ----------------------------------------------------------------------------------------------
# (F) the OPTION BASE state machine: short histories over a small alphabet

def predict(sim, op):
    """advance the generator-side copy of the oracle with the outcome the statement predicts"""
    if op[0] == 'get':
        a = sim.arrays.get(op[1])
        cands = ['v%d' % (a[1].get(tuple(op[2]), 0) if a else 0)]
    else:
        cands = ['ok']
    for tok in cands + ['e5', 'e9', 'e10']:
        c = copy.deepcopy(sim)
        if c.step(op, tok) is None:
            return c
    return sim


def base_history(rng):
    """
    Random sequence over {OPTION BASE 0/1, DIM with bounds 0..3, creation by first use, ERASE of one / several /
    the last remaining / all arrays, read or write at subscript 0 / 1 / max / max+1, CLEAR, NEW, RUN}.
    A copy of the oracle follows the history so that "the last remaining array" and "max" are the true ones;
    the history is arranged in create / probe / erase-everything rounds often enough that the base passes
    through unset -> implied -> unset -> explicit -> (all arrays erased) -> ... several times without a CLEAR.
    """
    pool = rng.sample([0, 1, 5, 2], rng.randint(1, 3))
    sim = Oracle()
    ops = []

    def emit(op):
        ops.append(op)
        return predict(sim, op)

    def probe(n):
        a = sim.arrays.get(n)
        dims = a[0] if a else [10] * rng.choice([1, 1, 2])
        idx = [rng.choice([0, 1, d, d + 1]) for d in dims]
        return ['set', n, idx, rng.randint(1, 29999)] if rng.random() < 0.5 else ['get', n, idx]

    length = rng.randint(6, 14)
    while len(ops) < length:
        r = rng.random()
        live = sorted(sim.arrays)
        if r < 0.17:
            sim = emit(['ob', rng.randint(0, 1)])
        elif r < 0.37:
            items = [[rng.choice(pool), [rng.choice([0, 1, 1, 2, 3]) for _ in range(rng.choice([1, 1, 2]))]]
                     for _ in range(rng.choice([1, 1, 2]))]
            sim = emit(['dim', items])
        elif r < 0.62:
            sim = emit(probe(rng.choice(pool)))
        elif r < 0.92:
            q = rng.random()
            if live and q < 0.55:
                # everything that exists goes: in one statement or one by one
                if rng.random() < 0.5:
                    rng.shuffle(live)
                    sim = emit(['erase', live])
                else:
                    for n in live:
                        sim = emit(['erase', [n]])
            elif live and q < 0.8:
                sim = emit(['erase', [rng.choice(live)]])
            else:
                sim = emit(['erase', [rng.choice(pool) for _ in range(rng.choice([1, 2]))]])
            if not sim.arrays and rng.random() < 0.6:
                # what does the base look like with no array left?
                nxt = rng.random()
                if nxt < 0.45:
                    sim = emit(['ob', rng.randint(0, 1)])
                n = rng.choice(pool)
                sim = emit(['dim', [[n, [rng.choice([0, 1, 3])]]]] if rng.random() < 0.6 else probe(n))
                sim = emit(['get', n, [0]])
        else:
            sim = emit([rng.choice(['clear', 'new', 'run'])])
    # final observation of the base: subscript 0 of every array, a DIM with bound 0, both OPTION BASE values
    for n in sorted(sim.arrays):
        sim = emit(['get', n, [0] * len(sim.arrays[n][0])])
    spare = [n for n in (3, 2, 1, 0) if n not in sim.arrays]
    if spare:
        sim = emit(['dim', [[spare[0], [0]]]])
    first = rng.randint(0, 1)
    sim = emit(['ob', first])
    sim = emit(['ob', 1 - first])
    ops.append(['dump'])
    return ops


# ----------------------------------------------------------------------------------------------
# (G) statements with several array references: which use comes first

NUMERIC = [0, 1, 2, 3, 5]
SAME_TYPE = [(0, 1), (1, 0), (2, 5), (5, 2), (0, 0), (3, 3), (2, 2)]


def let_history(rng):
    """
    Assignments / SWAPs whose target is (mostly) an element of a not-yet-existing array and whose right-hand side
    (a) raises an error - a subscript out of range on another array, Type mismatch, Overflow -, (b) mentions the
    same array with another number of subscripts, (c) mentions other not-yet-existing arrays, (d) just works;
    then probes of every array mentioned: DIM (Duplicate definition iff it exists), subscript 11, the rank.
    """
    sim = Oracle()
    ops = []

    def emit(op):
        ops.append(op)
        return predict(sim, op)

    def in_range(rank):
        return [rng.choice([sim.lb, 1, 3, 10, rng.randint(sim.lb, 10)]) for _ in range(rank)]

    def good_ref(m):
        a = sim.arrays.get(m)
        if a:
            return [rng.randint(sim.lb, max(sim.lb, d)) for d in a[0]]
        return in_range(rng.choice([1, 1, 2]))

    def bad_ref(m):
        a = sim.arrays.get(m)
        j = good_ref(m)
        q = rng.random()
        if q < 0.6:
            j[rng.randrange(len(j))] = (a[0][0] if a else 10) + 1 + rng.choice([0, 0, 5])
        elif q < 0.8:
            j[rng.randrange(len(j))] = -1
        else:
            j = j + [1] if (len(j) == 1 or rng.random() < 0.5) else j[:-1]
        return j

    if rng.random() < 0.35:
        sim = emit(['ob', rng.randint(0, 1)])
    for _ in range(rng.choice([0, 0, 1, 2])):
        m = rng.choice(NUMERIC)
        sim = emit(['dim', [[m, [rng.randint(1, 6) for _ in range(rng.choice([1, 2]))]]]])
        if m in sim.arrays:
            sim = emit(['set', m, good_ref(m), rng.randint(1, 3000)])
    mentioned = []
    for _ in range(rng.choice([1, 1, 2, 3])):
        fresh = [m for m in NUMERIC if m not in sim.arrays]
        n = rng.choice(fresh) if fresh and rng.random() < 0.8 else rng.choice(NUMERIC)
        idx = good_ref(n) if rng.random() < 0.88 else bad_ref(n)
        if rng.random() < 0.22:
            pairs = [p for p in SAME_TYPE if p[0] == n] or SAME_TYPE
            a, b = rng.choice(pairs)
            j = good_ref(b) if rng.random() < 0.5 else bad_ref(b)
            if a == b and b not in sim.arrays:
                j = (j + [1]) if len(j) == len(idx) and rng.random() < 0.5 else j
            sim = emit(['swap', a, idx if a == n else good_ref(a), b, j])
            mentioned += [a, b]
            continue
        cls = rng.choice('aaabbccd')
        others = [m for m in NUMERIC if m != n]
        srcs, fail = [], 0
        for _ in range(rng.choice([0, 1, 1, 2])):
            m = rng.choice(others)
            srcs.append([m, good_ref(m)])
        if cls == 'a':
            q = rng.random()
            if q < 0.6 or not srcs and q < 0.8:
                m = rng.choice(others)
                srcs.insert(rng.randint(0, len(srcs)), [m, bad_ref(m)])
            elif NAMES[n][-1] == '%' and q < 0.8:
                fail = 6
            else:
                fail = 13
        elif cls == 'b':
            other_rank = idx + [1] if (len(idx) == 1 or rng.random() < 0.5) else idx[:-1]
            srcs.insert(rng.randint(0, len(srcs)), [n, [min(10, max(sim.lb, x)) for x in other_rank]])
        elif cls == 'c':
            fresh = [m for m in others if m not in sim.arrays]
            for m in rng.sample(fresh, min(len(fresh), rng.choice([1, 2]))):
                srcs.append([m, in_range(rng.choice([1, 2]))])
        if rng.random() < 0.15:
            srcs.append([n, list(idx)])         # the target itself, same rank
        sim = emit(['let', n, idx, srcs[:3], rng.randint(0, 99), fail])
        mentioned += [n] + [m for m, _ in srcs[:3]]
    # probes
    seen = []
    for m in mentioned:
        if m in seen:
            continue
        seen.append(m)
        a = sim.arrays.get(m)
        rank = len(a[0]) if a else 1
        sim = emit(['dim', [[m, [20] * rank]]])
        a = sim.arrays.get(m)
        rank = len(a[0])
        top = a[0]
        sim = emit(['get', m, [d + 1 for d in top]])
        sim = emit(['get', m, list(top)])
        sim = emit(['get', m, list(top) + [1]] if rank == 1 or rng.random() < 0.5 else ['get', m, list(top)[:-1]])
        if rng.random() < 0.4:
            sim = emit(['set', m, [rng.randint(sim.lb, d) for d in top], rng.randint(1, 3000)])
    ops.append(['dump'])
    return ops


# ----------------------------------------------------------------------------------------------
# (D) the anchored functions called directly

def direct_index(ctx, n_random):
    rng = ctx.rng
    cases, outs, lines = [], [], []
    for base in (0, 1):
        s = basic.new_session()
        with s:
            s.execute(b'OPTION BASE %d' % base)
            arr = s._impl.memory.arrays
            shapes = []
            top = 3 if ctx.quick else 4
            for rank in (1, 2, 3, 4):
                for dims in itertools.product(range(base, top + 1), repeat=rank):
                    shapes.append(list(dims))
            for _ in range(n_random):
                rank = rng.randint(1, 5)
                shapes.append([rng.randint(base, 30) for _ in range(rank)])
            for dims in shapes:
                size = 1
                for d in dims:
                    size *= d + 1 - base
                fl = arr.flat_length(dims)
                ctx.case(('flat_length', base, tuple(dims)))
                if fl != size:
                    ctx.fail('index:flat-length', {'base': base, 'dims': dims, 'direct': True},
                             'flat_length(%s) = %s under base %d, number of in-bounds tuples is %d' % (dims, fl, base, size))
                if size <= 700:
                    seen = {}
                    for t in tuples(base, dims):
                        k = arr.index(list(t), dims)
                        ctx.case(('index', base, tuple(dims), t))
                        if k in seen or not 0 <= k < size:
                            ctx.fail('index:not-injective' if k in seen else 'index:outside-buffer',
                                     {'base': base, 'dims': dims, 'idx': list(t), 'direct': True},
                                     'index(%s, %s) = %s under base %d (%s)' % (list(t), dims, k, base,
                                                                                'same as %s' % (seen.get(k),) if k in seen
                                                                                else 'buffer has %d cells' % size))
                            break
                        seen[k] = t
                    ctx.count('index:shape-bijection-checked')
                for _ in range(3):
                    t = [rng.choice([base, d, rng.randint(base, d)]) for d in dims]
                    cases.append({'base': base, 'idx': t, 'dims': dims})
                    outs.append('ok %d %d' % (arr.index(t, dims), fl))
                    lines.append('idx %d %s %s' % (base, enc_ints(t), enc_ints(dims)))
    ctx.compare(cases, outs, lines, label='index')
    ctx.count('index:direct-compared', len(cases))


# ----------------------------------------------------------------------------------------------
# (E) subscript forms handled before Arrays is reached (oracle only)

def subscript_forms(ctx):
    impl = Impl(ctx.rng)
    s = impl.s
    with s:
        script = [
            ('DIM A%(5)', b''), ('A%(2)=7:A%(3)=9', b''),
            ('PRINT A%(2.4);A%(1.6);A%(2.6)', b' 7  7  9 \r\n'),
            ('PRINT A%(32768)', 'e6'), ('PRINT A%(-32769)', 'e6'),
            ('PRINT B%(40000,1)', 'e6'),          # must not auto-dimension B%
            ('DIM B%(2)', b''),
            ('PRINT B%(2);B%(0)', b' 0  0 \r\n'),
            ('I%=2:J%=3:PRINT A%(I%);A%(J%);A%(I%+1);A%(A%(2)-4)', b' 7  9  9  9 \r\n'),
            ('FOR I%=0 TO 5:A%(I%)=I%*I%:NEXT:PRINT A%(0);A%(5);A%(4)', b' 0  25  16 \r\n'),
        ]
        for stmt, want in script:
            out = s.execute(stmt.encode('ascii'))
            ctx.case(('form', stmt))
            ctx.count('op:form')
            got = impl.classify(out) if isinstance(want, str) else out
            if got != want:
                ctx.fail('form:%s' % stmt.split('(')[0].replace(' ', '_'), {'script': [x[0] for x in script], 'forms': True},
                         '%s gave %r, expected %r' % (stmt, out, want))
                break


def run(ctx):
    rng = ctx.rng
    impl = Impl(rng)
    collect = []
    # (A) exhaustive small shapes
    top = 4 if ctx.quick else 6
    shapes = []
    for rank in (1, 2, 3):
        shapes += [list(d) for d in itertools.product(range(0, top + 1), repeat=rank)]
    if not ctx.quick:
        shapes += [list(d) for d in itertools.product(range(0, 3), repeat=4)]
    k = 0
    for dims in shapes:
        modes = ['none']
        if min(dims) >= 1:
            modes.append('ob1')
        if rng.random() < (0.12 if ctx.quick else 0.4):
            modes.append('ob0')
        for mode in modes:
            lb = 1 if mode == 'ob1' else 0
            n = k % len(NAMES)
            k += 1
            size = 1
            for d in dims:
                size *= d + 1 - lb
            if NAMES[n][-1] == '$' and size > 64:
                n = 0
            ops = shape_history(rng, n, mode, dims, True)
            run_history(ctx, impl, ops, 'A', collect)
            ctx.count('shape:rank%d:%s' % (len(dims), mode))
            if len(collect) >= 40:
                flush(ctx, collect, 'exhaustive-shape')
        if ctx.failures and len(ctx.failures) > 20:
            break
    flush(ctx, collect, 'exhaustive-shape')
    ctx.sample({'history': enc_hist(shape_history(random.Random(1), 0, 'ob1', [2, 1], True))})
    ctx.log('exhaustive shapes done: %d evaluations' % ctx.evaluations)
    ctx.exhaustive = False
    ctx.notes['exhaustive_part'] = ('all subscript tuples of all shapes with 1..3 dimensions and maximum subscript <= %d '
                                    '(implicit base: all; OPTION BASE 1: all with bounds >= 1)' % top)
    # (B) large shapes, boundary tuples
    impl.close()
    impl = Impl(rng)
    nbig = 36 if ctx.quick else 400
    for j in range(nbig):
        mode = rng.choice(['none', 'ob0', 'ob1', 'ob1'])
        lb = 1 if mode == 'ob1' else 0
        rank = 1 + j % 4
        n = rng.choice([0, 1, 0, 1, 2, 3, 5])
        while True:
            if rank == 1:
                dims = [rng.choice([30, 29, rng.randint(11, 30), 1000, 4000])]
            else:
                dims = [rng.choice([30, 30, 29, 11, 10, rng.randint(lb, 30), rng.randint(lb, 12), lb, lb + 1])
                        for _ in range(rank)]
            if bytes_of(n, dims, lb) <= MEM_CAP:
                break
        ops = shape_history(rng, n, mode, dims, False)
        run_history(ctx, impl, ops, 'B', collect)
        # oracle-only: the whole array through the API: every element is the written value or 0 (checked in dump)
        ctx.count('bigshape:rank%d' % rank)
        if len(collect) >= 12:
            flush(ctx, collect, 'boundary-shape')
    flush(ctx, collect, 'boundary-shape')
    ctx.log('boundary shapes done: %d evaluations' % ctx.evaluations)
    # (C) random histories
    impl.close()
    impl = Impl(rng)
    nh = 90 if ctx.quick else 2500
    for j in range(nh):
        ops = random_history(rng, rng.randint(25, 70))
        run_history(ctx, impl, ops, 'C', collect)
        if j == 0:
            ctx.sample({'history': enc_hist(ops)[:600]})
        if len(collect) >= 50:
            flush(ctx, collect, 'random-history')
    flush(ctx, collect, 'random-history')
    ctx.log('random histories done: %d evaluations' % ctx.evaluations)
    # (F) OPTION BASE state machine
    nb = 360 if ctx.quick else 12000
    for j in range(nb):
        ops = base_history(rng)
        run_history(ctx, impl, ops, 'F', collect)
        if j == 0:
            ctx.sample({'history': enc_hist(ops)})
        if len(collect) >= 200:
            flush(ctx, collect, 'base-history')
    flush(ctx, collect, 'base-history')
    ctx.log('option-base histories done: %d evaluations' % ctx.evaluations)
    # (G) several array references in one statement
    ng = 260 if ctx.quick else 10000
    for j in range(ng):
        ops = let_history(rng)
        run_history(ctx, impl, ops, 'G', collect)
        if j == 0:
            ctx.sample({'history': enc_hist(ops)})
        if len(collect) >= 200:
            flush(ctx, collect, 'let-history')
    flush(ctx, collect, 'let-history')
    impl.close()
    ctx.log('multi-reference statements done: %d evaluations' % ctx.evaluations)
    direct_index(ctx, 150 if ctx.quick else 3000)
    subscript_forms(ctx)


def replay(ctx, payload):
    case = payload.get('case', {})
    sub = Ctx2(ctx)
    if 'ops' in case:
        impl = Impl(random.Random(0))
        try:
            # name spelling / LET / brackets are chosen by the adapter PRNG: try a few spellings
            for seed in range(4):
                impl.rng = random.Random(seed)
                run_history(sub, impl, case['ops'], 'replay', None)
                if sub.failures:
                    break
        finally:
            impl.close()
    elif case.get('direct'):
        sub.rng = random.Random(payload.get('seed', 0))
        direct_index(sub, 0)
    elif case.get('forms'):
        subscript_forms(sub)
    hits = [f for f in sub.failures if f['key'] == payload.get('key')] or sub.failures
    return hits[0]['what'] if hits else None


class Ctx2(object):
    """thin proxy so replay can reuse the run functions without touching the outer evidence"""
    def __init__(self, ctx):
        self.__dict__.update(ctx.__dict__)
        self._ctx = ctx
        self.failures = []
        self.disagreements = []

    def __getattr__(self, name):
        return getattr(self._ctx.__class__, name).__get__(self)
