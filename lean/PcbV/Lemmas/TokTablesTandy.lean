import PcbV.Lemmas.TokWord
/-
  Lemmas for C17: checked facts about the generated keyword table `tandy` (`decide +kernel` over
  `PcbV.Gen.Tokens`): no token and no keyword occurs twice; every keyword passes the prefix check under
  which `_tokenise_word` reads it to its end.  (One file per dialect so that lake checks them in parallel.)
-/
namespace PcbV.TokL
open PcbV PcbV.Gen PcbV.Gen.Tokens PcbV.Tok PcbV.Lst

theorem tandy_bij : Table.Bij tandy := by decide +kernel
theorem tandy_scan : Table.ScanOK tandy := by unfold Table.ScanOK; decide +kernel

end PcbV.TokL
