import PcbV.Lemmas.ApiList
/-
  Lemmas for C43 (lists written to an UNDECLARED array): the first element write dimensions the array
  `base..10` in every dimension (C12.autodim_spec); from there on `from_list` behaves as on the declared
  array, so the whole call equals "DIM to 10s, then from_list".
-/
namespace PcbV.SessionApi
open PcbV PcbV.Arrays PcbV.C12

/-- the state in which the first write to an undeclared array of rank `r` continues -/
def autoState (st : State) (name : Nat) (r : Nat) : State := withArray st name (autoDims r)

theorem set_missing (st : State) (hw : WF st) (name : Nat) (hf : find name st.arrs = none)
    (idx : List Int) (hne : idx ≠ []) (v : Int) :
    Arrays.set st name idx v = Arrays.set (autoState st name idx.length) name idx v ∧
    Has name (autoDims idx.length) st.b (autoState st name idx.length) ∧
    (∀ idx', rd (autoState st name idx.length) name idx' = 0) := by
  have hb01 := hw.b01
  have hmap : idx.map (fun _ => (10 : Int)) = autoDims idx.length := by
    simp [autoDims, List.map_const']
  have hdne : autoDims idx.length ≠ [] := by
    cases idx with
    | nil => exact absurd rfl hne
    | cons i is => simp [autoDims, List.replicate_succ]
  have hall : ∀ d ∈ autoDims idx.length, 0 ≤ d ∧ st.b ≤ d := by
    intro d hd
    have : d = 10 := List.eq_of_mem_replicate hd
    rcases hb01 with e | e <;> omega
  have halloc := (dim_fresh_spec st name hf _ hdne).2.2 hall
  have hfind : find name (autoState st name idx.length).arrs =
      some ⟨autoDims idx.length, List.replicate (size st.b (autoDims idx.length)).toNat 0⟩ :=
    find_append_new _ hf
  have hb' : (autoState st name idx.length).b = st.b := rfl
  have hw' : WF (autoState st name idx.length) := by
    have := wf_allocate hw name (autoDims idx.length)
    rw [halloc] at this; exact this
  have hcd : checkDim st name idx = (autoState st name idx.length,
      match checkBounds st.b idx (autoDims idx.length) with
      | some e => .error e
      | none => .ok ⟨autoDims idx.length, List.replicate (size st.b (autoDims idx.length)).toNat 0⟩) := by
    unfold checkDim
    rw [hf]
    simp only [hmap, halloc]
    show (match find name (autoState st name idx.length).arrs with
      | none => _ | some a => _) = _
    rw [hfind]
    have e : (withArray st name (autoDims idx.length)).b = st.b := rfl
    simp only [e]
    cases checkBounds st.b idx (autoDims idx.length) <;> rfl
  refine ⟨?_, ⟨hw', hb', _, hfind, rfl⟩, ?_⟩
  · rw [set_existing hfind, hb']
    unfold Arrays.set
    rw [hcd]
    cases checkBounds st.b idx (autoDims idx.length) <;> rfl
  · intro idx'
    unfold rd
    rw [get_existing hfind]
    cases checkBounds (autoState st name idx.length).b idx' (autoDims idx.length) with
    | some e => rfl
    | none =>
      simp only [List.getD_eq_getElem?_getD, List.getElem?_replicate]
      split <;> rfl

theorem enumFold_first {α : Type} (body : Nat → α → State → State × Option Nat) (i0 : Nat) (x : α)
    (xs : List α) (st st' : State) (h : body i0 x st = body i0 x st') :
    enumFold body i0 (x :: xs) st = enumFold body i0 (x :: xs) st' := by
  show (match body i0 x st with
    | (s, some e) => (s, some e)
    | (s, none) => enumFold body (i0 + 1) xs s) = (match body i0 x st' with
    | (s, some e) => (s, some e)
    | (s, none) => enumFold body (i0 + 1) xs s)
  rw [h]

/-- a non-empty row written to an undeclared array = the same row written to the auto-dimensioned one -/
theorem fromRow_missing (st : State) (hw : WF st) (name : Nat) (hf : find name st.arrs = none)
    (pre : List Int) (vs : List Int) (hne : vs ≠ []) :
    fromRow name pre vs st = fromRow name pre vs (autoState st name (pre.length + 1)) := by
  cases vs with
  | nil => exact absurd rfl hne
  | cons v vs =>
    unfold fromRow
    simp only [reduceCtorEq, if_false]
    apply enumFold_first
    have h := (set_missing st hw name hf (pre ++ [((0 : Nat) : Int) + st.b]) (by simp) v).1
    simp only [List.length_append, List.length_cons, List.length_nil] at h
    exact h

end PcbV.SessionApi
