"""C01 — no BASIC input ever produces an internal interpreter error (partial proof + exploration)."""
import io
import multiprocessing
import os
import random
import re
import shutil
import signal
import tempfile
import time
import traceback

from vlib import core

LEVEL = 'proof'
RULE = ('statements and programs mutated from the repository\'s own BASIC corpus (numeric and string literals replaced by '
        'boundary values), statement/function templates filled with boundary arguments, alone and after ON ERROR GOTO, '
        'byte soup and mutated tokenised/protected/ASCII files given to LOAD/RUN/MERGE/CHAIN, the documented default '
        'Session() configuration, RENUM with active traps; structured families: every file statement x every device name '
        '(SCRN: KYBD: LPTn: COMn: CAS1: NUL CON AUX PRN, disk) x every open mode, with keys typed for KYBD: reads and LPT '
        'ports attached to files; OUT/INP/WAIT over the handled machine ports and their neighbours x register values in '
        'every screen mode of every video adapter; SCREEN with all four arguments, PCOPY, VIEW/WINDOW/POINT/PSET/PMAP with '
        'out-of-range coordinates, graphics GET/PUT with arrays of every type, tiny sizes and forged size records; DRAW '
        'and PLAY strings from the GML/MML grammars with =/X pointer operands (all type bytes, real, offset and wild '
        'pointers), extreme numbers and dot counts; one file under several numbers with SHARED/LOCK modes and '
        'LOCK/UNLOCK/GET/PUT/CLOSE interleaved; the core of these spaces is swept systematically (kind matrix), the rest '
        'sampled; kind variants: these families, the templates and short sound histories (looping / three-voice SOUND, '
        'NOISE, SOUND ON/OFF, BEEP ON/OFF, one- and three-voice PLAY, SOUND f,0) under the non-default machine '
        'configurations the command line produces (syntax tandy/pcjr, every video adapter with rgb/composite/mono '
        'monitors, double, DBCS and other codepages, soft_linefeed, small max_memory, max_files, max_reclen, '
        'reserved_memory, text_width 40, ...); a case is one Session.execute/evaluate call; distinct = distinct input text; observable: the type of any '
        'exception leaving the session API other than Exit')
EXPLANATION = ('PARTIAL: the theorems (PcbV.Props.C01) cover the funnel decision logic and the enumerated host-call sites '
               '(TIME$/DATE$ -> datetime, ENVIRON -> os.environ, RENUM trap remap, PEEK preset table, Integer.from_int -> '
               'struct.pack, exponent byte, VARPTR$ type byte, sprite unpack bounds, POINT pixel index, sound-queue expiry) for every input; the global claim over all programs is NOT a theorem and is '
               'covered only by this exploration (generators above), which is also the failing-input search.')
TRUSTED_BASE = ['site models in PcbV.Model.Funnel/Clock/IntOps/Mbf are hand transcriptions; the list of sites is finite and hand-chosen']
ASSUMPTIONS = ['host exceptions from call sites outside the modelled ones are only searched for, not excluded by proof']

BOUNDARY_NUMS = [b'-1', b'0', b'1', b'2', b'7', b'8', b'15', b'16', b'24', b'25', b'39', b'40', b'41', b'79', b'80', b'81',
                 b'127', b'128', b'254', b'255', b'256', b'257', b'639', b'640', b'32766', b'32767', b'32768', b'-32768',
                 b'-32769', b'65534', b'65535', b'65536', b'-65536', b'1E38', b'-1E38', b'1.7E38', b'1D308', b'1E-39', b'.5',
                 b'2.5', b'-.5', b'1E10', b'16777216', b'33554432', b'33554433', b'&HFFFF', b'&H8000', b'&O177777', b'3.4E38',
                 b'1#', b'1!', b'1%', b'99999', b'1000000']
BOUNDARY_STRS = [b'""', b'"A"', b'CHR$(0)', b'CHR$(255)', b'STRING$(255,65)', b'STRING$(255,0)', b'"A"+CHR$(0)+"B"',
                 b'CHR$(0)+CHR$(0)', b'"\xff\xfe"', b'" "', b'"*.*"', b'"A:"', b'"C:\\"', b'"..\\X"', b'"X$;"', b'"="',
                 b'"A="', b'"=A"', b'"12:30"', b'"-1"', b'"1-1-80"', b'"CON"', b'"LPT1:"', b'"COM1:"', b'"CAS1:"', b'"SCRN:"',
                 b'"KYBD:"', b'"@:"', b'"NUL"', b'SPACE$(200)', b'"1E99"', b'"&H"', b'"T255L64O6N84"', b'"U32767"',
                 b'"M+32767,+32767"', b'"TA360"', b'"S255"', b'"XA$;"', b'"=A;"', b'"C"+CHR$(13)', b'"ZZZ"', b'MKI$(-1)',
                 b'MKS$(1E38)', b'MKD$(1D308)', b'"\x1a"', b'"\r\n"']

TEMPLATES = [
    b'PRINT {n} + {n}', b'PRINT {n} - {n}', b'PRINT {n} * {n}', b'PRINT {n} / {n}', b'PRINT {n} \\ {n}', b'PRINT {n} MOD {n}',
    b'PRINT {n} ^ {n}', b'PRINT {n} AND {n}', b'PRINT {n} OR {n}', b'PRINT {n} XOR {n}', b'PRINT {n} EQV {n}',
    b'PRINT {n} IMP {n}', b'PRINT NOT {n}', b'PRINT -{n}', b'PRINT {n} = {n}', b'PRINT {s} + {s}', b'PRINT {s} < {s}',
    b'PRINT ABS({n})', b'PRINT ASC({s})', b'PRINT ATN({n})', b'PRINT CDBL({n})', b'PRINT CHR$({n})', b'PRINT CINT({n})',
    b'PRINT COS({n})', b'PRINT CSNG({n})', b'PRINT CVI({s})', b'PRINT CVS({s})', b'PRINT CVD({s})', b'PRINT EXP({n})',
    b'PRINT FIX({n})', b'PRINT FRE({n})', b'PRINT FRE({s})', b'PRINT HEX$({n})', b'PRINT INSTR({n},{s},{s})',
    b'PRINT INSTR({s},{s})', b'PRINT INT({n})', b'PRINT LEFT$({s},{n})', b'PRINT LEN({s})', b'PRINT LOG({n})',
    b'PRINT MID$({s},{n},{n})', b'PRINT MID$({s},{n})', b'PRINT MKI$({n})', b'PRINT MKS$({n})', b'PRINT MKD$({n})',
    b'PRINT OCT$({n})', b'PRINT PEEK({n})', b'PRINT POS({n})', b'PRINT RIGHT$({s},{n})', b'PRINT RND({n})',
    b'PRINT SGN({n})', b'PRINT SIN({n})', b'PRINT SPACE$({n})', b'PRINT SPC({n})', b'PRINT SQR({n})', b'PRINT STR$({n})',
    b'PRINT STRING$({n},{n})', b'PRINT STRING$({n},{s})', b'PRINT TAB({n})', b'PRINT TAN({n})', b'PRINT VAL({s})',
    b'PRINT VARPTR(A)', b'PRINT VARPTR$(A$)', b'PRINT VARPTR(#{n})', b'PRINT SCREEN({n},{n})', b'PRINT SCREEN({n},{n},{n})',
    b'PRINT POINT({n},{n})', b'PRINT POINT({n})', b'PRINT PMAP({n},{n})', b'PRINT STICK({n})', b'PRINT STRIG({n})',
    b'PRINT PEN({n})', b'PRINT INP({n})', b'PRINT USR({n})', b'PRINT USR{n}({n})', b'PRINT EOF({n})', b'PRINT LOC({n})',
    b'PRINT LOF({n})', b'PRINT INPUT$({n},#{n})', b'PRINT ENVIRON$({n})', b'PRINT ENVIRON$({s})', b'PRINT ERDEV; ERDEV$',
    b'PRINT ERR; ERL', b'PRINT CSRLIN', b'PRINT TIMER', b'PRINT DATE$; TIME$', b'PRINT IOCTL$(#{n})', b'PRINT PLAY({n})',
    b'PRINT EXTERR({n})', b'PRINT LPOS({n})', b'PRINT USING {s}; {n}', b'PRINT USING {s}; {s}', b'PRINT USING "###.##"; {n}',
    b'PRINT USING "**$##,.##^^^^"; {n}', b'PRINT USING "\\  \\"; {s}', b'LPRINT {n}; {s}', b'LPRINT USING {s}; {n}',
    b'WRITE {n}, {s}', b'A = {n}', b'A% = {n}', b'A# = {n}', b'A$ = {s}', b'A!({n}) = {n}', b'DIM B({n})', b'DIM B({n},{n})',
    b'DIM C$({n})', b'ERASE B', b'OPTION BASE {n}', b'SWAP A, B', b'SWAP A$, B$', b'MID$(A$, {n}, {n}) = {s}',
    b'LSET A$ = {s}', b'RSET A$ = {s}', b'DEF SEG = {n}', b'DEF SEG', b'POKE {n}, {n}', b'OUT {n}, {n}',
    b'DEFINT A-Z', b'DEFSTR S', b'DEF USR{n} = {n}', b'CLEAR', b'CLEAR ,{n}', b'CLEAR ,{n},{n}',
    b'CLEAR ,,{n}', b'CLEAR {n},{n},{n},{n}', b'RANDOMIZE {n}', b'ERROR {n}', b'RESUME', b'RESUME NEXT', b'RESUME {n}',
    b'RETURN', b'RETURN {n}', b'NEXT', b'WEND', b'GOTO {n}', b'GOSUB {n}', b'ON {n} GOTO 10,20', b'ON {n} GOSUB 10',
    b'ON ERROR GOTO {n}', b'RESTORE {n}', b'READ A', b'RUN {n}', b'CONT', b'STOP', b'END', b'NEW', b'LIST {n}-{n}',
    b'LIST {n}', b'LLIST {n}', b'DELETE {n}-{n}', b'DELETE {n}', b'RENUM {n},{n},{n}', b'RENUM {n}', b'AUTO {n},{n}',
    b'EDIT {n}', b'TRON', b'TROFF', b'KEY ON', b'KEY OFF', b'KEY LIST', b'KEY {n}, {s}', b'KEY({n}) ON', b'KEY({n}) STOP',
    b'ON KEY({n}) GOSUB {n}', b'ON TIMER({n}) GOSUB {n}', b'TIMER ON', b'ON PLAY({n}) GOSUB {n}', b'PLAY ON', b'PEN ON',
    b'ON PEN GOSUB {n}', b'STRIG({n}) ON', b'STRIG ON', b'ON STRIG({n}) GOSUB {n}', b'COM({n}) ON', b'ON COM({n}) GOSUB {n}',
    b'SCREEN {n}', b'SCREEN {n},{n}', b'SCREEN {n},{n},{n},{n}', b'SCREEN ,,{n},{n}', b'WIDTH {n}', b'WIDTH {n},{n}',
    b'WIDTH {s},{n}', b'WIDTH #{n},{n}', b'WIDTH LPRINT {n}', b'COLOR {n}', b'COLOR {n},{n}', b'COLOR {n},{n},{n}',
    b'CLS', b'CLS {n}', b'LOCATE {n},{n}', b'LOCATE {n},{n},{n},{n},{n}', b'LOCATE ,,{n}', b'VIEW PRINT {n} TO {n}',
    b'VIEW PRINT', b'VIEW ({n},{n})-({n},{n}),{n},{n}', b'VIEW SCREEN ({n},{n})-({n},{n})', b'VIEW',
    b'WINDOW ({n},{n})-({n},{n})', b'WINDOW SCREEN ({n},{n})-({n},{n})', b'WINDOW', b'PSET ({n},{n}),{n}',
    b'PRESET ({n},{n})', b'PSET STEP({n},{n})', b'LINE ({n},{n})-({n},{n}),{n}', b'LINE -({n},{n}),{n},B',
    b'LINE ({n},{n})-({n},{n}),{n},BF,{n}', b'LINE ({n},{n})-STEP({n},{n}),,,{n}', b'CIRCLE ({n},{n}),{n}',
    b'CIRCLE ({n},{n}),{n},{n},{n},{n},{n}', b'CIRCLE STEP({n},{n}),{n},,,,{n}', b'PAINT ({n},{n}),{n},{n}',
    b'PAINT ({n},{n}),{s},{n},{s}', b'PAINT ({n},{n})', b'DRAW {s}', b'GET ({n},{n})-({n},{n}),B', b'PUT ({n},{n}),B,XOR',
    b'PUT ({n},{n}),B', b'PALETTE {n},{n}', b'PALETTE', b'PALETTE USING B({n})', b'PCOPY {n},{n}', b'BEEP', b'BEEP ON',
    b'PLAY "MB":SOUND {n},{n}', b'PLAY "MB":SOUND {n},{n},{n},{n}', b'SOUND ON', b'NOISE {n},{n},{n}', b'PLAY "MB"+{s}', b'PLAY "MB"+{s},{s},{s}',
    b'OPEN {s} FOR OUTPUT AS {n}', b'OPEN {s} FOR INPUT AS #{n}', b'OPEN {s} FOR APPEND AS {n}',
    b'OPEN {s} FOR RANDOM AS {n} LEN={n}', b'OPEN {s} AS {n}', b'OPEN "R",{n},{s},{n}', b'OPEN {s},#{n},{s}',
    b'OPEN {s} FOR RANDOM ACCESS READ WRITE LOCK READ AS {n}', b'OPEN {s} FOR INPUT SHARED AS {n}', b'CLOSE', b'CLOSE #{n}',
    b'CLOSE {n},{n}', b'RESET', b'FIELD #{n}, {n} AS A$, {n} AS B$', b'FIELD {n}', b'GET #{n}', b'GET #{n},{n}',
    b'PUT #{n},{n}', b'PUT {n}', b'LOCK #{n}', b'LOCK #{n},{n} TO {n}', b'UNLOCK #{n},{n} TO {n}', b'UNLOCK {n}',
    b'PRINT #{n}, {n}; {s}', b'PRINT #{n}, USING {s}; {n}', b'WRITE #{n}, {n}, {s}', b'INPUT #{n}, A, A$',
    b'LINE INPUT #{n}, A$', b'IOCTL #{n}, {s}', b'KILL {s}', b'NAME {s} AS {s}', b'MKDIR {s}', b'RMDIR {s}', b'CHDIR {s}',
    b'FILES', b'FILES {s}', b'LOAD {s}', b'LOAD {s},R', b'SAVE {s}', b'SAVE {s},A', b'SAVE {s},P', b'MERGE {s}',
    b'CHAIN {s}', b'CHAIN {s},{n},ALL', b'CHAIN MERGE {s},{n},ALL,DELETE {n}-{n}', b'COMMON A, B$, C()', b'RUN {s}',
    b'BLOAD {s}', b'BLOAD {s},{n}', b'BSAVE {s},{n},{n}', b'ENVIRON {s}', b'TIME$ = {s}', b'DATE$ = {s}', b'SHELL',
    b'SHELL {s}', b'SYSTEM', b'TERM', b'MOTOR', b'MOTOR {n}', b'CALL A', b'CALL A({n},B$)', b'CALLS A', b'LCOPY {n}',
    b'LET A = {n}', b'FOR I={n} TO {n} STEP {n}:NEXT', b'FOR I%={n} TO {n}:NEXT', b'WHILE {n}:A=A+1:IF A>5 THEN END ELSE WEND',
    b'IF {n} THEN {n} ELSE {n}', b'IF {s}={s} THEN PRINT 1 ELSE PRINT 2', b'DEF FNA(X)=X*{n}', b'DEF FNS$(X$)=X$+{s}',
    b'PRINT FNA({n})', b'DATA {n},{s}', b'REM {s}', b"' {n}", b'LINE INPUT A$', b'INPUT A', b'INPUT "X";A$,B', b'INPUT;"X",A',
    b'PRINT INKEY$', b'PRINT INPUT$({n})', b'RANDOMIZE', b'KEY {n}, CHR$({n})+CHR$({n})', b'ON {n} GOTO', b'PRINT SPC({n});TAB({n})',
    b'VIEW PRINT {n} TO {n}:LOCATE {n},{n}:PRINT {s};', b'SCREEN {n}:PSET({n},{n}):PRINT POINT({n},{n})',
    b'SCREEN 1:VIEW({n},{n})-({n},{n}):CLS:WINDOW({n},{n})-({n},{n}):LINE({n},{n})-({n},{n})',
    b'SCREEN 2:DIM B({n}):GET({n},{n})-({n},{n}),B:PUT({n},{n}),B', b'SCREEN 1:DRAW {s}:PAINT({n},{n}),{n},{n}',
    b'OPEN "T" FOR OUTPUT AS 1:PRINT#1,{s}:CLOSE:OPEN "T" FOR INPUT AS 1:INPUT#1,A$:PRINT EOF(1):CLOSE',
    b'OPEN "R" AS 1 LEN={n}:FIELD 1,{n} AS A$:LSET A$={s}:PUT 1,{n}:GET 1,{n}:PRINT LOF(1);LOC(1):CLOSE',
    b'ON ERROR GOTO 0', b'OPTION BASE {n}:DIM Q({n}):Q({n})={n}', b'A$={s}:B$=A$+A$+A$:PRINT LEN(B$)',
    b'DEF SEG={n}:POKE {n},{n}:PRINT PEEK({n})', b'DEF SEG=0:POKE 1050,PEEK(1052)', b'DEF SEG=&HB800:POKE {n},{n}:BSAVE "V",{n},{n}',
]

BANNED = re.compile(br'\bSHELL\b|\bSYSTEM\b|\bTERM\b', re.I)


# ---------------------------------------------------------------------------------------------------------------
# structured families (added after eight escapes were found by hand that the template kinds did not reach):
#   devices  every file statement against every device name and open mode
#   ports    OUT / INP / WAIT over the documented machine ports in every screen mode of every adapter
#   gfx      SCREEN with all four arguments, PCOPY, VIEW/WINDOW/POINT/PSET/PMAP with out-of-range coordinates,
#            graphics GET/PUT with arrays of every type and tiny sizes, in every mode of every adapter
#   macro    DRAW / PLAY strings from the GML / MML grammars with =/X pointer strings (all type bytes), extreme
#            numbers and repeat counts
#   locks    one file under several file numbers with SHARED / LOCK modes, LOCK/UNLOCK/GET/PUT/CLOSE interleaved

VIDEO_MODES = [('cga', [0, 1, 2]), ('ega', [0, 1, 2, 7, 8, 9, 10]), ('vga', [0, 1, 2, 7, 8, 9]),
               ('tandy', [0, 1, 2, 3, 4, 5, 6]), ('pcjr', [0, 1, 2, 3, 4, 5, 6]), ('hercules', [0, 3]), ('mda', [0]),
               ('olivetti', [0, 1, 2, 3, 4]), ('ega_mono', [0, 10]), ('ega_64k', [0, 1, 2, 7, 8, 9]), (None, [0, 1, 2, 7, 8, 9])]

DEVICE_NAMES = [b'SCRN:', b'KYBD:', b'LPT1:', b'LPT2:', b'LPT3:', b'COM1:', b'COM2:', b'CAS1:', b'NUL', b'CON', b'AUX', b'PRN',
                b'F', b'C:F', b'@:F', b'A:F', b'NUL.X', b'CON.TXT', b'SCRN:X', b'LPT1:X', b'KYBD:X', b'LPT4:', b'COM3:',
                b'nul', b'Scrn:', b'C:NUL', b'COM1:9600,N,8,1', b'LPT2:BIN']
OPEN_MODES = [b'FOR INPUT', b'FOR OUTPUT', b'FOR APPEND', b'FOR RANDOM', b'', b'FOR RANDOM ACCESS READ',
              b'FOR RANDOM ACCESS WRITE', b'FOR INPUT SHARED', b'FOR OUTPUT LOCK WRITE', b'FOR RANDOM LOCK READ WRITE']
OPEN_LENS = [b'', b'', b'', b' LEN=1', b' LEN=2', b' LEN=128', b' LEN=32767', b' LEN=0', b' LEN=129']
FILE_STMTS = [
    b'PRINT#1,"A";1', b'PRINT#1,USING "##";1', b'WRITE#1,1,"A"', b'INPUT#1,A$', b'INPUT#1,A', b'INPUT#1,A$,B,C#',
    b'LINE INPUT#1,A$', b'PRINT INPUT$(1,1)', b'PRINT INPUT$(3,#1)', b'GET 1', b'GET#1,2', b'PUT 1', b'PUT#1,2',
    b'GET 1,{n}', b'PUT 1,{n}', b'PRINT EOF(1)', b'PRINT LOC(1)', b'PRINT LOF(1)', b'WIDTH #1,40', b'WIDTH #1,{n}',
    b'LOCK #1', b'LOCK#1,1 TO 2', b'UNLOCK #1', b'UNLOCK#1,1 TO 2', b'FIELD 1,2 AS A$', b'FIELD 1,{n} AS A$,{n} AS B$',
    b'FIELD 1,2 AS A$:LSET A$="AB":PUT 1:GET 1', b'CLOSE 1', b'CLOSE', b'RESET', b'PRINT IOCTL$(1)', b'IOCTL#1,"A"',
    b'PRINT VARPTR(#1)', b'PRINT#1,STRING$(255,"A");:PRINT#1,TAB(300);SPC(300);',
    b'PRINT#1,CHR$(13);CHR$(10);CHR$(8);CHR$(9);CHR$(12);CHR$(26);CHR$(0);', b'PRINT#1,TAB({n});SPC({n});{s}',
    b'OPEN "{d}" AS 2', b'OPEN "{d}" FOR INPUT AS 2:CLOSE 1', b'LIST ,#1', b'PRINT#1,', b'WRITE#1', b'PRINT LPOS(1)',
    b'DEF SEG:PRINT PEEK(VARPTR(#1))', b'PRINT#1,{s};:PRINT LOC(1);LOF(1)', b'A$=INPUT$({n},1)', b'GET#1:PUT#1:PRINT LOC(1)',
]
NAME_STMTS = [
    b'LOAD "{d}"', b'LOAD "{d}",R', b'SAVE "{d}"', b'SAVE "{d}",A', b'SAVE "{d}",P', b'BLOAD "{d}"', b'BLOAD "{d}",0',
    b'BSAVE "{d}",0,10', b'MERGE "{d}"', b'CHAIN "{d}"', b'CHAIN MERGE "{d}"', b'RUN "{d}"', b'FILES "{d}"', b'KILL "{d}"',
    b'NAME "{d}" AS "Q"', b'NAME "Q" AS "{d}"', b'LIST ,"{d}"', b'LIST 1-2,"{d}"', b'WIDTH "{d}",40', b'WIDTH "{d}",255',
    b'WIDTH "{d}",{n}', b'MKDIR "{d}"', b'CHDIR "{d}"', b'RMDIR "{d}"', b'OPEN "O",1,"{d}"', b'OPEN "I",#1,"{d}",1',
    b'OPEN "R",1,"{d}",{n}', b'OPEN "A",2,"{d}"', b'OPEN "{d}" FOR OUTPUT AS 1:OPEN "{d}" FOR INPUT AS 2',
    b'OPEN "{d}" FOR OUTPUT AS 1:KILL "{d}"', b'OPEN "{d}" AS 1:NAME "{d}" AS "Q"', b'LLIST', b'LPRINT "A";TAB(90);1',
    b'LPRINT USING "##";1:PRINT LPOS(0);LPOS(1);LPOS(2);LPOS(3)', b'WIDTH LPRINT {n}:LPRINT {s}', b'LCOPY',
    b'OPEN "{d}" FOR OUTPUT AS 1:PRINT#1,"10 PRINT 1":CLOSE:LOAD "{d}"', b'OPEN "{d}" FOR OUTPUT AS 1:SAVE "{d}"',
    b'PRINT IOCTL$(#1)', b'MOTOR:OPEN "{d}" FOR INPUT AS 1', b'ON COM(1) GOSUB 10:COM(1) ON:OPEN "{d}" AS 1',
]
KEYS_FOR_KYBD = u'A,1\rB\r'

# machine ports: the ones machine.py handles, their neighbours, a few classic ones, and the boundaries of the range
PORTS_HANDLED = [0x60, 0x201, 0x3c5, 0x3cf, 0x3d8, 0x3d9, 0x378, 0x379, 0x37a, 0x278, 0x279, 0x27a,
                 0x3f8, 0x3f9, 0x3fb, 0x3fc, 0x3fd, 0x3fe, 0x2f8, 0x2f9, 0x2fb, 0x2fc, 0x2fd, 0x2fe]
PORTS_OTHER = [0, 1, 0x20, 0x21, 0x40, 0x41, 0x42, 0x43, 0x61, 0x62, 0x64, 0x200, 0x202, 0x3b4, 0x3b5, 0x3b8, 0x3ba, 0x3bc,
               0x3bd, 0x3be, 0x3bf, 0x3c0, 0x3c2, 0x3c4, 0x3c6, 0x3c7, 0x3c8, 0x3c9, 0x3ce, 0x3d0, 0x3d4, 0x3d5, 0x3da,
               0x3de, 0x3df, 0x3e8, 0x2e8, 0x3fa, 0x3ff, 0x2fa, 0x2ff, 0x277, 0x27b, 0x377, 0x37b, 0x7fff, 0x8000, 0xffff]
PORT_VALUES = [b'0', b'1', b'2', b'3', b'4', b'7', b'8', b'15', b'16', b'&H1A', b'&H1E', b'32', b'&H38', b'64', b'&H80',
               b'&H83', b'254', b'255', b'256', b'-1', b'32767', b'&H10', b'&H28', b'&H30', b'1.5']
PORT_FOLLOW = [b'DEF SEG=&HA000:POKE {n},255:PRINT PEEK({n})', b'DEF SEG=&HB800:POKE {n},65:PRINT PEEK({n})',
               b'PSET(1,1),1:PRINT POINT(1,1)', b'PRINT "X";', b'CLS', b'DEF SEG=&HA000:BSAVE "V",0,100', b'DEF SEG=&HA000:BLOAD "V"',
               b'DEF SEG=&HB800:BSAVE "W",0,{n}', b'DEF SEG=&HB800:BLOAD "W",{n}', b'LPRINT "A";', b'PRINT STICK(0);STRIG(1)',
               b'COLOR {n},{n}', b'SCREEN {m}', b'PALETTE {n},{n}']

COORDS = [b'-32768', b'-32767', b'-1000', b'-641', b'-2', b'-1', b'0', b'1', b'2', b'7', b'8', b'9', b'10', b'11', b'49', b'50',
          b'51', b'99', b'100', b'160', b'198', b'199', b'200', b'201', b'318', b'319', b'320', b'321', b'347', b'348', b'349',
          b'350', b'351', b'399', b'400', b'479', b'480', b'638', b'639', b'640', b'641', b'719', b'720', b'1000', b'32766',
          b'32767', b'.5', b'-.5', b'1E10', b'-1E10', b'1E38', b'32767.4', b'32767.5', b'-32768.5', b'65535', b'3.4E38',
          b'1E-38', b'32768', b'-32769']
SMALL = [b'0', b'1', b'2', b'3', b'4', b'5', b'6', b'7', b'8', b'9', b'15', b'16', b'24', b'25', b'-1', b'254', b'255', b'256']
ATTRS = [b'0', b'1', b'2', b'3', b'4', b'7', b'15', b'16', b'-1', b'255', b'256', b'63', b'64', b'32767']
GFX_ARRAYS = [b'T%', b'U%', b'V%', b'W!', b'X!', b'Y#', b'Z#', b'H%', b'H%', b'H%', b'L!', b'M#', b'S$', b'NX%']
GFX_SETUP = b'DIM T%(0),U%(1),V%(2),W!(0),X!(1),Y#(0),Z#(1),H%(300),L!(100),M#(50),S$(3)'
GFX_STMTS = [
    b'SCREEN {m},{o},{p},{p}', b'SCREEN {m},{o},{p},{p}', b'SCREEN {m},{o},{p},{p}', b'SCREEN ,,{p},{p}', b'SCREEN {m}',
    b'SCREEN {m},{o}', b'SCREEN ,{o},{p}', b'SCREEN {m},,{p}', b'SCREEN {m},,,{p}', b'PCOPY {p},{p}', b'PCOPY {p},{p}',
    b'PRINT POINT({c},{c})', b'PRINT POINT({c},{c})', b'PRINT POINT({k})', b'PSET({c},{c}),{a}', b'PRESET({c},{c})',
    b'PSET STEP({c},{c})', b'PRINT PMAP({c},{k})', b'VIEW ({e},{e})-({c},{c}),{a},{a}', b'VIEW ({e},{e})-({c},{c})',
    b'VIEW ({c},{c})-({c},{c})', b'VIEW SCREEN ({e},{e})-({c},{c})', b'VIEW', b'WINDOW ({c},{c})-({c},{c})',
    b'WINDOW SCREEN ({c},{c})-({c},{c})', b'WINDOW', b'LINE ({c},{c})-({c},{c}),{a}', b'LINE -({c},{c}),{a},B',
    b'LINE ({c},{c})-({c},{c}),{a},BF', b'LINE ({c},{c})-({c},{c}),,,{c}', b'LINE STEP({c},{c})-STEP({c},{c})',
    b'CIRCLE ({c},{c}),{c},{a}', b'CIRCLE ({c},{c}),{c},{a},{c},{c},{c}', b'CIRCLE ({e},{e}),{e},,-{k},-{k},{c}',
    b'PAINT ({c},{c}),{a},{a}', b'PAINT ({e},{e}),CHR$({b})+CHR$({b})+CHR$({b}),{a}', b'PAINT ({e},{e}),{a},{a},CHR$({b})',
    b'CLS', b'CLS {k}', b'GET ({c},{c})-({c},{c}),{arr}', b'GET ({e},{e})-({e},{e}),{arr}', b'GET ({e},{e})-STEP({e},{e}),{arr}',
    b'PUT ({c},{c}),{arr}', b'PUT ({e},{e}),{arr},{op}', b'PUT ({e},{e}),{arr}', b'PUT ({e},{e}),{arr}',
    b'{arr}(0)={c}:{arr}(1)={c}', b'H%(0)={e}:H%(1)={e}', b'V%(0)={e}:V%(1)={e}', b'X!(0)=CVS(MKI$({e})+MKI$({e}))',
    b'ERASE H%:DIM H%({k})', b'DRAW "M{c},{c}"', b'DRAW "BM+{c},-{c}"', b'DRAW "U{c}R{c}"', b'DRAW "TA{c}S{b}A{k}U9"',
    b'COLOR {a},{a}', b'COLOR {a},{a},{a}', b'PALETTE {a},{a}', b'PALETTE', b'PALETTE USING H%({k})', b'WIDTH {w}',
    b'WIDTH {w},{k}', b'LOCATE {k},{k}', b'LOCATE {k},{k},{k},{k},{k}', b'PRINT "X";', b'PRINT STRING$(90,65)',
    b'VIEW PRINT {k} TO {k}', b'VIEW PRINT', b'DEF SEG=&HB800:POKE {c},{b}', b'DEF SEG=&HA000:POKE {c},{b}',
    b'DEF SEG=&HB800:BLOAD "V",{c}', b'DEF SEG=&HB800:BSAVE "V",{c},{c}', b'PRINT SCREEN({k},{k})', b'PRINT SCREEN({k},{k},1)',
    b'KEY ON', b'KEY OFF', b'VIEW ({e},{e})-({c},{c}):PRINT POINT({c},{c})', b'VIEW ({e},{e})-({c},{c}):PSET({c},{c}):PRINT POINT({c},{c})',
    b'WINDOW ({c},{c})-({c},{c}):PRINT PMAP({c},{k});POINT({c},{c})', b'PRINT POINT({c},{c});POINT({e},{c});POINT({c},{e})',
    b'OUT &H3C5,{b}', b'OUT &H3CF,{b}', b'OUT &H3D8,{b}', b'OUT &H3D9,{b}', b'PRINT CSRLIN;POS(0)', b'LCOPY', b'BEEP',
]

# macro languages
GML_CMDS = [b'U', b'D', b'L', b'R', b'E', b'F', b'G', b'H', b'M', b'B', b'N', b'A', b'TA', b'C', b'S', b'P', b'X', b';', b' ', b'Z', b'T']
MML_CMDS = [b'C', b'D', b'E', b'F', b'G', b'A', b'B', b'N', b'O', b'L', b'T', b'P', b'<', b'>', b'MN', b'ML', b'MS', b'MB', b'MF',
            b'X', b'V', b';', b' ', b'M', b'Q']
MACRO_NUMS = [b'0', b'1', b'2', b'3', b'4', b'6', b'7', b'8', b'9', b'12', b'31', b'32', b'63', b'64', b'65', b'84', b'85', b'100',
              b'254', b'255', b'256', b'360', b'361', b'999', b'32767', b'32768', b'65535', b'65536', b'99999', b'4294967296',
              b'99999999999999999999', b'-1', b'-0', b'+5', b'-32768', b'1.5', b'1E5', b'&H10', b'']
MACRO_SETUP = (b'A%=3:B!=2.5:C#=4:D$="U2":E$="CDE":DIM I%(3),S$(2),R!(2),Q#(1):I%(1)=5:I%(2)=-7:S$(0)="R1":S$(1)="O3G":'
               b'R!(1)=1E30:Q#(1)=-1D300:Z$="XZ$;":Y$="X"+VARPTR$(Y$):N%=-1:BIG!=1E38')
MACRO_VARS = [b'A%', b'B!', b'C#', b'D$', b'E$', b'I%(1)', b'I%(2)', b'I%(3)', b'S$(0)', b'S$(1)', b'S$(2)', b'R!(1)', b'Q#(1)',
              b'Z$', b'Y$', b'N%', b'BIG!', b'NOSUCH', b'NOSUCH$', b'I%(9)', b'I%(0', b'S$(-1)', b'A', b'I%(A%)', b'I%(I%(1))']

LOCK_OPENS = [b'FOR RANDOM', b'FOR RANDOM SHARED', b'FOR RANDOM LOCK READ', b'FOR RANDOM LOCK WRITE', b'FOR RANDOM LOCK READ WRITE',
              b'FOR RANDOM ACCESS READ SHARED', b'FOR RANDOM ACCESS WRITE SHARED', b'FOR RANDOM ACCESS READ WRITE SHARED', b'',
              b'FOR INPUT', b'FOR INPUT SHARED', b'FOR INPUT LOCK READ', b'FOR OUTPUT', b'FOR OUTPUT SHARED', b'FOR APPEND',
              b'FOR APPEND SHARED', b'FOR APPEND LOCK WRITE', b'FOR RANDOM SHARED', b'FOR RANDOM SHARED']
LOCK_RECS = [b'1', b'1', b'2', b'2', b'3', b'4', b'0', b'-1', b'32767', b'65535', b'16777215', b'33554430', b'33554431',
             b'33554432', b'33554433', b'1E10', b'.5', b'1.5']
LOCK_OPS = [b'LOCK #{f}', b'LOCK #{f}', b'LOCK #{f},{r}', b'LOCK #{f},{r} TO {r}', b'LOCK #{f},{r} TO {r}', b'UNLOCK #{f}',
            b'UNLOCK #{f},{r}', b'UNLOCK #{f},{r} TO {r}', b'GET #{f}', b'GET #{f},{r}', b'PUT #{f}', b'PUT #{f},{r}',
            b'GET #{f},{r}', b'PUT #{f},{r}', b'CLOSE {f}', b'CLOSE {f}', b'FIELD {f},4 AS A$:LSET A$="ABCD"', b'PRINT#{f},"XY"',
            b'INPUT#{f},A$', b'LINE INPUT#{f},A$', b'PRINT EOF({f});LOC({f});LOF({f})', b'WRITE#{f},1', b'LOCK {f},TO {r}',
            b'UNLOCK {f}', b'LOCK #{f}:LOCK #{f}', b'LOCK #{f},{r}:UNLOCK #{f},{r}', b'KILL "{n}"', b'NAME "{n}" AS "LZ"',
            b'RESET', b'CLOSE', b'OPEN "{n}" {o} AS {f}', b'OPEN "{n}" {o} AS {f} LEN=4', b'OPEN "{n}" {o} AS {f} LEN=4',
            b'FILES', b'SAVE "{n}",A', b'BSAVE "{n}",0,8', b'BLOAD "{n}"', b'PRINT INPUT$(2,{f})']


def _sub(rng, t, pools):
    """fill {x} placeholders from pools (dict name -> list or callable)"""
    out = t
    for name, pool in pools.items():
        ph = b'{' + name + b'}'
        while ph in out:
            v = pool(rng) if callable(pool) else rng.choice(pool)
            out = out.replace(ph, v, 1)
    return out


def _chr_expr(data):
    """BASIC string expression for arbitrary bytes"""
    parts, run = [], b''
    for i in range(len(data)):
        c = data[i:i + 1]
        if 32 <= c[0] < 127 and c != b'"':
            run += c
        else:
            if run:
                parts.append(b'"' + run + b'"')
                run = b''
            parts.append(b'CHR$(%d)' % c[0])
    if run:
        parts.append(b'"' + run + b'"')
    return b'+'.join(parts) if parts else b'""'


def _pointer_expr(rng):
    """a VARPTR$-style operand: [type byte][pointer], of 0..4 bytes, as a BASIC string expression"""
    k = rng.random()
    var = rng.choice([b'A%', b'B!', b'C#', b'D$', b'E$', b'I%(0)', b'I%(1)', b'I%(3)', b'S$(0)', b'S$(1)', b'S$(2)', b'R!(2)',
                      b'Q#(0)', b'Q#(1)', b'Z$', b'Y$'])
    if k < 0.25:
        return b'VARPTR$(' + var + b')'
    if rng.random() < 0.6:
        tb = rng.choice([0, 1, 2, 3, 4, 5, 6, 7, 8])
    else:
        tb = rng.randrange(256)
    if k < 0.55:
        off = rng.choice([b'', b'+1', b'+2', b'+3', b'-1', b'+4', b'+8', b'+6', b'+200', b'-2'])
        return b'CHR$(%d)+MKI$(VARPTR(%s)%s)' % (tb, var, off)
    if k < 0.8:
        ptr = rng.choice([0, 1, 255, 256, 32767, 32768, 65535, rng.randrange(65536), rng.randrange(0x0e00, 0x1400)])
        return _chr_expr(bytes([tb, ptr & 255, ptr >> 8]))
    n = rng.choice([0, 1, 2, 2, 4])
    return _chr_expr(bytes([tb] + [rng.randrange(256) for _ in range(n)][:n])[:max(n, 1) if n else 1]) if n else b'CHR$(%d)' % tb


def _macro_expr(rng, play):
    """a DRAW or PLAY operand built from the macro-language grammar; returns a BASIC string expression"""
    parts = []
    text = b'MB' if play else b''
    budget = 200

    def flush():
        nonlocal text
        if text:
            parts.append(_chr_expr(text))
            text = b''
    for _ in range(rng.randrange(1, 9)):
        if len(text) > budget:
            break
        cmd = rng.choice(MML_CMDS if play else GML_CMDS)
        if rng.random() < 0.1:
            cmd = cmd.lower()
        text += rng.choice([b'', b'', b' ', b';'])
        if cmd.upper() == b'X':
            text += cmd
            r = rng.random()
            if r < 0.4:
                text += rng.choice(MACRO_VARS) + rng.choice([b';', b';', b''])
            else:
                flush()
                parts.append(_pointer_expr(rng))
            continue
        if play and cmd.upper() == b'MF':
            cmd = b'MB'
        text += cmd
        if play and cmd.upper() in (b'C', b'D', b'E', b'F', b'G', b'A', b'B'):
            text += rng.choice([b'', b'', b'#', b'+', b'-', b'##'])
        if cmd.upper() == b'M' and not play:
            text += rng.choice([b'', b'+', b'-']) + rng.choice(MACRO_NUMS) + rng.choice([b',', b',', b' ', b'']) + \
                rng.choice([b'', b'+', b'-']) + rng.choice(MACRO_NUMS)
            continue
        r = rng.random()
        if r < 0.4:
            text += rng.choice([b'', b'', b'+', b'-', b' ']) + rng.choice(MACRO_NUMS)
        elif r < 0.55:
            text += b'=' + rng.choice(MACRO_VARS) + rng.choice([b';', b';', b';', b''])
        elif r < 0.85:
            text += rng.choice([b'', b'-', b'+']) + b'='
            flush()
            parts.append(_pointer_expr(rng))
        if play and rng.random() < (0.6 if cmd.upper() in (b'C', b'D', b'E', b'F', b'G', b'A', b'B', b'N', b'P') else 0.1):
            text += rng.choice([b'.', b'..', b'...', b' . .', b'.' * 10, b'.' * 40, b'.' * 70, b'.' * 80, b'.' * 110, b'.' * 150,
                                b'.' * 230])[:max(0, 240 - len(text))]
        if rng.random() < 0.1:
            text += b','
    flush()
    if not parts:
        parts = [b'""']
    return b'+'.join(parts)


def family_case(rng, kind, st):
    """one case of a structured family: list of ('execute', bytes) / ('keys', str) operations.
    `st` carries per-session facts (video adapter, mode list)."""
    ops = []
    if kind == 'devices':
        dev = rng.choice(DEVICE_NAMES)
        pools = {b'd': [dev], b'n': BOUNDARY_NUMS, b's': BOUNDARY_STRS}
        if rng.random() < 0.3:
            ops.append(('execute', _sub(rng, rng.choice(NAME_STMTS), pools)))
        else:
            mode = rng.choice(OPEN_MODES)
            ops.append(('execute', b'OPEN "%s" %s AS 1%s' % (dev, mode, rng.choice(OPEN_LENS))))
            for _ in range(rng.choice([1, 1, 2, 3])):
                stmt = _sub(rng, rng.choice(FILE_STMTS), pools)
                if dev.upper()[:4] in (b'KYBD', b'CON', b'CON.') and (b'INPUT' in stmt or b'EOF' in stmt or b'GET' in stmt):
                    ops.append(('keys', KEYS_FOR_KYBD))
                ops.append(('execute', stmt))
        ops.append(('execute', b'CLOSE'))
        if rng.random() < 0.1:
            ops.append(('execute', b'KILL "F"'))
    elif kind == 'ports':
        port = rng.choice(PORTS_HANDLED) if rng.random() < 0.7 else rng.choice(PORTS_OTHER)
        if rng.random() < 0.1:
            port += rng.choice([-1, 1, 0x400, -0x10000])
        pexpr = b'%d' % port
        if 0 <= port <= 0xffff:
            pexpr = rng.choice([pexpr, b'&H%X' % port, b'%d' % (port - 65536) if port >= 0x8000 else pexpr])
        pools = {b'n': BOUNDARY_NUMS, b'v': PORT_VALUES, b'm': [b'%d' % m for m in st['modes']], b'p': [pexpr]}
        r = rng.random()
        if r < 0.5:
            ops.append(('execute', _sub(rng, b'OUT {p},{v}', pools)))
        elif r < 0.96:
            ops.append(('execute', _sub(rng, rng.choice([b'PRINT INP({p})', b'A=INP({p}):OUT {p},A AND 255']), pools)))
        else:
            # WAIT returns at once when (INP XOR x) AND mask is non-zero; other cases run into the case timeout
            ops.append(('execute', _sub(rng, rng.choice([b'WAIT {p},255,255', b'WAIT {p},{v},{v}', b'WAIT {p},255,{v}']), pools)))
        if rng.random() < 0.35:
            ops.append(('execute', _sub(rng, rng.choice(PORT_FOLLOW), pools)))
    elif kind == 'gfx':
        pools = {b'c': COORDS, b'e': [b'0', b'1', b'2', b'8', b'10', b'15', b'16', b'50', b'100', b'199', b'319', b'7', b'31', b'32'],
                 b'a': ATTRS, b'b': [b'0', b'1', b'2', b'3', b'4', b'7', b'8', b'15', b'16', b'85', b'128', b'170', b'255'],
                 b'k': SMALL, b'w': [b'20', b'40', b'80', b'0', b'255', b'41'], b'arr': GFX_ARRAYS,
                 b'op': [b'PSET', b'PRESET', b'AND', b'OR', b'XOR'],
                 b'm': [b'%d' % m for m in st['modes']] * 3 + [b'0', b'1', b'2', b'3', b'7', b'9', b'10', b'11', b'255', b'-1', b''],
                 b'o': [b'', b'', b'0', b'1', b'2', b'255'], b'p': [b'', b'0', b'0', b'1', b'2', b'3', b'4', b'5', b'7', b'8', b'15', b'16', b'255', b'-1']}
        ops.append(('execute', _sub(rng, rng.choice(GFX_STMTS), pools)))
    elif kind == 'macro':
        play = rng.random() < 0.45
        expr = _macro_expr(rng, play)
        if play:
            ops.append(('execute', (b'PLAY ' + expr) if rng.random() < 0.85 or not st.get('multivoice')
                        else b'PLAY ' + expr + b',' + _macro_expr(rng, True) + b',' + _macro_expr(rng, True)))
            ops.append(('execute', b'SOUND 100,0'))
        else:
            ops.append(('execute', b'DRAW ' + expr))
            if rng.random() < 0.1:
                ops.append(('execute', b'PRINT POINT(0);POINT(1)'))
    elif kind == 'locks' and rng.random() < 0.6:
        # focused: one file under two or three numbers, all shared, valid numbers and records
        n = rng.choice([2, 2, 3])
        ops.append(('execute', b'RESET'))
        for i in range(n):
            ops.append(('execute', b'OPEN "L1" %s AS %d LEN=4' % (rng.choice([b'FOR RANDOM SHARED', b'FOR RANDOM SHARED', b'SHARED',
                                                                               b'FOR RANDOM ACCESS READ WRITE SHARED', b'FOR RANDOM',
                                                                               b'FOR INPUT SHARED', b'FOR APPEND SHARED']), i + 1)))
        pools = {b'f': [b'%d' % (i + 1) for i in range(n)], b'r': [b'1', b'2', b'3', b'4', b'2']}
        focused = [b'LOCK #{f}', b'LOCK #{f}', b'LOCK #{f},{r}', b'LOCK #{f},{r} TO {r}', b'UNLOCK #{f}', b'UNLOCK #{f},{r}',
                   b'UNLOCK #{f},{r} TO {r}', b'GET #{f},{r}', b'PUT #{f},{r}', b'GET #{f}', b'PUT #{f}', b'GET #{f},{r}',
                   b'PUT #{f},{r}', b'CLOSE {f}', b'PRINT LOC({f});LOF({f})', b'FIELD {f},4 AS A$:LSET A$="ABCD"']
        for _ in range(rng.randrange(4, 11)):
            ops.append(('execute', _sub(rng, rng.choice(focused), pools)))
    elif kind == 'locks':
        names = [b'L1', b'L1', b'L1', b'L2']
        pools = {b'f': [b'1', b'2', b'3', b'1', b'2', b'4', b'0'], b'r': LOCK_RECS, b'n': names, b'o': LOCK_OPENS}
        ops.append(('execute', b'RESET'))
        for i in range(rng.choice([2, 2, 3])):
            ops.append(('execute', b'OPEN "%s" %s AS %d LEN=%s' % (rng.choice(names), rng.choice(LOCK_OPENS), i + 1,
                                                                    rng.choice([b'4', b'4', b'128', b'1']))))
        for _ in range(rng.randrange(4, 12)):
            ops.append(('execute', _sub(rng, rng.choice(LOCK_OPS), pools)))
    return ops


class CaseTimeout(BaseException):
    pass


class limits(object):
    """Bound what a BASIC statement can make the host write or (memory=True, single-session use only: every session
    thread reserves address space) allocate: PUT #1,33554432 on a file with 128-byte records asked for 4 GiB.
    Beyond the bounds the interpreter sees EFBIG / MemoryError like on a small machine."""
    FSIZE, EXTRA_AS = 256 << 20, 2 << 30

    def __init__(self, memory=False):
        self.memory = memory

    def __enter__(self):
        import resource
        self.old = []
        signal.signal(signal.SIGXFSZ, signal.SIG_IGN)
        want = [(resource.RLIMIT_FSIZE, self.FSIZE)]
        if self.memory:
            try:
                vm = [int(l.split()[1]) << 10 for l in open('/proc/self/status') if l.startswith('VmSize:')][0]
                want.append((resource.RLIMIT_AS, vm + self.EXTRA_AS))
            except (EnvironmentError, IndexError, ValueError):
                pass
        for res, soft in want:
            cur = resource.getrlimit(res)
            self.old.append((res, cur))
            hard = cur[1]
            resource.setrlimit(res, (soft if hard == resource.RLIM_INFINITY else min(soft, hard), hard))
        return self

    def __exit__(self, *exc):
        import resource
        for res, cur in self.old:
            resource.setrlimit(res, cur)
        return False


def _alarm(signum, frame):
    raise CaseTimeout()


def site_of(tb):
    """innermost frame inside the pcbasic package: 'file.py:function'"""
    site = None
    for fs in traceback.extract_tb(tb):
        fn = fs.filename.replace('\\', '/')
        if '/pcbasic/' in fn:
            site = '%s:%s' % (fn.split('/pcbasic/')[-1], fs.name)
    return site or 'outside-pcbasic'


def load_corpus(repo):
    pool = set()
    root = os.path.join(repo, 'tests', 'basic')
    for dp, dn, fns in os.walk(root):
        if os.sep + 'model' in dp or os.sep + 'output' in dp:
            continue
        for fn in fns:
            if fn.upper().endswith('.BAS'):
                try:
                    data = open(os.path.join(dp, fn), 'rb').read()
                except EnvironmentError:
                    continue
                if data[:1] in (b'\xff', b'\xfe', b'\xfc'):
                    continue
                for line in data.replace(b'\r', b'\n').split(b'\n'):
                    line = line.strip().rstrip(b'\x1a')
                    m = re.match(br'^\d+\s*(.*)$', line)
                    body = m.group(1) if m else line
                    if 2 <= len(body) <= 160 and not BANNED.search(body):
                        pool.add(body)
    return sorted(pool)


def mutate(rng, line):
    def num(m):
        return rng.choice(BOUNDARY_NUMS) if rng.random() < 0.35 else m.group(0)

    def strg(m):
        return rng.choice(BOUNDARY_STRS) if rng.random() < 0.3 else m.group(0)
    out = re.sub(br'"[^"]*"', strg, line)
    out = re.sub(br'(?<![A-Za-z0-9$%!#"&.])\d+(\.\d+)?', num, out)
    k = rng.random()
    if k < 0.05 and len(out) > 3:
        i = rng.randrange(len(out))
        out = out[:i] + out[i + 1:]
    elif k < 0.1:
        i = rng.randrange(len(out) + 1)
        out = out[:i] + rng.choice([b',', b'(', b')', b'-', b'#', b'$', b'"', b':', b';', b'\xff', b'\x00', b'&H', b'.', b'E']) + out[i:]
    return out


def fill(rng, tmpl):
    out = tmpl
    while b'{n}' in out:
        out = out.replace(b'{n}', rng.choice(BOUNDARY_NUMS), 1)
    while b'{s}' in out:
        out = out.replace(b'{s}', rng.choice(BOUNDARY_STRS), 1)
    return out


def soup_file(rng, corpus_programs):
    k = rng.random()
    if k < 0.25:
        body = bytes(rng.randrange(256) for _ in range(rng.randrange(0, 400)))
        return rng.choice([b'\xff', b'\xfe', b'\xfd', b'\xfc', b'', b'1']) + body
    if k < 0.5:
        # plausible tokenised image with broken links / tokens
        out = bytearray(b'\xff')
        for i in range(rng.randrange(1, 8)):
            out += bytes([rng.randrange(1, 256), rng.randrange(256), (i * 10) & 255, rng.randrange(0, 3)])
            out += bytes(rng.choice([0x91, 0x20, 0x41, 0x0e, 0x0f, 0x1c, 0x1d, 0x1f, 0x22, 0x3a, 0x8f, 0x84, 0xfd, 0xfe, 0xff,
                                     rng.randrange(256)]) for _ in range(rng.randrange(0, 20)))
            out += b'\0'
        out += rng.choice([b'\0\0\x1a', b'\0\0', b'', b'\0'])
        return bytes(out)
    prog = bytearray(rng.choice(corpus_programs)) if corpus_programs else bytearray(b'10 PRINT 1\r\n')
    for _ in range(rng.randrange(0, 6)):
        if prog:
            i = rng.randrange(len(prog))
            prog[i] = rng.randrange(256)
    if rng.random() < 0.3:
        prog = prog[:rng.randrange(len(prog) + 1)]
    return bytes(prog)


CORE_DEVICES = [b'SCRN:', b'KYBD:', b'LPT1:', b'LPT2:', b'LPT3:', b'COM1:', b'COM2:', b'CAS1:', b'NUL', b'CON', b'AUX', b'PRN']
SPRITE_HEADERS = [(8, 1), (32, 3), (32, 4), (-1, 1), (1, -1), (0, 0), (9, 2), (16, 300), (-1, -1)]
POINT_EDGES = [198, 199, 200, 319, 320, 347, 349, 350, 399, 400, 479, 480, 639, 640, 719, 720]


def matrix_cells(rng, thorough):
    """Systematic sweeps (not sampled): returns a list of groups (session keywords, setup statements, cells); a cell is
    a list of ('execute'|'keys', text) operations that starts from and returns to the set-up state."""
    groups = []
    # 1. every file statement against every core device under every basic open mode; every name statement
    devs = DEVICE_NAMES if thorough else CORE_DEVICES
    modes = OPEN_MODES if thorough else OPEN_MODES[:5]
    for lpt in ([None, ['LPT1', 'LPT2', 'LPT3']] if thorough else [None]):
        cells = []
        for dev in devs:
            pools = {b'd': [dev], b'n': BOUNDARY_NUMS, b's': BOUNDARY_STRS}
            kybd = dev.upper()[:3] in (b'KYB', b'CON')
            for mode in modes:
                for stmt in FILE_STMTS:
                    cell = [('execute', b'OPEN "%s" %s AS 1' % (dev, mode))]
                    if kybd:
                        cell.append(('keys', KEYS_FOR_KYBD))
                    cell += [('execute', _sub(rng, stmt, pools)), ('execute', b'CLOSE')]
                    cells.append(cell)
            for stmt in NAME_STMTS:
                cell = [('keys', KEYS_FOR_KYBD + u'\x1a')] if kybd else []
                cells.append(cell + [('execute', _sub(rng, stmt, pools)), ('execute', b'CLOSE')])
        groups.append(({'lpt_files': lpt} if lpt else {}, [], cells))
    # 2. every handled port, OUT with the values that select register fields and INP, in every screen mode
    adapters = VIDEO_MODES if thorough else [(None, [0, 1, 2, 7, 9])]
    for video, vmodes in adapters:
        kw = {'video': video} if video else {}
        if video in ('tandy', 'pcjr'):
            kw['syntax'] = video
        for lpt in ([None, ['LPT1', 'LPT2']] if thorough else [None]):
            if lpt:
                kw = dict(kw, lpt_files=lpt)
            for m in vmodes:
                for width in ((40, 80) if m == 0 else (None,)):
                    setup = [b'SCREEN %d' % m] + ([b'WIDTH %d' % width] if width else [])
                    cells = []
                    for port in PORTS_HANDLED + (PORTS_OTHER if thorough else []):
                        for v in (0, 1, 0x1a, 0x38, 0x80, 255):
                            cells.append([('execute', b'OUT &H%X,%d' % (port, v))])
                        cells.append([('execute', b'A=INP(&H%X)' % port)])
                        cells.append([('execute', b'WAIT &H%X,255,255' % port)] if thorough else [])
                    groups.append((kw, setup, [c for c in cells if c]))
    # 3. graphics PUT with arrays that are smaller than the sprite they describe, POINT at the screen edges under a
    #    relative viewport, in every graphics mode of every adapter
    for video, vmodes in VIDEO_MODES:
        kw = {'video': video} if video else {}
        if video in ('tandy', 'pcjr'):
            kw['syntax'] = video
        for m in vmodes:
            if m == 0 and video is not None:
                continue
            cells = []
            for arr in (b'T%', b'U%', b'V%', b'W!', b'X!', b'Y#', b'Z#'):
                cells.append([('execute', b'PUT (0,0),%s' % arr)])
                cells.append([('execute', b'GET (0,0)-(1,1),%s' % arr)])
            for w, h in SPRITE_HEADERS:
                for arr in (b'V%', b'H%'):
                    cells.append([('execute', b'%s(0)=%d:%s(1)=%d:%s(2)=-1:PUT (0,0),%s,PSET' % (arr, w, arr, h, arr, arr))])
            for rect in (b'(10,10)-(50,50)', b'(1,1)-(2,2)', b'SCREEN (10,10)-(50,50)'):
                cell = [('execute', b'VIEW ' + rect)]
                for e in POINT_EDGES:
                    cell.append(('execute', b'A=POINT(0,%d)+POINT(%d,0)+POINT(%d,%d)' % (e, e, e, e)))
                cell.append(('execute', b'VIEW'))
                cells.append(cell)
            groups.append((kw, [b'SCREEN %d' % m, GFX_SETUP], cells))
    # 5. two numbers on one file: every pair (triple) of lock / unlock / record access operations
    lock_ops = [b'LOCK #1', b'LOCK #1,2', b'LOCK #1,1 TO 3', b'LOCK #2', b'LOCK #2,2', b'LOCK #2,2 TO 4', b'UNLOCK #1', b'UNLOCK #2',
                b'UNLOCK #1,2', b'UNLOCK #1,1 TO 3', b'GET #1,2', b'PUT #1,2', b'GET #2,2', b'PUT #2,2', b'GET #2', b'PUT #2',
                b'CLOSE 1', b'CLOSE 2']
    pairs = [(b'FOR RANDOM SHARED', b'FOR RANDOM SHARED')]
    if thorough:
        pairs += [(b'SHARED', b'FOR RANDOM ACCESS READ WRITE SHARED'), (b'FOR RANDOM SHARED', b'FOR INPUT SHARED'),
                  (b'FOR APPEND SHARED', b'FOR RANDOM SHARED'), (b'FOR RANDOM', b'FOR RANDOM'), (b'FOR OUTPUT SHARED', b'FOR INPUT SHARED'),
                  (b'FOR RANDOM LOCK WRITE', b'FOR RANDOM SHARED')]
    cells = []
    for m1, m2 in pairs:
        for a in lock_ops[:6]:
            for b in lock_ops:
                for c in (lock_ops if thorough else [rng.choice(lock_ops)]):
                    cells.append([('execute', b'RESET'), ('execute', b'OPEN "L1" %s AS 1 LEN=4' % m1),
                                  ('execute', b'OPEN "L1" %s AS 2 LEN=4' % m2)] + [('execute', x) for x in (a, b, c)])
    groups.append(({}, [], cells))
    # 4. SCREEN with active and visible page omitted / first / last / beyond the last of some mode, from every other
    #    mode; PCOPY between the same pages
    pages = [b'', b'0', b'1', b'3', b'4', b'7', b'8', b'255'] if thorough else [b'', b'0', b'1', b'4', b'8']
    for video, vmodes in (VIDEO_MODES if thorough else [(None, [0, 1, 2, 7, 8, 9])]):
        kw = {'video': video} if video else {}
        if video in ('tandy', 'pcjr'):
            kw['syntax'] = video
        cells = []
        for m in vmodes:
            for a in pages:
                for v in pages:
                    m0 = rng.choice(vmodes)
                    cells.append([('execute', b'SCREEN %d' % m0), ('execute', b'SCREEN %d,,%s,%s' % (m, a, v)),
                                  ('execute', b'PCOPY %s,%s' % (a or b'0', v or b'0'))])
        groups.append((kw, [], cells))
    return groups


# ---------------------------------------------------------------------------------------------------------------
# non-default machine configurations (C01: "... as well as the command-line configuration"): the keyword sets the
# command-line presets and options produce, recorded in a JSON-able form (codepage_name is expanded to the codepage
# dict by session_kw) so that they travel in the replay
VARIANT_MACHINES = [
    {'syntax': 'tandy', 'video': 'tandy'}, {'syntax': 'tandy', 'video': 'tandy'},
    {'syntax': 'tandy', 'video': 'tandy', 'video_memory': 16384, 'max_reclen': 255, 'reserved_memory': 3240},
    {'syntax': 'pcjr', 'video': 'pcjr'}, {'syntax': 'pcjr', 'video': 'pcjr'},
    {'syntax': 'pcjr', 'video': 'pcjr', 'text_width': 40, 'video_memory': 16384, 'reserved_memory': 4035},
    {'video': 'cga', 'text_width': 40}, {'video': 'cga', 'monitor': 'composite'}, {'video': 'cga', 'monitor': 'mono'},
    {'video': 'mda', 'monitor': 'mono'}, {'video': 'hercules', 'monitor': 'mono'}, {'video': 'ega', 'monitor': 'mono'},
    {'video': 'ega_mono', 'monitor': 'mono'}, {'video': 'olivetti'}, {'video': 'vga', 'monitor': 'green'},
    {'video': 'ega', 'video_memory': 65536}, {'video': 'ega_64k'}, {'syntax': 'advanced', 'video': 'vga'}, {}, {},
]
VARIANT_OPTIONS = [
    (0.25, 'double', [True]), (0.25, 'codepage_name', ['932', '936', '949', '950', '850', '866', '874']),
    (0.1, 'box_protect', [False]), (0.15, 'soft_linefeed', [True]), (0.2, 'max_memory', [8192, 16384, 32768]),
    (0.15, 'max_files', [1, 8, 15]), (0.1, 'max_reclen', [32, 255, 32767]), (0.1, 'reserved_memory', [789, 4035]),
    (0.1, 'textfile_encoding', ['utf-8', 'latin-1']), (0.05, 'hide_listing', [100]), (0.05, 'hide_protected', [True]),
    (0.05, 'allow_code_poke', [True]), (0.05, 'check_keybuffer_full', [False]), (0.05, 'ctrl_c_is_break', [False]),
    (0.05, 'serial_buffer_size', [1, 4096]), (0.1, 'text_width', [40]),
]
REPLAY_KEYWORDS = ('video', 'syntax', 'lpt_files', 'monitor', 'double', 'codepage_name', 'box_protect', 'soft_linefeed',
                   'max_memory', 'max_files', 'max_reclen', 'reserved_memory', 'textfile_encoding', 'hide_listing',
                   'hide_protected', 'allow_code_poke', 'check_keybuffer_full', 'ctrl_c_is_break', 'serial_buffer_size',
                   'text_width', 'video_memory')


def pick_variant(rng):
    kw = dict(rng.choice(VARIANT_MACHINES))
    for p, name, vals in VARIANT_OPTIONS:
        if rng.random() < p and name not in kw:
            kw[name] = rng.choice(vals)
    return kw


# sound on the single-voice and the multi-voice (Tandy / PCjr) machines: tones that loop (duration below 1/44 tick),
# tones on the three voices, noise, the speaker switches, PLAY on one and on three voices, and the stop statement
SOUND_FREQS = [b'37', b'100', b'440', b'880', b'32767', b'20000', b'110', b'109', b'0', b'36', b'-1']
SOUND_DURS = [b'1E-39', b'.001', b'.01', b'.02', b'.0227', b'.022727', b'.0228', b'.03', b'.5', b'1', b'0', b'65535', b'-1', b'1E38']
TUNE_TOKENS = [b'C', b'E', b'G', b'A#', b'B-', b'N20', b'N0', b'P64', b'O3', b'O6', b'>', b'<', b'MN', b'ML', b'MS', b'V15', b'V0', b'V16',
               b'L32', b'C.', b'T200', b'D64']
SOUND_STMTS = [
    b'SOUND {f},{d}', b'SOUND {f},{d}', b'SOUND {f},{d}', b'SOUND {f},{d},{v}', b'SOUND {f},{d},{v},{c}', b'SOUND {f},{d},{v},{c}',
    b'SOUND ON', b'SOUND OFF', b'BEEP ON', b'BEEP OFF', b'BEEP', b'NOISE {s},{v},{d}', b'NOISE {s},{v},{d}', b'SOUND {f},0',
    b'PLAY "MB{t}"', b'PLAY "MB{t}"', b'PLAY "MB{t}"', b'PLAY "MB{t}","{t}","{t}"', b'PLAY "MB{t}","{t}","{t}"', b'PLAY "MF{t}"',
    b'PLAY "{t}"', b'PLAY "MB{t}","",""', b'PLAY "","MB{t}"', b'PLAY "","","{t}"', b'PRINT PLAY(0);PLAY(1);PLAY(2)', b'PLAY ON',
    b'PLAY OFF', b'ON PLAY(3) GOSUB 10', b'CLEAR', b'A$="{t}":PLAY "MBX"+VARPTR$(A$)', b'PLAY "MB{t}":PRINT PLAY(0)',
]
SOUND_SHAPES = [
    [b'SOUND {f},{d}', b'PLAY "MB{t}"'], [b'SOUND {f},{d},{v},{c}', b'PLAY "MB{t}","{t}","{t}"'],
    [b'SOUND ON', b'SOUND {f},{d},{v},{c}', b'PLAY "MB{t}"'], [b'SOUND OFF', b'SOUND {f},{d}', b'PLAY "MB{t}"', b'SOUND ON'],
    [b'NOISE {s},{v},{d}', b'PLAY "MB{t}"'], [b'SOUND ON', b'NOISE {s},{v},{d}', b'SOUND {f},{d}', b'PLAY "{t}"'],
    [b'PLAY "MB{t}","{t}"', b'SOUND {f},0', b'PLAY "MB{t}"'], [b'SOUND {f},{d}', b'SOUND {f},{d}', b'PRINT PLAY(0)', b'SOUND {f},0'],
    [b'PLAY "MB{t}"', b'SOUND {f},{d}', b'PLAY "MB{t}"'], [b'BEEP OFF', b'SOUND {f},{d}', b'BEEP', b'PLAY "MB{t}"'],
    [b'SOUND ON', b'SOUND {f},{d},{v},{c}', b'SOUND {f},{d},{v},{c}', b'PLAY "MB{t}","{t}","{t}"'],
]


def _tune(rng):
    return b'T255L64' + b''.join(rng.choice(TUNE_TOKENS) for _ in range(rng.randrange(1, 5)))


def sound_case(rng):
    pools = {b'f': SOUND_FREQS, b'd': SOUND_DURS, b'v': [b'0', b'1', b'8', b'15', b'-1', b'16'], b'c': [b'0', b'1', b'2', b'3'],
             b's': [b'0', b'3', b'4', b'7', b'8'], b't': _tune}
    if rng.random() < 0.65:
        stmts = rng.choice(SOUND_SHAPES)
    else:
        stmts = [rng.choice(SOUND_STMTS) for _ in range(rng.randrange(2, 5))]
    return [('execute', _sub(rng, t, pools)) for t in stmts]


FAMILY_KINDS = ('devices', 'ports', 'gfx', 'macro', 'locks')


_CODEPAGES = {}


def session_kw(kw, mount):
    """expand the recorded pseudo-keywords: lpt_files into device attachments below the scratch mount, codepage_name
    into the codepage dictionary"""
    kw = dict(kw)
    cpname = kw.pop('codepage_name', None)
    if cpname:
        if cpname not in _CODEPAGES:
            from pcbasic.data import read_codepage
            _CODEPAGES[cpname] = read_codepage(cpname)
        kw['codepage'] = _CODEPAGES[cpname]
    lpt = kw.pop('lpt_files', None)
    if lpt:
        devices = dict(kw.get('devices') or {})
        for name in lpt:
            devices[name] = 'FILE:' + os.path.join(os.path.dirname(mount), name + '.prn')
        kw['devices'] = devices
    return kw


def worker(args):
    seed, kind, n, repo, corpus, corpus_programs = args
    t_start = time.time()
    rng = random.Random(seed)
    import sys
    if repo not in sys.path:
        sys.path.insert(0, repo)
    from pcbasic.basic import Session
    from pcbasic.basic.base import error
    signal.signal(signal.SIGALRM, _alarm)
    limits().__enter__()
    import logging
    logging.disable(logging.CRITICAL)
    findings, stats, samples = [], {}, []

    def count(k):
        stats[k] = stats.get(k, 0) + 1

    root = tempfile.mkdtemp(prefix='pcbv_c01_')
    mount = os.path.join(root, 'a', 'b', 'mount')
    os.makedirs(mount)
    cwd = os.getcwd()
    os.chdir(mount)
    session = [None]
    hist = []
    kwlog = [None]
    seen = set()
    fam = {}

    def new_session():
        if session[0] is not None:
            try:
                session[0].close()
            except BaseException:
                pass
        os.makedirs(mount, exist_ok=True)
        try:
            os.chdir(mount)
        except EnvironmentError:
            pass
        for fn in os.listdir(mount):
            p = os.path.join(mount, fn)
            try:
                shutil.rmtree(p) if os.path.isdir(p) else os.remove(p)
            except EnvironmentError:
                pass
        kw = dict(output_streams=None, input_streams=io.BytesIO(b'1\r"a",2\r\r12:30\rY\r' * 3))
        if kind == 'default':
            # the documented defaults for everything except the stdio streams
            kw = dict(output_streams=None, input_streams=None)
        elif kind.startswith('matrix:'):
            kw.update(devices={'C': mount}, current_device='C')
            kw.update({k: v for k, v in fam.get('kw', {}).items() if v})
        elif kind == 'variants':
            kw.update(devices={'C': mount}, current_device='C')
            kw.update(pick_variant(rng))
            fam['modes'] = dict((v, m) for v, m in VIDEO_MODES).get(kw.get('video'), [0, 1, 2])
            fam['multivoice'] = kw.get('syntax') in ('tandy', 'pcjr')
        elif kind in FAMILY_KINDS:
            kw.update(devices={'C': mount}, current_device='C')
            fam['modes'] = [0, 1, 2, 7, 8, 9]
            fam['multivoice'] = False
            if kind in ('ports', 'gfx', 'macro') or rng.random() < 0.15:
                video, fam['modes'] = rng.choice(VIDEO_MODES)
                if video:
                    kw['video'] = video
                if video in ('tandy', 'pcjr'):
                    kw['syntax'] = video
                    fam['multivoice'] = True
                elif rng.random() < 0.1:
                    kw['syntax'] = 'advanced'
            if kind in ('devices', 'ports') and rng.random() < 0.25:
                # printer ports attached to files (the documented FILE: target)
                kw['lpt_files'] = rng.choice([['LPT1'], ['LPT2'], ['LPT1', 'LPT2', 'LPT3']])
        else:
            kw.update(devices={'C': mount}, current_device='C')
            if rng.random() < 0.3:
                kw['video'] = rng.choice(['cga', 'ega', 'vga', 'tandy', 'pcjr', 'hercules', 'mda'])
            if rng.random() < 0.2:
                kw['syntax'] = rng.choice(['advanced', 'pcjr', 'tandy'])
            if kw.get('syntax') == 'tandy':
                kw['video'] = 'tandy'
            if kw.get('syntax') == 'pcjr':
                kw['video'] = 'pcjr'
        del hist[:]
        kwlog[0] = {k: v for k, v in kw.items() if k in REPLAY_KEYWORDS}
        s = Session(**session_kw(kw, mount))
        s.start()
        limit = [0]

        def hook(token):
            limit[0] += 1
            if limit[0] > 3000:
                limit[0] = 0
                raise error.Break()
        s.set_hook(hook)
        session[0] = s
        return s

    def run_one(text, how='execute'):
        s = session[0] or new_session()
        count('cases')
        hist.append([how, text.decode('latin-1')])
        seen.add(hash((how, text)))
        signal.setitimer(signal.ITIMER_REAL, 1.5)
        try:
            if how == 'evaluate':
                s.evaluate(text)
            elif how == 'keys':
                s.press_keys(text.decode('latin-1'))
            else:
                s.execute(text)
            signal.setitimer(signal.ITIMER_REAL, 0)
            return None
        except CaseTimeout:
            count('timeout')
            session[0] = None
            return None
        except error.Exit:
            signal.setitimer(signal.ITIMER_REAL, 0)
            count('exit')
            session[0] = None
            return None
        except BaseException as e:
            signal.setitimer(signal.ITIMER_REAL, 0)
            if isinstance(e, (KeyboardInterrupt, SystemExit)):
                raise
            import sys as _sys
            tb = _sys.exc_info()[2]
            site = site_of(tb)
            key = '%s@%s' % (type(e).__name__, site)
            # context tag: the stored program image has line numbers out of ascending order (only reachable by
            # loading a hand-made or corrupted tokenised file); the editing code assumes ascending order
            try:
                ln = s._impl.program.line_numbers
                order = [n for n, _pos in sorted(ln.items(), key=lambda kv: kv[1]) if n != 65536]
                if order != sorted(order):
                    key += ':unsorted-program-image'
                elif any(h[0] == 'file' and h[2][:2] in ('ff', 'fe', 'fd', 'fc') for h in hist):
                    # a fuzzed binary (tokenised/protected) program file was written and possibly loaded in
                    # this session: the stored image may violate the invariants the editing code relies on
                    key += ':after-fuzzed-binary-program-file'
            except BaseException:
                pass
            count('host-exception')
            findings.append({'key': key, 'kind': kind, 'how': how, 'input': text.decode('latin-1'),
                             'history': [list(h) for h in hist[-60:]], 'session_kw': kwlog[0],
                             'exception': '%s: %s' % (type(e).__name__, str(e)[:200]),
                             'trace': [('%s:%d:%s' % (f.filename.split('/pcbasic/')[-1], f.lineno, f.name))
                                       for f in traceback.extract_tb(tb)[-4:]]})
            session[0] = None
            return key
        finally:
            signal.setitimer(signal.ITIMER_REAL, 0)

    try:
        i = 0
        while i < n:
            if kind not in FAMILY_KINDS + ('variants',) and (session[0] is None or rng.random() < 0.04):
                new_session()
            if kind in ('templates', 'default'):
                text = fill(rng, rng.choice(TEMPLATES))
                if kind == 'default' and rng.random() < 0.6:
                    text = fill(rng, rng.choice([b'PRINT PEEK({n})', b'DEF SEG={n}:PRINT PEEK({n})', b'POKE {n},{n}',
                                                 b'DEF SEG:PRINT PEEK({n})', b'PRINT INP({n})', b'PRINT USR({n})',
                                                 b'BSAVE "M",{n},{n}', b'DEF SEG=0:PRINT PEEK(1040)']))
                if BANNED.search(text):
                    continue
                if rng.random() < 0.15:
                    # inside a program, under an error trap
                    run_one(b'NEW')
                    run_one(b'10 ON ERROR GOTO 100')
                    run_one(b'20 ' + text)
                    run_one(b'30 END')
                    run_one(b'100 PRINT ERR;ERL:RESUME NEXT')
                    text = b'RUN'
                elif rng.random() < 0.15:
                    text = text + b':' + fill(rng, rng.choice(TEMPLATES))
                    if BANNED.search(text):
                        continue
                how = 'execute'
                if rng.random() < 0.08 and text.startswith(b'PRINT ') and b':' not in text:
                    text, how = text[6:], 'evaluate'
                run_one(text, how)
                if i < 2:
                    samples.append(text.decode('latin-1'))
                i += 1
            elif kind.startswith('matrix:'):
                # deterministic sweep, sharded over the workers: kind = 'matrix:<shard>/<shards>:<tier>'
                _m, shard, tier = kind.split(':')
                shard, shards = [int(x) for x in shard.split('/')]
                index = 0
                for kw_extra, setup, cells in matrix_cells(random.Random(seed), tier == 'thorough'):
                    mine = []
                    for cell in cells:
                        if index % shards == shard:
                            mine.append(cell)
                        index += 1
                    fam['kw'] = kw_extra
                    session[0] = None
                    for cell in mine:
                        if session[0] is None or len(hist) + len(cell) > 50:
                            new_session()
                            for text in setup:
                                run_one(text)
                        for how, text in cell:
                            if session[0] is None:
                                break
                            run_one(text.encode('latin-1') if how == 'keys' else text, how)
                        if i < 1:
                            samples.append([t.decode('latin-1') if isinstance(t, bytes) else t for _h, t in cell][:6])
                        i += 1
                break
            elif kind == 'variants':
                # short histories of the statement families under a non-default machine configuration
                if session[0] is None or len(hist) > 40 or rng.random() < 0.05:
                    new_session()
                    if rng.random() < 0.5:
                        run_one(b'SCREEN %d' % rng.choice(fam['modes']))
                    if rng.random() < 0.85:
                        # music in the background: a foreground SOUND waits in real time for the tone before it
                        run_one(b'PLAY "MB"')
                    fam['setup'] = False
                if session[0] is not None and len(hist) % 6 == 0:
                    # keep the cursor off the bottom row: scrolling the text screen for every error message is what
                    # most of the time would go to
                    run_one(b'CLS')
                r = rng.random()
                if r < 0.45:
                    ops = sound_case(rng)
                elif r < 0.85:
                    if not fam['setup'] and session[0] is not None:
                        run_one(GFX_SETUP)
                        run_one(MACRO_SETUP)
                        fam['setup'] = True
                    ops = family_case(rng, rng.choice(FAMILY_KINDS), fam)
                else:
                    ops = [('execute', fill(rng, rng.choice(TEMPLATES))) for _ in range(rng.randrange(1, 4))]
                for how, text in ops:
                    if session[0] is None:
                        break
                    if how == 'keys':
                        run_one(text.encode('latin-1'), 'keys')
                    elif not BANNED.search(text):
                        run_one(text)
                if i < 2:
                    samples.append({'session': kwlog[0], 'case': [t.decode('latin-1') if isinstance(t, bytes) else t for _h, t in ops][:4]})
                i += max(1, len([1 for h, _t in ops if h == 'execute']))
            elif kind in FAMILY_KINDS:
                # the replayable history holds at most 60 entries: start over before it would be cut
                if session[0] is None or len(hist) > 40 or rng.random() < 0.03:
                    new_session()
                    setup = []
                    if kind in ('ports', 'gfx', 'macro'):
                        setup.append(b'SCREEN %d' % rng.choice(fam['modes']))
                    if kind == 'gfx':
                        setup.append(GFX_SETUP)
                    if kind == 'macro':
                        setup.append(MACRO_SETUP)
                    if kind == 'ports' and rng.random() < 0.3:
                        setup.append(b'PSET(3,3),1:LOCATE 2,2:PRINT "AB"')
                    for text in setup:
                        run_one(text)
                ops = family_case(rng, kind, fam)
                for how, text in ops:
                    if session[0] is None:
                        break
                    if how == 'keys':
                        run_one(text.encode('latin-1'), 'keys')
                    else:
                        if BANNED.search(text):
                            continue
                        run_one(text)
                if i < 2:
                    samples.append([t.decode('latin-1') if isinstance(t, bytes) else t for _h, t in ops][:6])
                i += max(1, len([1 for h, _t in ops if h == 'execute']))
            elif kind == 'corpus':
                if rng.random() < 0.5:
                    text = mutate(rng, rng.choice(corpus))
                    if BANNED.search(text):
                        continue
                    run_one(text)
                    if i < 2:
                        samples.append(text.decode('latin-1'))
                    i += 1
                else:
                    run_one(b'NEW')
                    ln = 10
                    if rng.random() < 0.4:
                        run_one(b'5 ON ERROR GOTO 9000')
                        run_one(b'9000 PRINT ERR;ERL:RESUME NEXT')
                    prog = []
                    for _ in range(rng.randrange(2, 9)):
                        body = mutate(rng, rng.choice(corpus))
                        if BANNED.search(body):
                            continue
                        prog.append(b'%d %s' % (ln, body))
                        run_one(prog[-1])
                        ln += 10
                    run_one(b'8999 END')
                    run_one(rng.choice([b'RUN', b'RUN', b'LIST', b'RENUM', b'RENUM 100,20,5', b'SAVE "P"', b'SAVE "P",A',
                                        b'SAVE "P",P', b'RUN 20', b'DELETE 20-40', b'RENUM 30000,20,10000', b'LLIST']))
                    if rng.random() < 0.3:
                        run_one(rng.choice([b'CONT', b'LOAD "P"', b'MERGE "P"', b'CHAIN "P"', b'RUN "P"', b'LIST']))
                    if i < 2:
                        samples.append([p.decode('latin-1') for p in prog[:4]])
                    i += len(prog) + 2
            elif kind == 'files':
                data = soup_file(rng, corpus_programs)
                name = rng.choice(['X.BAS', 'Y', 'Z.BAS'])
                os.makedirs(mount, exist_ok=True)
                with open(os.path.join(mount, name), 'wb') as f:
                    f.write(data)
                if session[0] is None:
                    new_session()
                hist.append(['file', name, data.hex()])
                stem = name.split('.')[0].encode()
                text = rng.choice([b'LOAD "%s"', b'RUN "%s"', b'MERGE "%s"', b'CHAIN "%s"', b'LOAD "%s",R', b'BLOAD "%s"',
                                   b'CHAIN MERGE "%s",10', b'OPEN "%s" FOR INPUT AS 1:LINE INPUT#1,A$:INPUT#1,B:CLOSE']) % stem
                r = run_one(text)
                if r and findings:
                    findings[-1]['file_hex'] = data[:200].hex()
                for follow in rng.sample([b'LIST', b'RUN', b'RENUM', b'SAVE "W",A', b'DELETE 10-', b'EDIT 10', b'LLIST',
                                          b'PRINT FRE(0)'], 2):
                    r = run_one(follow)
                    if r and findings and 'file_hex' not in findings[-1]:
                        findings[-1]['file_hex'] = data[:200].hex()
                        findings[-1]['after'] = text.decode('latin-1')
                if i < 2:
                    samples.append({'file_hex': data[:40].hex(), 'stmt': text.decode('latin-1')})
                i += 3
            elif kind == 'renum':
                run_one(b'NEW')
                lines = sorted(rng.sample(range(1, 400), rng.randrange(3, 9)))
                trap = rng.choice(lines)
                ktrap = rng.choice(lines)
                run_one(b'%d ON ERROR GOTO %d:ON KEY(1) GOSUB %d:KEY(1) ON:ON TIMER(5) GOSUB %d' % (lines[0], trap, ktrap, ktrap))
                for l in lines[1:]:
                    run_one(b'%d PRINT %d' % (l, l))
                run_one(b'%d END' % (lines[-1] + 1))
                run_one(b'RUN')
                new = rng.choice([rng.randrange(0, 70000), lines[-1] + rng.randrange(0, 50), 10, 65529, 65530])
                old = rng.choice(lines + [0, rng.randrange(0, 500)])
                text = b'RENUM %d,%d,%d' % (new, old, rng.choice([1, 2, 10, 1000, 0, 65535]))
                run_one(text)
                run_one(rng.choice([b'LIST', b'CONT', b'RUN', b'GOTO %d' % lines[1]]))
                if i < 2:
                    samples.append({'lines': lines, 'trap': trap, 'stmt': text.decode('latin-1')})
                i += 4
    finally:
        try:
            if session[0] is not None:
                session[0].close()
        except BaseException:
            pass
        os.chdir(cwd)
        shutil.rmtree(root, ignore_errors=True)
    stats['distinct_inputs'] = len(seen)
    if os.environ.get('C01_TIMING'):
        import sys as _s
        _s.stderr.write('[C01 timing] %-28s %6.1f s  %s\n' % (kind, time.time() - t_start, {k: v for k, v in stats.items()}))
    return findings, stats, samples


def explore(ctx, plan, nproc=None):
    nproc = nproc or int(os.environ.get('C01_PROCS', '8'))
    corpus = load_corpus(core.REPO)
    corpus_programs = []
    root = os.path.join(core.REPO, 'tests', 'basic')
    for dp, dn, fns in os.walk(root):
        for fn in fns:
            if fn.upper().endswith('.BAS') and len(corpus_programs) < 300:
                try:
                    corpus_programs.append(open(os.path.join(dp, fn), 'rb').read()[:3000])
                except EnvironmentError:
                    pass
    ctx.notes['corpus_lines'] = len(corpus)
    tasks = []
    for kind, total in plan:
        per = 0 if kind == 'matrix' else max(1, total // nproc)
        if kind == 'matrix':
            # one seed for all shards: every shard enumerates the same cells and runs its own residue class
            mseed = ctx.rng.randrange(2**31)
            for w in range(nproc):
                tasks.append((mseed, 'matrix:%d/%d:%s' % (w, nproc, total), 10**9, core.REPO, corpus, corpus_programs))
            continue
        for w in range(nproc):
            tasks.append((ctx.rng.randrange(2**31), kind, per, core.REPO, corpus, corpus_programs))
    with multiprocessing.get_context('fork').Pool(nproc) as pool:
        results = pool.map(worker, tasks, chunksize=1)
    allfindings = []
    for (findings, stats, samples), task in zip(results, tasks):
        for k, v in stats.items():
            ctx.count('%s:%s' % (task[1].split(':')[0], k), v)
            if k == 'cases':
                ctx.evaluations += v
        allfindings.extend(findings)
        for smp in samples[:1]:
            ctx.sample({'kind': task[1].split(':')[0], 'case': smp})
    # the context keeps a bounded number of failures: register one per distinct key first, so that a frequent
    # escape cannot hide a rare one
    firsts, rest, keys_seen = [], [], set()
    for f in allfindings:
        (rest if f['key'] in keys_seen else firsts).append(f)
        keys_seen.add(f['key'])
    for f in firsts + rest:
        ctx.distinct.add(f['input'])
        ctx.count('escape:' + f['key'])
        ctx.fail(f['key'], f, 'host exception escaped the session API: %s (input %r)' % (f['exception'], f['input'][:120]))
    # distinct count: distinct (call kind, input text) per worker, summed over workers (inputs repeated in two
    # workers are counted twice; the set-up statements NEW / RUN are counted once per worker)
    nd = sum(st.get('distinct_inputs', 0) for _f, st, _s in results)
    ctx.distinct.update(('distinct-input', i) for i in range(nd))


def site_models(ctx):
    """correspondence for the modelled sites that have no other property check: RENUM trap remap, PEEK preset"""
    from vlib import basic
    rng = ctx.rng
    lines, outs, cases = [], [], []
    for _ in range(40 if ctx.quick else 400):
        nums = sorted(rng.sample(range(1, 300), rng.randrange(3, 8)))
        trap = rng.choice(nums)
        s = basic.new_session()
        with s:
            s.execute(b'%d ON ERROR GOTO %d' % (nums[0], trap))
            for l in nums[1:]:
                s.execute(b'%d PRINT %d' % (l, l))
            s.execute(b'RUN')
            old = rng.choice(nums)
            new = nums[-1] + rng.randrange(1, 100)
            out = basic.safe_exec(s, b'RENUM %d,%d,10' % (new, old))
            got = s._impl.interpreter.on_error
            renumbered = [l for l in nums if l >= old]
            mapping = ','.join('%d:%d' % (l, new + 10 * i) for i, l in enumerate(renumbered))
            lines.append('renumtrap %s %d' % (mapping or '-', trap))
            outs.append('ok %d' % got if b'EXC' not in out else 'exc')
            cases.append((nums, trap, old, new))
            ctx.case(('renumtrap', tuple(nums), trap, old, new))
            exp = (new + 10 * renumbered.index(trap)) if trap in renumbered else trap
            if b'<<EXC' in out or got != exp:
                ctx.fail('renum-trap', {'lines': nums, 'trap': trap, 'old': old, 'new': new},
                         'after RENUM %d,%d the ON ERROR line is %r (output %r), expected %d' % (new, old, got, out, exp))
    ctx.compare(cases, outs, lines, label='renum-trap')


FIXED_HISTORIES = [
    # known finding C01-F1: corrupted tokenised file with lines out of order, then RENUM and MERGE
    [['file', 'Z.BAS', 'ffb5530002220e843a0005080a010086d01401c11f201c203a1c1f8f0f0e84208f1c0f2391002d241e021f0e1d8f8f'
                       '9122ff410f0f4120911c0e3a20220002892801fe84208f000000'],
     ['execute', 'LOAD "Z"'], ['execute', 'RENUM'],
     ['file', 'X.BAS', b'10 REM PC-BASIC test\r\n20 REM MID$ function\r\n30 OPEN "OUTPUT.TXT" FOR OUTPUT AS 1\r\n'.hex()],
     ['execute', 'MERGE "X"']],
    # repaired defects, kept as regression histories
    [['execute', 'SCREEN 1'], ['execute', 'DEF SEG=0:PRINT PEEK(1126)']],
    [['execute', 'CLEAR 639,32767,&HFFFF,32767'], ['execute', 'PRINT FRE("")']],
    [['execute', 'BLOAD "KYBD:",256'], ['execute', 'OPEN "CON" FOR APPEND AS 1'], ['execute', 'BSAVE "ZZZ",80,-1']],
    [['execute', 'FOR I=1.7E38 TO 255 STEP 1E38:NEXT'], ['execute', 'PRINT 1 IMP "a"'], ['execute', 'PRINT HEX$(-65537)']],
    [['execute', 'DEF SEG=&HB800:BSAVE "V",&HFFFF,&H8000'], ['execute', 'SCREEN 1:A$="XA$;":DRAW A$']],
    [['execute', 'TIME$="-1:00:00"'], ['execute', 'ENVIRON "A=B"+CHR$(0)+"C"'], ['execute', 'PRINT &O1 2']],
    # escapes found by independent testers by hand and then by the structured families (pending_fixes/C01-*)
    [['execute', 'OUT &H3C5,1'], ['execute', 'OUT &H3CF,1']],
    [['execute', 'OUT &H37A,1'], ['execute', 'PRINT INP(&H379)']],
    [['session', {'lpt_files': ['LPT1', 'LPT2']}], ['execute', 'OUT &H27A,1'], ['execute', 'PRINT INP(&H279)'],
     ['execute', 'MERGE "LPT1:"']],
    [['execute', 'SCREEN 1:DRAW "U="+CHR$(7)+CHR$(0)+CHR$(1)'], ['execute', 'PLAY "X"+CHR$(5)+CHR$(0)+CHR$(0)']],
    [['execute', 'SCREEN 1:DIM A%(3):A%(2)=5:DRAW "U="+CHR$(2)+MKI$(VARPTR(A%(3))+1)'],
     ['execute', 'DIM A$(3):A$(0)="U3":A$(1)="R3":DRAW "X"+CHR$(3)+MKI$(VARPTR(A$(0))+1)'],
     ['execute', 'DRAW "X"+CHR$(3)+MKI$(VARPTR(A$(0))+2)']],
    [['execute', 'OPEN "LPT2:" FOR OUTPUT AS 1:PRINT#1,"A"'], ['execute', 'CLOSE'], ['execute', 'WIDTH "LPT3:",40'],
     ['execute', 'SAVE "LPT2:"'], ['execute', 'OPEN "LPT3:" AS 1:CLOSE']],
    [['execute', 'OPEN "NUL" FOR INPUT AS 1:INPUT#1,A$'], ['execute', 'PRINT LOF(1);LOC(1)'],
     ['execute', 'CLOSE:OPEN "NUL" AS 1:GET 1'], ['execute', 'PUT 1']],
    [['execute', 'OPEN "SCRN:" AS 1:INPUT#1,A$'], ['execute', 'LINE INPUT#1,A$'], ['execute', 'GET 1'], ['execute', 'PUT 1'],
     ['execute', 'CLOSE:OPEN "KYBD:" AS 1:PUT 1'], ['execute', 'GET 1']],
    [['execute', 'PLAY "MBC"+STRING$(80,".")'], ['execute', 'PLAY "MBL1T32N1"+STRING$(240,".")']],
    [['execute', 'SCREEN 1:DIM A%(0):PUT (0,0),A%'], ['execute', 'DIM B%(6):B%(0)=32:B%(1)=3:PUT (0,0),B%']],
    [['execute', 'SCREEN 1:VIEW (10,10)-(50,50):PRINT POINT(0,199)'], ['execute', 'PRINT POINT(315,0)']],
    [['session', {'video': 'tandy', 'syntax': 'tandy'}], ['execute', 'SCREEN 6:DIM A%(2):A%(0)=-1:A%(1)=1:PUT (0,0),A%'],
     ['execute', 'DIM B%(0):PUT (0,0),B%']],
    [['session', {'video': 'ega'}], ['execute', 'SCREEN 9:DIM H%(30):PALETTE USING H%(-1)'], ['execute', 'PALETTE USING H%(1,2)'],
     ['execute', 'OPTION BASE 1:DIM G%(30):PALETTE USING G%(0)'], ['execute', 'DIM T%(1):PUT (0,0),T%']],
    [['session', {'video': 'vga'}], ['execute', 'SCREEN 1:WINDOW (1,3.4E38)-(719,50):PRINT PMAP(399,3)'],
     ['execute', 'PSET(5,1.7E38):PRINT POINT(3)']],
    # asked for a 4 GiB string of NULs (MemoryError under the address-space bound set by `limits`)
    [['execute', 'OPEN "R" AS 1 LEN=128:FIELD 1,2 AS A$:PUT 1,33554432']],
]


def fixed_histories(ctx):
    """Deterministic histories: the known finding (so that it is shown on every run) and repaired defects."""
    from pcbasic.basic import Session
    from pcbasic.basic.base import error
    signal.signal(signal.SIGALRM, _alarm)
    import logging
    logging.disable(logging.CRITICAL)
    try:
        with limits(memory=True):
            _fixed_histories(ctx, Session, error)
    finally:
        logging.disable(logging.NOTSET)


def _fixed_histories(ctx, Session, error):
    for hi, history in enumerate(FIXED_HISTORIES):
        root = tempfile.mkdtemp(prefix='pcbv_c01f_')
        cwd = os.getcwd()
        mount = os.path.join(root, 'a', 'b', 'mount')
        os.makedirs(mount)
        os.chdir(mount)
        kw = dict(output_streams=None, input_streams=None, devices={'C': mount}, current_device='C')
        skw = None
        if history and history[0][0] == 'session':
            skw = history[0][1]
            kw.update(skw)
            history = history[1:]
        s = Session(**session_kw(kw, mount))
        s.start()
        done = []
        try:
            for h in history:
                done.append(h)
                if h[0] == 'file':
                    with open(os.path.join(mount, h[1]), 'wb') as f:
                        f.write(bytes.fromhex(h[2]))
                    continue
                if h[0] == 'keys':
                    s.press_keys(h[1])
                    continue
                ctx.case(('fixed', hi, h[1]))
                ctx.count('fixed:cases')
                signal.setitimer(signal.ITIMER_REAL, 5.0)
                try:
                    s.execute(h[1].encode('latin-1'))
                except (error.Exit, CaseTimeout):
                    break
                except Exception as e:
                    import sys as _sys
                    key = '%s@%s' % (type(e).__name__, site_of(_sys.exc_info()[2]))
                    try:
                        ln = s._impl.program.line_numbers
                        order = [n for n, _pos in sorted(ln.items(), key=lambda kv: kv[1]) if n != 65536]
                        if order != sorted(order):
                            key += ':unsorted-program-image'
                        elif any(x[0] == 'file' and x[2][:2] in ('ff', 'fe', 'fd', 'fc') for x in done):
                            key += ':after-fuzzed-binary-program-file'
                    except Exception:
                        pass
                    ctx.fail(key, {'kind': 'fixed', 'how': 'execute', 'input': h[1], 'history': [list(x) for x in done],
                                   'session_kw': skw},
                             'host exception escaped the session API: %s: %s (input %r)' % (type(e).__name__, e, h[1]))
                    break
                finally:
                    signal.setitimer(signal.ITIMER_REAL, 0)
        finally:
            try:
                s.close()
            except Exception:
                pass
            os.chdir(cwd)
            shutil.rmtree(root, ignore_errors=True)


def run(ctx):
    site_models(ctx)
    if not os.environ.get('C01_NO_FIXED'):
        fixed_histories(ctx)
    if ctx.quick:
        plan = [('templates', 2100), ('corpus', 1700), ('files', 560), ('default', 420), ('renum', 280),
                ('matrix', 'quick'), ('devices', 400), ('ports', 300), ('gfx', 1600), ('macro', 2000), ('locks', 1200),
                ('variants', 2400)]
    else:
        plan = [('templates', 120000), ('corpus', 120000), ('files', 30000), ('default', 14000), ('renum', 14000),
                ('matrix', 'thorough'), ('devices', 60000), ('ports', 20000), ('gfx', 60000), ('macro', 60000),
                ('locks', 60000), ('variants', 150000)]
    only = os.environ.get('C01_KINDS')
    if only:
        plan = [(k, n) for k, n in plan if k in only.split(',')]
    scale = float(os.environ.get('C01_SCALE', '1'))
    explore(ctx, [(k, n if k == 'matrix' else int(n * scale)) for k, n in plan])


def replay(ctx, payload):
    case = payload.get('case', {})
    if 'input' not in case:
        return None
    from pcbasic.basic import Session
    from pcbasic.basic.base import error
    signal.signal(signal.SIGALRM, _alarm)
    with limits(memory=True):
        return _replay(case, Session, error)


def _replay(case, Session, error):
    root = tempfile.mkdtemp(prefix='pcbv_c01r_')
    cwd = os.getcwd()
    try:
        mount = os.path.join(root, 'a', 'b', 'mount')
        os.makedirs(mount)
        os.chdir(mount)
        kw = dict(output_streams=None, input_streams=io.BytesIO(b'1\r"a",2\r\r12:30\rY\r' * 3))
        if case.get('kind') == 'default':
            kw = dict(output_streams=None, input_streams=None)
        else:
            kw.update(devices={'C': mount}, current_device='C')
            kw.update(case.get('session_kw') or {})
        if case.get('kind') == 'fixed':
            kw['input_streams'] = None
        s = Session(**session_kw(kw, mount))
        s.start()
        history = case.get('history') or [[case.get('how', 'execute'), case['input']]]
        try:
            for h in history:
                if h[0] == 'file':
                    os.makedirs(mount, exist_ok=True)
                    with open(os.path.join(mount, h[1]), 'wb') as f:
                        f.write(bytes.fromhex(h[2]))
                    continue
                signal.setitimer(signal.ITIMER_REAL, 3.0)
                try:
                    if h[0] == 'evaluate':
                        s.evaluate(h[1].encode('latin-1'))
                    elif h[0] == 'keys':
                        s.press_keys(h[1])
                    else:
                        s.execute(h[1].encode('latin-1'))
                except error.Exit:
                    return None
                except CaseTimeout:
                    return None
                except Exception as e:
                    return 'host exception %s: %s (at %r)' % (type(e).__name__, e, h[1][:80])
                finally:
                    signal.setitimer(signal.ITIMER_REAL, 0)
        finally:
            try:
                s.close()
            except Exception:
                pass
    finally:
        os.chdir(cwd)
        shutil.rmtree(root, ignore_errors=True)
    return None
