/-
  PcbV.Model.SeqFile — sequential text files on a native disk mount (property C24).

  Hand transcription of
    pcbasic/basic/devices/devicebase.py : TextFileBase.peek/read/write/eof, InputMixin._skip_whitespace/input_entry
    pcbasic/basic/devices/diskfiles.py  : TextFile.close/read_one/read_line/write_line/loc/lof
    pcbasic/basic/devices/disk.py       : DiskDevice.open_stream (APPEND cuts a trailing 1A),
                                          _create_file_object (NewlineWrapper unless soft_linefeed)
    pcbasic/basic/codepage.py           : NewlineWrapper.read
    pcbasic/basic/devices/files.py      : Files.write_ (WRITE#), print_ (string / number + newline), input_ (INPUT$),
                                          eof_, lof_, loc_
    pcbasic/basic/implementation.py     : _input_file, line_input_
  The host file is a byte list.  Number formatting/parsing is NOT modelled: a WRITE# number item carries the
  text produced by the number printer (`values.to_repr`), INPUT# returns the word handed to `from_repr`.
-/
import PcbV.Basic
import PcbV.Gen.Errors
namespace PcbV.SeqFile
open PcbV

/-! ### reading -/

/-- State of an input TextFile: `_readahead`, the unread part of the host stream, `NewlineWrapper._last`
(`none` = b''), whether the NewlineWrapper is installed (soft_linefeed = False), `_previous`, `_current`,
and the host file size (for LOF/LOC). -/
structure Rd where
  ahead : Bytes
  raw : Bytes
  nl : Option Nat
  wrap : Bool
  prev : Bytes
  cur : Bytes
  size : Nat
deriving Repr, DecidableEq

/-- the `while n < 0 or len(output) < n` loop of NewlineWrapper.read (n > 0) -/
def nlLoop : Nat → Nat → Bytes → Bytes → Option Nat → Bytes × Bytes × Option Nat
  | 0, _, out, raw, nl => (out, raw, nl)
  | f+1, n, out, raw, nl =>
    if out.length < n then
      match raw.take (n - out.length) with
      | [] => (out, raw, nl)
      | b :: bs =>
        nlLoop f n (out ++ (if nl = some 13 ∧ b = 10 then bs else b :: bs))
          (raw.drop (n - out.length)) ((b :: bs).getLast?)
    else (out, raw, nl)

def lf2cr (b : Nat) : Nat := if b = 10 then 13 else b

/-- NewlineWrapper.read(n): absorb an LF that starts a chunk when the previous chunk ended in CR, then
replace every remaining LF by CR (so a CR LF inside one chunk becomes CR CR — chunking matters). -/
def nlRead (n : Nat) (raw : Bytes) (nl : Option Nat) : Bytes × Bytes × Option Nat :=
  if n = 0 then ([], raw, nl) else
  let r := nlLoop (raw.length + 2) n [] raw nl
  (r.1.map lf2cr, r.2.1, r.2.2)

def Rd.streamRead (r : Rd) (m : Nat) : Bytes × Rd :=
  if r.wrap then
    let x := nlRead m r.raw r.nl
    (x.1, { r with raw := x.2.1, nl := x.2.2 })
  else (r.raw.take m, { r with raw := r.raw.drop m })

/-- TextFileBase.peek -/
def Rd.peek (r : Rd) (n : Nat) : Bytes × Rd :=
  if n > r.ahead.length then
    let x := r.streamRead (n - r.ahead.length)
    ((r.ahead ++ x.1).take n, { x.2 with ahead := r.ahead ++ x.1 })
  else (r.ahead.take n, r)

/-- `output[:output.index(b'\x1A')]` when present -/
def cut1A (b : Bytes) : Bytes := b.takeWhile (fun x => x != 26)

/-- TextFileBase.read (TextFile.read adds only the lock check) -/
def Rd.read (r : Rd) (n : Nat) : Bytes × Rd :=
  let x := r.peek n
  let out := cut1A x.1
  (out, { x.2 with ahead := x.2.ahead.drop out.length,
                   prev := if out.length ≤ 1 then x.2.cur else out.drop (out.length - 2),
                   cur := out.drop (out.length - 1) })

/-- TextFile.read_one: CR LF → CR unless the CR follows an LF -/
def Rd.readOne (r : Rd) : Bytes × Rd :=
  let x := r.read 1
  if x.1 = [] then x
  else if x.1 = [13] ∧ x.2.prev ≠ [10] then
    let p := x.2.peek 1
    if p.1 = [10] then
      let y := p.2.read 1
      (x.1, { y.2 with prev := p.2.prev, cur := p.2.cur })
    else (x.1, p.2)
  else x

/-- TextFileBase.eof for mode I -/
def Rd.eof (r : Rd) : Bool × Rd :=
  let p := r.peek 1
  (decide (p.1 = [] ∨ p.1 = [26]), p.2)

/-- TextFile.read_line; separator: `some [13]`, `some []` (end of file), `none` (255 limit) -/
def readLineLoop : Nat → Rd → Bytes → (Bytes × Option Bytes) × Rd
  | 0, r, s => ((s, none), r)
  | f+1, r, s =>
    let x := r.readOne
    if x.1 = [] ∨ (x.1 = [13] ∧ x.2.prev ≠ [10]) then ((s, some x.1), x.2)
    else if (s ++ x.1).length = 255 then
      let p := x.2.peek 1
      ((s ++ x.1, if p.1 = [13] then some [13] else none), p.2)
    else readLineLoop f x.2 (s ++ x.1)

def Rd.readLine (r : Rd) : (Bytes × Option Bytes) × Rd := readLineLoop 256 r []

/-- LINE INPUT# (implementation.line_input_): Input past end when nothing was read and no CR seen -/
def Rd.lineInput (r : Rd) : R Bytes × Rd :=
  let x := r.readLine
  if x.1.1 = [] ∧ x.1.2 ≠ some [13] then (.error Gen.E.input_past_end, x.2) else (.ok x.1.1, x.2)

/-- INPUT$(n, #f) (Files.input_) -/
def Rd.inputChars (r : Rd) (n : Nat) : R Bytes × Rd :=
  let x := r.read n
  if x.1.length < n then (.error Gen.E.input_past_end, x.2) else (.ok x.1, x.2)

/-- upper bound for the number of iterations of the scanning loops -/
def Rd.fuel (r : Rd) : Nat := r.ahead.length + r.raw.length + 2

/-- InputMixin._skip_whitespace -/
def skipWsLoop : Nat → Bytes → Rd → Bytes → Bytes × Rd
  | 0, _, r, c => (c, r)
  | f+1, ws, r, c =>
    let p := r.peek 1
    match p.1 with
    | [x] =>
      if x ∈ ws then
        let y := p.2.readOne
        if y.1 = [10] then
          let q := y.2.peek 1
          if q.1 = [13] then skipWsLoop f ws (q.2.readOne).2 y.1
          else skipWsLoop f ws q.2 y.1
        else skipWsLoop f ws y.2 y.1
      else (c, p.2)
    | _ => (c, p.2)

/-- the `while c and not (…)` loop of input_entry (suppress_unquoted_linefeed = True) -/
def ieLoop : Nat → Bool → Bool → Rd → Bytes → Bytes → Bytes → (Bytes × Bytes) × Rd
  | 0, _, _, r, c, word, _ => ((word, c), r)
  | f+1, isStr, q, r, c, word, blanks =>
    match c with
    | [x] =>
      if (!isStr ∧ x = 32) ∨ ((x = 44 ∨ x = 13) ∧ !q) then ((word, c), r)
      else if x = 34 ∧ q then ((word, c), r)
      else if x = 10 ∧ !q then
        let y := r.readOne
        if y.1 = [13] then
          let z := y.2.readOne
          ieLoop f isStr q z.2 z.1 word blanks
        else ieLoop f isStr q y.2 y.1 word blanks
      else
        let wb : Bytes × Bytes :=
          if x = 0 then (word, blanks)
          else if (x = 32 ∨ x = 10) ∧ !q then (word, if isStr then blanks ++ [x] else blanks)
          else (word ++ blanks ++ [x], [])
        if wb.1.length + wb.2.length ≥ 255 then ((wb.1, c), r)
        else
          let y := if q then r.read 1 else r.readOne
          ieLoop f isStr q y.2 y.1 wb.1 wb.2
    | _ => ((word, c), r)

/-- InputMixin.input_entry(typechar, allow_past_end=False): `(word, separator)`.
`firstViaReadOne = true` is the code before the repair (pending fix C24-quoted-leading-crlf): the first character
after the opening quote was fetched with read_one() (CR LF → CR) although the loop reads quoted text with read(1). -/
def Rd.inputEntryWith (firstViaReadOne : Bool) (r : Rd) (isStr : Bool) : R (Bytes × Bytes) × Rd :=
  let fuel := r.fuel
  let s := skipWsLoop fuel [32, 0, 10] r []
  let lastEsc : Bool := decide (s.1 = [10] ∨ s.1 = [0])
  let c0 := s.2.readOne
  let quoted : Bool := decide (c0.1 = [34]) && isStr && !lastEsc
  let c1 := if quoted then (if firstViaReadOne then c0.2.readOne else c0.2.read 1) else c0
  if c1.1 = [] ∧ !lastEsc then (.error Gen.E.input_past_end, c1.2)
  else
    let l := ieLoop fuel isStr quoted c1.2 c1.1 [] []
    let c := l.1.2
    if c = [32] ∨ c = [0] ∨ c = [10] ∨ (quoted ∧ c = [34]) then
      let t := skipWsLoop fuel [32] l.2 []
      let p := t.2.peek 1
      if p.1 = [] ∨ p.1 = [44] ∨ p.1 = [13] then
        let y := p.2.readOne
        (.ok (l.1.1, y.1), y.2)
      else (.ok (l.1.1, c), p.2)
    else (.ok (l.1.1, c), l.2)

/-- the current (repaired) code -/
def Rd.inputEntry (r : Rd) (isStr : Bool) : R (Bytes × Bytes) × Rd := r.inputEntryWith false isStr

/-- the code before the repair -/
def Rd.inputEntryOld (r : Rd) (isStr : Bool) : R (Bytes × Bytes) × Rd := r.inputEntryWith true isStr

/-- TextFile.lof (any mode): size of the host file -/
def Rd.lof (r : Rd) : Nat := r.size

/-- TextFile.loc for mode I: `max(1, (127 + tell - len(readahead)) // 128)` -/
def Rd.loc (r : Rd) : Nat := max 1 ((127 + (r.size - r.raw.length - r.ahead.length)) / 128)

/-- open FOR INPUT on host content `f` -/
def openIn (soft : Bool) (f : Bytes) : Rd :=
  { ahead := [], raw := f, nl := none, wrap := !soft, prev := [], cur := [], size := f.length }

/-! ### writing -/

/-- State of an output/append TextFile: host file bytes (position is always at the end), column, width. -/
structure Wr where
  content : Bytes
  col : Nat
  width : Nat
deriving Repr, DecidableEq

/-- the first `for` of TextFileBase.write: width of the first line of `s`, and whether a CR/LF was seen -/
def firstLine : Bytes → Nat × Bool
  | [] => (0, false)
  | c :: cs =>
    if c = 13 ∨ c = 10 then (0, true)
    else
      let r := firstLine cs
      ((if c ≥ 32 then r.1 + 1 else r.1), r.2)

/-- the second `for` of TextFileBase.write -/
def putChars : Bytes → Wr → Wr
  | [], w => w
  | c :: cs, w =>
    if c = 13 then putChars cs { w with content := w.content ++ [c], col := 1 }
    else putChars cs { w with content := w.content ++ [c],
                              col := if c ≥ 32 then (if w.col + 1 = 257 then 1 else w.col + 1) else w.col }

/-- TextFileBase.write(s, can_break); the inner `self.write_line()` is TextFile.write_line = write(CR LF) -/
def Wr.write (w : Wr) (s : Bytes) (canBreak : Bool := true) : Wr :=
  let fl := firstLine s
  let w1 : Wr :=
    if canBreak ∧ w.width ≠ 255 ∧ w.col ≠ 1 ∧ w.col - 1 + fl.1 > w.width ∧ !fl.2 then
      { putChars [13, 10] w with col := 1 }
    else w
  putChars s w1

/-- TextFile.write_line -/
def Wr.writeLine (w : Wr) (s : Bytes := []) : Wr := w.write (s ++ [13, 10])

/-- an item of WRITE#: a string, or the text the number printer produced for a number -/
inductive Item where
  | str (s : Bytes)
  | num (text : Bytes)
deriving Repr, DecidableEq

def Item.bytes : Item → Bytes
  | .str s => [34] ++ s ++ [34]
  | .num t => t

def joinComma : List Bytes → Bytes
  | [] => []
  | [a] => a
  | a :: b :: rest => a ++ [44] ++ joinComma (b :: rest)

/-- the text of one WRITE# statement (Files.write_) without the line end -/
def writeText (items : List Item) : Bytes := joinComma (items.map Item.bytes)

/-- WRITE #f, items -/
def Wr.writeStmt (w : Wr) (items : List Item) : Wr := w.writeLine (writeText items)

/-- PRINT #f, a$ -/
def Wr.printLine (w : Wr) (s : Bytes) : Wr := (w.write s).writeLine

/-- TextFile.lof in modes O/A; TextFile.loc = tell // 128 -/
def Wr.lof (w : Wr) : Nat := w.content.length
def Wr.loc (w : Wr) : Nat := w.content.length / 128

/-- OPEN FOR OUTPUT truncates -/
def openOut : Wr := { content := [], col := 1, width := 255 }

/-- DiskDevice.open_stream for mode A: cut one trailing 1A, then position at the end -/
def stripEof (f : Bytes) : Bytes := if f.getLast? = some 26 then f.dropLast else f

def openAppend (f : Bytes) : Wr := { content := stripEof f, col := 1, width := 255 }

/-- TextFile.close for modes O/A: write the EOF byte; result is the host file -/
def Wr.close (w : Wr) : Bytes := w.content ++ [26]

/-! ### whole histories on one file (used by the driver and by the theorems) -/

inductive Handle where
  | closed
  | out (w : Wr)
  | inp (r : Rd)
deriving Repr

structure Fs where
  disk : Bytes          -- host file content while no handle is open (or as last flushed)
  h : Handle
  soft : Bool
deriving Repr

/-- host file bytes as seen from outside after flushing -/
def Fs.bytes (s : Fs) : Bytes :=
  match s.h with
  | .out w => w.content
  | _ => s.disk

def Fs.closeH (s : Fs) : Fs :=
  match s.h with
  | .out w => { s with disk := w.close, h := .closed }
  | _ => { s with h := .closed }

/-- read the given entry kinds one after the other (INPUT #f, v1, v2, …): words (or the error), then EOF(f) after each -/
def readEntries : List Bool → Rd → List (R Bytes × Bool) × Rd
  | [], r => ([], r)
  | k :: ks, r =>
    let x := r.inputEntry k
    let e := x.2.eof
    let rest := readEntries ks e.2
    ((x.1.map (·.1), e.1) :: rest.1, rest.2)

/-- LINE INPUT# n times, EOF after each -/
def readLines : Nat → Rd → List (R Bytes × Bool) × Rd
  | 0, r => ([], r)
  | n+1, r =>
    let x := r.lineInput
    let e := x.2.eof
    let rest := readLines n e.2
    ((x.1, e.1) :: rest.1, rest.2)

/-- a sequence of WRITE# statements -/
def writeAll : List (List Item) → Wr → Wr
  | [], w => w
  | s :: ss, w => writeAll ss (w.writeStmt s)

/-- a sequence of PRINT #f, line$ statements -/
def printAll : List Bytes → Wr → Wr
  | [], w => w
  | s :: ss, w => printAll ss (w.printLine s)

/-! ### which type a target variable has (Memory.complete_name, Memory.deftype_) -/

/-- Memory.deftype: the default sigil of each initial letter A..Z (`!` after CLEAR / at start) -/
abbrev DefTab := List Nat

def defaultTab : DefTab := List.replicate 26 33

/-- Memory.deftype_ for one `start[-stop]` range (0-based letter indices):
`self.deftype[start:stop+1] = [sigil] * (stop-start+1)`; a reversed range assigns an empty list to an empty slice -/
def defType (tab : DefTab) (sigil start stop : Nat) : DefTab :=
  if stop < start then tab
  else tab.take start ++ List.replicate (stop - start + 1) sigil ++ tab.drop (stop + 1)

def upperByte (b : Nat) : Nat := if 97 ≤ b ∧ b ≤ 122 then b - 32 else b

/-- tk.SIGILS = # ! % $ -/
def isSigil (b : Nat) : Bool := b = 35 || b = 33 || b = 37 || b = 36

/-- Memory.complete_name: add the default sigil of the initial letter when the name has none -/
def completeName (tab : DefTab) (name : Bytes) : Bytes :=
  match name, name.getLast? with
  | c :: _, some l => if isSigil l then name else name ++ [tab.getD (upperByte c - 65) 33]
  | _, _ => name

/-- `self.memory.complete_name(name)[-1:] == values.STR` — what _input_file / line_input_ test -/
def varIsStr (tab : DefTab) (name : Bytes) : Bool := (completeName tab name).getLast? = some 36

/-- one variable of INPUT #f, … (Implementation._input_file): the type comes from the COMPLETED name -/
def Rd.inputVar (r : Rd) (tab : DefTab) (name : Bytes) : R (Bytes × Bytes) × Rd := r.inputEntry (varIsStr tab name)

/-- LINE INPUT #f, name (Implementation.line_input_): Type mismatch, before anything is read, unless the
completed name is a string variable -/
def Rd.lineInputVar (r : Rd) (tab : DefTab) (name : Bytes) : R Bytes × Rd :=
  if varIsStr tab name then r.lineInput else (.error Gen.E.type_mismatch, r)

/-- INPUT #f, name₁, name₂, … over a list of target variables, EOF(f) after each -/
def readVars (tab : DefTab) (names : List Bytes) (r : Rd) : List (R Bytes × Bool) × Rd :=
  readEntries (names.map (varIsStr tab)) r

/-- a WRITE# item given as a variable: the expression evaluator completes the name, a string variable is quoted -/
def itemOfVar (tab : DefTab) (name payload : Bytes) : Item :=
  if varIsStr tab name then .str payload else .num payload


end PcbV.SeqFile
