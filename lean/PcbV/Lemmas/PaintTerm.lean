import PcbV.Lemmas.Paint
/-
  Termination of the main loop of the solid flood fill (`PcbV.Model.Paint.loop` with `solidFill f`).

  Measure: `U` = number of pixels inside the bounds that do not show the fill attribute, `L` = length of the
  stack, `K = W + 1` = the largest number of intervals one iteration can push (`W` the width of the bounds).
  Facts: writes only produce the fill attribute, so `U` never grows; an interval is pushed only if it contains a
  pixel that does not show the fill attribute ("live"), and the write of the same iteration is in another row, so
  directly after an iteration that pushed something the top of the stack is live; popping a live interval fills
  at least one new pixel.  Hence `2*K*U + L + (K if the top is not live)` strictly decreases.
-/
namespace PcbV.Paint

/-! ### counting the pixels that do not show the fill attribute -/

/-- among `n` pixels from `x` rightwards in row `y` -/
def rowUnf (g : Grid) (f : Nat) (y : Int) : Nat → Int → Nat
  | 0, _ => 0
  | n + 1, x => (if g x y = f then 0 else 1) + rowUnf g f y n (x + 1)

/-- in `n` rows from `y` downwards, `w` pixels from `x0` in each -/
def rowsUnf (g : Grid) (f : Nat) (x0 : Int) (w : Nat) : Nat → Int → Nat
  | 0, _ => 0
  | n + 1, y => rowUnf g f y w x0 + rowsUnf g f x0 w n (y + 1)

def Bounds.w (B : Bounds) : Nat := (B.x1 - B.x0 + 1).toNat
def Bounds.h (B : Bounds) : Nat := (B.y1 - B.y0 + 1).toNat

/-- number of pixels inside the bounds that do not show attribute `f` -/
def unf (B : Bounds) (f : Nat) (g : Grid) : Nat := rowsUnf g f B.x0 B.w B.h B.y0

theorem rowUnf_le (g : Grid) (f : Nat) (y : Int) : ∀ (n : Nat) (x : Int), rowUnf g f y n x ≤ n
  | 0, _ => Nat.le_refl _
  | n + 1, x => by
    have := rowUnf_le g f y n (x + 1)
    unfold rowUnf
    split <;> omega

theorem rowsUnf_le (g : Grid) (f : Nat) (x0 : Int) (w : Nat) : ∀ (n : Nat) (y : Int),
    rowsUnf g f x0 w n y ≤ n * w
  | 0, _ => by simp [rowsUnf]
  | n + 1, y => by
    have h1 := rowsUnf_le g f x0 w n (y + 1)
    have h2 := rowUnf_le g f y w x0
    unfold rowsUnf
    rw [Nat.succ_mul]
    omega

theorem unf_le (B : Bounds) (f : Nat) (g : Grid) : unf B f g ≤ B.h * B.w := rowsUnf_le g f B.x0 B.w B.h B.y0

section
variable {g g' : Grid} {f : Nat}

theorem rowUnf_mono (y : Int) (h : ∀ x, g' x y = f ∨ g' x y = g x y) :
    ∀ (n : Nat) (x : Int), rowUnf g' f y n x ≤ rowUnf g f y n x
  | 0, _ => Nat.le_refl _
  | n + 1, x => by
    have ih := rowUnf_mono y h n (x + 1)
    unfold rowUnf
    rcases h x with h1 | h1
    · rw [if_pos h1]; omega
    · rw [h1]; omega

theorem rowUnf_strict (y : Int) (h : ∀ x, g' x y = f ∨ g' x y = g x y) (x1 : Int)
    (h1 : g x1 y ≠ f) (h2 : g' x1 y = f) :
    ∀ (n : Nat) (x : Int), x ≤ x1 → x1 < x + n → rowUnf g' f y n x + 1 ≤ rowUnf g f y n x
  | 0, x, ha, hb => by omega
  | n + 1, x, ha, hb => by
    unfold rowUnf
    by_cases hx : x1 = x
    · subst hx
      have ih := rowUnf_mono y h n (x1 + 1)
      rw [if_pos h2, if_neg h1]; omega
    · have ih := rowUnf_strict y h x1 h1 h2 n (x + 1) (by omega) (by omega)
      rcases h x with h3 | h3
      · rw [if_pos h3]; omega
      · rw [h3]; omega

theorem rowsUnf_mono (x0 : Int) (w : Nat) (h : ∀ x y, g' x y = f ∨ g' x y = g x y) :
    ∀ (n : Nat) (y : Int), rowsUnf g' f x0 w n y ≤ rowsUnf g f x0 w n y
  | 0, _ => Nat.le_refl _
  | n + 1, y => by
    have ih := rowsUnf_mono x0 w h n (y + 1)
    have hr := rowUnf_mono y (fun x => h x y) w x0
    unfold rowsUnf
    omega

theorem rowsUnf_strict (x0 : Int) (w : Nat) (h : ∀ x y, g' x y = f ∨ g' x y = g x y) (x1 y1 : Int)
    (h1 : g x1 y1 ≠ f) (h2 : g' x1 y1 = f) (hx0 : x0 ≤ x1) (hx1 : x1 < x0 + w) :
    ∀ (n : Nat) (y : Int), y ≤ y1 → y1 < y + n → rowsUnf g' f x0 w n y + 1 ≤ rowsUnf g f x0 w n y
  | 0, y, ha, hb => by omega
  | n + 1, y, ha, hb => by
    unfold rowsUnf
    by_cases hy : y1 = y
    · subst hy
      have ih := rowsUnf_mono x0 w h n (y1 + 1)
      have hr := rowUnf_strict y1 (fun x => h x y1) x1 h1 h2 w x0 hx0 hx1
      omega
    · have ih := rowsUnf_strict x0 w h x1 y1 h1 h2 hx0 hx1 n (y + 1) (by omega) (by omega)
      have hr := rowUnf_mono y (fun x => h x y) w x0
      omega

theorem unf_mono (B : Bounds) (h : ∀ x y, g' x y = f ∨ g' x y = g x y) : unf B f g' ≤ unf B f g :=
  rowsUnf_mono B.x0 B.w h B.h B.y0

theorem unf_strict (B : Bounds) (h : ∀ x y, g' x y = f ∨ g' x y = g x y) (x1 y1 : Int) (hb : B.has x1 y1)
    (h1 : g x1 y1 ≠ f) (h2 : g' x1 y1 = f) : unf B f g' + 1 ≤ unf B f g := by
  unfold Bounds.has at hb
  exact rowsUnf_strict B.x0 B.w h x1 y1 h1 h2 hb.1 (by unfold Bounds.w; omega) B.h B.y0 hb.2.2.1
    (by unfold Bounds.h; omega)
end

/-! ### what one iteration pushes -/

/-- the interval contains a pixel that does not show the fill attribute -/
def LiveIn (g : Grid) (f : Nat) (e : Iv) : Prop := ∃ x, e.xs ≤ x ∧ x ≤ e.xe ∧ g x e.y ≠ f

theorem allRun_false (p : Int → Bool) : ∀ (n : Nat) (x : Int), allRun p n x = false →
    ∃ i : Nat, i < n ∧ p (x + i) = false
  | 0, _, h => by simp [allRun] at h
  | n + 1, x, h => by
    simp only [allRun, Bool.and_eq_false_iff] at h
    rcases h with h | h
    · exact ⟨0, by omega, by simpa using h⟩
    · obtain ⟨i, hi, hp⟩ := allRun_false p n (x + 1) h
      refine ⟨i + 1, by omega, ?_⟩
      have e : x + ((i + 1 : Nat) : Int) = x + 1 + (i : Int) := by omega
      rw [e]; exact hp

theorem scanUntil_le (B : Bounds) (g : Grid) (b : Nat) (y x xstop : Int) (h : x ≤ xstop) :
    scanUntil B g b y x (xstop + 1) ≤ (xstop + 1 - x).toNat := by
  unfold scanUntil
  rw [if_neg (by omega), if_pos (by omega)]
  have := runRight_le g b y (min (xstop + 1) (B.x1 + 1) - max x B.x0).toNat (max x B.x0)
  simp only []
  omega

section
variable {B : Bounds} {f : Nat} {g : Grid} {b : Nat}

/-- `_check_scanline` of a solid fill puts live intervals of the checked row on top of the stack, at most one
    for every two pixels of the checked range (rounded up) -/
theorem checkLoop_new_live (y xstop d : Int) : ∀ (n : Nat) (x : Int) (s : List Iv),
    ∃ new : List Iv, checkLoop B (solidFill f) g b y xstop d n x s = new ++ s ∧
      (∀ e ∈ new, e.y = y ∧ LiveIn g f e) ∧ 2 * new.length ≤ (xstop + 1 - x).toNat + 1
  | 0, x, s => ⟨[], rfl, (by intro e h; cases h), (by simp)⟩
  | n + 1, x, s => by
    unfold checkLoop
    by_cases hle : x ≤ xstop
    · rw [if_pos hle]
      have hw := scanUntil_le B g b y x xstop hle
      by_cases hp : scanUntil B g b y x (xstop + 1) > 0 ∧
          ¬ (solidFill f).same g y x (scanUntil B g b y x (xstop + 1)) = true
      · simp only []
        rw [if_pos hp]
        obtain ⟨new, h1, h2, h3⟩ := checkLoop_new_live y xstop d n
          (x + (scanUntil B g b y x (xstop + 1) : Int) + 1)
          (⟨x, x + (scanUntil B g b y x (xstop + 1) : Int) - 1, y, d⟩ :: s)
        refine ⟨new ++ [⟨x, x + (scanUntil B g b y x (xstop + 1) : Int) - 1, y, d⟩], ?_, ?_, ?_⟩
        · rw [h1]; simp
        · intro e he
          rcases List.mem_append.mp he with he | he
          · exact h2 e he
          · simp only [List.mem_singleton] at he
            subst he
            refine ⟨rfl, ?_⟩
            have hs : (solidFill f).same g y x (scanUntil B g b y x (xstop + 1)) = false := by
              cases hh : (solidFill f).same g y x (scanUntil B g b y x (xstop + 1))
              · rfl
              · exact absurd hh hp.2
            obtain ⟨i, hi, hpi⟩ := allRun_false _ _ _ hs
            refine ⟨x + i, by show x ≤ x + (i : Int); omega, by show x + (i : Int) ≤ x + _ - 1; omega, ?_⟩
            simpa using hpi
        · simp only [List.length_append, List.length_singleton]
          omega
      · simp only []
        rw [if_neg hp]
        obtain ⟨new, h1, h2, h3⟩ := checkLoop_new_live y xstop d n
          (x + (scanUntil B g b y x (xstop + 1) : Int) + 1) s
        exact ⟨new, h1, h2, by omega⟩
    · rw [if_neg hle]
      exact ⟨[], rfl, (by intro e h; cases h), (by simp)⟩

theorem checkScanline_new_live (s : List Iv) (xa xb y d : Int) :
    ∃ new : List Iv, checkScanline B (solidFill f) g b s xa xb y d = new ++ s ∧
      (∀ e ∈ new, e.y = y ∧ LiveIn g f e) ∧ 2 * new.length ≤ (xb - xa + 1).toNat + 1 := by
  unfold checkScanline
  split
  · exact ⟨[], rfl, (by intro e h; cases h), (by simp)⟩
  · obtain ⟨new, h1, h2, h3⟩ := checkLoop_new_live (B := B) (f := f) (g := g) (b := b) y xb d
      (xb - xa + 1).toNat xa s
    exact ⟨new, h1, h2, by omega⟩

/-- one guarded `_check_scanline` call -/
theorem guard_layer (c : Prop) [Decidable c] (s : List Iv) (xa xb y d : Int) :
    ∃ new : List Iv, (if c then checkScanline B (solidFill f) g b s xa xb y d else s) = new ++ s ∧
      (∀ e ∈ new, e.y = y ∧ LiveIn g f e) ∧ 2 * new.length ≤ (xb - xa + 1).toNat + 1 := by
  split
  · exact checkScanline_new_live s xa xb y d
  · exact ⟨[], rfl, (by intro e h; cases h), (by simp)⟩

/-- the two guarded backward calls -/
theorem guard_layer2 (c : Prop) [Decidable c] (s : List Iv) (xa xb xc xd y d : Int) :
    ∃ new : List Iv,
      (if c then checkScanline B (solidFill f) g b (checkScanline B (solidFill f) g b s xa xb y d) xc xd y d
        else s) = new ++ s ∧
      (∀ e ∈ new, e.y = y ∧ LiveIn g f e) ∧
      2 * new.length ≤ (xb - xa + 1).toNat + 1 + ((xd - xc + 1).toNat + 1) := by
  split
  · obtain ⟨n1, h1, h2, h3⟩ := checkScanline_new_live (B := B) (f := f) (g := g) (b := b) s xa xb y d
    obtain ⟨n2, h4, h5, h6⟩ := checkScanline_new_live (B := B) (f := f) (g := g) (b := b) (n1 ++ s) xc xd y d
    refine ⟨n2 ++ n1, ?_, ?_, ?_⟩
    · rw [h1, h4]; simp
    · intro e he
      rcases List.mem_append.mp he with he | he
      · exact h5 e he
      · exact h2 e he
    · simp only [List.length_append]; omega
  · exact ⟨[], rfl, (by intro e h; cases h), (by simp)⟩

/-- one iteration puts at most `width of the extended interval + 1` intervals on top of the stack, all of
    them live and in another row than the one it writes -/
theorem pushes_new_live (e : Iv) (xl xr : Int) (s : List Iv) (hl : xl ≤ e.xs) (hle : e.xs ≤ e.xe)
    (hr : e.xe ≤ xr) :
    ∃ new : List Iv, pushes B (solidFill f) g b e xl xr s = new ++ s ∧
      (∀ e' ∈ new, e'.y ≠ e.y ∧ LiveIn g f e') ∧ new.length ≤ (xr - xl + 1).toNat + 1 := by
  unfold pushes
  by_cases hd : e.d = 0
  · rw [if_pos hd]
    dsimp only
    obtain ⟨n1, h1, h2, h3⟩ := guard_layer (B := B) (f := f) (g := g) (b := b) (e.y + 1 ≤ B.y1) s xl xr (e.y + 1) 1
    rw [h1]
    obtain ⟨n2, h4, h5, h6⟩ := guard_layer (B := B) (f := f) (g := g) (b := b) (e.y - 1 ≥ B.y0) (n1 ++ s) xl xr
      (e.y - 1) (-1)
    rw [h4]
    refine ⟨n2 ++ n1, by simp, ?_, ?_⟩
    · intro e' he
      rcases List.mem_append.mp he with he | he
      · have := h5 e' he; exact ⟨by omega, this.2⟩
      · have := h2 e' he; exact ⟨by omega, this.2⟩
    · simp only [List.length_append]; omega
  · rw [if_neg hd]
    dsimp only
    obtain ⟨n1, h1, h2, h3⟩ := guard_layer (B := B) (f := f) (g := g) (b := b)
      (e.y + e.d ≤ B.y1 ∧ e.y + e.d ≥ B.y0) s xl xr (e.y + e.d) e.d
    rw [h1]
    obtain ⟨n2, h4, h5, h6⟩ := guard_layer2 (B := B) (f := f) (g := g) (b := b)
      (e.y - e.d ≤ B.y1 ∧ e.y - e.d ≥ B.y0) (n1 ++ s) xl (e.xs - 1) (e.xe + 1) xr (e.y - e.d) (-e.d)
    rw [h4]
    refine ⟨n2 ++ n1, by simp, ?_, ?_⟩
    · intro e' he
      rcases List.mem_append.mp he with he | he
      · have := h5 e' he; exact ⟨by omega, this.2⟩
      · have := h2 e' he; exact ⟨by omega, this.2⟩
    · simp only [List.length_append]; omega
end

/-! ### the measure decreases -/

section
variable {B : Bounds} {f : Nat} {g0 : Grid} {b : Nat} {sx sy : Int}

/-- The main loop of a solid fill ends within `2*K*U + L + K` iterations (`K = W + 1`), and within
    `2*K*U + L` when the top of the stack is live — for every picture (no hypothesis on pre-filled pixels). -/
theorem loop_terminates : ∀ (n : Nat) (g : Grid) (st : List Iv), SInv B (solidFill f) g0 b sx sy g st →
    (2 * ((B.w + 1) * unf B f g) + st.length + (B.w + 1) ≤ n ∨
      ((∃ e rest, st = e :: rest ∧ LiveIn g f e) ∧ 2 * ((B.w + 1) * unf B f g) + st.length ≤ n)) →
    (loop B (solidFill f) b n g st).finished = true
  | 0, g, st, _, h => by
    have : st = [] := by
      rcases h with h | ⟨⟨e, rest, rfl, _⟩, h⟩
      · cases st with
        | nil => rfl
        | cons a t => simp only [List.length_cons] at h; omega
      · simp only [List.length_cons] at h; omega
    subst this; rfl
  | n + 1, g, [], _, _ => rfl
  | n + 1, g, e :: st, hI, h => by
    have he := hI.stk e (List.mem_cons_self ..)
    obtain ⟨hl, hr, hext⟩ := extension_region hI e he
    have hle := he.1
    have hbl := (hext _ (Int.le_refl _) (by omega)).has
    have hbr := (hext _ (by omega) (Int.le_refl _)).has
    unfold Bounds.has at hbl hbr
    obtain ⟨new, hnew, hlive, hlen⟩ := pushes_new_live (B := B) (f := f) (g := g) (b := b) e
      (leftOf B g b e) (rightOf B g b e) st hl hle hr
    have hK : new.length ≤ B.w + 1 := by unfold Bounds.w; omega
    have hI' := sinv_step e hI
    have hpt : ∀ x y, setRow g (solidFill f).val e.y (leftOf B g b e) (rightOf B g b e) x y = f ∨
        setRow g (solidFill f).val e.y (leftOf B g b e) (rightOf B g b e) x y = g x y := by
      intro x y; unfold setRow; split
      · exact Or.inl rfl
      · exact Or.inr rfl
    have hmono := unf_mono (f := f) B hpt
    have hA := Nat.mul_le_mul_left (B.w + 1) hmono
    -- live intervals of other rows stay live after the write
    have hstay : ∀ e' ∈ new, LiveIn (setRow g (solidFill f).val e.y (leftOf B g b e) (rightOf B g b e)) f e' := by
      intro e' hm
      obtain ⟨hy, x, h1, h2, h3⟩ := hlive e' hm
      refine ⟨x, h1, h2, ?_⟩
      rw [setRow_out g _ _ _ _ x e'.y (fun hh => hy hh.1)]
      exact h3
    show (loop B (solidFill f) b n (setRow g (solidFill f).val e.y (leftOf B g b e) (rightOf B g b e))
      (pushes B (solidFill f) g b e (leftOf B g b e) (rightOf B g b e) st)).finished = true
    apply loop_terminates n _ _ hI'
    rw [hnew]
    simp only [List.length_append, List.length_cons] at h ⊢
    by_cases hL : LiveIn g f e
    · -- popping a live interval fills a new pixel
      obtain ⟨x, h1, h2, h3⟩ := hL
      have hstrict := unf_strict (f := f) B hpt x e.y (he.2.2 x h1 h2).has h3
        (setRow_in g _ _ _ _ x (by omega) (by omega))
      have hA' := Nat.mul_le_mul_left (B.w + 1) hstrict
      rw [Nat.mul_add, Nat.mul_one] at hA'
      have hn : 2 * ((B.w + 1) * unf B f g) + (st.length + 1) ≤ n + 1 := by
        rcases h with h | ⟨_, h⟩ <;> omega
      cases new with
      | nil => left; simp only [List.length_nil]; omega
      | cons e1 t =>
        right
        refine ⟨⟨e1, t ++ st, rfl, hstay e1 (List.mem_cons_self ..)⟩, ?_⟩
        simp only [List.length_cons] at hK ⊢
        omega
    · have hn : 2 * ((B.w + 1) * unf B f g) + (st.length + 1) + (B.w + 1) ≤ n + 1 := by
        rcases h with h | ⟨⟨e', rest, heq, hl'⟩, _⟩
        · exact h
        · injection heq with h1 h2
          subst h1
          exact absurd hl' hL
      cases new with
      | nil => left; simp only [List.length_nil]; omega
      | cons e1 t =>
        right
        refine ⟨⟨e1, t ++ st, rfl, hstay e1 (List.mem_cons_self ..)⟩, ?_⟩
        simp only [List.length_cons] at hK ⊢
        omega
end

/-! ### the explicit fuel bound -/

theorem bound_arith (W H U : Nat) (hW : 1 ≤ W) (hH : 1 ≤ H) (hU : U ≤ H * W) :
    2 * ((W + 1) * U) + 1 + (W + 1) ≤ 2 * (W * H * (W + 2)) + 1 := by
  have h1 : (W + 1) * U ≤ (W + 1) * (H * W) := Nat.mul_le_mul_left _ hU
  have e1 : (W + 1) * (H * W) = W * (H * W) + H * W := by rw [Nat.add_mul, Nat.one_mul]
  have e2 : W * H * (W + 2) = W * (H * W) + 2 * (H * W) := by
    rw [Nat.mul_add, Nat.mul_assoc W H W, Nat.mul_comm W H, Nat.mul_comm (H * W) 2]
  have h2 : W ≤ H * W := Nat.le_mul_of_pos_left W hH
  have h3 : 1 ≤ H * W := Nat.mul_pos hH hW
  omega

theorem cast_bound (W H : Nat) : ((W : Int) * (H : Int) * ((W : Int) + 2)).toNat = W * H * (W + 2) := by
  have : ((W : Int) * (H : Int) * ((W : Int) + 2)) = ((W * H * (W + 2) : Nat) : Int) := by
    simp [Int.natCast_mul, Int.natCast_add]
  rw [this, Int.toNat_natCast]

/-- the invariant holds when the loop is entered -/
theorem sinv_init (B : Bounds) (F : Fill) (g : Grid) (b : Nat) (sx sy : Int) (hb : B.has sx sy)
    (hnb : g sx sy ≠ b) : SInv B F g b sx sy g [⟨sx, sx, sy, 0⟩] := by
  constructor
  · intro x y hne; exact absurd rfl hne
  · intro e he
    simp only [List.mem_singleton] at he
    subst he
    refine ⟨Int.le_refl _, Or.inl rfl, ?_⟩
    intro x hx1 hx2
    have : x = sx := by
      have a : sx ≤ x := hx1
      have c : x ≤ sx := hx2
      omega
    subst this
    exact Region.seed hb hnb

/-- a solid flood fill ends within `2*W*H*(W+2) + 1` iterations of the main loop, for every picture -/
theorem floodFill_finishes (B : Bounds) (f b : Nat) (g : Grid) (sx sy : Int) (fuel : Nat)
    (h : fuel ≥ 2 * ((B.x1 - B.x0 + 1) * (B.y1 - B.y0 + 1) * (B.x1 - B.x0 + 3)).toNat + 1) :
    (floodFill B (solidFill f) b fuel g sx sy).finished = true := by
  unfold floodFill
  by_cases h1 : sx < B.x0 ∨ sx > B.x1 ∨ sy < B.y0 ∨ sy > B.y1
  · rw [if_pos h1]
  · rw [if_neg h1]
    by_cases h2 : g sx sy = b
    · rw [if_pos h2]
    · rw [if_neg h2]
      have hb : B.has sx sy := by unfold Bounds.has; omega
      apply loop_terminates fuel g _ (sinv_init B (solidFill f) g b sx sy hb h2)
      left
      have hw : B.x1 - B.x0 + 1 = (B.w : Int) := by unfold Bounds.w; omega
      have hh : B.y1 - B.y0 + 1 = (B.h : Int) := by unfold Bounds.h; omega
      have hw3 : B.x1 - B.x0 + 3 = (B.w : Int) + 2 := by omega
      rw [hw, hh, hw3, cast_bound] at h
      have hW : 1 ≤ B.w := by unfold Bounds.w; omega
      have hH : 1 ≤ B.h := by unfold Bounds.h; omega
      have := bound_arith B.w B.h (unf B f g) hW hH (unf_le B f g)
      simp only [List.length_singleton]
      omega

end PcbV.Paint
