import PcbV.Model.Sprite
import PcbV.Drv.C30
/-
  Driver operations of C31 (unclipped screen of `W × H` pixels):
    prim W H line x0 y0 x1 y1      cells written by a solid LINE        reply `ok y:xa-xb,…` (as C30)
    prim W H box  x0 y0 x1 y1      … by LINE ,B
    prim W H boxf x0 y0 x1 y1      … by LINE ,BF
    pack <kind> <bpp> <w> <h> <hex pixels, row-major>   the record GET stores       reply `ok <hex>`
    unpack <kind> <bpp> <hex array>                     the sprite PUT draws        reply `ok w h <hex pixels>`
    putop <op> <bpp> <hex screen cells> <hex sprite cells>   the cells after PUT    reply `ok <hex>`
  kind ∈ packed planed tandy6; op ∈ pset preset and or xor.
-/
namespace PcbV.Drv.C31
open PcbV PcbV.Viewport PcbV.Draw PcbV.Sprite

def builder (kind : String) (bpp : Nat) : Option Builder :=
  match kind with
  | "packed" => some (.packed bpp)
  | "planed" => some (.planed bpp)
  | "tandy6" => some (.tandy6 bpp)
  | _ => none

def putOp : String → Option PutOp
  | "pset" => some .pset
  | "preset" => some .preset
  | "and" => some .and
  | "or" => some .or
  | "xor" => some .xor
  | _ => none

def prim (v : View) : List String → String
  | "line" :: args =>
    match PcbV.Drv.C30.ints args with
    | some [a, b, c, d] => PcbV.Drv.C30.reply v (drawLine v a b c d)
    | _ => "bad-op"
  | "box" :: args =>
    match PcbV.Drv.C30.ints args with
    | some [a, b, c, d] => PcbV.Drv.C30.reply v (drawBox v a b c d)
    | _ => "bad-op"
  | "boxf" :: args =>
    match PcbV.Drv.C30.ints args with
    | some [a, b, c, d] => PcbV.Drv.C30.reply v (drawBoxFilled v a b c d)
    | _ => "bad-op"
  | _ => "bad-op"

def handle : List String → String
  | "prim" :: w :: h :: rest =>
    match w.toNat?, h.toNat? with
    | some w, some h =>
      if w = 0 ∨ h = 0 ∨ w > 4096 ∨ h > 4096 then "bad-op" else prim (View.full w h) rest
    | _, _ => "bad-op"
  | ["pack", kind, bpp, w, h, px] =>
    match bpp.toNat?, w.toNat?, h.toNat?, ofHex px with
    | some bpp, some w, some h, some px =>
      match builder kind bpp with
      | some b => "ok " ++ toHex (b.pack (chunksN w h px))
      | none => "bad-op"
    | _, _, _, _ => "bad-op"
  | ["unpack", kind, bpp, arr] =>
    match bpp.toNat?, ofHex arr with
    | some bpp, some arr =>
      match builder kind bpp with
      | some b =>
        let s := b.unpack arr
        "ok " ++ toString (width s) ++ " " ++ toString (height s) ++ " " ++ toHex s.flatten
      | none => "bad-op"
    | _, _ => "bad-op"
  | ["putop", op, bpp, scr, spr] =>
    match putOp op, bpp.toNat?, ofHex scr, ofHex spr with
    | some op, some bpp, some scr, some spr =>
      if scr.length ≠ spr.length then "bad-op" else "ok " ++ toHex (List.zipWith (op.cell bpp) scr spr)
    | _, _, _, _ => "bad-op"
  | _ => "bad-op"

end PcbV.Drv.C31
