import PcbV.Model.Decimal
import PcbV.Lemmas.C05Basic
/-
  C07 lemmas, part 4: one step of `_mul10_den` and of `_div10_den` on a normalised extended mantissa
  (den_mask ≤ man < den_upper), in integers: where the result lies relative to 10·x resp. x/10.
-/
namespace PcbV.Decimal
open PcbV PcbV.Mbf

/-! ### `_mul10_den` -/

/-- `_mul10_den` of a normalised value with non-negative exponent: the result is normalised, keeps the
    sign, and is within one unit of its own last extended-mantissa bit of ten times the input
    (exponent +4: `16·man' ≈ 10·man`; exponent +3: `8·man' ≈ 10·man`) -/
theorem mul10Den_step (f : Fmt) (hU : f.denUpper = 2 * f.denMask) (hM : 256 ≤ f.denMask) (d : Den) (he : 0 ≤ d.exp)
    (h1 : f.denMask ≤ d.man) (h2 : d.man < f.denUpper) :
    (mul10Den f d).neg = d.neg ∧ f.denMask ≤ (mul10Den f d).man ∧ (mul10Den f d).man < f.denUpper ∧
    (((mul10Den f d).exp = d.exp + 4 ∧ 10 * d.man ≤ 16 * (mul10Den f d).man + 16 ∧
        16 * (mul10Den f d).man ≤ 10 * d.man + 16) ∨
     ((mul10Den f d).exp = d.exp + 3 ∧ 10 * d.man ≤ 8 * (mul10Den f d).man + 8 ∧
        8 * (mul10Den f d).man ≤ 10 * d.man + 8)) := by
  unfold mul10Den addDen
  have h3 : ¬ d.exp + 3 = 0 := by omega
  have h1' : ¬ d.exp + 1 = 0 := by omega
  have hsw : ¬ (d.exp + 1 > d.exp + 3 ∨ (d.exp + 1 = d.exp + 3 ∧ d.man > d.man)) := by omega
  have hsh : (d.exp + 3 - (d.exp + 1)).toNat = 2 := by omega
  simp only [h1', h3, if_false, hsw, hsh, bne_self_eq_false, Bool.false_eq_true, and_false,
    Bool.not_false, and_true, ite_true, false_and, Bool.not_eq_true', decide_eq_false_iff_not]
  simp only [show (2:Nat) ^ 2 = 4 from rfl]
  by_cases hs : d.man / 4 + d.man ≥ f.denUpper <;> by_cases hz : d.man % 4 = 0 <;>
    simp only [hs, hz, if_true, if_false, not_true_eq_false, not_false_eq_true]
  · exact ⟨trivial, by omega, by omega, Or.inl ⟨by omega, by omega, by omega⟩⟩
  · by_cases hp : (d.man / 4 + d.man) / 2 % 2 = 0 <;> simp only [hp, if_true, if_false] <;>
      exact ⟨trivial, by omega, by omega, Or.inl ⟨by omega, by omega, by omega⟩⟩
  · exact ⟨trivial, by omega, by omega, Or.inr ⟨by first | trivial | omega, by omega, by omega⟩⟩
  · by_cases hp : (d.man / 4 + d.man) % 2 = 0 <;> simp only [hp, if_true, if_false] <;>
      exact ⟨trivial, by omega, by omega, Or.inr ⟨by first | trivial | omega, by omega, by omega⟩⟩

/-! ### the long division by ten -/

theorem divLoop_zero (n work lman : Nat) (lexp : Int) : divLoop n work 0 lman lexp = (lman, lexp) := by
  cases n <;> simp [divLoop]

/-- `_div_den`'s loop with divisor mantissa `5·2^j` (ten is `5·2^(w+5)`): `j+3` quotient bits `q` are
    appended to `lman`, with `4·work − 8 ≤ 5·q ≤ 4·work + 3` (the divisor's last three halvings
    5→2→1 are inexact and `>` is strict), and the exponent drops by `j+3` -/
theorem divLoop_spec : ∀ (j n work lman : Nat) (lexp : Int), work ≤ 10 * 2 ^ j →
    ∃ q, divLoop (n + j + 3) work (5 * 2 ^ j) lman lexp = (lman * 2 ^ (j + 3) + q, lexp - (j + 3)) ∧
      4 * work ≤ 5 * q + 8 ∧ 5 * q ≤ 4 * work + 3 := by
  intro j
  induction j with
  | zero =>
    intro n work lman lexp hw
    simp only [Nat.pow_zero, Nat.mul_one, Nat.add_zero] at hw ⊢
    have e : n + 3 = (n + 2) + 1 := by omega
    simp only [divLoop, show (5:Nat) > 0 from by decide, if_true, show (5:Nat) / 2 = 2 from rfl,
      show (2:Nat) > 0 from by decide, show (2:Nat) / 2 = 1 from rfl, show (1:Nat) > 0 from by decide,
      show (1:Nat) / 2 = 0 from rfl, divLoop_zero]
    by_cases a : work > 5
    · simp only [a, if_true]
      by_cases b : work - 5 > 2
      · simp only [b, if_true]
        by_cases c : work - 5 - 2 > 1
        · simp only [c, if_true]
          exact ⟨7, by constructor; · congr 1 <;> omega
                       · omega⟩
        · simp only [c, if_false]
          exact ⟨6, by constructor; · congr 1 <;> omega
                       · omega⟩
      · simp only [b, if_false]
        by_cases c : work - 5 > 1
        · simp only [c, if_true]
          exact ⟨5, by constructor; · congr 1 <;> omega
                       · omega⟩
        · simp only [c, if_false]
          exact ⟨4, by constructor; · congr 1 <;> omega
                       · omega⟩
    · simp only [a, if_false]
      by_cases b : work > 2
      · simp only [b, if_true]
        by_cases c : work - 2 > 1
        · simp only [c, if_true]
          exact ⟨3, by constructor; · congr 1 <;> omega
                       · omega⟩
        · simp only [c, if_false]
          exact ⟨2, by constructor; · congr 1 <;> omega
                       · omega⟩
      · simp only [b, if_false]
        by_cases c : work > 1
        · simp only [c, if_true]
          exact ⟨1, by constructor; · congr 1 <;> omega
                       · omega⟩
        · simp only [c, if_false]
          exact ⟨0, by constructor; · congr 1 <;> omega
                       · omega⟩
  | succ j ih =>
    intro n work lman lexp hw
    have hp : 5 * 2 ^ (j + 1) = 2 * (5 * 2 ^ j) := by rw [Nat.pow_succ]; omega
    have hpos : 5 * 2 ^ (j + 1) > 0 := by have := Nat.two_pow_pos (j + 1); omega
    have hfuel : n + (j + 1) + 3 = (n + j + 3) + 1 := by omega
    have hhalf : 5 * 2 ^ (j + 1) / 2 = 5 * 2 ^ j := by omega
    have hp3 : (2:Nat) ^ (j + 1 + 3) = 2 * 2 ^ (j + 3) := by
      rw [show j + 1 + 3 = (j + 3) + 1 from by omega, Nat.pow_succ]; omega
    rw [hfuel]
    unfold divLoop
    simp only [hpos, if_true, hhalf]
    by_cases hgt : work > 5 * 2 ^ (j + 1)
    · simp only [hgt, if_true]
      obtain ⟨q, hq, b1, b2⟩ := ih n (work - 5 * 2 ^ (j + 1)) (lman * 2 + 1) (lexp - 1)
        (by rw [Nat.pow_succ] at hw; omega)
      refine ⟨2 ^ (j + 3) + q, ?_, ?_, ?_⟩
      · rw [hq]
        congr 1
        · rw [hp3, Nat.add_mul]; simp [Nat.mul_assoc]; omega
        · push_cast; omega
      · have : 5 * 2 ^ (j + 3) = 4 * (5 * 2 ^ (j + 1)) := by
          rw [show j + 3 = (j + 1) + 2 from by omega, Nat.pow_add]; omega
        omega
      · have : 5 * 2 ^ (j + 3) = 4 * (5 * 2 ^ (j + 1)) := by
          rw [show j + 3 = (j + 1) + 2 from by omega, Nat.pow_add]; omega
        omega
    · simp only [hgt, if_false]
      obtain ⟨q, hq, b1, b2⟩ := ih n work (lman * 2) (lexp - 1) (by omega)
      refine ⟨q, ?_, b1, b2⟩
      rw [hq]
      congr 1
      · rw [hp3, Nat.mul_assoc]
      · push_cast; omega


/-- facts about the constant ten of a format (decidable; checked for the regenerated constants) -/
structure TenOK (f : Fmt) : Prop where
  man : (denorm f f.ten).man = 5 * 2 ^ (f.w + 5)
  exp : (denorm f f.ten).exp = 132
  neg : (denorm f f.ten).neg = false
  fuel : Nat.log2 (denorm f f.ten).man + 2 = 1 + (f.w + 5) + 3

instance (f : Fmt) : Decidable (TenOK f) :=
  decidable_of_iff
    ((denorm f f.ten).man = 5 * 2 ^ (f.w + 5) ∧ (denorm f f.ten).exp = 132 ∧ (denorm f f.ten).neg = false ∧
      Nat.log2 (denorm f f.ten).man + 2 = 1 + (f.w + 5) + 3)
    ⟨fun ⟨a, b, c, d⟩ => ⟨a, b, c, d⟩, fun ⟨a, b, c, d⟩ => ⟨a, b, c, d⟩⟩

theorem single_ten : TenOK single := by decide
theorem double_ten : TenOK double := by decide

/-- `_div10_den` of a normalised value: the result is normalised, keeps the sign, and its mantissa `man'`
    satisfies `4·man − 8 ≤ 5·man' ≤ 4·man + 3` at exponent −3 (quotient already normalised), or
    `8·man − 16 ≤ 5·man' ≤ 8·man + 6` at exponent −4 (quotient shifted up once) -/
theorem div10Den_step (f : Fmt) (hf : f.WF) (ht : TenOK f) (d : Den)
    (h1 : f.denMask ≤ d.man) (h2 : d.man < f.denUpper) :
    (div10Den f d).neg = d.neg ∧ f.denMask ≤ (div10Den f d).man ∧ (div10Den f d).man < f.denUpper ∧
    (((div10Den f d).exp = d.exp - 3 ∧ 4 * d.man ≤ 5 * (div10Den f d).man + 8 ∧
        5 * (div10Den f d).man ≤ 4 * d.man + 3) ∨
     ((div10Den f d).exp = d.exp - 4 ∧ 8 * d.man ≤ 5 * (div10Den f d).man + 16 ∧
        5 * (div10Den f d).man ≤ 8 * d.man + 6)) := by
  obtain ⟨hw8, hbias, hdm, hdu, _⟩ := hf
  have hM : f.denMask = 4 * 2 ^ (f.w + 5) := by
    rw [hdm, show f.w + 7 = (f.w + 5) + 2 from by omega, Nat.pow_add]; omega
  have hU : f.denUpper = 8 * 2 ^ (f.w + 5) := by
    rw [hdu, show f.w + 8 = (f.w + 5) + 3 from by omega, Nat.pow_add]; omega
  have hP : 2 ^ 13 ≤ 2 ^ (f.w + 5) := Nat.pow_le_pow_right (by decide) (by omega)
  obtain ⟨q, hq, b1, b2⟩ := divLoop_spec (f.w + 5) 1 d.man 0
    (d.exp - ((denorm f f.ten).exp - f.bias - 8) + 1) (by omega)
  have hfuel : Nat.log2 (5 * 2 ^ (f.w + 5)) + 2 = 1 + (f.w + 5) + 3 := by rw [← ht.man]; exact ht.fuel
  unfold div10Den divDen
  simp only [ht.man, hfuel, hq, ht.neg, Nat.zero_mul, Nat.zero_add]
  have hexp : d.exp - ((denorm f f.ten).exp - (f.bias : Int) - 8) + 1 - ((f.w + 5 : Nat) + 3 : Int) = d.exp - 3 := by
    rw [ht.exp, hbias]; push_cast; omega
  rw [hexp]
  have hneg : (d.neg != false) = d.neg := by cases d.neg <;> rfl
  by_cases hlt : q < f.denMask
  · -- one shift
    have e1 : f.w + 10 = (f.w + 9) + 1 := by omega
    rw [e1]
    unfold shiftUp
    simp only [hlt, if_true]
    rw [shiftUp_stop _ _ _ _ (by omega)]
    simp only [hneg]
    exact ⟨trivial, by omega, by omega, Or.inr ⟨by omega, by omega, by omega⟩⟩
  · rw [shiftUp_stop _ _ _ _ hlt]
    simp only [hneg]
    exact ⟨trivial, by omega, by omega, Or.inl ⟨by first | trivial | omega, by omega, by omega⟩⟩

end PcbV.Decimal
