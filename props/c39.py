"""C39 — RND is a deterministic full-period sequence in [0, 1)."""
import struct
from fractions import Fraction

from vlib import basic, translated

LEVEL = 'proof'
RULE = ('one case = one generator state walked on the implementation (all 2^24 of them, in orbit order), one '
        'RANDOMIZE/RND argument applied to the real Randomiser, or one operation of a history run through a real '
        'Session; histories mix RND / RND(0) / RND(+x) / RND(-x) (integer, single by mantissa and exponent class, '
        'exactly representable double), RANDOMIZE (integer, arbitrary single and double byte patterns), CLEAR, NEW, RUN; '
        'non-trivial = every case (no state or argument is special-cased away)')
EXPLANATION = ('theorems (PcbV.Props.C39): every state has minimal period 2^24 under the step map, the orbit of any '
               'state is the whole state space, values are seed/2^24 exactly and in [0,1), reset / RND(0) / RND(-x) / '
               'RANDOMIZE determinism over all histories; correspondence: orbit hash over all 2^24 transitions, values, '
               'all 65536 integer RANDOMIZE arguments, sampled single/double arguments, Session histories compared '
               'with the compiled Lean model; oracle: bitmap walk of the implementation\'s cycle, an LCG derived from '
               'the observed sequence, exact fractions for the returned MBF singles, relational checks for reseeding'
               '; source tie: Randomiser._cycle is translated mechanically from the current Python AST into '
               'PcbV.Gen.Translated.cycle (gen/py2lean.py), proved equal to the model cycle (translated_cycle_eq) '
               'and compared with the real method on a real Randomiser (vlib/translated.py)')
TRUSTED_BASE = ['model PcbV.Model.Rnd is a hand transcription of values/randomiser.py (constants regenerated into '
                'PcbV.Gen.Rnd); the returned value is modelled by the closed form of from_int(seed).idiv(from_int(2^24)), '
                'validated bit-for-bit by correspondence, not derived from a model of MBF division',
                'PcbV.C39.mbfValue is the definition of the value of a 4-byte MBF single used in the value theorems',
                'translator gen/py2lean.py + PcbV.PyInt (Python int semantics of % and ^ & | in Lean), validated by '
                'vlib/translated.py against the real _cycle and Python\'s own operators; it covers _cycle only, the rest '
                'of randomiser.py stays a hand transcription']
ASSUMPTIONS = ['conversion of RND/RANDOMIZE arguments to their byte representation (values.to_single, literals, CVS/CVD) '
               'is covered by the number-format properties; here only exactly representable arguments are generated',
               'RANDOMIZE without argument (console prompt) is not driven']

M = 1 << 24
ZERO4 = (0, 0, 0, 0)


# --------------------------------------------------------------------------------------------------------------
# oracle-side number formats (written from the MBF format description, independent of the Lean model)

def single_value(b):
    """Exact value of a 4-byte MBF single."""
    b = tuple(bytearray(b))
    if b[3] == 0:
        return Fraction(0)
    mant = b[0] | (b[1] << 8) | ((b[2] | 0x80) << 16)
    v = Fraction(mant, 1 << 24) * Fraction(2) ** (b[3] - 128)
    return -v if b[2] & 0x80 else v


def single_class(b):
    """'zero' / 'neg' / 'pos' of the single after conversion."""
    if b is None:
        return 'none'
    v = single_value(b)
    return 'zero' if v == 0 else ('neg' if v < 0 else 'pos')


def single_mantissa(b):
    return b[0] | (b[1] << 8) | ((b[2] | 0x80) << 16)


def int_to_single(n):
    if n == 0:
        return ZERO4
    m = abs(n)
    bl = m.bit_length()
    mant = m << (24 - bl)
    return (mant & 0xff, (mant >> 8) & 0xff, ((mant >> 16) & 0x7f) | (0x80 if n < 0 else 0), 128 + bl)


def double_to_single_exact(b8):
    """Only for doubles whose carry byte (byte 3) is below one half: the single is the top four bytes."""
    assert b8[3] < 0x80
    if b8[7] == 0:
        return ZERO4
    return tuple(b8[4:8])


def docs_key(b):
    """RANDOMIZE key as documented: last two bytes, xor the two before them for floats; signed 16 bit."""
    b = list(b)
    lo, hi = b[-2], b[-1]
    if len(b) >= 4:
        lo ^= b[-4]
        hi ^= b[-3]
    w = lo | (hi << 8)
    return w - 65536 if w >= 32768 else w


def hexs(b):
    return ''.join('%02x' % x for x in b)


def arg_single(arg):
    """Bytes of the single RND sees for a generated argument (None = no argument)."""
    if arg is None:
        return None
    kind, v = arg
    if kind == 'cvs':
        return tuple(v)
    if kind == 'int':
        return int_to_single(v)
    if kind == 'dbl':
        return double_to_single_exact(v)
    raise ValueError(kind)


def arg_bytes(arg):
    """Byte representation RANDOMIZE sees."""
    kind, v = arg
    if kind == 'int':
        return tuple(bytearray(struct.pack('<h', v)))
    return tuple(v)


def chrs(b):
    return b'+'.join(b'CHR$(%d)' % x for x in b)


def arg_text(arg):
    kind, v = arg
    if kind == 'int':
        return b'I%'
    if kind == 'cvs':
        return b'CVS(' + chrs(v) + b')'
    return b'CVD(' + chrs(v) + b')'


def op_token(op):
    """Protocol word of one operation for the Lean driver."""
    if op[0] == 'rnd':
        b = arg_single(op[1])
        return 'n' if b is None else 'f' + hexs(b)
    if op[0] == 'randomize':
        return 'z' + hexs(arg_bytes(op[1]))
    return 'c'


def op_stmt(op):
    """BASIC text of one operation."""
    pre = b''
    if op[0] in ('rnd', 'randomize') and op[1] is not None and op[1][0] == 'int':
        pre = b'I%%=%d:' % op[1][1]
    if op[0] == 'rnd':
        return pre + (b'V$=MKS$(RND)' if op[1] is None else b'V$=MKS$(RND(' + arg_text(op[1]) + b'))')
    if op[0] == 'randomize':
        return pre + b'RANDOMIZE ' + arg_text(op[1])
    return {'clear': b'CLEAR', 'new': b'NEW', 'run': b'RUN'}[op[0]]


# --------------------------------------------------------------------------------------------------------------
# the real code

class Impl(object):
    """values/randomiser.py:Randomiser with real value objects."""

    def __init__(self):
        from pcbasic.basic.values import values, numbers, randomiser
        self.numbers = numbers
        self.vs = values.Values(None, False)
        self.vs.set_handler(values.FloatErrorHandler(None))
        self.cls = randomiser.Randomiser
        self.r = randomiser.Randomiser(self.vs)

    def fresh(self):
        return self.cls(self.vs)

    def number(self, b):
        n = self.numbers
        b = bytes(bytearray(b))
        cls = {2: n.Integer, 4: n.Single, 8: n.Double}[len(b)]
        return cls(None, self.vs).from_bytes(b)

    def rnd(self, r, single_bytes):
        """rnd_ on a given generator; returns bytes of the returned value"""
        arg = None if single_bytes is None else self.number(single_bytes)
        v = r.rnd_([arg])
        if not isinstance(v, self.numbers.Single):
            return ('type', type(v).__name__)
        return tuple(bytearray(v.to_bytes()))


class Ref(object):
    """The oracle's generator: an LCG whose constants are derived from the observed sequence."""

    def __init__(self, s0, a, c):
        self.s0, self.a, self.c = s0, a, c

    def step(self, s):
        return (self.a * s + self.c) % M

    def jump(self, s, n):
        """state after n steps (affine power by squaring)"""
        a, c = self.a, self.c
        ra, rc = 1, 0
        while n:
            if n & 1:
                ra, rc = (a * ra) % M, (a * rc + c) % M
            a, c = (a * a) % M, (a * c + c) % M
            n >>= 1
        return (ra * s + rc) % M


HASH_P, HASH_K = 1099511627689, 1000003


def orbit(ctx):
    """Walk the implementation's cycle from the initial state until a state repeats: full-period oracle,
    LCG-form oracle, and the orbit hash compared with the model (covers every one of the 2^24 transitions)."""
    impl = Impl()
    r = impl.fresh()
    s0 = r._seed
    if not (isinstance(s0, int) and 0 <= s0 < M):
        ctx.fail('init:seed-out-of-range', {'kind': 'orbit'}, 'initial seed %r is not a 24-bit state' % (s0,))
        return None
    r._cycle()
    s1 = r._seed
    r._cycle()
    s2 = r._seed
    d = (s1 - s0) % M
    ref = None
    if d % 2 == 1:
        a = ((s2 - s1) * pow(d, -1, M)) % M
        ref = Ref(s0, a, (s1 - a * s0) % M)
        ctx.notes['derived_lcg'] = {'multiplier': ref.a, 'increment': ref.c, 'modulus': M, 'initial': s0,
                                    'hull_dobell': bool(ref.c % 2 == 1 and ref.a % 4 == 1)}
    else:
        ctx.fail('lcg:first-difference-even', {'kind': 'orbit', 'states': [s0, s1, s2]},
                 'first two steps %d -> %d -> %d cannot belong to a full-period LCG modulo 2^24' % (s0, s1, s2))
    # walk: phase 1 with the LCG-form check and the rolling hash, phase 2 (quick tier) bitmap only
    r = impl.fresh()
    cyc = r._cycle
    seen = bytearray(M)
    seen[s0] = 1
    n = 0
    h = 0
    s = s0
    a, c = (ref.a, ref.c) if ref else (0, 0)
    bad_form = None
    out_of_range = None
    limit = M if not ctx.quick else (1 << 21)
    hash_at = None
    done = False
    while n < limit:
        exp = (a * s + c) % M
        cyc()
        s = r._seed
        n += 1
        if not 0 <= s < M:
            out_of_range = (n, s)
            done = True
            break
        h = (h * HASH_K + s) % HASH_P
        if s != exp and bad_form is None and ref:
            bad_form = (n, s, exp)
        if seen[s]:
            done = True
            break
        seen[s] = 1
    if not done:
        hash_at = (n, h, s)
    while not done and n < M + 2:
        cyc()
        s = r._seed
        n += 1
        if not 0 <= s < M:
            out_of_range = (n, s)
            break
        if seen[s]:
            break
        seen[s] = 1
    ctx.evaluations += n
    ctx.distinct.add(('orbit-states', n))
    ctx.count('orbit:steps', n)
    case = {'kind': 'orbit'}
    if out_of_range:
        ctx.fail('orbit:state-out-of-range', case, 'step %d gives state %r outside 0..2^24-1' % out_of_range)
        return ref
    if bad_form:
        ctx.fail('lcg:not-affine', case, 'step %d: state %d, but the LCG fixed by the first steps gives %d' % bad_form)
    if n != M or s != s0:
        ctx.fail('orbit:period', case,
                 'walking from the initial state %d a state repeats after %d steps (state %d); a single cycle '
                 'through all 2^24 states needs the first repetition to be the initial state after 16777216 steps'
                 % (s0, n, s))
    else:
        ctx.exhaustive = True
        ctx.notes['orbit'] = 'all 16777216 states visited exactly once, back at the initial state after 2^24 steps'
    # correspondence: the same walk in the model (state after k steps and hash of the k states in order)
    k, hv = 0, 0
    if hash_at:
        k, hv, sk = hash_at
        ctx.compare([('orbit', s0, k)], ['ok %d %d' % (sk, hv)], ['orbit %d %d' % (s0, k)], label='orbit')
    # constants as the model sees them vs the class (ties the translator to the behaviour)
    cls = impl.cls
    ctx.compare([('consts',)], ['ok %d,%d,%d,%d,%d' % (cls._multiplier, cls._increment, cls._period, cls._step, s0)],
                ['consts'], label='consts')
    ctx.sample({'orbit_from': s0, 'steps': n, 'back_at': s, 'hash_steps': k, 'hash': hv})
    return ref


# --------------------------------------------------------------------------------------------------------------

def boundary_seeds():
    v = {0, 1, 2, 3, M - 1, M - 2, 5228370}
    for k in range(24):
        v.update({1 << k, (1 << k) - 1, (1 << k) + 1, M - (1 << k)})
    return sorted(x for x in v if 0 <= x < M)


def check_value(ctx, key, case, seed, vb):
    """value oracle: returned single == seed / 2^24 exactly, in [0,1)"""
    if len(vb) != 4 or vb[0] == 'type':
        ctx.fail(key + ':type', case, 'RND returned %r, not a single' % (vb,))
        return
    v = single_value(vb)
    if not (0 <= v < 1):
        ctx.fail(key + ':range', case, 'RND value %s (bytes %s) outside [0,1)' % (v, hexs(vb)))
    if v != Fraction(seed, M):
        ctx.fail(key + ':inexact', case, 'RND value %s (bytes %s) is not seed/2^24 = %d/16777216'
                 % (v, hexs(vb), seed))


def values(ctx, ref):
    impl = Impl()
    r = impl.fresh()
    rng = ctx.rng
    seeds = boundary_seeds() + [rng.randrange(M) for _ in range(20000 if ctx.quick else 400000)]
    outs, lines = [], []
    for s in seeds:
        r._seed = s
        vb = impl.rnd(r, ZERO4)          # RND(0): value of the current state
        ctx.case(('value', s))
        ctx.count('value:seed-bits-%02d' % s.bit_length())
        if r._seed != s:
            ctx.fail('rnd0:state-changed', {'kind': 'value', 'seed': s}, 'RND(0) changed the state %d -> %r' % (s, r._seed))
        check_value(ctx, 'value', {'kind': 'value', 'seed': s}, s, vb)
        outs.append('ok ' + (hexs(vb) if len(vb) == 4 else repr(vb)))
        lines.append('val %d' % s)
    ctx.compare(seeds, outs, lines, label='value')
    ctx.sample({'seed': seeds[5], 'value_bytes': outs[5]})
    # in orbit order through RND without argument: value is the *new* seed / 2^24
    r = impl.fresh()
    s = r._seed
    for i in range(20000 if ctx.quick else 1000000):
        vb = impl.rnd(r, None)
        s = ref.step(s) if ref else r._seed
        ctx.case(('walk', i))
        if r._seed != s:
            ctx.fail('rnd:step', {'kind': 'walk', 'n': i + 1}, 'RND call %d: state %r, LCG gives %d' % (i + 1, r._seed, s))
            break
        check_value(ctx, 'rnd', {'kind': 'walk', 'n': i + 1}, s, vb)
    ctx.count('walk:rnd-calls', i + 1)


def reseeding(ctx, ref):
    """RANDOMIZE on the real Randomiser: all 65536 integers, sampled singles and doubles."""
    impl = Impl()
    rng = ctx.rng
    priors = [impl.fresh()._seed, 0, 255, 256, M - 1] + [rng.randrange(M) for _ in range(3)]
    if not ctx.quick:
        priors += [rng.randrange(M) for _ in range(12)]
    r = impl.fresh()
    cases, outs, lines = [], [], []
    for pi, prior in enumerate(priors):
        by_key = {}
        ints = range(-32768, 32768) if (pi == 0 or not ctx.quick) else \
            sorted(set([-32768, -32767, -1, 0, 1, 255, 256, 32767] + [rng.randrange(-32768, 32768) for _ in range(2000)]))
        for n in ints:
            b = struct.pack('<h', n)
            r._seed = prior
            r.reseed(impl.number(b))
            s = r._seed
            ctx.case(('reseed-int', prior, n))
            ctx.count('reseed:int')
            if not (isinstance(s, int) and 0 <= s < M):
                ctx.fail('reseed:out-of-range', {'kind': 'reseed', 'prior': prior, 'bytes': list(bytearray(b))},
                         'RANDOMIZE %d from state %d gives %r' % (n, prior, s))
            by_key[n] = s
            cases.append((prior, n))
            outs.append('ok %d' % s)
            lines.append('from %d z%s' % (prior, hexs(bytearray(b))))
        # all integer arguments start different sequences
        if len(set(by_key.values())) != len(by_key):
            inv = {}
            for n, s in sorted(by_key.items()):
                if s in inv:
                    ctx.fail('reseed:int-collision', {'kind': 'reseed-pair', 'prior': prior, 'n': [inv[s], n]},
                             'RANDOMIZE %d and RANDOMIZE %d from state %d give the same state %d' % (inv[s], n, prior, s))
                    break
                inv[s] = n
        # floats: documented key → must reseed exactly like the integer with that key
        nfl = 1500 if ctx.quick else 8000
        for i in range(nfl):
            size = 4 if i % 2 == 0 else 8
            b = [rng.randrange(256) for _ in range(size)]
            mode = rng.random()
            if mode < 0.15:
                b[-1] = rng.choice([0, 1, 0x80, 0x81, 0xff])
            elif mode < 0.3:
                b[-2] = rng.choice([0, 0x7f, 0x80, 0xff])
            elif mode < 0.4:
                b[-4:-2] = b[-2:]           # key 0
            n = docs_key(b)
            r._seed = prior
            r.reseed(impl.number(b))
            s = r._seed
            ctx.case(('reseed-float', prior, tuple(b)))
            ctx.count('reseed:single' if size == 4 else 'reseed:double')
            if n in by_key and by_key[n] != s:
                ctx.fail('reseed:float-key', {'kind': 'reseed', 'prior': prior, 'bytes': b},
                         'RANDOMIZE with bytes %s (documented key %d) from state %d gives %d, RANDOMIZE %d gives %d'
                         % (hexs(b), n, prior, s, n, by_key[n]))
            cases.append((prior, tuple(b)))
            outs.append('ok %d' % s)
            lines.append('from %d z%s' % (prior, hexs(b)))
        # the new state starts an ordinary stretch of the same sequence
        if ref:
            for n in (1, -1, 12345):
                r._seed = prior
                r.reseed(impl.number(struct.pack('<h', n)))
                s = r._seed
                for _ in range(5):
                    r.rnd_([None])
                    s = ref.step(s)
                    if r._seed != s:
                        ctx.fail('reseed:then-rnd', {'kind': 'reseed', 'prior': prior, 'bytes': list(bytearray(struct.pack('<h', n)))},
                                 'after RANDOMIZE %d the RND sequence leaves the LCG' % n)
                        break
    for i in range(0, len(cases), 100000):
        ctx.compare(cases[i:i + 100000], outs[i:i + 100000], lines[i:i + 100000], label='reseed')
    ctx.sample({'prior': cases[0][0], 'randomize': cases[0][1], 'impl': outs[0]})


def negative_arguments(ctx, ref):
    """RND(x) on the real Randomiser for single arguments by mantissa and exponent class."""
    impl = Impl()
    rng = ctx.rng
    r = impl.fresh()
    mants = [0x800000, 0x800001, 0x8000ff, 0x800100, 0xffffff, 0xfffffe, 0xff00ff, 0xaaaaaa, 0xd55555, 0xc00000]
    mants += [rng.randrange(0x800000, M) for _ in range(10 if ctx.quick else 200)]
    exps = list(range(256)) if not ctx.quick else sorted(set([0, 1, 2, 0x7f, 0x80, 0x81, 0x98, 0x99, 0xfe, 0xff] +
                                                             [rng.randrange(256) for _ in range(12)]))
    cases, outs, lines = [], [], []
    seen_state = {}
    for mant in mants:
        for e in exps:
            for sign in (0x80, 0):
                b = (mant & 0xff, (mant >> 8) & 0xff, ((mant >> 16) & 0x7f) | sign, e)
                prior = rng.randrange(M)
                r._seed = prior
                vb = impl.rnd(r, b)
                s = r._seed
                cls = single_class(b)
                ctx.case(('rnd-arg', b))
                ctx.count('rndarg:' + cls)
                case = {'kind': 'rndarg', 'prior': prior, 'bytes': list(b)}
                if ref:
                    exp_s = prior if cls == 'zero' else ref.step(mant if cls == 'neg' else prior)
                    if s != exp_s:
                        ctx.fail('rndarg:%s:state' % cls, case,
                                 'RND(single %s, %s) from state %d gives state %r, expected %d'
                                 % (hexs(b), cls, prior, s, exp_s))
                if cls == 'neg':
                    # same negative mantissa → same state, whatever the exponent and the previous state
                    if seen_state.setdefault(mant, s) != s:
                        ctx.fail('rndarg:neg:not-identical', case,
                                 'RND with negative mantissa %06x gave states %d and %d' % (mant, seen_state[mant], s))
                if isinstance(s, int) and 0 <= s < M:
                    check_value(ctx, 'rndarg:value', case, s, vb)
                cases.append(b)
                outs.append('ok %s:%s' % (s, hexs(vb) if len(vb) == 4 else vb))
                lines.append('from %d f%s' % (prior, hexs(b)))
    ctx.compare(cases, outs, lines, label='rndarg')


# --------------------------------------------------------------------------------------------------------------
# histories through a real Session

def gen_rnd_arg(rng):
    x = rng.random()
    if x < 0.35:
        return None
    x = rng.random()
    if x < 0.2:      # zero class
        k = rng.randrange(4)
        if k == 0:
            return ['int', 0]
        if k == 1:
            return ['cvs', [rng.randrange(256), rng.randrange(256), rng.randrange(256), 0]]
        if k == 2:
            return ['dbl', [rng.randrange(256) for _ in range(3)] + [rng.randrange(128)] +
                    [rng.randrange(256) for _ in range(3)] + [0]]
        return ['cvs', [0, 0, 0, 0]]
    neg = x < 0.75
    k = rng.randrange(3)
    if k == 0:
        n = rng.choice([1, 2, 3, 255, 256, 257, 32767, 16384, 12345, rng.randrange(1, 32768)])
        return ['int', -n if neg else n] if not (neg and rng.random() < 0.1) else ['int', -32768]
    mant = rng.choice([0x800000, 0xffffff, 0x800001, 0xc00000, rng.randrange(0x800000, M), rng.randrange(0x800000, M)])
    e = rng.choice([1, 0x80, 0x81, 0x82, 0x98, 0xff, rng.randrange(1, 256)])
    b = [mant & 0xff, (mant >> 8) & 0xff, ((mant >> 16) & 0x7f) | (0x80 if neg else 0), e]
    if k == 1:
        return ['cvs', b]
    return ['dbl', [rng.randrange(256) for _ in range(3)] + [rng.randrange(128)] + b]


def gen_randomize_arg(rng):
    k = rng.randrange(3)
    if k == 0:
        return ['int', rng.choice([0, 1, -1, 2, 255, 256, -256, 32767, -32768, -32767, rng.randrange(-32768, 32768),
                                   rng.randrange(-32768, 32768)])]
    if k == 1:
        return ['cvs', [rng.randrange(256) for _ in range(4)]]
    return ['cvd', [rng.randrange(256) for _ in range(8)]]


def gen_history(rng, first):
    ops = [] if first else [[rng.choice(['clear', 'clear', 'new', 'run'])]]
    for _ in range(rng.randrange(3, 14)):
        x = rng.random()
        if x < 0.55:
            ops.append(['rnd', gen_rnd_arg(rng)])
        elif x < 0.8:
            ops.append(['randomize', gen_randomize_arg(rng)])
            if rng.random() < 0.6:
                ops.append(['rnd', ['cvs', [0, 0, 0, 0]]])
        else:
            ops.append([rng.choice(['clear', 'run', 'run', 'new'])])
    return ops


def gen_program(rng):
    ops = []
    for _ in range(rng.randrange(0, 4)):
        arg = gen_rnd_arg(rng)
        ops.append(['rnd', arg])
    return ops


PROBE = ['rnd', ['cvs', [0, 0, 0, 0]]]


class SessionRunner(object):
    """Runs histories on one real Session; the stored program is `prog` followed by a RND(0) probe."""

    def __init__(self, prog):
        self.prog = prog
        self.session = basic.new_session()
        self.session.__enter__()
        self.store_program()

    def store_program(self):
        stmts = [op_stmt(op) for op in self.prog + [PROBE]]
        out = b''
        for i, st in enumerate(stmts):
            out += self.session.execute(b'%d %s' % (10 * (i + 1), st))
        if out.strip():
            raise RuntimeError('could not store the program: %r' % out)

    def close(self):
        self.session.__exit__(None, None, None)

    def seed(self):
        return self.session._impl.randomiser._seed

    def run_op(self, op):
        """execute one op; returns (internal seed, value bytes or None, error text)"""
        out = self.session.execute(op_stmt(op))
        if op[0] == 'new':
            self.store_program()
        vb = None
        if op[0] in ('rnd', 'run'):
            v = self.session.get_variable('V$')
            vb = tuple(bytearray(v)) if v is not None else ()
        return self.seed(), vb, out


def model_words(op, prog):
    if op[0] == 'run':
        return ['qc'] + ['q' + op_token(p) for p in prog] + [op_token(PROBE)]
    return [op_token(op)]


class Relational(object):
    """RANDOMIZE with the same argument reseeds identically (oracle memory across histories and sessions)."""

    def __init__(self):
        self.by_arg = {}        # argument bytes -> (prior, new) first seen
        self.by_arg_low = {}    # (argument bytes, prior % 256) -> (prior, new)

    def observe(self, ctx, argb, prior, new, case=None):
        first = self.by_arg.setdefault(argb, (prior, new))
        if first[1] != new:
            same_low = self.by_arg_low.get((argb, prior % 256))
            if same_low is not None and same_low[1] != new:
                ctx.fail('randomize:differs-for-equal-low-byte',
                         {'kind': 'randomize-pair', 'bytes': list(argb), 'priors': [same_low[0], prior]},
                         'RANDOMIZE with bytes %s gives %d from state %d but %d from state %d (same low byte)'
                         % (hexs(argb), new, prior, same_low[1], same_low[0]))
            elif first[0] % 256 != prior % 256:
                # the specific, known deviation from the literal statement: the low byte of the previous seed survives
                ctx.fail('S5:randomize-keeps-low-byte-of-previous-seed',
                         {'kind': 'randomize-pair', 'bytes': list(argb), 'priors': [first[0], prior]},
                         'RANDOMIZE with bytes %s gives state %d from state %d and state %d from state %d'
                         % (hexs(argb), first[1], first[0], new, prior))
        self.by_arg_low.setdefault((argb, prior % 256), (prior, new))


def replay_pair(ctx, case):
    """both previous states are reachable (full period); apply the real reseed to each"""
    impl = Impl()
    rel = Relational()
    r = impl.fresh()
    for prior in case['priors']:
        r._seed = prior
        r.reseed(impl.number(case['bytes']))
        rel.observe(ctx, tuple(case['bytes']), prior, r._seed)


def replay_reseed(ctx, case):
    impl = Impl()
    r = impl.fresh()
    r._seed = case['prior']
    r.reseed(impl.number(case['bytes']))
    s = r._seed
    if not (isinstance(s, int) and 0 <= s < M):
        ctx.fail('reseed:out-of-range', case, 'RANDOMIZE with bytes %s from state %d gives %r'
                 % (hexs(case['bytes']), case['prior'], s))
    n = docs_key(case['bytes'])
    r._seed = case['prior']
    r.reseed(impl.number(struct.pack('<h', n)))
    if r._seed != s:
        ctx.fail('reseed:float-key', case, 'RANDOMIZE with bytes %s (documented key %d) from state %d gives %d, '
                 'RANDOMIZE %d gives %d' % (hexs(case['bytes']), n, case['prior'], s, n, r._seed))


def check_history(ctx, ref, rel, runner, ops, hid):
    """run one history on the session, compare with the model, apply the oracle"""
    entries, words = [], []
    prev_seed = runner.seed()
    s = prev_seed                       # oracle's state
    s0 = ref.s0 if ref else None
    for i, op in enumerate(ops):
        seed, vb, out = runner.run_op(op)
        case = {'kind': 'history', 'prog': runner.prog, 'ops': ops, 'at': i}
        ctx.case(('hist', hid, i))
        ctx.count('op:' + op[0] + (':' + (single_class(arg_single(op[1])) if op[0] == 'rnd' else op[1][0])
                                   if op[0] in ('rnd', 'randomize') else ''))
        key = 'hist:%s' % op[0]
        if out.strip():
            ctx.fail(key + ':error-text', case, 'operation %r printed %r' % (op_stmt(op), out))
        if not (isinstance(seed, int) and 0 <= seed < M):
            ctx.fail(key + ':state-out-of-range', case, 'state %r after %r' % (seed, op_stmt(op)))
            return
        if op[0] == 'rnd':
            cls = single_class(arg_single(op[1]))
            if ref:
                exp_s = s if cls == 'zero' else ref.step(single_mantissa(arg_single(op[1])) if cls == 'neg' else s)
                if seed != exp_s:
                    ctx.fail('hist:rnd:%s:state' % cls, case, 'RND (%s argument %r) from state %d: state %d, expected %d'
                             % (cls, op[1], s, seed, exp_s))
            check_value(ctx, 'hist:rnd:value', case, seed, vb)
        elif op[0] == 'randomize':
            rel.observe(ctx, arg_bytes(op[1]), prev_seed, seed, case)
        elif op[0] in ('clear', 'new'):
            if ref and seed != s0:
                ctx.fail('hist:%s:not-restarted' % op[0], case, '%s leaves state %d, a fresh session starts at %d'
                         % (op[0].upper(), seed, s0))
        elif op[0] == 'run':
            if ref:
                exp_s = s0
                for p in runner.prog:
                    c = single_class(arg_single(p[1]))
                    exp_s = exp_s if c == 'zero' else ref.step(single_mantissa(arg_single(p[1])) if c == 'neg' else exp_s)
                if seed != exp_s:
                    ctx.fail('hist:run:not-restarted', case, 'after RUN the state is %d; restarting at %d and running '
                             'the program gives %d' % (seed, s0, exp_s))
            check_value(ctx, 'hist:run:value', case, seed, vb)
        entries.append('%d' % seed if vb is None else '%d:%s' % (seed, hexs(vb)))
        words += model_words(op, runner.prog)
        prev_seed = s = seed
    return ','.join(entries), ';'.join(words)


def histories(ctx, ref):
    rng = ctx.rng
    rel = Relational()
    nsessions = 12 if ctx.quick else 150
    per = 10 if ctx.quick else 14
    cases, outs, lines = [], [], []
    hid = 0
    for si in range(nsessions):
        prog = gen_program(rng)
        runner = SessionRunner(prog)
        try:
            fresh_seed = runner.seed()
            if ref and fresh_seed != ref.s0:
                ctx.fail('session:fresh-state', {'kind': 'history', 'prog': prog, 'ops': [], 'at': 0},
                         'a fresh session (after storing a program) is in state %r, not %d' % (fresh_seed, ref.s0))
            for hi in range(per):
                ops = gen_history(rng, first=(hi == 0))
                res = check_history(ctx, ref, rel, runner, ops, hid)
                hid += 1
                if res is None:
                    continue
                ent, words = res
                cases.append({'prog': prog, 'ops': ops})
                outs.append('ok ' + ent)
                if hi == 0:
                    lines.append('hist ' + words)
                else:
                    lines.append('hist ' + words)    # starts with a reset op, so the fresh start is right
        finally:
            runner.close()
    ctx.compare(cases, outs, lines, label='history')
    if cases:
        ctx.sample({'history': [op_stmt(o).decode('latin-1') for o in cases[0]['ops']], 'impl': outs[0]})
    return rel


def literal_probe(ctx, ref):
    """The statement read literally, on a real Session: RANDOMIZE n reseeds identically whatever came before;
    plus the discriminating case (previous states that agree in the low byte)."""
    runner = SessionRunner([])
    rel = Relational()
    try:
        def state_after(pre, n):
            runner.run_op(['clear'])
            prior = runner.seed()
            for op in pre:
                prior, _, _ = runner.run_op(op)
            new, _, _ = runner.run_op(['randomize', ['int', n]])
            return prior, new
        for n in (1, -1, 0, 12345):
            pres = [[], [['rnd', None]], [['rnd', None], ['rnd', None]], [['rnd', ['int', -3]]]]
            # two negative arguments whose mantissas agree in the low byte: if the states they lead to agree in the
            # low byte too, RANDOMIZE must not tell them apart
            pres += [[['rnd', ['cvs', [0x11, 0x22, 0xb3, 0x81]]]], [['rnd', ['cvs', [0x11, 0x99, 0xc4, 0x85]]]]]
            for pre in pres:
                prior, new = state_after(pre, n)
                ctx.case(('literal', n, repr(pre)))
                ctx.count('literal:randomize')
                rel.observe(ctx, arg_bytes(['int', n]), prior, new,
                            {'kind': 'literal', 'n': n, 'pre': pre})
        # same argument after RUN/CLEAR: identical (no excuse)
        for n in (7, -32768):
            a = state_after([], n)[1]
            runner.run_op(['rnd', None])
            runner.run_op(['randomize', ['int', 99]])
            b = state_after([], n)[1]
            ctx.case(('literal-clear', n))
            if a != b:
                ctx.fail('randomize:after-clear-differs', {'kind': 'literal', 'n': n, 'pre': []},
                         'CLEAR:RANDOMIZE %d gives state %d, later CLEAR:RANDOMIZE %d gives %d' % (n, a, n, b))
    finally:
        runner.close()


def long_walk(ctx, ref):
    """RND in a BASIC loop: the interpreter's own FOR/NEXT drives the generator."""
    n = 1500 if ctx.quick else 60000
    s = basic.new_session()
    with s:
        out = s.execute(b'10 FOR I=1 TO %d:X=RND:NEXT' % n)
        out += s.execute(b'20 V$=MKS$(RND(0)):W$=MKS$(X)')
        out += s.execute(b'RUN')
        seed = s._impl.randomiser._seed
        vb = tuple(bytearray(s.get_variable('V$')))
        wb = tuple(bytearray(s.get_variable('W$')))
        printed = s.execute(b'PRINT RND(0)')
    case = {'kind': 'longwalk', 'n': n}
    ctx.case(('longwalk', n))
    ctx.count('longwalk:rnd-calls', n)
    if out.strip():
        ctx.fail('longwalk:error-text', case, 'program printed %r' % out)
    if ref:
        exp_s = ref.jump(ref.s0, n)
        if seed != exp_s:
            ctx.fail('longwalk:state', case, 'after RUN and %d RND calls the state is %r, the LCG gives %d' % (n, seed, exp_s))
    check_value(ctx, 'longwalk:value', case, seed, vb)
    if wb != vb:
        ctx.fail('longwalk:rnd0-differs', case, 'RND(0) = %s but the last RND value stored was %s' % (hexs(vb), hexs(wb)))
    # printed form: 7 significant digits of seed/2^24
    try:
        pv = Fraction(printed.strip().decode('latin-1').replace(' ', '')) if b'E' not in printed else \
            Fraction(float(printed.strip()))
        if abs(pv - Fraction(seed, M)) > Fraction(1, 10 ** 7):
            ctx.fail('longwalk:printed', case, 'PRINT RND(0) shows %r for seed %d' % (printed, seed))
    except (ValueError, ZeroDivisionError):
        ctx.fail('longwalk:printed', case, 'PRINT RND(0) shows %r' % printed)
    ctx.compare([('longwalk', n)], ['ok %d:%s' % (seed, hexs(vb))],
                ['hist ' + ';'.join(['qn'] * n + [op_token(PROBE)])], label='longwalk')


def run(ctx):
    translated.check_cycle(ctx)
    ctx.log('walking the generator cycle on the implementation')
    ref = orbit(ctx)
    ctx.log('values')
    values(ctx, ref)
    ctx.log('RANDOMIZE arguments on the Randomiser')
    reseeding(ctx, ref)
    ctx.log('RND arguments on the Randomiser')
    negative_arguments(ctx, ref)
    ctx.log('Session histories')
    histories(ctx, ref)
    literal_probe(ctx, ref)
    long_walk(ctx, ref)


def replay(ctx, payload):
    import random
    case = payload.get('case', {})
    sub = Ctx2(ctx)
    sub.rng = random.Random(payload.get('seed', 0))
    kind = case.get('kind')
    impl = Impl()
    r = impl.fresh()
    s0 = r._seed
    r._cycle()
    s1 = r._seed
    r._cycle()
    s2 = r._seed
    ref = None
    if (s1 - s0) % 2:
        a = ((s2 - s1) * pow((s1 - s0) % M, -1, M)) % M
        ref = Ref(s0, a, (s1 - a * s0) % M)
    if kind == 'history':
        runner = SessionRunner(case['prog'])
        try:
            check_history(sub, ref, Relational(), runner, case['ops'], 0)
        finally:
            runner.close()
    elif kind == 'randomize-pair':
        replay_pair(sub, case)
    elif kind == 'reseed' and payload.get('key') in ('reseed:float-key', 'reseed:out-of-range'):
        replay_reseed(sub, case)
    elif kind == 'literal':
        literal_probe(sub, ref)
    elif kind == 'longwalk':
        long_walk(sub, ref)
    elif kind == 'orbit':
        orbit(sub)
    elif kind in ('value', 'walk'):
        values(sub, ref)
    elif kind == 'rndarg':
        negative_arguments(sub, ref)
    else:
        run(sub)
    hits = [f for f in sub.failures if f['key'] == payload.get('key')]
    return hits[0]['what'] if hits else None


class Ctx2(object):
    """thin proxy so replay can reuse the checks without touching the outer evidence"""
    def __init__(self, ctx):
        self.__dict__.update(ctx.__dict__)
        self._ctx = ctx
        self.failures = []
        self.disagreements = []

    def __getattr__(self, name):
        return getattr(self._ctx.__class__, name).__get__(self)
