import PcbV.Model.IntOps
import PcbV.Gen.Translated
import PcbV.Lemmas.PyIntLemmas
/-
  C02 — Integer operators follow 16-bit two's-complement semantics.
  Property theorems about `PcbV.IntOps` (the transcription of numbers.py:Integer and of the
  bitwise operators of values.py).  Every theorem quantifies over all 16-bit patterns;
  `toInt` is the two's-complement value of a pattern.
-/
namespace PcbV.C02
open PcbV PcbV.IntOps

def InRange (n : Int) : Prop := -32768 ≤ n ∧ n ≤ 32767

instance (n : Int) : Decidable (InRange n) := inferInstanceAs (Decidable (_ ∧ _))

theorem toInt_eq (a : Nat) (ha : a < 65536) :
    toInt a = if a / 256 > 127 then (a:Int) - 65536 else a := by
  unfold toInt; split <;> split <;> omega
theorem toInt_pack (n : Int) (h : InRange n) : toInt (pack n) = n ∧ pack n < 65536 := by
  unfold InRange at h; unfold toInt pack; split <;> split <;> omega
theorem fromInt_signed_spec (n : Int) :
    (InRange n → ∃ r, fromInt n false = .ok r ∧ r < 65536 ∧ toInt r = n) ∧
    (¬ InRange n → fromInt n false = .error overflow) := by
  unfold InRange
  constructor
  · intro h
    refine ⟨pack n, ?_, (toInt_pack n h).2, (toInt_pack n h).1⟩
    simp [fromInt, h.1, h.2]
  · intro h
    simp only [fromInt]
    split
    · next h' => exact absurd h' (by simpa using h)
    · rfl

theorem ineg_spec (a : Nat) (ha : a < 65536) :
    (a ≠ 32768 → ∃ r, ineg a = .ok r ∧ r < 65536 ∧ toInt r = - toInt a) ∧
    (a = 32768 → ineg a = .error overflow) := by
  unfold ineg
  constructor
  · intro h
    simp only [h, if_false]
    rw [toInt_eq a ha]
    by_cases h3 : 255 - a % 256 + 1 > 255 <;> simp only [h3, ite_true, ite_false] <;>
      refine ⟨_, rfl, by omega, ?_⟩ <;> rw [toInt_eq _ (by omega)] <;> split <;> split <;> omega
  · intro h; simp [h]

theorem idiv_key (x y : Int) (hy : y ≠ 0) :
    (if (x ≥ 0) ↔ (y ≥ 0) then pyFloorDiv x y
      else -(pyFloorDiv (Int.natAbs x) (Int.natAbs y))) = Int.tdiv x y := by
  unfold pyFloorDiv
  rcases Int.le_total 0 x with h1 | h1 <;> rcases Int.le_total 0 y with h2 | h2
  · have : (x ≥ 0 ↔ y ≥ 0) := by omega
    rw [if_pos this, Int.fdiv_eq_tdiv_of_nonneg h1 h2]
  · by_cases hx : x = 0
    · subst hx; simp
    · have : ¬ (x ≥ 0 ↔ y ≥ 0) := by omega
      rw [if_neg this]
      have e1 : ((x.natAbs : Nat) : Int) = x := by omega
      have e2 : ((y.natAbs : Nat) : Int) = -y := by omega
      rw [e1, e2, Int.fdiv_eq_tdiv_of_nonneg h1 (by omega), Int.tdiv_neg, Int.neg_neg]
  · have : ¬ (x ≥ 0 ↔ y ≥ 0) ∨ x = 0 := by omega
    by_cases hx : x = 0
    · subst hx; simp
    · have : ¬ (x ≥ 0 ↔ y ≥ 0) := by omega
      rw [if_neg this]
      have e1 : ((x.natAbs : Nat) : Int) = -x := by omega
      have e2 : ((y.natAbs : Nat) : Int) = y := by omega
      rw [e1, e2, Int.fdiv_eq_tdiv_of_nonneg (by omega) h2, Int.neg_tdiv, Int.neg_neg]
  · by_cases hx : x = 0
    · subst hx; simp
    · have : (x ≥ 0 ↔ y ≥ 0) := by omega
      rw [if_pos this]
      have hx' : x < 0 := by omega
      have hy' : y < 0 := by omega
      rw [Int.fdiv_eq_tdiv, Int.sign_eq_neg_one_of_neg hy']
      have : ¬ (0 ≤ x) := by omega
      have : ¬ (0 ≤ y) := by omega
      simp [*]

theorem idiv_spec (a b : Nat) (ha : a < 65536) (hb : b < 65536) :
    (b = 0 → idivInt a b = .error divZero) ∧
    (b ≠ 0 → InRange (Int.tdiv (toInt a) (toInt b)) →
        ∃ r, idivInt a b = .ok r ∧ r < 65536 ∧ toInt r = Int.tdiv (toInt a) (toInt b)) ∧
    (b ≠ 0 → ¬ InRange (Int.tdiv (toInt a) (toInt b)) → idivInt a b = .error overflow) := by
  have key : b ≠ 0 → idivInt a b = fromInt (Int.tdiv (toInt a) (toInt b)) false := by
    intro hb0
    have hbz : toInt b ≠ 0 := by unfold toInt; split <;> omega
    unfold idivInt
    simp only [hb0, if_false]
    rw [← idiv_key _ _ hbz]
    split <;> rfl
  refine ⟨fun h => by simp [idivInt, h], fun h hr => ?_, fun h hr => ?_⟩
  · rw [key h]; exact (fromInt_signed_spec _).1 hr
  · rw [key h]; exact (fromInt_signed_spec _).2 hr

theorem imod_key (x y : Int) :
    (if x < 0 then -(pyMod (if x < 0 then -x else x) (if y < 0 then -y else y))
      else pyMod (if x < 0 then -x else x) (if y < 0 then -y else y)) = Int.tmod x y := by
  unfold pyMod
  by_cases hx : x < 0 <;> by_cases hy : y < 0 <;> simp only [hx, hy, if_true, if_false]
  · rw [Int.fmod_eq_tmod_of_nonneg (by omega) (by omega), Int.tmod_neg, Int.neg_tmod, Int.neg_neg]
  · rw [Int.fmod_eq_tmod_of_nonneg (by omega) (by omega), Int.neg_tmod, Int.neg_neg]
  · rw [Int.fmod_eq_tmod_of_nonneg (by omega) (by omega), Int.tmod_neg]
  · exact Int.fmod_eq_tmod_of_nonneg (by omega) (by omega)

/-- MOD: sign of the dividend (tmod), Division by zero for zero divisor; never overflows -/
theorem imod_spec (a b : Nat) (ha : a < 65536) (hb : b < 65536) :
    (b = 0 → imod a b = .error divZero) ∧
    (b ≠ 0 → ∃ r, imod a b = .ok r ∧ r < 65536 ∧ toInt r = Int.tmod (toInt a) (toInt b)) := by
  refine ⟨fun h => by simp [imod, h], fun h => ?_⟩
  have hbz : toInt b ≠ 0 := by unfold toInt; split <;> omega
  have e : imod a b = fromInt (Int.tmod (toInt a) (toInt b)) false := by
    unfold imod
    simp only [h, if_false]
    rw [← imod_key]
  rw [e]
  apply (fromInt_signed_spec _).1
  have ra : InRange (toInt a) := by unfold InRange toInt; split <;> omega
  have rb : InRange (toInt b) := by unfold InRange toInt; split <;> omega
  unfold InRange at *
  have h1 := Int.natAbs_tmod (toInt a) (toInt b)
  have h2 := Nat.mod_lt (toInt a).natAbs (y := (toInt b).natAbs) (by omega)
  omega

/-- a = b*(a\\b) + (a MOD b) on the mathematical values -/
theorem div_mod_identity (x y : Int) : y * Int.tdiv x y + Int.tmod x y = x :=
  Int.mul_tdiv_add_tmod x y

theorem fromInt_unsigned_nat (n : Nat) (h : n < 65536) : fromInt (Int.ofNat n) true = .ok n := by
  unfold fromInt pack
  simp only [Int.ofNat_eq_natCast, if_true]
  have h0 : ¬ ((n:Int) < 0) := by omega
  have h1 : -32768 ≤ (n:Int) ∧ (n:Int) ≤ 65535 := by omega
  simp only [h0, h1, and_self, if_true, if_false]
  congr 1

/-- `(~x) & 0xffff` for a 16-bit pattern x -/
theorem fromInt_unsigned_neg (n : Nat) (h : n < 65536) :
    fromInt ((-(Int.ofNat n) - 1) % 65536) true = .ok (65535 - n) := by
  have e : (-(Int.ofNat n) - 1) % 65536 = ((65535 - n : Nat) : Int) := by
    simp only [Int.ofNat_eq_natCast]; omega
  rw [e]
  exact fromInt_unsigned_nat (65535 - n) (by omega)

theorem and_spec (a b : Nat) (ha : a < 65536) (hb : b < 65536) :
    and_ a b = .ok (a &&& b) ∧ a &&& b < 65536 := by
  have h : a &&& b < 2 ^ 16 := Nat.and_lt_two_pow a (by simpa using hb)
  exact ⟨fromInt_unsigned_nat _ (by simpa using h), by simpa using h⟩

theorem or_spec (a b : Nat) (ha : a < 65536) (hb : b < 65536) :
    or_ a b = .ok (a ||| b) ∧ a ||| b < 65536 := by
  have h : a ||| b < 2 ^ 16 := Nat.or_lt_two_pow (by simpa using ha) (by simpa using hb)
  exact ⟨fromInt_unsigned_nat _ (by simpa using h), by simpa using h⟩

theorem xor_spec (a b : Nat) (ha : a < 65536) (hb : b < 65536) :
    xor_ a b = .ok (a ^^^ b) ∧ a ^^^ b < 65536 := by
  have h : a ^^^ b < 2 ^ 16 := Nat.xor_lt_two_pow (by simpa using ha) (by simpa using hb)
  exact ⟨fromInt_unsigned_nat _ (by simpa using h), by simpa using h⟩

theorem eqv_spec (a b : Nat) (ha : a < 65536) (hb : b < 65536) :
    eqv_ a b = .ok (65535 - (a ^^^ b)) := by
  have h : a ^^^ b < 2 ^ 16 := Nat.xor_lt_two_pow (by simpa using ha) (by simpa using hb)
  exact fromInt_unsigned_neg _ (by simpa using h)

theorem imp_spec (a b : Nat) (ha : a < 65536) (hb : b < 65536) :
    imp_ a b = .ok (65535 - (a &&& (65535 - b))) := by
  have h : a &&& (65535 - b) < 2 ^ 16 := Nat.and_lt_two_pow a (by omega)
  exact fromInt_unsigned_neg _ (by simpa using h)

/-- NOT x = -x-1, never overflows, and its pattern is the bitwise complement -/
theorem not_spec (a : Nat) (ha : a < 65536) :
    not_ a = .ok (65535 - a) ∧ toInt (65535 - a) = - toInt a - 1 := by
  have hr : InRange (-(toInt a) - 1) := by unfold InRange toInt; split <;> omega
  obtain ⟨r, h1, h2, h3⟩ := (fromInt_signed_spec _).1 hr
  have : toInt (65535 - a) = - toInt a - 1 := by unfold toInt; split <;> split <;> omega
  have e : r = 65535 - a := by
    have e1 := toInt_eq r h2
    have e2 := toInt_eq (65535 - a) (by omega)
    rw [← this] at h3
    rw [e1, e2] at h3
    split at h3 <;> split at h3 <;> omega
  exact ⟨by rw [not_, h1, e], this⟩

/-- bit i (i < 16) of the 16-bit complement -/
theorem compl_testBit (x i : Nat) (hx : x < 65536) (hi : i < 16) :
    (65535 - x).testBit i = !x.testBit i := by
  have := Nat.testBit_two_pow_sub_succ (x := x) (n := 16) (by simpa using hx) i
  simp only [hi, decide_true, Bool.true_and] at this
  rw [← this]; congr 1; omega

theorem bitwise_bits (a b i : Nat) (ha : a < 65536) (hb : b < 65536) (hi : i < 16) :
    (a &&& b).testBit i = (a.testBit i && b.testBit i) ∧
    (a ||| b).testBit i = (a.testBit i || b.testBit i) ∧
    (a ^^^ b).testBit i = (a.testBit i ^^ b.testBit i) ∧
    (65535 - (a ^^^ b)).testBit i = !(a.testBit i ^^ b.testBit i) ∧
    (65535 - (a &&& (65535 - b))).testBit i = (!a.testBit i || b.testBit i) ∧
    (65535 - a).testBit i = !a.testBit i := by
  have hx : a ^^^ b < 65536 := by
    have := Nat.xor_lt_two_pow (n := 16) (by simpa using ha) (by simpa using hb); simpa using this
  have hy : a &&& (65535 - b) < 65536 := by
    have := Nat.and_lt_two_pow (n := 16) a (y := 65535 - b) (by omega); simpa using this
  refine ⟨Nat.testBit_and .., Nat.testBit_or .., Nat.testBit_xor .., ?_, ?_, compl_testBit a i ha hi⟩
  · rw [compl_testBit _ i hx hi, Nat.testBit_xor]
  · rw [compl_testBit _ i hy hi, Nat.testBit_and, compl_testBit b i hb hi]
    cases a.testBit i <;> cases b.testBit i <;> rfl

theorem iadd_spec (a b : Nat) (ha : a < 65536) (hb : b < 65536) :
    (InRange (toInt a + toInt b) →
        ∃ r, iadd a b = .ok r ∧ r < 65536 ∧ toInt r = toInt a + toInt b) ∧
    (¬ InRange (toInt a + toInt b) → iadd a b = .error overflow) := by
  unfold InRange iadd iaddWith
  rw [toInt_eq a ha, toInt_eq b hb]
  by_cases h1 : a / 256 > 127 <;> by_cases h2 : b / 256 > 127 <;>
    by_cases h3 : a % 256 + b % 256 > 255 <;>
    simp only [h1, h2, h3, ite_true, ite_false, true_iff, false_iff, iff_true, iff_false, true_and, false_and,
      not_true_eq_false, not_false_eq_true, Decidable.not_not] <;>
    constructor <;> intro h
  all_goals first
    | (refine ⟨_, rfl, by omega, ?_⟩; rw [toInt_eq _ (by omega)]; split <;> omega)
    | (rw [if_neg (by omega)]; refine ⟨_, rfl, by omega, ?_⟩; rw [toInt_eq _ (by omega)]; split <;> omega)
    | (rw [if_pos (by omega)])
    | omega

theorem gt_iff (a b : Nat) (ha : a < 65536) (hb : b < 65536) :
    gt a b = true ↔ toInt b < toInt a := by
  unfold gt
  rw [toInt_eq a ha, toInt_eq b hb]
  by_cases h1 : a / 256 ≥ 128 <;> by_cases h2 : b / 256 ≥ 128 <;>
   simp only [h1, h2, decide_true, decide_false, bne_self_eq_false, Bool.false_eq_true, if_false, if_true,
     Bool.true_bne, Bool.false_bne, Bool.not_true, Bool.not_false, Bool.bne_true, Bool.bne_false] <;>
   (try split) <;> (try split) <;> (try split) <;> (try split) <;> simp <;> omega
theorem eq_iff (a b : Nat) (ha : a < 65536) (hb : b < 65536) :
    eq a b = true ↔ toInt a = toInt b := by
  unfold eq toInt
  simp only [beq_iff_eq]
  constructor
  · intro h; rw [h]
  · intro h; split at h <;> split at h <;> omega

/-- the unrepaired `iadd` (sign read from the unmasked high byte) violates the property:
    -30000 + -30000 gives 5536 instead of Overflow (defect D18, repaired by a `fix:` commit). -/
theorem iaddUnmasked_counterexample :
    iaddUnmasked 35536 35536 = .ok 5536 ∧ ¬ InRange (toInt 35536 + toInt 35536) := by
  decide

theorem isub_spec (a b : Nat) (ha : a < 65536) (hb : b < 65536) (hb' : b ≠ 32768) :
    (InRange (toInt a - toInt b) →
        ∃ r, isub a b = .ok r ∧ r < 65536 ∧ toInt r = toInt a - toInt b) ∧
    (¬ InRange (toInt a - toInt b) → isub a b = .error overflow) := by
  obtain ⟨nb, hnb, hlt, hval⟩ := (ineg_spec b hb).1 hb'
  have hadd := iadd_spec a nb ha hlt
  rw [hval] at hadd
  have e : toInt a + -toInt b = toInt a - toInt b := by omega
  rw [e] at hadd
  simp only [isub, hnb]
  exact hadd

theorem iabs_spec (a : Nat) (ha : a < 65536) :
    (a ≠ 32768 → ∃ r, iabs a = .ok r ∧ r < 65536 ∧ toInt r = Int.natAbs (toInt a)) ∧
    (a = 32768 → iabs a = .error overflow) := by
  constructor
  · intro h
    unfold iabs
    split
    · obtain ⟨r, h1, h2, h3⟩ := (ineg_spec a ha).1 h
      refine ⟨r, h1, h2, ?_⟩
      rw [h3]; unfold toInt; split <;> omega
    · refine ⟨a, rfl, ha, ?_⟩
      unfold toInt; split <;> omega
  · intro h; subst h; decide

/-- the integer FOR counter: one NEXT adds the step exactly, raises Overflow exactly when the
    sum leaves -32768..32767 (`iterate_loop` calls `iadd` on the counter's view) -/
theorem for_counter_spec (counter step : Nat) (hc : counter < 65536) (hs : step < 65536) :
    (InRange (toInt counter + toInt step) →
        ∃ r, iadd counter step = .ok r ∧ r < 65536 ∧ toInt r = toInt counter + toInt step) ∧
    (¬ InRange (toInt counter + toInt step) → iadd counter step = .error overflow) :=
  iadd_spec counter step hc hs

/-- FOR operands are fixed when FOR is executed: whatever the loop body assigns to the variables and array
    elements that were named as start, limit or step (any assignments `asg`, from any pass `frm` on, any store
    `env`), the loop runs exactly as the loop over the three values read at FOR time.  So the counter of
    `FOR I%=a TO b STEP S%` advances by `for_counter_spec`'s exact addition of the *initial* `S%`. -/
theorem forRunEnv_eq (asg : List ForAssign) (frm fuel n : Nat) (env : List Nat) (c stop step : Nat) (acc : List Nat) :
    forRunEnv asg frm fuel n env c stop step acc = forRun fuel c stop step acc := by
  induction fuel generalizing n env c acc with
  | zero => simp [forRunEnv, forRun]
  | succ k ih =>
    unfold forRunEnv forRun
    by_cases hk : k = 0
    · simp [hk]
    · simp only [hk, if_false]
      cases h : nextStep c stop step with
      | error e => rfl
      | ok p =>
        obtain ⟨c', fin⟩ := p
        cases fin with
        | true => rfl
        | false => exact ih _ _ _ _

theorem for_operands_captured (asg : List ForAssign) (frm fuel : Nat) (env : List Nat) (a b s : ForOperand) :
    forLoopEnv asg frm fuel env a b s = forLoop fuel (a.eval env) (b.eval env) (s.eval env) := by
  unfold forLoopEnv forLoop
  simp only [forRunEnv_eq]

/-- a FOR record that keeps the step *variable* instead of a copy of its value violates the property:
    `S%=2: FOR I%=0 TO 10 STEP S%: S%=5: NEXT` would visit 0,5,10 instead of 0,2,4,6,8,10, and
    `S%=10: FOR I%=1 TO 30 STEP S%: S%=32767: NEXT` would raise Overflow at the first NEXT although
    1+10 is in range -/
theorem forLive_counterexample :
    forLoopLive [⟨0, false, 5⟩] 1 12 [2] (.lit 0) (.lit 10) (.var 0) = ([0, 5, 10], "end 15") ∧
    forLoopEnv [⟨0, false, 5⟩] 1 12 [2] (.lit 0) (.lit 10) (.var 0) = ([0, 2, 4, 6, 8, 10], "end 12") ∧
    forLoopLive [⟨0, false, 32767⟩] 1 12 [10] (.lit 1) (.lit 30) (.var 0) = ([1], "err 6") ∧
    forLoopEnv [⟨0, false, 32767⟩] 1 12 [10] (.lit 1) (.lit 30) (.var 0) = ([1, 11, 21], "end 31") ∧
    InRange (toInt 1 + toInt 10) := by
  decide +kernel

/-! non-vacuity: concrete non-trivial instances of the hypotheses and both branches -/
example : iadd 32767 1 = .error overflow ∧ iadd 65535 65535 = .ok 65534 ∧ iadd 255 1 = .ok 256 := by decide
example : idivInt 32768 65535 = .error overflow ∧ idivInt 65529 2 = .ok 65533 ∧ idivInt 7 0 = .error divZero := by
  decide
example : imod 65529 2 = .ok 65535 ∧ imod 32768 65535 = .ok 0 := by decide
example : imp_ 1 0 = .ok 65534 ∧ eqv_ 0 0 = .ok 65535 ∧ not_ 65535 = .ok 0 := by decide

/-! ### tie to the source: the mechanically translated arithmetic of `idiv_int` / `imod`

`PcbV.Gen.Translated.idivCore / imodCore` are regenerated on every run from the *current Python AST*
of the statements of `Integer.idiv_int` / `Integer.imod` after the zero test (gen/py2lean.py:
`a = self.to_int()`, `b = rhs.to_int()`, the value is the argument of `self.from_int`; `//` =
`Int.fdiv`, `%` = `Int.fmod`, `abs` = `Int.natAbs`).  The theorems say that the hand-written
`idivInt` / `imod` (the subject of `idiv_spec` / `imod_spec`) are exactly that code between the
zero test and `from_int`, for all operands, so an edit of the arithmetic breaks a proof obligation.
The translated definitions are compared with the real methods by `vlib/translated.py`. -/

theorem translated_idiv_supported : Gen.Translated.idivCore_supported = true := by decide
theorem translated_imod_supported : Gen.Translated.imodCore_supported = true := by decide

theorem translated_idiv_eq (a b : Nat) :
    idivInt a b = if b = 0 then .error divZero
      else fromInt (Gen.Translated.idivCore (toInt a) (toInt b)) false := by
  unfold idivInt Gen.Translated.idivCore pyFloorDiv
  by_cases hb : b = 0
  · simp [hb]
  · simp only [hb, if_false]
    by_cases h1 : toInt a ≥ 0 <;> by_cases h2 : toInt b ≥ 0 <;> simp [h1, h2]

theorem translated_imod_eq (a b : Nat) :
    imod a b = if b = 0 then .error divZero
      else fromInt (Gen.Translated.imodCore (toInt a) (toInt b)) false := by
  unfold imod Gen.Translated.imodCore pyMod
  by_cases hb : b = 0
  · simp [hb]
  · simp only [hb, if_false]
    by_cases h1 : toInt a < 0 <;> by_cases h2 : toInt b < 0 <;> simp [h1, h2]

example : Gen.Translated.idivCore (-7) 2 = -3 ∧ Gen.Translated.imodCore (-7) 2 = -1 ∧
    Gen.Translated.idivCore 7 (-2) = -3 ∧ Gen.Translated.imodCore 7 (-2) = 1 := by decide

/-! ### tie to the source, part 2: the byte-level code of `ineg`, `iadd`, `gt`

`PcbV.Gen.Translated.inegCore / iaddCore / igtCore` are regenerated from the Python AST of
`Integer.ineg`, `Integer.iadd` and the integer part of `Integer.gt` (gen/tables_py2lean.py): the bytes
`bytearray(self._buffer)[0|1]`, `bytearray(rhs._buffer)[0|1]` are the parameters `a0 a1 b0 b1`, the store
`self._buffer[:] = bytearray([lo, hi])` is the value `lo + 256*hi`, `raise BASICError(OVERFLOW)` is the
value `-OVERFLOW`; `^ &` are the two's-complement operators of `PcbV.PyInt`.  The theorems say that the
hand-written `ineg`, `iadd`, `gt` (subject of `ineg_spec`, `iadd_spec`, `gt_iff`) are exactly that code
on every 16-bit pattern. -/

theorem translated_intbytes_supported :
    Gen.Translated.inegCore_supported = true ∧ Gen.Translated.iaddCore_supported = true ∧
    Gen.Translated.igtCore_supported = true := by decide

/-- result convention of the translated in-place methods: `-n` = BASIC error n, else the new 16-bit pattern -/
def decodeResult (n : Int) : R Nat := if n < 0 then .error (-n).toNat else .ok n.toNat

theorem translated_ineg_eq (a : Nat) (ha : a < 65536) :
    ineg a = decodeResult (Gen.Translated.inegCore ((a % 256 : Nat) : Int) ((a / 256 : Nat) : Int)) := by
  have h0 : (0 : Int) ≤ ((a % 256 : Nat) : Int) := Int.natCast_nonneg _
  have h0' : ((a % 256 : Nat) : Int) < 256 := by omega
  have h1 : (0 : Int) ≤ ((a / 256 : Nat) : Int) := Int.natCast_nonneg _
  have h1' : ((a / 256 : Nat) : Int) < 256 := by omega
  unfold ineg Gen.Translated.inegCore decodeResult
  simp only [PyIntLemmas.xor_255 _ h0 h0', PyIntLemmas.xor_255 _ h1 h1']
  by_cases hov : a = 32768
  · subst hov; decide
  · have hd : ¬ ((((a % 256 : Nat) : Int) = 0) ∧ (((a / 256 : Nat) : Int) = 128)) := by omega
    simp only [hov, if_false, Bool.and_eq_true, decide_eq_true_eq, hd, overflow]
    by_cases hc : a % 256 = 0
    · have e1 : (255 : Int) - ((a % 256 : Nat) : Int) + 1 > 255 := by omega
      have e2 : 255 - a % 256 + 1 > 255 := by omega
      simp only [e1, e2, decide_true, if_true]
      rw [PyIntLemmas.land_255 _ (by omega)]
      have : ¬ ((255 : Int) - ↑(a % 256) + 1 - 256 + 256 * ((255 - ↑(a / 256) + 1) % 256) < 0) := by omega
      simp only [this, if_false, Except.ok.injEq]
      omega
    · have e1 : ¬ ((255 : Int) - ((a % 256 : Nat) : Int) + 1 > 255) := by omega
      have e2 : ¬ (255 - a % 256 + 1 > 255) := by omega
      simp only [e1, e2, decide_false, if_false, Bool.false_eq_true]
      rw [PyIntLemmas.land_255 _ (by omega)]
      have : ¬ ((255 : Int) - ↑(a % 256) + 1 + 256 * ((255 - ↑(a / 256)) % 256) < 0) := by omega
      simp only [this, if_false, Except.ok.injEq]
      omega

theorem translated_iadd_eq (a b : Nat) (ha : a < 65536) (hb : b < 65536) :
    iadd a b = decodeResult (Gen.Translated.iaddCore ((a % 256 : Nat) : Int) ((a / 256 : Nat) : Int)
      ((b % 256 : Nat) : Int) ((b / 256 : Nat) : Int)) := by
  unfold iadd iaddWith Gen.Translated.iaddCore decodeResult
  simp only []
  have hx0 : a % 256 < 256 := by omega
  have hx1 : a / 256 < 256 := by omega
  have hy0 : b % 256 < 256 := by omega
  have hy1 : b / 256 < 256 := by omega
  generalize a % 256 = x0 at *
  generalize a / 256 = x1 at *
  generalize b % 256 = y0 at *
  generalize b / 256 = y1 at *
  clear ha hb
  by_cases hc : x0 + y0 > 255
  · have hc' : (x0 : Int) + (y0 : Int) > 255 := by omega
    simp only [hc, hc', decide_true, if_true]
    rw [PyIntLemmas.land_255 _ (by omega)]
    have em : ((x1 : Int) + (y1 : Int) + 1) % 256 = (((x1 + y1 + 1) % 256 : Nat) : Int) := by omega
    rw [em]
    generalize hm : (x1 + y1 + 1) % 256 = m
    have hm' : m < 256 := by omega
    have q1 : ((127 : Int) < (x1 : Int)) ↔ (x1 > 127) := by omega
    have q2 : ((127 : Int) < (y1 : Int)) ↔ (y1 > 127) := by omega
    have q3 : ((127 : Int) < (m : Int)) ↔ (m > 127) := by omega
    by_cases p1 : x1 > 127 <;> by_cases p2 : y1 > 127 <;> by_cases p3 : m > 127 <;>
      (simp [q1, q2, q3, p1, p2, p3, overflow, PcbV.Gen.E.overflow] <;>
        (rw [if_neg (by omega)]; simp only [Except.ok.injEq]; omega))
  · have hc' : ¬ ((x0 : Int) + (y0 : Int) > 255) := by omega
    simp only [hc, hc', decide_false, if_false, Bool.false_eq_true]
    rw [PyIntLemmas.land_255 _ (by omega)]
    have em : ((x1 : Int) + (y1 : Int)) % 256 = (((x1 + y1) % 256 : Nat) : Int) := by omega
    rw [em]
    generalize hm : (x1 + y1) % 256 = m
    have hm' : m < 256 := by omega
    have q1 : ((127 : Int) < (x1 : Int)) ↔ (x1 > 127) := by omega
    have q2 : ((127 : Int) < (y1 : Int)) ↔ (y1 > 127) := by omega
    have q3 : ((127 : Int) < (m : Int)) ↔ (m > 127) := by omega
    by_cases p1 : x1 > 127 <;> by_cases p2 : y1 > 127 <;> by_cases p3 : m > 127 <;>
      (simp [q1, q2, q3, p1, p2, p3, overflow, PcbV.Gen.E.overflow] <;>
        (rw [if_neg (by omega)]; simp only [Except.ok.injEq]; omega))

theorem translated_igt_eq (a b : Nat) (ha : a < 65536) (hb : b < 65536) :
    gt a b = Gen.Translated.igtCore ((a % 256 : Nat) : Int) ((a / 256 : Nat) : Int)
      ((b % 256 : Nat) : Int) ((b / 256 : Nat) : Int) := by
  have a1 : (0 : Int) ≤ ((a / 256 : Nat) : Int) ∧ ((a / 256 : Nat) : Int) < 256 := by omega
  have b1 : (0 : Int) ≤ ((b / 256 : Nat) : Int) ∧ ((b / 256 : Nat) : Int) < 256 := by omega
  unfold gt Gen.Translated.igtCore
  simp only [PyIntLemmas.land_128 _ a1.1 a1.2, PyIntLemmas.land_128 _ b1.1 b1.2,
    PyIntLemmas.land_127 _ a1.1, PyIntLemmas.land_127 _ b1.1]
  have e1 : ((a / 256 : Nat) : Int) % 128 = ((a / 256 % 128 : Nat) : Int) := by omega
  have e2 : ((b / 256 : Nat) : Int) % 128 = ((b / 256 % 128 : Nat) : Int) := by omega
  rw [e1, e2]
  generalize a % 256 = x0
  generalize b % 256 = y0
  generalize a / 256 % 128 = xm
  generalize b / 256 % 128 = ym
  generalize a / 256 = x1
  generalize b / 256 = y1
  by_cases p1 : x1 ≥ 128 <;> by_cases p2 : y1 ≥ 128 <;>
    by_cases p3 : xm > ym <;> by_cases p4 : xm < ym <;>
    by_cases p5 : x0 > y0 <;>
    simp [p1, p2, p3, p4, p5] <;> omega

end PcbV.C02
