import PcbV.Drv.MbfCommon
namespace PcbV.Drv.C05
def handle : List String → String := PcbV.Drv.MbfCommon.handle
end PcbV.Drv.C05
