import PcbV.Lemmas.Locks
/-
  C26 — File sharing and record locks exclude each other.

  Property theorems about `PcbV.Locks` (transcription of diskfiles.py:Locks and of the Files /
  RandomFile / TextFile callers).  `run true mf [] cmds` is the state after an arbitrary history `cmds`
  of OPEN / CLOSE / LOCK / UNLOCK / GET / PUT statements starting with no file open (`true` = the
  repaired overlap test, `mf` = Files.max_files, arbitrary).  `Rng.has r k` = record `k` lies in range
  `r` (`whole` contains every record), `Shares r q` = the two ranges have a record in common.

  Main model = repaired code (defect D7, pending fix).  Two parts of the statement do not hold of the
  code and stay `_partial` with known findings: D8 (INPUT/RANDOM open accepted while the file is open
  for OUTPUT/APPEND) and S5 (GET passes a lock held through an OUTPUT/APPEND file); both are recorded
  GW-BASIC behaviour (corpus test LockFilesOutput).
-/
namespace PcbV.C26
open PcbV PcbV.Locks PcbV.Gen

/-- **Held lock ranges never overlap.**  After any history of statements (from "no file open"), file
numbers are unique and any two held ranges on the same file — through different numbers or the same
one — are either the very same lock or share no record. -/
theorem locks_disjoint (mf : Nat) (cmds : List Cmd) :
    UniqueNums (run true mf [] cmds) ∧
    ∀ f ∈ run true mf [] cmds, ∀ g ∈ run true mf [] cmds, f.name = g.name →
      ∀ r ∈ f.locks, ∀ q ∈ g.locks, (f.num = g.num ∧ r = q) ∨ ¬ Shares r q :=
  ⟨(inv_run cmds inv_nil).uniq, (inv_run cmds inv_nil).disj⟩

/-- **An overlapping LOCK is denied** (lock manager level): requesting a range that shares a record
with any range held on the same file, through any file number including the requesting one, raises
Permission denied. -/
theorem overlap_denied {st : State} (hu : UniqueNums st) {this g : Entry} (ht : this ∈ st) (hg : g ∈ st)
    (hn : g.name = this.name) {q rng : Rng} (hq : q ∈ g.locks) (hs : Shares rng q) :
    acquire true st this.num rng = .error E.permission_denied := by
  unfold acquire
  rw [tryRecordLock_denied (find_of_mem hu ht)
    (mem_otherLocks.mpr ⟨g, hg, hn, by simp, by simp, hq⟩) hs]

/-- the same at statement level, after any history: `LOCK #n, s TO e` (any form of the bounds; whole
file for sequential files) fails with error 70 and changes nothing. -/
theorem lock_overlap_denied (mf : Nat) (cmds : List Cmd) {this g : Entry}
    (ht : this ∈ run true mf [] cmds) (hg : g ∈ run true mf [] cmds) (hn : g.name = this.name)
    (h255 : this.num ≤ 255) {q rng : Rng} (hq : q ∈ g.locks) {s e : Option Nat}
    (hl : lockLimits s e = .ok rng) (hs : Shares (lockTarget this rng) q) :
    exec true mf (run true mf [] cmds) (.lock this.num s e) = (run true mf [] cmds, 70) := by
  have hu := (inv_run (mf := mf) cmds inv_nil).uniq
  simp only [exec]
  rw [if_neg (by omega), find_of_mem hu ht]
  simp only [hl]
  rw [overlap_denied hu ht hg hn hq hs]
  rfl

/-- **Access to a record locked through another file number is denied** (lock manager level): writing
always; reading unless the holder is open for OUTPUT/APPEND (the GW-BASIC exception, finding S5). -/
theorem locked_record_access_denied {st : State} (hu : UniqueNums st) {this g : Entry} (ht : this ∈ st)
    (hg : g ∈ st) (hn : g.name = this.name) (hne : g.num ≠ this.num) {q : Rng} (hq : q ∈ g.locks)
    {k : Nat} (hk : Rng.has q k) {a : Acc} (ha : a ≠ .r ∨ isOutMode g.mode = false) :
    tryRecordAccess true st this.num (.range k k) a = .error E.permission_denied ∨
    tryRecordAccess true st this.num (.range k k) a = .error E.path_file_access_error := by
  unfold tryRecordAccess
  cases h : tryAccess st this.num a with
  | error e =>
    right
    rw [tryAccess_error (find_of_mem hu ht) h]
  | ok u =>
    left
    simp only
    apply tryRecordLock_denied (find_of_mem hu ht) (q := q)
    · refine mem_otherLocks.mpr ⟨g, hg, hn, fun _ => hne, ?_, hq⟩
      rintro ⟨h1, h2⟩
      rcases ha with ha | ha
      · apply ha; simpa using h2
      · rw [ha] at h1; cases h1
    · exact ⟨k, ⟨Nat.le_refl k, Nat.le_refl k⟩, hk⟩

theorem getPut_denied {st : State} (h : Inv st) {this g : Entry} (ht : this ∈ st) (hg : g ∈ st)
    (hn : g.name = this.name) (hne : g.num ≠ this.num) {q : Rng} (hq : q ∈ g.locks) {pos : Option Nat}
    (hpos : ∀ p, pos = some p → 1 ≤ p) (hk : Rng.has q (record this pos)) {a : Acc}
    (ha : a ≠ .r ∨ isOutMode g.mode = false) :
    (getPut true st this.num this pos a).2 = 70 ∨ (getPut true st this.num this pos a).2 = 75 := by
  unfold getPut
  simp only
  have hrec : startPos this pos + 1 = record this pos := by
    unfold record startPos
    cases pos with
    | none => rfl
    | some p => have := hpos p rfl; simp only; omega
  rw [hrec]
  generalize startPos this pos = rp
  have h1 := inv_setRecpos this.num rp h
  have ht1 : ({ this with recpos := rp } : Entry) ∈ setRecpos st this.num rp :=
    mem_setRecpos.mpr ⟨this, ht, by simp⟩
  have hg1 : g ∈ setRecpos st this.num rp := mem_setRecpos.mpr ⟨g, hg, by rw [if_neg hne]⟩
  have := locked_record_access_denied h1.uniq ht1 hg1 hn hne hq hk ha
  simp only at this
  rcases this with e | e <;> rw [e]
  · left; rfl
  · right; rfl

/-- **Writing a record inside a range locked through another file number fails**, after any history:
`PUT #n[, pos]` on a random file gives error 70 (or 75 when the OPEN-time declarations already forbid it). -/
theorem locked_record_write_denied (mf : Nat) (cmds : List Cmd) {this g : Entry}
    (ht : this ∈ run true mf [] cmds) (hg : g ∈ run true mf [] cmds) (hn : g.name = this.name)
    (hne : g.num ≠ this.num) (hR : this.mode = .R) (h1 : 1 ≤ this.num) (h255 : this.num ≤ 255)
    {q : Rng} (hq : q ∈ g.locks) {pos : Option Nat} (hpos : ∀ p, pos = some p → 1 ≤ p ∧ p ≤ maxRec)
    (hk : Rng.has q (record this pos)) :
    (exec true mf (run true mf [] cmds) (.put this.num pos)).2 = 70 ∨
    (exec true mf (run true mf [] cmds) (.put this.num pos)).2 = 75 := by
  have hi := inv_run (mf := mf) cmds inv_nil
  simp only [exec, exec.getPutCmd]
  rw [if_neg (by omega), if_neg (by omega), find_of_mem hi.uniq ht]
  simp only [hR]
  have := getPut_denied hi ht hg hn hne hq (fun p hp => (hpos p hp).1) hk (a := .w) (Or.inl (by decide))
  cases pos with
  | none => simpa using this
  | some p =>
    have hp := hpos p rfl
    have hc : ¬ (p = 0 ∨ maxRec < p) := by omega
    simpa [hc] using this

/-- **Reading a record inside a range locked through another file number fails** — proved when the
holder of the lock is open for INPUT or RANDOM.
GAP (why `_partial`): when every holder is open for OUTPUT/APPEND the code lets GET through
(`_try_record_lock`: `f.mode in b'OA' and read_only`), as recorded from GW-BASIC in the corpus test
LockFilesOutput; see `locked_record_read_counterexample` and known finding S5. -/
theorem locked_record_read_denied_partial (mf : Nat) (cmds : List Cmd) {this g : Entry}
    (ht : this ∈ run true mf [] cmds) (hg : g ∈ run true mf [] cmds) (hn : g.name = this.name)
    (hne : g.num ≠ this.num) (hR : this.mode = .R) (h1 : 1 ≤ this.num) (h255 : this.num ≤ 255)
    (hmode : isOutMode g.mode = false)
    {q : Rng} (hq : q ∈ g.locks) {pos : Option Nat} (hpos : ∀ p, pos = some p → 1 ≤ p ∧ p ≤ maxRec)
    (hk : Rng.has q (record this pos)) :
    (exec true mf (run true mf [] cmds) (.get this.num pos)).2 = 70 ∨
    (exec true mf (run true mf [] cmds) (.get this.num pos)).2 = 75 := by
  have hi := inv_run (mf := mf) cmds inv_nil
  simp only [exec, exec.getPutCmd]
  rw [if_neg (by omega), if_neg (by omega), find_of_mem hi.uniq ht]
  simp only [hR]
  have := getPut_denied hi ht hg hn hne hq (fun p hp => (hpos p hp).1) hk (a := .r) (Or.inr hmode)
  cases pos with
  | none => simpa using this
  | some p =>
    have hp := hpos p rfl
    have hc : ¬ (p = 0 ∨ maxRec < p) := by omega
    simpa [hc] using this

/-- **UNLOCK must match exactly** (lock manager level): releasing succeeds iff this file number holds a
lock with exactly these bounds; it then removes that lock and nothing else; otherwise Permission denied
and nothing changes.  A lock held through another number, a sub-range, a super-range or a shifted range
does not qualify. -/
theorem unlock_exact {st : State} (hu : UniqueNums st) {this : Entry} (ht : this ∈ st) (rng : Rng) :
    (rng ∈ this.locks →
      ∃ st', release st this.num rng = .ok st' ∧
        ∀ f' ∈ st', ∃ f ∈ st, f'.num = f.num ∧ f'.name = f.name ∧
          ∀ r, r ∈ f'.locks ↔ (r ∈ f.locks ∧ ¬ (f.num = this.num ∧ r = rng))) ∧
    (rng ∉ this.locks → release st this.num rng = .error E.permission_denied) := by
  unfold release
  rw [find_of_mem hu ht]
  simp only
  constructor
  · intro hin
    refine ⟨_, by rw [if_pos hin], ?_⟩
    intro f' hf'
    obtain ⟨f, hf, rfl⟩ := mem_updLocks.mp hf'
    refine ⟨f, hf, ?_⟩
    by_cases hfn : f.num = this.num
    · rw [if_pos hfn]
      refine ⟨rfl, rfl, fun r => ?_⟩
      simp [List.mem_filter, hfn]
    · rw [if_neg hfn]
      exact ⟨rfl, rfl, fun _ => by simp [hfn]⟩
  · intro hnot
    rw [if_neg hnot]

/-- the same at statement level after any history: `UNLOCK #n, …` succeeds exactly when file number `n`
holds the identical range (the whole file for sequential files), else error 70 and no change. -/
theorem unlock_statement_exact (mf : Nat) (cmds : List Cmd) {this : Entry}
    (ht : this ∈ run true mf [] cmds) (h255 : this.num ≤ 255) {s e : Option Nat} {rng : Rng}
    (hl : lockLimits s e = .ok rng) :
    ((exec true mf (run true mf [] cmds) (.unlock this.num s e)).2 = 0 ↔
      lockTarget this rng ∈ this.locks) ∧
    (lockTarget this rng ∉ this.locks →
      exec true mf (run true mf [] cmds) (.unlock this.num s e) = (run true mf [] cmds, 70)) := by
  have hu := (inv_run (mf := mf) cmds inv_nil).uniq
  have hx := unlock_exact hu ht (lockTarget this rng)
  simp only [exec]
  rw [if_neg (by omega), find_of_mem hu ht]
  simp only [hl]
  by_cases hin : lockTarget this rng ∈ this.locks
  · obtain ⟨st', hr, _⟩ := hx.1 hin
    rw [hr]
    simp [hin]
  · rw [hx.2 hin]
    simp [hin, E.permission_denied]

/-- **Only a successful LOCK makes a range held**: every range held after a statement was already held
through the same file number before it, or the statement is a successful `LOCK` on that number whose
bounds (whole file for sequential files) are exactly that range.  Together with `unlock_exact` this is
"UNLOCK succeeds only for a range previously locked with exactly the same bounds". -/
theorem held_only_by_lock (mf : Nat) {st : State} (c : Cmd) :
    ∀ f' ∈ (exec true mf st c).1, ∀ r ∈ f'.locks,
      (∃ f ∈ st, f.num = f'.num ∧ f.name = f'.name ∧ r ∈ f.locks) ∨
      (∃ s e rng this, c = .lock f'.num s e ∧ find st f'.num = some this ∧ lockLimits s e = .ok rng ∧
        r = lockTarget this rng ∧ (exec true mf st c).2 = 0) := by
  have fromSub : LockSub (exec true mf st c).1 st → ∀ f' ∈ (exec true mf st c).1, ∀ r ∈ f'.locks,
      (∃ f ∈ st, f.num = f'.num ∧ f.name = f'.name ∧ r ∈ f.locks) ∨
      (∃ s e rng this, c = .lock f'.num s e ∧ find st f'.num = some this ∧ lockLimits s e = .ok rng ∧
        r = lockTarget this rng ∧ (exec true mf st c).2 = 0) :=
    fun hs f' hf' r hr => Or.inl (hs f' hf' r hr)
  cases c with
  | «open» name num mode acc lt =>
    apply fromSub
    simp only [exec]
    repeat' split
    all_goals first | exact lockSub_refl _ | skip
    next st' ho => exact lockSub_openFile ho
  | close num =>
    apply fromSub
    simp only [exec]
    split
    · exact lockSub_refl _
    · exact (sub_filter _ _).lockSub
  | closeAll => intro f' hf'; simp only [exec] at hf'; cases hf'
  | lock num s e =>
    simp only [exec]
    split
    · exact fun f' hf' r hr => Or.inl (lockSub_refl _ f' hf' r hr)
    · split
      · exact fun f' hf' r hr => Or.inl (lockSub_refl _ f' hf' r hr)
      · next this hfind =>
        split
        · exact fun f' hf' r hr => Or.inl (lockSub_refl _ f' hf' r hr)
        · next rng hl =>
          split
          · exact fun f' hf' r hr => Or.inl (lockSub_refl _ f' hf' r hr)
          · next st' ha =>
            unfold acquire at ha
            split at ha
            · cases ha
            · injection ha with ha; subst ha
              intro f' hf' r hr
              obtain ⟨f, hf, h1, h2, h3⟩ := mem_upd_add f' hf'
              rcases h3 r hr with h3 | ⟨h4, rfl⟩
              · exact Or.inl ⟨f, hf, h1.symm, h2.symm, h3⟩
              · right
                have hnum : f'.num = num := h1.trans h4
                exact ⟨s, e, rng, this, by rw [hnum], by rw [hnum]; exact hfind, hl, rfl, rfl⟩
  | unlock num s e =>
    apply fromSub
    simp only [exec]
    repeat' split
    all_goals first | exact lockSub_refl _ | skip
    next st' hr => exact lockSub_release hr
  | get num pos => apply fromSub; simp only [exec]; exact lockSub_getPutCmd _ _ _ _
  | put num pos => apply fromSub; simp only [exec]; exact lockSub_getPutCmd _ _ _ _

/-- **Output exclusivity, the part the code enforces** (lock manager level): while a file is open under
any file number — in particular for OUTPUT or APPEND — it cannot be opened for OUTPUT or APPEND:
File already open, whatever the number (0 = SAVE/BSAVE) and the ACCESS/LOCK clauses.
GAP (why `_partial`): the statement also demands that an INPUT or RANDOM open is refused while the file
is open for OUTPUT/APPEND; the code accepts it (`output_exclusive_counterexample`, defect D8 kept as a
known finding because the recorded GW-BASIC behaviour in the corpus test LockFilesOutput depends on it). -/
theorem output_exclusive_partial {st : State} {f : Entry} (hf : f ∈ st) {mode : Mode}
    (hm : isOutMode mode = true) (num : Nat) (lt : LT) (acc : Acc) :
    openFile st f.name num mode lt acc = .error E.file_already_open := by
  unfold openFile
  simp only
  have : (listOpen st f.name none).isEmpty = false := by
    cases hl : listOpen st f.name none with
    | nil =>
      have : f ∈ listOpen st f.name none := mem_listOpen.mpr ⟨hf, rfl, by simp⟩
      rw [hl] at this; cases this
    | cons x t => rfl
  rw [hm, this]
  rfl

/-- at statement level, after any history: an `OPEN … FOR OUTPUT/APPEND` of a file that is open fails and
changes nothing. -/
theorem output_reopen_denied (mf : Nat) (cmds : List Cmd) {f : Entry} (hf : f ∈ run true mf [] cmds)
    {mode : Mode} (hm : isOutMode mode = true) (num : Nat) (acc : Acc) (lt : LT) :
    (exec true mf (run true mf [] cmds) (.open f.name num mode acc lt)).2 ≠ 0 ∧
    (exec true mf (run true mf [] cmds) (.open f.name num mode acc lt)).1 = run true mf [] cmds := by
  have hsyn : ∀ e, openSyntax mode acc = some e → e ≠ 0 := by
    intro e he
    unfold openSyntax at he
    repeat' split at he
    all_goals (cases he <;> simp [E.path_file_access_error, E.stx])
  simp only [exec]
  rw [output_exclusive_partial hf hm]
  split
  · exact ⟨by simp [E.illegal_function_call], rfl⟩
  · split
    · next e he => exact ⟨hsyn e he, rfl⟩
    · split
      · exact ⟨by simp [E.bad_file_number], rfl⟩
      · split
        · exact ⟨by simp [E.file_already_open], rfl⟩
        · exact ⟨by simp [E.file_already_open], rfl⟩

/-- **At most one writer**: after any history, a file is open for OUTPUT/APPEND under at most one file
number. -/
theorem single_writer (mf : Nat) (cmds : List Cmd) {f g : Entry} (hf : f ∈ run true mf [] cmds)
    (hg : g ∈ run true mf [] cmds) (hn : f.name = g.name) (h1 : isOutMode f.mode = true)
    (h2 : isOutMode g.mode = true) : f = g := by
  have hi := inv_run (mf := mf) cmds inv_nil
  rcases pairwise_mem (fun a b hab hn' hc => hab hn'.symm ⟨hc.2, hc.1⟩) hi.writer hf hg with h | h
  · exact h
  · exact absurd ⟨h1, h2⟩ (h hn)

/-! ## The unrepaired code and the accepted deviations -/

def sharedOpen (n : Nat) : Cmd := .open 0 n .R .none .shared

/-- D7 on the original overlap test (`fixed = false`): with `LOCK #1, 3 TO 5` held, `LOCK #2, 1 TO 10`
is accepted, and the two held ranges share records 3..5. -/
theorem locks_disjoint_counterexample :
    ¬ LocksDisjoint (run false 3 [] [sharedOpen 1, sharedOpen 2, .lock 1 (some 3) (some 5),
      .lock 2 (some 1) (some 10)]) := by
  intro h
  have hst : run false 3 [] [sharedOpen 1, sharedOpen 2, .lock 1 (some 3) (some 5), .lock 2 (some 1) (some 10)]
      = [⟨1, 0, .R, .shared, .rw, [.range 3 5], 0⟩, ⟨2, 0, .R, .shared, .rw, [.range 1 10], 0⟩] := by
    decide
  rw [hst] at h
  have := h ⟨1, 0, .R, .shared, .rw, [.range 3 5], 0⟩ (by simp) ⟨2, 0, .R, .shared, .rw, [.range 1 10], 0⟩
    (by simp) rfl (.range 3 5) (by simp) (.range 1 10) (by simp)
  rcases this with ⟨h1, _⟩ | h2
  · cases h1
  · exact h2 ⟨3, ⟨by omega, by omega⟩, ⟨by omega, by omega⟩⟩

/-- the repaired test refuses that LOCK -/
theorem d7_repaired :
    (exec true 3 (run true 3 [] [sharedOpen 1, sharedOpen 2, .lock 1 (some 3) (some 5)])
      (.lock 2 (some 1) (some 10))).2 = 70 := by decide

/-- D8: INPUT (or RANDOM) open accepted while the file is open for OUTPUT. -/
theorem output_exclusive_counterexample :
    (exec true 3 (run true 3 [] [.open 0 1 .O .none .none]) (.open 0 2 .I .none .none)).2 = 0 ∧
    (exec true 3 (run true 3 [] [.open 0 1 .A .none .none]) (.open 0 2 .R .none .none)).2 = 0 := by decide

/-- S5: GET passes a whole-file lock held through an OUTPUT file (PUT does not). -/
theorem locked_record_read_counterexample :
    (exec true 3 (run true 3 [] [.open 0 1 .O .none .none, .lock 1 none none, .open 0 3 .R .none .none])
      (.get 3 (some 2))).2 = 0 ∧
    (exec true 3 (run true 3 [] [.open 0 1 .O .none .none, .lock 1 none none, .open 0 3 .R .none .none])
      (.put 3 (some 2))).2 = 70 := by decide

/-! ## Non-vacuity: the hypotheses of the theorems are satisfiable and locks do get granted -/

example : run true 3 [] [sharedOpen 1, sharedOpen 2, .lock 1 (some 3) (some 5), .lock 2 (some 6) (some 8),
      .lock 1 (some 1) (some 2)]
    = [⟨1, 0, .R, .shared, .rw, [.range 3 5, .range 1 2], 0⟩, ⟨2, 0, .R, .shared, .rw, [.range 6 8], 0⟩] := by
  decide

-- a lock held through #1 blocks #2's PUT and GET of a record inside it; UNLOCK with other bounds fails

example : (exec true 3 (run true 3 [] [sharedOpen 1, sharedOpen 2, .lock 1 (some 3) (some 5)])
    (.put 2 (some 4))).2 = 70 := by decide

example : (exec true 3 (run true 3 [] [sharedOpen 1, sharedOpen 2, .lock 1 (some 3) (some 5)])
    (.get 2 (some 5))).2 = 70 := by decide

example : (exec true 3 (run true 3 [] [sharedOpen 1, sharedOpen 2, .lock 1 (some 3) (some 5)])
    (.get 2 (some 6))).2 = 0 := by decide

example : (exec true 3 (run true 3 [] [sharedOpen 1, sharedOpen 2, .lock 1 (some 3) (some 5)])
    (.unlock 1 (some 3) (some 4))).2 = 70 := by decide

example : (exec true 3 (run true 3 [] [sharedOpen 1, sharedOpen 2, .lock 1 (some 3) (some 5)])
    (.unlock 2 (some 3) (some 5))).2 = 70 := by decide

example : (exec true 3 (run true 3 [] [sharedOpen 1, sharedOpen 2, .lock 1 (some 3) (some 5)])
    (.unlock 1 (some 3) (some 5))) = ([⟨1, 0, .R, .shared, .rw, [], 0⟩, ⟨2, 0, .R, .shared, .rw, [], 0⟩], 0) := by
  decide

example : (exec true 3 (run true 3 [] [.open 0 1 .R .none .none]) (.open 0 2 .O .none .none)).2 = 55 := by decide

/-! Three handles on one file (seed C26c): an OUTPUT/APPEND handle that holds no lock does not hide the
record locks of the other handles from GET — `locked_record_read_denied_partial` only looks at the mode of
the handle that holds the lock (`g`), whatever else is open and in whatever order. -/
example : (exec true 3 (run true 3 [] [.open 0 1 .O .none .none, .open 0 2 .R .none .none,
    .open 0 3 .R .none .none, .lock 2 (some 2) (some 3)]) (.get 3 (some 2))).2 = 70 := by decide
example : (exec true 3 (run true 3 [] [.open 0 3 .A .none .none, .open 0 1 .R .none .none,
    .open 0 2 .R .none .none, .lock 1 (some 2) (some 3)]) (.get 2 (some 3))).2 = 70 := by decide
example : (exec true 3 (run true 3 [] [.open 0 1 .O .none .none, .open 0 2 .I .none .none,
    .open 0 3 .R .none .none, .lock 2 (some 5) (some 6)]) (.get 3 (some 1))).2 = 70 := by decide
example : (exec true 3 (run true 3 [] [.open 0 1 .O .none .none, .open 0 2 .R .none .none,
    .open 0 3 .R .none .none, .lock 2 (some 2) (some 3)]) (.get 3 (some 4))).2 = 0 := by decide

/-! Fractional record numbers (seed C26d): LOCK/UNLOCK bounds and GET/PUT positions are rounded by the
same `roundHalfEven`, so `2.5` is record 2 and `6.5` record 6 for both. -/
theorem roundHalfEven_int (n : Nat) : roundHalfEven n 1 = n := by
  simp [roundHalfEven, Nat.mod_one]
theorem roundHalfEven_half (k : Nat) :
    roundHalfEven (2 * k + 1) 2 = if k % 2 = 0 then k else k + 1 := by
  have h1 : (2 * k + 1) / 2 = k := by omega
  have h2 : (2 * k + 1) % 2 = 1 := by omega
  simp [roundHalfEven, h1, h2]
example : roundHalfEven 5 2 = 2 ∧ roundHalfEven 7 2 = 4 ∧ roundHalfEven 1 2 = 0 ∧ roundHalfEven 13 2 = 6 ∧
    roundHalfEven 249 100 = 2 ∧ roundHalfEven 251 100 = 3 ∧ roundHalfEven 51 100 = 1 := by decide

end PcbV.C26
