import PcbV.Basic
import PcbV.Gen.Errors
/-
  Model of `pcbasic/basic/display/graphics.py: GraphicsViewPort` (bounds, `contains`, coordinate
  conversion, `cutoff_coord`, `_convert_slice`, `__setitem__`) and of the index semantics of
  `pcbasic/basic/base/bytematrix.py: ByteMatrix.__setitem__` that it ends in (Python list / bytearray
  indexing: a negative integer index or slice bound wraps around once, slice bounds clamp).

  A pixel matrix has `W` columns and `H` rows.  An index expression of one axis is `Ix`
  (an integer or a `start:stop` slice with optional bounds; steps are never used, the code asserts it).
  `View.written v yi xi cx cy` says whether the matrix cell (column `cx`, row `cy`) is assigned by
  `graph_view[yi, xi] = …`.  Shared with C31/C32.
-/
namespace PcbV.Viewport
open PcbV

def ifc : Nat := PcbV.Gen.E.ifc

/-! ### Python sequence indexing -/

/-- one bound of a Python slice against a sequence of length `len` (`slice.indices`, step 1):
    negative bounds wrap once, then clamp to `0..len` -/
def pyNorm (len b : Int) : Int :=
  let b' := if b < 0 then b + len else b
  if b' < 0 then 0 else if b' > len then len else b'

/-- `seq[start:stop]` selects the positions `lo ≤ k < hi` with `(lo, hi) = pySlice len start stop`
    (nothing when `hi ≤ lo`) -/
def pySlice (len : Int) (start stop : Option Int) : Int × Int :=
  (match start with
   | none => 0
   | some a => pyNorm len a,
   match stop with
   | none => len
   | some b => pyNorm len b)

/-- `seq[i]`: a negative index wraps once; `none` = IndexError -/
def pyIndex (len i : Int) : Option Int :=
  let j := if i < 0 then i + len else i
  if 0 ≤ j ∧ j < len then some j else none

/-- index expression of one axis -/
inductive Ix where
  | int (i : Int)
  | slice (start stop : Option Int)
deriving Repr, DecidableEq

def Ix.isInt : Ix → Bool
  | .int _ => true
  | .slice _ _ => false

/-- half-open interval of positions of a sequence of length `len` selected by an index expression
    (an out-of-range integer index selects nothing: it raises IndexError before anything is written) -/
def Ix.range (len : Int) : Ix → Int × Int
  | .int i =>
    match pyIndex len i with
    | some j => (j, j + 1)
    | none => (0, 0)
  | .slice a b => pySlice len a b

def Ix.sel (len : Int) (ix : Ix) (k : Int) : Bool :=
  decide ((ix.range len).1 ≤ k ∧ k < (ix.range len).2)

/-- an integer index outside the sequence (IndexError) -/
def Ix.raises (len : Int) : Ix → Bool
  | .int i => (pyIndex len i).isNone
  | .slice _ _ => false

/-! ### GraphicsViewPort -/

structure View where
  /-- `_max_width`, `_max_height`: size of the pixel matrix of the page -/
  W : Int
  H : Int
  /-- `_rect` (absolute, inclusive) -/
  x0 : Int
  y0 : Int
  x1 : Int
  y1 : Int
  /-- `VIEW SCREEN`: coordinates are absolute; otherwise relative to the top-left corner of `_rect` -/
  absolute : Bool
  active : Bool
deriving Repr, DecidableEq

namespace View

/-- the rectangle lies on the screen (what `view_` establishes by its range checks, and `unset`) -/
def wf (v : View) : Prop :=
  0 ≤ v.x0 ∧ v.x0 ≤ v.x1 ∧ v.x1 < v.W ∧ 0 ≤ v.y0 ∧ v.y0 ≤ v.y1 ∧ v.y1 < v.H

instance (v : View) : Decidable v.wf := inferInstanceAs (Decidable (_ ∧ _))

/-- `__init__` / `unset` -/
def full (W H : Int) : View := ⟨W, H, 0, 0, W - 1, H - 1, false, false⟩

def unset (v : View) : View := full v.W v.H

/-- `set`: VIEW orders the coordinates -/
def set (v : View) (x0 y0 x1 y1 : Int) (absolute : Bool) : View :=
  { v with x0 := min x0 x1, x1 := max x0 x1, y0 := min y0 y1, y1 := max y0 y1,
           absolute := absolute, active := true }

def width (v : View) : Int := v.x1 - v.x0 + 1
def height (v : View) : Int := v.y1 - v.y0 + 1

/-- x and y offsets added by `_convert_coords` -/
def offX (v : View) : Int := if v.absolute then 0 else v.x0
def offY (v : View) : Int := if v.absolute then 0 else v.y0

/-- `get_bounds`: (xmin, ymin, xmax, ymax) in viewport coordinates:
    `_rect` itself if absolute, else `0, 0, width-1, height-1` -/
def xmin (v : View) : Int := if v.absolute then v.x0 else 0
def ymin (v : View) : Int := if v.absolute then v.y0 else 0
def xmax (v : View) : Int := if v.absolute then v.x1 else v.width - 1
def ymax (v : View) : Int := if v.absolute then v.y1 else v.height - 1

def getBounds (v : View) : Int × Int × Int × Int := (v.xmin, v.ymin, v.xmax, v.ymax)

/-- `contains` -/
def contains (v : View) (x y : Int) : Bool :=
  decide (v.xmin ≤ x ∧ x ≤ v.xmax ∧ v.ymin ≤ y ∧ y ≤ v.ymax)

/-- `_convert_coords`: absolute → unchanged, else shifted by the top-left corner of `_rect` -/
def convertCoords (v : View) (x y : Int) : Int × Int := (x + v.offX, y + v.offY)

/-- `cutoff_coord`: clamp to the physical screen plus one pixel, result in viewport coordinates -/
def cutoffCoord (v : View) (x y : Int) : Int × Int :=
  let (absX, absY) := v.convertCoords x y
  let offsX := x - absX
  let offsY := y - absY
  let absX := min v.W (max (-1) absX)
  let absY := min v.H (max (-1) absY)
  (absX + offsX, absY + offsY)

/-- `get_mid` -/
def getMid (v : View) : Int × Int :=
  let x := (v.xmax - v.xmin) / 2 + 1
  let y := (v.ymax - v.ymin) / 2 + 1
  if v.absolute then (v.xmin + x, v.ymin + y) else (x, y)

/-- an integer index `n` is converted to the slice `n:n+1` -/
def asSlice : Ix → Option Int × Option Int
  | .int n => (some n, some (n + 1))
  | .slice a b => (a, b)

/-- one axis of the slice branch of `_convert_slice`: open bounds become `bmin` / `bmax` (an open stop
    becomes `bmax`, not `bmax+1`, as coded), clip to `bmin .. bmax+1`, convert to absolute -/
def clipAxis (ix : Ix) (bmin bmax off : Int) : Ix :=
  let (s, e) := asSlice ix
  .slice (some (max (s.getD bmin) bmin + off)) (some (min (e.getD bmax) (bmax + 1) + off))

/-- `_convert_slice`: viewport index pair → matrix index pair (y first, as in the code) -/
def convertSlice (v : View) (yi xi : Ix) : Ix × Ix :=
  match yi, xi with
  | .int y, .int x =>
    -- single pixel
    if v.contains x y then (.int (y + v.offY), .int (x + v.offX))
    else (.slice (some 0) (some 0), .slice (some 0) (some 0))
  | _, _ => (clipAxis yi v.ymin v.ymax v.offY, clipAxis xi v.xmin v.xmax v.offX)

/-- matrix rectangle `[xlo, xhi) × [ylo, yhi)` assigned by `graph_view[yi, xi] = …`
    (`_PixelAccess.__setitem__` → `ByteMatrix.__setitem__` on a `H × W` matrix) -/
def writeRect (v : View) (yi xi : Ix) : (Int × Int) × (Int × Int) :=
  let (ay, ax) := v.convertSlice yi xi
  (ax.range v.W, ay.range v.H)

/-- the cell in column `cx`, row `cy` is assigned by `graph_view[yi, xi] = …` -/
def written (v : View) (yi xi : Ix) (cx cy : Int) : Bool :=
  let (ay, ax) := v.convertSlice yi xi
  ay.sel v.H cy && ax.sel v.W cx

/-- the assignment raises IndexError (never happens for a well-formed viewport, see C30) -/
def setitemRaises (v : View) (yi xi : Ix) : Bool :=
  let (ay, ax) := v.convertSlice yi xi
  ay.raises v.H || ax.raises v.W

/-- the cell lies in the viewport rectangle -/
def inRect (v : View) (cx cy : Int) : Prop :=
  v.x0 ≤ cx ∧ cx ≤ v.x1 ∧ v.y0 ≤ cy ∧ cy ≤ v.y1

instance (v : View) (cx cy : Int) : Decidable (v.inRect cx cy) := inferInstanceAs (Decidable (_ ∧ _))

end View

/-- one call `graph_view[yi, xi] = …` -/
structure SetItem where
  yi : Ix
  xi : Ix
deriving Repr, DecidableEq

/-- `graph_view[y, x] = attr` -/
def SetItem.pixel (x y : Int) : SetItem := ⟨.int y, .int x⟩

def SetItem.isPixel : SetItem → Bool
  | ⟨.int _, .int _⟩ => true
  | _ => false

end PcbV.Viewport
