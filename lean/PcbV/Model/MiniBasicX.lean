import PcbV.Model.MiniBasic
/-
  PcbV.Model.MiniBasicX — the structured (Spec) layer of `PcbV.Model.MiniBasic` extended with
  IF … THEN … [ELSE …] in statement form (one program line) and GOSUB to compiled subroutines.
  The Mech layer is the one of `PcbV.Model.MiniBasic`, unchanged.

  * `XStmt`    structured statements: the fragment of `SStmt` plus `ift` / `ife` (IF without / with ELSE;
               the branches are statements without a further IF, written on the line of the IF) and
               `call k` (GOSUB to subroutine k of a table of subroutine bodies; recursion allowed).
  * `xexec`    reference semantics with fuel (RETURN resumes after the calling statement by construction:
               a call is the execution of the body).
  * `xcompile` compilation to the flat statement list; `Layout` says what the distribution of the compiled
               statements over program lines has to respect (only the IF lines are constrained).
-/
namespace PcbV.MiniBasic
open PcbV.Gen

inductive XStmt
  | skip
  | seq (a b : XStmt)
  | print (e : Expr)
  | let_ (v : Nat) (e : Expr)
  | for_ (v : Nat) (a b : Expr) (c : Option Expr) (named : Bool) (body : XStmt)
  | while_ (c : Expr) (body : XStmt)
  | ift (c : Expr) (thn : XStmt)                 -- IF c THEN thn            (rest of the line)
  | ife (c : Expr) (thn els : XStmt)             -- IF c THEN thn ELSE els   (rest of the line)
  | call (k : Nat)                               -- GOSUB <line of subroutine k>
  deriving Repr

inductive XTask
  | stmt (p : XStmt)
  | forNext (v : Nat) (stop step sgn : Int) (body : XStmt)
  | whileWend (c : Expr) (body : XStmt)

/-- reference semantics; `subs` are the subroutine bodies.  A call of a subroutine that does not exist is
    Undefined line number. -/
def xexec (subs : List XStmt) : Nat → XTask → SSt → SRes
  | 0, _, _ => .fuel
  | _ + 1, .stmt .skip, s => .ok s
  | f + 1, .stmt (.seq a b), s => (xexec subs f (.stmt a) s).bind (fun s' => xexec subs f (.stmt b) s')
  | _ + 1, .stmt (.print e), s => .ok { s with out := e.eval s.env :: s.out }
  | _ + 1, .stmt (.let_ v e), s =>
    if InRange (e.eval s.env) then .ok { s with env := s.env.set v (e.eval s.env) } else .err E.overflow s
  | f + 1, .stmt (.for_ v a b c _ body), s =>
    let start := a.eval s.env
    let stop := b.eval s.env
    let step := stepValue s.env c
    if ¬ InRange start then .err E.overflow s
    else if ¬ InRange stop then .err E.overflow s
    else if ¬ InRange step then .err E.overflow s
    else
      let s1 : SSt := { s with env := s.env.set v start }
      if (if sign step ≥ 0 then decide (start > stop) else decide (stop > start)) then
        xexec subs f (.forNext v stop step (sign step) body) s1
      else
        (xexec subs f (.stmt body) s1).bind (fun s2 => xexec subs f (.forNext v stop step (sign step) body) s2)
  | f + 1, .forNext v stop step sgn body, s =>
    let c := s.env v + step
    if ¬ InRange c then .err E.overflow s else
    let s1 : SSt := { s with env := s.env.set v c }
    if loopEnds sgn c stop then .ok s1
    else (xexec subs f (.stmt body) s1).bind (fun s2 => xexec subs f (.forNext v stop step sgn body) s2)
  | f + 1, .stmt (.while_ c body), s =>
    if c.eval s.env ≠ 0 then
      (xexec subs f (.stmt body) s).bind (fun s2 => xexec subs f (.whileWend c body) s2)
    else .ok s
  | f + 1, .whileWend c body, s =>
    if c.eval s.env ≠ 0 then
      (xexec subs f (.stmt body) s).bind (fun s2 => xexec subs f (.whileWend c body) s2)
    else .ok s
  | f + 1, .stmt (.ift c thn), s =>
    if c.eval s.env ≠ 0 then xexec subs f (.stmt thn) s else .ok s
  | f + 1, .stmt (.ife c thn els), s =>
    if c.eval s.env ≠ 0 then xexec subs f (.stmt thn) s else xexec subs f (.stmt els) s
  | f + 1, .stmt (.call k), s =>
    match subs[k]? with
    | none => .err E.undefined_line_number s
    | some body => xexec subs f (.stmt body) s

/-- compilation; `entry k` is the line number of subroutine k -/
def xcompile (entry : Nat → Nat) : XStmt → List Stmt
  | .skip => []
  | .seq a b => xcompile entry a ++ xcompile entry b
  | .print e => [.print e]
  | .let_ v e => [.let_ v e]
  | .for_ v a b c named body =>
    .for_ v a b c :: (xcompile entry body ++ [.next (if named then [v] else [])])
  | .while_ c body => .while_ c :: (xcompile entry body ++ [.wend])
  | .ift c thn => .ifThen c none :: xcompile entry thn
  | .ife c thn els => .ifThen c none :: (xcompile entry thn ++ .else_ none :: xcompile entry els)
  | .call k => [.gosub (entry k)]

/-- no IF inside (the branches of an IF) -/
def NoIf : XStmt → Prop
  | .skip | .print _ | .let_ _ _ | .call _ => True
  | .seq a b => NoIf a ∧ NoIf b
  | .for_ _ _ _ _ _ body => NoIf body
  | .while_ _ body => NoIf body
  | .ift _ _ | .ife _ _ _ => False

def lineNone (code : List Instr) (i : Nat) : Prop := ∀ ins, code[i]? = some ins → ins.line = none
def lineStartOrEnd (code : List Instr) (i : Nat) : Prop := ∀ ins, code[i]? = some ins → ins.line.isSome = true

/-- what the program lines have to respect for the statements of `p` compiled at index `off`:
    an IF and its branches stand on one line, and that line ends with them -/
def Layout (entry : Nat → Nat) (code : List Instr) : Nat → XStmt → Prop
  | _, .skip | _, .print _ | _, .let_ _ _ | _, .call _ => True
  | off, .seq a b => Layout entry code off a ∧ Layout entry code (off + (xcompile entry a).length) b
  | off, .for_ _ _ _ _ _ body => Layout entry code (off + 1) body
  | off, .while_ _ body => Layout entry code (off + 1) body
  | off, .ift _ thn =>
    NoIf thn ∧ (∀ i, off < i → i < off + 1 + (xcompile entry thn).length → lineNone code i) ∧
    lineStartOrEnd code (off + 1 + (xcompile entry thn).length)
  | off, .ife _ thn els =>
    NoIf thn ∧ NoIf els ∧
    (∀ i, off < i → i < off + 2 + (xcompile entry thn).length + (xcompile entry els).length → lineNone code i) ∧
    lineStartOrEnd code (off + 2 + (xcompile entry thn).length + (xcompile entry els).length)

end PcbV.MiniBasic
