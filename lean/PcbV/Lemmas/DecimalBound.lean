import PcbV.Model.Decimal
import PcbV.Lemmas.C05Basic
/-
  C07 lemmas, part 3: the mantissa that `to_decimal(self.digits)` returns has at most `digits`
  decimal digits (after the repair: the unrepaired code returns 10^16 for some doubles).
  Invariants of the two loops on denormalised values.
-/
namespace PcbV.Decimal
open PcbV PcbV.Mbf

/-- `(exp, man)` of `d` is lexicographically at most `(e, m)` -/
def LeLex (d : Den) (e : Int) (m : Nat) : Prop := d.exp < e ∨ (d.exp = e ∧ d.man ≤ m)

theorem not_absGt_iff (l r : Den) : absGtDen l r = false ↔ LeLex l r.exp r.man := by
  unfold absGtDen LeLex
  by_cases h : l.exp = r.exp
  · simp [h]
  · simp [h] <;> omega

theorem absGt_iff (l r : Den) : absGtDen l r = true ↔ (r.exp < l.exp ∨ (l.exp = r.exp ∧ r.man < l.man)) := by
  unfold absGtDen
  by_cases h : l.exp = r.exp
  · simp [h]
  · simp [h] <;> omega

/-- numeric facts about a format's limit constants on which the digit bound rests -/
structure LimOK (f : Fmt) : Prop where
  upper : f.denUpper = 2 * f.denMask
  mask256 : f.denMask % 256 = 0
  maskpos : 256 ≤ f.denMask
  tman256 : (denorm f f.limTop).man % 256 = 0
  tman_ge : f.denMask ≤ (denorm f f.limTop).man
  tman_lt : (denorm f f.limTop).man < f.denUpper
  texp : (denorm f f.limTop).exp ≤ f.bias
  bexp : (denorm f f.limBot).exp + 4 = (denorm f f.limTop).exp
  bexp1 : 1 ≤ (denorm f f.limBot).exp
  stepb : (((denorm f f.limBot).man - 1) / 4 + ((denorm f f.limBot).man - 1)) / 2 + 1
            ≤ (denorm f f.limTop).man + 127
  final : ((denorm f f.limTop).man / 2 ^ (f.bias - (denorm f f.limTop).exp).toNat + 128) / 256 ≤ 10 ^ f.digits
  upow : f.denUpper = 2 ^ (f.w + 8)
  tenlt : (denorm f f.ten).man < f.denUpper
  dig1 : 1 ≤ f.digits

instance (f : Fmt) : Decidable (LimOK f) :=
  decidable_of_iff
    (f.denUpper = 2 * f.denMask ∧ f.denMask % 256 = 0 ∧ 256 ≤ f.denMask ∧
     (denorm f f.limTop).man % 256 = 0 ∧ f.denMask ≤ (denorm f f.limTop).man ∧
     (denorm f f.limTop).man < f.denUpper ∧ (denorm f f.limTop).exp ≤ f.bias ∧
     (denorm f f.limBot).exp + 4 = (denorm f f.limTop).exp ∧ 1 ≤ (denorm f f.limBot).exp ∧
     (((denorm f f.limBot).man - 1) / 4 + ((denorm f f.limBot).man - 1)) / 2 + 1
            ≤ (denorm f f.limTop).man + 127 ∧
     ((denorm f f.limTop).man / 2 ^ (f.bias - (denorm f f.limTop).exp).toNat + 128) / 256 ≤ 10 ^ f.digits ∧
     f.denUpper = 2 ^ (f.w + 8) ∧ (denorm f f.ten).man < f.denUpper ∧ 1 ≤ f.digits)
    ⟨fun ⟨a, b, c, d, e, g, h, i, j, k, l, m, n, o⟩ => ⟨a, b, c, d, e, g, h, i, j, k, l, m, n, o⟩,
     fun ⟨a, b, c, d, e, g, h, i, j, k, l, m, n, o⟩ => ⟨a, b, c, d, e, g, h, i, j, k, l, m, n, o⟩⟩

theorem single_lim : LimOK single := by decide
theorem double_lim : LimOK double := by decide

/-! ### `_mul10_den` -/

theorem mul10Den_spec (f : Fmt) (d : Den) (hU : f.denUpper % 2 = 0) :
    let r := mul10Den f d
    r.exp ≤ d.exp + 4 ∧ (d.man < f.denUpper → r.man < f.denUpper) ∧
    (r.exp = d.exp + 4 → r.man ≤ (d.man / 4 + d.man) / 2 + 1) := by
  unfold mul10Den addDen
  by_cases h3 : d.exp + 3 = 0
  · simp [h3] <;> omega
  · by_cases h1 : d.exp + 1 = 0
    · simp [h1, h3] <;> omega
    · have hsw : ¬ (d.exp + 1 > d.exp + 3 ∨ (d.exp + 1 = d.exp + 3 ∧ d.man > d.man)) := by omega
      have hsh : (d.exp + 3 - (d.exp + 1)).toNat = 2 := by omega
      simp only [h1, h3, if_false, hsw, hsh, bne_self_eq_false, Bool.false_eq_true, and_false,
        Bool.not_false, and_true, ite_true, false_and, Bool.not_eq_true', decide_eq_false_iff_not]
      simp only [show (2:Nat) ^ 2 = 4 from rfl]
      by_cases hs : d.man / 4 + d.man ≥ f.denUpper <;> by_cases hz : d.man % 4 = 0 <;>
        simp only [hs, hz, if_true, if_false, not_true_eq_false, not_false_eq_true] <;>
        (try split) <;> (refine ⟨by omega, ?_, ?_⟩ <;> intro _ <;> omega)


/-! ### the second loop keeps the value at or below `lim_top` (+ a carry byte below one half) -/

def Q (f : Fmt) (d : Den) : Prop :=
  d.man < f.denUpper ∧ LeLex d (denorm f f.limTop).exp ((denorm f f.limTop).man + 127)

theorem mulLoop10_inv (f : Fmt) (hl : LimOK f) : ∀ (fuel : Nat) (d : Den) (e : Int) (r : Den × Int),
    Q f d → mulLoop10 f (denorm f f.limBot) fuel d e = some r → Q f r.1 := by
  intro fuel
  induction fuel with
  | zero => intro d e r _ h; simp [mulLoop10] at h
  | succ k ih =>
    intro d e r hq h
    unfold mulLoop10 at h
    by_cases hg : absGtDen (denorm f f.limBot) d = true
    · simp only [hg, if_true] at h
      refine ih (mul10Den f d) (e - 1) r ?_ h
      have hU : f.denUpper % 2 = 0 := by rw [hl.upper]; omega
      obtain ⟨s1, s2, s3⟩ := mul10Den_spec f d hU
      have hb := (absGt_iff _ _).1 hg
      have hbe := hl.bexp
      have hst := hl.stepb
      refine ⟨s2 hq.1, ?_⟩
      unfold LeLex
      rcases hb with hb | ⟨hb1, hb2⟩
      · left; omega
      · by_cases hx : (mul10Den f d).exp < (denorm f f.limTop).exp
        · left; exact hx
        · right
          have he : (mul10Den f d).exp = d.exp + 4 := by omega
          refine ⟨by omega, ?_⟩
          have := s3 he
          omega
    · simp only [hg, Bool.false_eq_true, if_false, Option.some.injEq] at h
      subst h; exact hq

/-! ### the final carry and rounding -/

theorem applyCarry_le (f : Fmt) (hl : LimOK f) (d : Den) (hq : Q f d) :
    LeLex (applyCarryDen f d) (denorm f f.limTop).exp (denorm f f.limTop).man ∧
      (applyCarryDen f d).man < f.denUpper := by
  obtain ⟨hlt, hle⟩ := hq
  have h1 := hl.upper; have h2 := hl.mask256; have h3 := hl.tman256
  have h4 := hl.tman_ge; have h5 := hl.tman_lt; have h6 := hl.maskpos
  unfold applyCarryDen LeLex
  unfold LeLex at hle
  simp only
  by_cases hc : d.man % 256 > 127 <;> simp only [hc, if_true, if_false]
  · by_cases ho : d.man + 256 ≥ f.denUpper <;> simp only [ho, if_true, if_false]
    · rcases hle with hle | ⟨_, hle⟩
      · constructor
        · by_cases hx : d.exp + 1 < (denorm f f.limTop).exp
          · left; exact hx
          · right; refine ⟨by omega, ?_⟩; omega
        · omega
      · exfalso; omega
    · rcases hle with hle | ⟨he, hle⟩
      · exact ⟨Or.inl hle, by omega⟩
      · exact ⟨Or.inr ⟨he, by omega⟩, by omega⟩
  · have ho : ¬ d.man ≥ f.denUpper := by omega
    simp only [ho, if_false]
    rcases hle with hle | ⟨he, hle⟩
    · exact ⟨Or.inl hle, by omega⟩
    · exact ⟨Or.inr ⟨he, by omega⟩, by omega⟩

theorem roundDen_le (f : Fmt) (hl : LimOK f) (c : Den)
    (hle : LeLex c (denorm f f.limTop).exp (denorm f f.limTop).man) (hlt : c.man < f.denUpper) :
    (roundDen f c).natAbs ≤ 10 ^ f.digits := by
  have h1 := hl.upper; have h4 := hl.tman_ge; have h7 := hl.texp
  refine Nat.le_trans ?_ hl.final
  have hneg : ¬ (c.exp - (f.bias : Int) > 0) := by
    unfold LeLex at hle; omega
  have hform : (roundDen f c).natAbs =
      (c.man / 2 ^ (-(c.exp - (f.bias : Int))).toNat + 128) / 256 := by
    unfold roundDen
    simp only [hneg, if_false]
    generalize c.man / 2 ^ (-(c.exp - (f.bias : Int))).toNat = v
    by_cases hb : v / 128 % 2 = 1 <;> by_cases hn : c.neg = true <;> simp [hb, hn] <;> omega
  rw [hform]
  apply Nat.div_le_div_right
  apply Nat.add_le_add_right
  generalize hk : ((f.bias : Int) - (denorm f f.limTop).exp).toNat = k
  unfold LeLex at hle
  rcases hle with hle | ⟨he, hle⟩
  · -- smaller exponent: at least one more halving
    have hj : (-(c.exp - (f.bias : Int))).toNat = k + ((denorm f f.limTop).exp - c.exp).toNat := by omega
    have hpos : 1 ≤ ((denorm f f.limTop).exp - c.exp).toNat := by omega
    rw [hj, Nat.pow_add, Nat.mul_comm, ← Nat.div_div_eq_div_mul]
    apply Nat.div_le_div_right
    have : c.man / 2 ^ ((denorm f f.limTop).exp - c.exp).toNat ≤ c.man / 2 ^ 1 :=
      Nat.div_le_div_left (Nat.pow_le_pow_right (by decide) hpos) (by decide)
    omega
  · have hj : (-(c.exp - (f.bias : Int))).toNat = k := by omega
    rw [hj]
    exact Nat.div_le_div_right hle

/-! ### the first loop -/

theorem shiftUp_lt : ∀ (fuel lim : Nat) (e : Int) (m : Nat), m < 2 * lim → (shiftUp fuel lim e m).2 < 2 * lim := by
  intro fuel
  induction fuel with
  | zero => intro lim e m h; simpa [shiftUp] using h
  | succ k ih =>
    intro lim e m h
    unfold shiftUp
    by_cases hm : m < lim
    · simp only [hm, if_true]; exact ih lim (e - 1) (m * 2) (by omega)
    · simp only [hm, if_false]; exact h

theorem divLoop_lt : ∀ (fuel work rman lman : Nat) (lexp : Int) (k : Nat), rman < 2 ^ k →
    (divLoop fuel work rman lman lexp).1 < (lman + 1) * 2 ^ k := by
  intro fuel
  induction fuel with
  | zero =>
    intro work rman lman lexp k _
    have := Nat.two_pow_pos k
    simp only [divLoop]
    calc lman < lman + 1 := by omega
      _ = (lman + 1) * 1 := by omega
      _ ≤ (lman + 1) * 2 ^ k := Nat.mul_le_mul_left _ this
  | succ n ih =>
    intro work rman lman lexp k hr
    have hp := Nat.two_pow_pos k
    unfold divLoop
    by_cases h0 : rman > 0
    · simp only [h0, if_true]
      have hk : 1 ≤ k := by
        cases k with
        | zero => simp at hr; omega
        | succ j => omega
      have hk2 : 2 ^ k = 2 * 2 ^ (k - 1) := by
        have : k = (k - 1) + 1 := by omega
        rw [this, Nat.pow_succ]; simp; omega
      have hr2 : rman / 2 < 2 ^ (k - 1) := by omega
      by_cases hw : work > rman
      · simp only [hw, if_true]
        have := ih (work - rman) (rman / 2) (lman * 2 + 1) (lexp - 1) (k - 1) hr2
        calc _ < (lman * 2 + 1 + 1) * 2 ^ (k - 1) := this
          _ = (lman + 1) * 2 ^ k := by rw [hk2, ← Nat.mul_assoc]; congr 1; omega
      · simp only [hw, if_false]
        have := ih work (rman / 2) (lman * 2) (lexp - 1) (k - 1) hr2
        calc _ < (lman * 2 + 1) * 2 ^ (k - 1) := this
          _ ≤ (lman * 2 + 2) * 2 ^ (k - 1) := Nat.mul_le_mul_right _ (by omega)
          _ = (lman + 1) * 2 ^ k := by rw [hk2, ← Nat.mul_assoc]; congr 1; omega
    · simp only [h0, if_false]
      calc lman < lman + 1 := by omega
        _ = (lman + 1) * 1 := by omega
        _ ≤ (lman + 1) * 2 ^ k := Nat.mul_le_mul_left _ hp

theorem div10Den_lt (f : Fmt) (hl : LimOK f) (d : Den) : (div10Den f d).man < f.denUpper := by
  unfold div10Den divDen
  simp only
  have hq := divLoop_lt (Nat.log2 (denorm f f.ten).man + 2) d.man (denorm f f.ten).man 0
    (d.exp - ((denorm f f.ten).exp - f.bias - 8) + 1) (f.w + 8) (by rw [← hl.upow]; exact hl.tenlt)
  rw [Nat.zero_add, Nat.one_mul, ← hl.upow, hl.upper] at hq
  have := shiftUp_lt (f.w + 10) f.denMask
    (divLoop (Nat.log2 (denorm f f.ten).man + 2) d.man (denorm f f.ten).man 0
      (d.exp - ((denorm f f.ten).exp - f.bias - 8) + 1)).2
    (divLoop (Nat.log2 (denorm f f.ten).man + 2) d.man (denorm f f.ten).man 0
      (d.exp - ((denorm f f.ten).exp - f.bias - 8) + 1)).1 hq
  rw [hl.upper]
  exact this

theorem divLoop10_exit (f : Fmt) (hl : LimOK f) (t : Den) : ∀ (fuel : Nat) (d : Den) (e : Int) (r : Den × Int),
    d.man < f.denUpper → divLoop10 f t fuel d e = some r →
      absGtDen r.1 t = false ∧ r.1.man < f.denUpper := by
  intro fuel
  induction fuel with
  | zero => intro d e r _ h; simp [divLoop10] at h
  | succ k ih =>
    intro d e r hd h
    unfold divLoop10 at h
    by_cases hg : absGtDen d t = true
    · simp only [hg, if_true] at h
      exact ih _ _ r (div10Den_lt f hl d) h
    · simp only [hg, Bool.false_eq_true, if_false, Option.some.injEq] at h
      subst h
      exact ⟨by simpa using hg, hd⟩

/-- first carry: a value at or below `lim_top` stays there -/
theorem applyCarry_first (f : Fmt) (hl : LimOK f) (d : Den) (hd : d.man < f.denUpper)
    (hle : LeLex d (denorm f f.limTop).exp (denorm f f.limTop).man) : Q f (applyCarryDen f d) := by
  have hq : Q f d := ⟨hd, by unfold LeLex at *; omega⟩
  obtain ⟨a, b⟩ := applyCarry_le f hl d hq
  exact ⟨b, by unfold LeLex at *; omega⟩

/-- `to_decimal(self.digits)` of the unrepaired code: the mantissa is at most `10^digits` … -/
theorem toDecimalOld_le (f : Fmt) (hf : f.WF) (hl : LimOK f) (x : F) (hx : x.Valid f) (m e : Int)
    (h : toDecimalOld f x f.digits = some (m, e)) : m.natAbs ≤ 10 ^ f.digits := by
  unfold toDecimalOld limits at h
  simp only [ge_iff_le, Int.le_refl, if_true] at h
  unfold toDecimalDen at h
  have hden : (denorm f x).man < f.denUpper := by
    obtain ⟨_, _, _, _, hdu, hw, _⟩ := wf_S f hf
    have := (denorm_man f hf x).1
    have := (manOf_range f hf x hx.1).2
    omega
  cases h1 : divLoop10 f (denorm f f.limTop) loopFuel (denorm f x) 0 with
  | none => rw [h1] at h; simp at h
  | some r1 =>
    obtain ⟨d1, e1⟩ := r1
    rw [h1] at h
    simp only at h
    obtain ⟨x1, x2⟩ := divLoop10_exit f hl _ _ _ _ _ hden h1
    have q1 := applyCarry_first f hl d1 x2 ((not_absGt_iff _ _).1 x1)
    cases h2 : mulLoop10 f (denorm f f.limBot) loopFuel (applyCarryDen f d1) e1 with
    | none => rw [h2] at h; simp at h
    | some r2 =>
      obtain ⟨d2, e2⟩ := r2
      rw [h2] at h
      simp only [Option.some.injEq, Prod.mk.injEq] at h
      have q2 := mulLoop10_inv f hl _ _ _ _ q1 h2
      obtain ⟨y1, y2⟩ := applyCarry_le f hl d2 q2
      rw [← h.1]
      exact roundDen_le f hl _ y1 y2

/-- … and after the repair it has at most `digits` digits -/
theorem toDecimal_lt (f : Fmt) (hf : f.WF) (hl : LimOK f) (x : F) (hx : x.Valid f) (m e : Int)
    (h : toDecimal f x f.digits = some (m, e)) : m.natAbs < 10 ^ f.digits := by
  unfold toDecimal at h
  cases h0 : toDecimalOld f x f.digits with
  | none => rw [h0] at h; simp at h
  | some r =>
    obtain ⟨m0, e0⟩ := r
    rw [h0] at h
    have hb := toDecimalOld_le f hf hl x hx m0 e0 h0
    simp only [Option.map_some, Option.some.injEq] at h
    unfold carryDigit at h
    have hd := hl.dig1
    have hp : (10:Nat) ^ f.digits = 10 * 10 ^ (f.digits - 1) := by
      have : f.digits = (f.digits - 1) + 1 := by omega
      rw [this, Nat.pow_succ]; simp; omega
    by_cases hc : m0.natAbs ≥ 10 ^ f.digits
    · simp only [ge_iff_le, Int.le_refl, true_and, hc, if_true, Prod.mk.injEq] at h
      rw [← h.1]
      have hpos : 0 < 10 ^ (f.digits - 1) := Nat.pow_pos (by decide)
      by_cases hn : m0 < 0 <;> simp only [hn, if_true, if_false] <;> omega
    · simp only [ge_iff_le, Int.le_refl, true_and, hc, if_false, Prod.mk.injEq] at h
      rw [← h.1]; omega

end PcbV.Decimal
