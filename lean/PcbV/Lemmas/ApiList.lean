import PcbV.Model.SessionApi
import PcbV.Lemmas.Arrays
import PcbV.Props.C12
/-
  Lemmas for C43 (lists): `Arrays.from_list` on a declared array writes exactly the block of cells
  addressed by the list and nothing else.  Built on `C12.set_get_spec` (each in-bounds subscript
  tuple addresses its own element) through a generic "writer" combinator for `enumerate` loops.
-/
namespace PcbV.SessionApi
open PcbV PcbV.Arrays

/-- array `name` is declared with maximum subscripts `D` in a well-formed state with base `b` -/
structure Has (name : Nat) (D : List Int) (b : Int) (st : State) : Prop where
  wf : WF st
  hb : st.b = b
  arr : ∃ a, find name st.arrs = some a ∧ a.dims = D

theorem set_has {name : Nat} {D : List Int} {b : Int} {st : State} (h : Has name D b st)
    (idx : List Int) (hin : InBounds b idx D) (v : Int) :
    ∃ st', Arrays.set st name idx v = (st', none) ∧ Has name D b st' ∧ rd st' name idx = v ∧
      ∀ idx', InBounds b idx' D → idx' ≠ idx → rd st' name idx' = rd st name idx' := by
  obtain ⟨a, hf, hd⟩ := h.arr
  have hin' : InBounds st.b idx a.dims := by rw [h.hb, hd]; exact hin
  obtain ⟨st', hset, hbase, _, _, ⟨a', hf', hd'⟩, hget, hframe⟩ :=
    C12.set_get_spec st h.wf name a hf idx hin' v
  have hwf : WF st' := by
    have := wf_set h.wf name idx v
    rw [hset] at this; exact this
  have hb' : st'.b = b := by rw [← h.hb]; unfold State.b; rw [hbase]
  refine ⟨st', hset, ⟨hwf, hb', a', hf', by rw [hd', hd]⟩, ?_, ?_⟩
  · unfold rd; rw [hget]
  · intro idx' hin2 hne
    have := hframe idx' (by rw [h.hb, hd]; exact hin2) hne
    unfold rd; rw [this]

/-- `w` succeeds on every state that has the array, keeps it, stores `v` in every in-bounds cell
    `idx` with `C idx v`, and leaves every in-bounds cell outside the footprint as it was -/
def Writes (name : Nat) (D : List Int) (b : Int) (w : State → State × Option Nat)
    (C : List Int → Int → Prop) : Prop :=
  ∀ st, Has name D b st → ∃ st', w st = (st', none) ∧ Has name D b st' ∧
    (∀ idx v, InBounds b idx D → C idx v → rd st' name idx = v) ∧
    (∀ idx, InBounds b idx D → (∀ v, ¬ C idx v) → rd st' name idx = rd st name idx)

theorem Writes.congr {name : Nat} {D : List Int} {b : Int} {w : State → State × Option Nat}
    {C C' : List Int → Int → Prop} (h : Writes name D b w C) (hc : ∀ idx v, C' idx v ↔ C idx v) :
    Writes name D b w C' := by
  intro st hs
  obtain ⟨st', h1, h2, h3, h4⟩ := h st hs
  exact ⟨st', h1, h2, fun idx v hi hv => h3 idx v hi ((hc idx v).1 hv),
    fun idx hi hn => h4 idx hi (fun v hv => hn v ((hc idx v).2 hv))⟩

/-- an `enumerate` loop of writers with pairwise disjoint footprints is a writer of the union -/
theorem enumFold_writes {α : Type} (name : Nat) (D : List Int) (b : Int)
    (body : Nat → α → State → State × Option Nat) (C : Nat → α → List Int → Int → Prop)
    (hdisj : ∀ i j x y idx v v', i ≠ j → C i x idx v → ¬ C j y idx v') :
    ∀ (xs : List α) (i0 : Nat),
      (∀ k x, xs[k]? = some x → Writes name D b (body (i0 + k) x) (C (i0 + k) x)) →
      Writes name D b (enumFold body i0 xs)
        (fun idx v => ∃ k x, xs[k]? = some x ∧ C (i0 + k) x idx v) := by
  intro xs
  induction xs with
  | nil =>
    intro i0 _ st hs
    exact ⟨st, rfl, hs, fun idx v _ ⟨k, x, hk, _⟩ => by simp at hk, fun _ _ _ => rfl⟩
  | cons x xs ih =>
    intro i0 hw st hs
    have hw0 := hw 0 x (by simp)
    simp only [Nat.add_zero] at hw0
    obtain ⟨st1, h1, hs1, hc1, hf1⟩ := hw0 st hs
    have hw' : ∀ k y, xs[k]? = some y → Writes name D b (body (i0 + 1 + k) y) (C (i0 + 1 + k) y) := by
      intro k y hk
      have := hw (k + 1) y (by simpa using hk)
      have e : i0 + (k + 1) = i0 + 1 + k := by omega
      rw [e] at this; exact this
    obtain ⟨st', h2, hs2, hc2, hf2⟩ := ih (i0 + 1) hw' st1 hs1
    refine ⟨st', ?_, hs2, ?_, ?_⟩
    · show (match body i0 x st with
        | (st', some e) => (st', some e)
        | (st', none) => enumFold body (i0 + 1) xs st') = _
      rw [h1]; exact h2
    · rintro idx v hin ⟨k, y, hk, hc⟩
      cases k with
      | zero =>
        simp only [List.getElem?_cons_zero, Option.some.injEq] at hk
        subst hk
        simp only [Nat.add_zero] at hc
        have hnot : ∀ v', ¬ ∃ k y, xs[k]? = some y ∧ C (i0 + 1 + k) y idx v' := by
          rintro v' ⟨k, y, _, hc'⟩
          exact hdisj i0 (i0 + 1 + k) x y idx v v' (by omega) hc hc'
        rw [hf2 idx hin hnot]
        exact hc1 idx v hin hc
      | succ k =>
        simp only [List.getElem?_cons_succ] at hk
        have e : i0 + (k + 1) = i0 + 1 + k := by omega
        rw [e] at hc
        exact hc2 idx v hin ⟨k, y, hk, hc⟩
    · intro idx hin hnot
      have hn2 : ∀ v, ¬ ∃ k y, xs[k]? = some y ∧ C (i0 + 1 + k) y idx v := by
        rintro v ⟨k, y, hk, hc⟩
        have e : i0 + 1 + k = i0 + (k + 1) := by omega
        rw [e] at hc
        exact hnot v ⟨k + 1, y, by simpa using hk, hc⟩
      have hn1 : ∀ v, ¬ C i0 x idx v := by
        intro v hc
        exact hnot v ⟨0, x, by simp, by simpa using hc⟩
      rw [hf2 idx hin hn2, hf1 idx hin hn1]

/-! ### the three levels of `_from_list` -/

/-- leaf level: the row `vs` goes to the cells `pre ++ [k + b]` -/
theorem fromRow_writes (name : Nat) (D : List Int) (b : Int) (pre : List Int) (vs : List Int)
    (hne : vs ≠ [])
    (hin : ∀ k : Nat, k < vs.length → InBounds b (pre ++ [(k : Int) + b]) D) :
    Writes name D b (fromRow name pre vs)
      (fun idx v => ∃ k : Nat, vs[k]? = some v ∧ idx = pre ++ [(k : Int) + b]) := by
  have key := enumFold_writes name D b
    (fun i v st => Arrays.set st name (pre ++ [(i : Int) + st.b]) v)
    (fun i v idx u => idx = pre ++ [(i : Int) + b] ∧ u = v)
    (by
      rintro i j x y idx v v' hij ⟨h1, _⟩ ⟨h2, _⟩
      rw [h1] at h2
      have := List.append_cancel_left h2
      simp only [List.cons.injEq, and_true] at this
      omega)
    vs 0
    (by
      intro k x hk st hs
      have hlt : k < vs.length := by
        rcases Nat.lt_or_ge k vs.length with h | h
        · exact h
        · rw [List.getElem?_eq_none h] at hk; cases hk
      simp only [Nat.zero_add]
      obtain ⟨st', h1, h2, h3, h4⟩ := set_has hs (pre ++ [(k : Int) + b]) (hin k hlt) x
      refine ⟨st', by rw [hs.hb]; exact h1, h2, ?_, ?_⟩
      · rintro idx v _ ⟨rfl, rfl⟩; exact h3
      · intro idx hi hn
        exact h4 idx hi (fun he => hn x ⟨he, rfl⟩))
  intro st hs
  obtain ⟨st', h1, h2, h3, h4⟩ := key st hs
  refine ⟨st', by unfold fromRow; rw [if_neg hne]; exact h1, h2, ?_, ?_⟩
  · rintro idx v hi ⟨k, hk, he⟩
    exact h3 idx v hi ⟨k, v, hk, by simpa using he, rfl⟩
  · intro idx hi hn
    refine h4 idx hi ?_
    rintro v ⟨k, x, hk, he, rfl⟩
    exact hn v ⟨k, hk, by simpa using he⟩

theorem prefix_disjoint (pre : List Int) (b : Int) (i j : Nat) (s t : List Int) (hij : i ≠ j) :
    pre ++ [(i : Int) + b] ++ s ≠ pre ++ [(j : Int) + b] ++ t := by
  intro h
  rw [List.append_assoc, List.append_assoc] at h
  have := List.append_cancel_left h
  simp only [List.cons_append, List.nil_append, List.cons.injEq] at this
  omega

/-- second level: row `i` of `rows` goes to the cells `pre ++ [i + b, j + b]` -/
theorem fromRows_writes (name : Nat) (D : List Int) (b : Int) (pre : List Int)
    (rows : List (List Int)) (hne : rows ≠ []) (hrow : ∀ r ∈ rows, r ≠ [])
    (hin : ∀ (i : Nat) (r : List Int), rows[i]? = some r → ∀ j : Nat, j < r.length →
      InBounds b (pre ++ [(i : Int) + b] ++ [(j : Int) + b]) D) :
    Writes name D b (fromRows name pre rows)
      (fun idx v => ∃ (i : Nat) (r : List Int) (j : Nat), rows[i]? = some r ∧ r[j]? = some v ∧
        idx = pre ++ [(i : Int) + b] ++ [(j : Int) + b]) := by
  have key := enumFold_writes name D b
    (fun i r st => fromRow name (pre ++ [(i : Int) + st.b]) r st)
    (fun i r idx v => ∃ j : Nat, r[j]? = some v ∧ idx = pre ++ [(i : Int) + b] ++ [(j : Int) + b])
    (by
      rintro i j x y idx v v' hij ⟨_, _, h1⟩ ⟨_, _, h2⟩
      rw [h1] at h2
      exact prefix_disjoint pre b i j _ _ hij h2)
    rows 0
    (by
      intro k r hk st hs
      simp only [Nat.zero_add]
      have hmem : r ∈ rows := List.mem_of_getElem? hk
      have := fromRow_writes name D b (pre ++ [(k : Int) + b]) r (hrow r hmem) (hin k r hk) st hs
      rw [hs.hb]; exact this)
  intro st hs
  obtain ⟨st', h1, h2, h3, h4⟩ := key st hs
  refine ⟨st', by unfold fromRows; rw [if_neg hne]; exact h1, h2, ?_, ?_⟩
  · rintro idx v hi ⟨i, r, j, hr, hj, he⟩
    exact h3 idx v hi ⟨i, r, hr, j, hj, by simpa using he⟩
  · intro idx hi hn
    refine h4 idx hi ?_
    rintro v ⟨i, r, hr, j, hj, he⟩
    exact hn v ⟨i, r, j, hr, hj, by simpa using he⟩

/-- third level -/
theorem fromPlanes_writes (name : Nat) (D : List Int) (b : Int) (pre : List Int)
    (ps : List (List (List Int))) (hne : ps ≠ []) (hpl : ∀ p ∈ ps, p ≠ [])
    (hrow : ∀ p ∈ ps, ∀ r ∈ p, r ≠ [])
    (hin : ∀ (h : Nat) (p : List (List Int)), ps[h]? = some p → ∀ (i : Nat) (r : List Int), p[i]? = some r →
      ∀ j : Nat, j < r.length →
      InBounds b (pre ++ [(h : Int) + b] ++ [(i : Int) + b] ++ [(j : Int) + b]) D) :
    Writes name D b (fromPlanes name pre ps)
      (fun idx v => ∃ (h : Nat) (p : List (List Int)) (i : Nat) (r : List Int) (j : Nat),
        ps[h]? = some p ∧ p[i]? = some r ∧ r[j]? = some v ∧
        idx = pre ++ [(h : Int) + b] ++ [(i : Int) + b] ++ [(j : Int) + b]) := by
  have key := enumFold_writes name D b
    (fun h p st => fromRows name (pre ++ [(h : Int) + st.b]) p st)
    (fun h p idx v => ∃ (i : Nat) (r : List Int) (j : Nat), p[i]? = some r ∧ r[j]? = some v ∧
      idx = pre ++ [(h : Int) + b] ++ [(i : Int) + b] ++ [(j : Int) + b])
    (by
      rintro i j x y idx v v' hij ⟨_, _, _, _, _, h1⟩ ⟨_, _, _, _, _, h2⟩
      rw [h1] at h2
      rw [List.append_assoc (pre ++ [(i : Int) + b]), List.append_assoc (pre ++ [(j : Int) + b])] at h2
      exact prefix_disjoint pre b i j _ _ hij h2)
    ps 0
    (by
      intro k p hk st hs
      simp only [Nat.zero_add]
      have hmem : p ∈ ps := List.mem_of_getElem? hk
      have := fromRows_writes name D b (pre ++ [(k : Int) + b]) p (hpl p hmem) (hrow p hmem)
        (hin k p hk) st hs
      rw [hs.hb]; exact this)
  intro st hs
  obtain ⟨st', h1, h2, h3, h4⟩ := key st hs
  refine ⟨st', by unfold fromPlanes; rw [if_neg hne]; exact h1, h2, ?_, ?_⟩
  · rintro idx v hi ⟨h, p, i, r, j, hp, hr, hj, he⟩
    exact h3 idx v hi ⟨h, p, hp, i, r, j, hr, hj, by simpa using he⟩
  · intro idx hi hn
    refine h4 idx hi ?_
    rintro v ⟨h, p, hp, i, r, j, hr, hj, he⟩
    exact hn v ⟨h, p, i, r, j, hp, hr, hj, by simpa using he⟩

/-! ### reading back -/

theorem pyRange_eq (b : Int) (n : Nat) (hn : 0 < n) :
    pyRange b ((n : Int) - 1 + b) = (List.range n).map fun (i : Nat) => b + (i : Int) := by
  unfold pyRange
  have : ((n : Int) - 1 + b + 1 - b).toNat = n := by omega
  rw [this]

/-- `to_list` of one row whose cells hold `r` -/
theorem toRow_eq (st : State) (name : Nat) (b : Int) (hb : st.b = b) (pre : List Int) (r : List Int)
    (hr : r ≠ [])
    (h : ∀ (j : Nat) (v : Int), r[j]? = some v → rd st name (pre ++ [(j : Int) + b]) = v) :
    toRow st name pre ((r.length : Int) - 1 + b) = r := by
  unfold toRow
  rw [hb, pyRange_eq b r.length (List.length_pos_iff.2 hr), List.map_map]
  apply List.ext_getElem
  · simp
  · intro j h1 h2
    simp only [List.getElem_map, List.getElem_range, Function.comp]
    have := h j r[j] (by simp [List.getElem?_eq_getElem h2])
    rw [show b + (j : Int) = (j : Int) + b by omega]
    exact this

/-- `to_list` of a block of rows whose cells hold the rectangular `rows` -/
theorem toRows_eq (st : State) (name : Nat) (b : Int) (hb : st.b = b) (pre : List Int)
    (rows : List (List Int)) (hne : rows ≠ []) (n1 : Nat) (hn1 : 0 < n1)
    (hrect : ∀ r ∈ rows, r.length = n1)
    (h : ∀ (i : Nat) (r : List Int) (j : Nat) (v : Int), rows[i]? = some r → r[j]? = some v →
      rd st name (pre ++ [(i : Int) + b] ++ [(j : Int) + b]) = v) :
    toRows st name pre ((rows.length : Int) - 1 + b) ((n1 : Int) - 1 + b) = rows := by
  unfold toRows
  rw [hb, pyRange_eq b rows.length (List.length_pos_iff.2 hne)]
  rw [List.map_map]
  apply List.ext_getElem
  · simp
  · intro i h1 h2
    simp only [List.getElem_map, List.getElem_range, Function.comp]
    have hmem : rows[i] ∈ rows := List.getElem_mem h2
    have hlen := hrect _ hmem
    have hr : rows[i] ≠ [] := by
      intro he; rw [he] at hlen; simp at hlen; omega
    rw [show b + (i : Int) = (i : Int) + b by omega, ← hlen]
    exact toRow_eq st name b hb _ _ hr
      (fun j v hj => h i rows[i] j v (by simp [List.getElem?_eq_getElem h2]) hj)

/-- `to_list` of a block of planes whose cells hold the rectangular `ps` -/
theorem toPlanes_eq (st : State) (name : Nat) (b : Int) (hb : st.b = b) (pre : List Int)
    (ps : List (List (List Int))) (hne : ps ≠ []) (n1 n2 : Nat) (hn1 : 0 < n1) (hn2 : 0 < n2)
    (hrect1 : ∀ p ∈ ps, p.length = n1) (hrect2 : ∀ p ∈ ps, ∀ r ∈ p, r.length = n2)
    (h : ∀ (g : Nat) (p : List (List Int)) (i : Nat) (r : List Int) (j : Nat) (v : Int),
      ps[g]? = some p → p[i]? = some r → r[j]? = some v →
      rd st name (pre ++ [(g : Int) + b] ++ [(i : Int) + b] ++ [(j : Int) + b]) = v) :
    toPlanes st name pre ((ps.length : Int) - 1 + b) ((n1 : Int) - 1 + b) ((n2 : Int) - 1 + b) = ps := by
  unfold toPlanes
  rw [hb, pyRange_eq b ps.length (List.length_pos_iff.2 hne)]
  rw [List.map_map]
  apply List.ext_getElem
  · simp
  · intro g h1 h2
    simp only [List.getElem_map, List.getElem_range, Function.comp]
    have hmem : ps[g] ∈ ps := List.getElem_mem h2
    have hlen := hrect1 _ hmem
    have hp : ps[g] ≠ [] := by
      intro he; rw [he] at hlen; simp at hlen; omega
    rw [show b + (g : Int) = (g : Int) + b by omega, ← hlen]
    exact toRows_eq st name b hb _ _ hp n2 hn2 (hrect2 _ hmem)
      (fun i r j v hi hj => h g ps[g] i r j v (by simp [List.getElem?_eq_getElem h2]) hi hj)

end PcbV.SessionApi
