import PcbV.Lemmas.TokStep
import PcbV.Lemmas.TokData
/-
  Lemmas for C17: the grammar fragment (items), well-formedness for the tokeniser and for the lister,
  and the two simulation theorems  tokenise (text is) = tokens is,  list (tokens is) = text is.
-/
namespace PcbV.TokL
open PcbV PcbV.Gen PcbV.Gen.Tokens PcbV.Tok PcbV.Lst


/-! ## the grammar fragment: items, their text and their tokens -/

inductive Item where
  | sp                                        -- one blank
  | str (b : Bytes)                           -- "b"
  | punct (c : Nat)                           -- , ; : ( ) # $ % ! …
  | op (c x : Nat)                            -- operator character c, token x
  | kw (k tok : Bytes)                        -- keyword k of the table, token bytes tok
  | ident (w : Bytes)                         -- variable / function name (upper case)
  | num (txt : Bytes) (lead : Nat) (pay : Bytes)  -- number literal: text, token = lead :: pay
  | jump (n : Nat)                            -- line-number reference
  | rem (b : Bytes)                           -- REM b   (to the end of the line)
  | quote (b : Bytes)                         -- 'b      (to the end of the line)
  | tab                                       -- one TAB
  | raw (c : Nat)                             -- digit or point where no number is allowed (OPTION BASE 1)
  | strOpen (b : Bytes)                       -- "b  left open by the end of the line
  | data (b : Bytes)                          -- DATA b  (raw up to a `:` outside quotes or the end of the line)
  -- spellings that only the tokeniser sees (the lister never prints them; see `canon`)
  | kwAs (w k tok : Bytes)                    -- keyword k typed as w (any letter case)
  | qmark                                     -- ? for PRINT
  | goTo (w k tok : Bytes)                    -- GO TO / GO SUB forms: w = G O <blanks> T O / G O <blank> S U B

def Item.text : Item → Bytes
  | .sp => [32]
  | .str b => 34 :: (b ++ [34])
  | .punct c => [c]
  | .op c _ => [c]
  | .kw k _ => k
  | .ident w => w
  | .num txt _ _ => txt
  | .jump n => showBase 10 n
  | .rem b => kwRem ++ b
  | .quote b => 39 :: b
  | .tab => [9]
  | .raw c => [c]
  | .strOpen b => 34 :: b
  | .data b => kwData ++ b
  | .kwAs w _ _ => w
  | .qmark => [63]
  | .goTo w _ _ => w

def Item.enc : Item → Bytes
  | .sp => [32]
  | .str b => 34 :: (b ++ [34])
  | .punct c => [c]
  | .op _ x => [x]
  | .kw k tok => emitKw k tok
  | .ident w => w
  | .num _ lead pay => lead :: pay
  | .jump n => [tTUINT, lo n, hi n]
  | .rem b => tREM :: b
  | .quote b => [58, tREM, tOREM] ++ b
  | .tab => [9]
  | .raw c => [c]
  | .strOpen b => 34 :: b
  | .data b => tDATA :: b
  | .kwAs _ k tok => emitKw k tok
  | .qmark => [tPRINT]
  | .goTo _ k tok => emitKw k tok

def textAll : List Item → Bytes
  | [] => []
  | i :: is => i.text ++ textAll is

def encAll : List Item → Bytes
  | [] => []
  | i :: is => i.enc ++ encAll is

/-! ### well-formedness for the tokeniser (state-dependent, with one item of look-ahead text) -/

def nextSt (t : Table) (s : St) : Item → St
  | .punct c => punctSt s c
  | .op _ _ => { s with an := true }
  | .kw k _ => wordSt t s k
  | .ident w => wordSt t s w
  | .raw _ => { s with aj := false, an := false }
  | .kwAs _ k _ => wordSt t s k
  | .qmark => { s with aj := false, an := true }
  | .goTo _ k _ => wordSt t s k
  | _ => s

def startsLetter (w : Bytes) : Prop := ∃ c w', w = c :: w' ∧ isLetter c = true

def okT (old : Bool) (t : Table) (cd : Codec) (s : St) (i : Item) (R : Bytes) (last : Prop) : Prop :=
  match i with
  | .sp => True
  | .str b => ∀ c ∈ b, strChar c = true
  | .punct c => punctList.contains c = true
  | .op c x => asciiOperators.contains c = true ∧ toToken t [c] = some [x]
  | .kw k tok => toToken t k = some tok ∧ kwScanOK t k = true ∧ startsLetter k ∧ k ≠ kwRem ∧ k ≠ kwOrem ∧ k ≠ kwData
      ∧ (isNoLookahead k = true ∨ nextNotName R = true)
  | .ident w => startsLetter w ∧ identScanOKGo t [] w = true ∧ identFollowOK t w R = true
      ∧ w ≠ kwRem ∧ w ≠ kwOrem ∧ w ≠ kwData
  | .num txt lead pay => (∃ c txt', txt = c :: txt' ∧ (c = 38 ∨ (s.an = true ∧ s.aj = false ∧ (isDigit c = true ∨ c = 46))))
      ∧ tokNumber old cd (txt ++ R) = .ok (lead :: pay, R)
  | .jump n => s.an = true ∧ s.aj = true ∧ n ≤ 65529 ∧ jumpFollowOK R = true
  | .rem b => last ∧ toToken t kwRem = some [tREM] ∧ kwScanOK t kwRem = true ∧ nextNotName b = true
      ∧ ∀ x ∈ b, remEnd x = false
  | .quote b => last ∧ ∀ x ∈ b, remEnd x = false
  | .tab => True
  | .raw c => s.an = false ∧ (isDigit c = true ∨ c = 46)
  | .strOpen b => last ∧ ∀ c ∈ b, strChar c = true
  | .data b => toToken t kwData = some [tDATA] ∧ kwScanOK t kwData = true ∧ nextNotName (b ++ R) = true
      ∧ dataOK R false b = true
  | .kwAs w k tok => toToken t k = some tok ∧ kwScanOK t k = true ∧ startsLetter w ∧ w.map upper = k ∧ k ≠ []
      ∧ k ≠ kwRem ∧ k ≠ kwOrem ∧ k ≠ kwData ∧ (isNoLookahead k = true ∨ nextNotName R = true)
  | .qmark => old = false
  | .goTo w k tok => (∃ g o mid allow, w = g :: o :: mid ∧ upper g = 71 ∧ upper o = 79
        ∧ wideGo (mid ++ R) = some (k, R, allow))
      ∧ toToken t [71] = none ∧ toToken t k = some tok ∧ (k = kwGoto ∨ k = kwGosub)

def wfT (old : Bool) (t : Table) (cd : Codec) : St → List Item → Prop
  | _, [] => True
  | s, i :: is => okT old t cd s i (textAll is) (is = []) ∧ wfT old t cd (nextSt t s i) is

theorem prepend_ok (a b : Bytes) : prepend a (.ok b) = .ok (a ++ b) := rfl

/-- the tokeniser turns the text of a well-formed item sequence into its tokens -/
theorem tok_items (old : Bool) (t : Table) (cd : Codec) : ∀ (is : List Item) (s : St) (f : Nat), is.length ≤ f →
    wfT old t cd s is → tokLoop old t cd f s (textAll is) = .ok (encAll is) := by
  intro is
  induction is with
  | nil => intro s f _ _; simp [textAll, encAll, tokLoop_nil]
  | cons i is ih =>
    intro s f hf hw
    obtain ⟨f', rfl⟩ : ∃ f', f = f' + 1 := ⟨f - 1, by simp at hf; omega⟩
    have hf' : is.length ≤ f' := by simp at hf; omega
    obtain ⟨hi, hrest⟩ := hw
    have IH := ih (nextSt t s i) f' hf' hrest
    cases i with
    | sp =>
      simp only [textAll, encAll, Item.text, Item.enc, List.cons_append, List.nil_append]
      rw [tok_sp]; simp only [nextSt] at IH; rw [IH]; rfl
    | str b =>
      simp only [okT] at hi
      simp only [textAll, encAll, Item.text, Item.enc, List.cons_append, List.append_assoc, List.nil_append]
      rw [tok_str old t cd f' s b _ hi]; simp only [nextSt] at IH; rw [IH]; simp [prepend_ok]
    | punct c =>
      simp only [okT] at hi
      simp only [textAll, encAll, Item.text, Item.enc, List.cons_append, List.nil_append]
      rw [tok_punct old t cd f' s c _ hi]; simp only [nextSt] at IH; rw [IH]; rfl
    | op c x =>
      simp only [okT] at hi
      simp only [textAll, encAll, Item.text, Item.enc, List.cons_append, List.nil_append]
      rw [tok_op old t cd f' s c [x] _ hi.1 hi.2]; simp only [nextSt] at IH; rw [IH]; rfl
    | kw k tok =>
      simp only [okT] at hi
      obtain ⟨h1, h2, ⟨c, k', rfl, hc⟩, h4, h5, h6, h7⟩ := hi
      have hup : (c :: k').map upper = c :: k' := by
        simp only [kwScanOK, Bool.and_eq_true, beq_iff_eq] at h2; exact h2.1.2
      have hscan := scanWord_kw t (c :: k') tok (c :: k') (textAll is) h1 h2 (by simp) hup h7
      simp only [textAll, encAll, Item.text, Item.enc]
      rw [List.cons_append] at hscan ⊢
      rw [tok_word old t cd f' s c k' (c :: k') (emitKw (c :: k') tok) _ hc hscan h4 h5 h6]
      simp only [nextSt] at IH; rw [IH]; rfl
    | ident w =>
      simp only [okT] at hi
      obtain ⟨⟨c, w', rfl, hc⟩, h2, h3, h4, h5, h6⟩ := hi
      have hscan := scanWord_ident_go t (textAll is) (c :: w') [] h2 (by simp) (by simpa using h3)
      simp only [textAll, encAll, Item.text, Item.enc]
      simp only [List.nil_append] at hscan
      rw [List.cons_append] at hscan ⊢
      rw [tok_word old t cd f' s c w' (c :: w') (c :: w') _ hc hscan h4 h5 h6]
      simp only [nextSt] at IH; rw [IH]; rfl
    | num txt lead pay =>
      simp only [okT] at hi
      obtain ⟨⟨c, txt', rfl, hst⟩, hnum⟩ := hi
      simp only [textAll, encAll, Item.text, Item.enc]
      rw [List.cons_append] at hnum ⊢
      rw [tok_num old t cd f' s c txt' (lead :: pay) _ hst hnum]
      simp only [nextSt] at IH; rw [IH]; rfl
    | jump n =>
      simp only [okT] at hi
      simp only [textAll, encAll, Item.text, Item.enc]
      rw [tok_jump old t cd f' s n _ hi.1 hi.2.1 hi.2.2.1 hi.2.2.2]
      simp only [nextSt] at IH; rw [IH]; rfl
    | rem b =>
      simp only [okT] at hi
      obtain ⟨hl, h1, h2, h3, h4⟩ := hi
      subst hl
      have hscan := scanWord_kw t kwRem [tREM] kwRem b h1 h2 (by simp [kwRem]) (by decide) (Or.inr h3)
      have he : emitKw kwRem [tREM] = [tREM] := by decide
      rw [he] at hscan
      simp only [textAll, encAll, Item.text, Item.enc, List.append_nil]
      have := tok_rem old t cd f' s 82 [69, 77] [tREM] b (by decide) (by simpa [kwRem] using hscan) h4
      simpa [kwRem] using this
    | quote b =>
      simp only [okT] at hi
      obtain ⟨hl, h4⟩ := hi
      subst hl
      simp only [textAll, encAll, Item.text, Item.enc, List.append_nil, List.cons_append]
      exact tok_quote old t cd f' s b h4
    | tab =>
      simp only [textAll, encAll, Item.text, Item.enc, List.cons_append, List.nil_append]
      rw [tok_tab]; simp only [nextSt] at IH; rw [IH]; rfl
    | raw c =>
      simp only [okT] at hi
      simp only [textAll, encAll, Item.text, Item.enc, List.cons_append, List.nil_append]
      rw [tok_raw old t cd f' s c _ hi.2 hi.1]; simp only [nextSt] at IH; rw [IH]; rfl
    | strOpen b =>
      simp only [okT] at hi
      obtain ⟨hl, h4⟩ := hi
      subst hl
      simp only [textAll, encAll, Item.text, Item.enc, List.append_nil]
      exact tok_str_open old t cd f' s b h4
    | data b =>
      simp only [okT] at hi
      obtain ⟨h1, h2, h3, h4⟩ := hi
      have hscan := scanWord_kw t kwData [tDATA] kwData (b ++ textAll is) h1 h2 (by simp [kwData]) (by decide) (Or.inr h3)
      have he : emitKw kwData [tDATA] = [tDATA] := by decide
      rw [he] at hscan
      simp only [textAll, encAll, Item.text, Item.enc, List.append_assoc]
      have := tok_data old t cd f' s 68 [65, 84, 65] [tDATA] b (textAll is) (by decide) (by simpa [kwData] using hscan) h4
      simp only [nextSt] at IH
      rw [IH] at this
      simpa [kwData, prepend_ok] using this
    | kwAs w k tok =>
      simp only [okT] at hi
      obtain ⟨h1, h2, ⟨c, w', rfl, hc⟩, hup, hk, h4, h5, h6, h7⟩ := hi
      have hscan := scanWord_kw t k tok (c :: w') (textAll is) h1 h2 hk hup h7
      simp only [textAll, encAll, Item.text, Item.enc]
      rw [List.cons_append] at hscan ⊢
      rw [tok_word old t cd f' s c w' k (emitKw k tok) _ hc hscan h4 h5 h6]
      simp only [nextSt] at IH; rw [IH]; rfl
    | qmark =>
      simp only [okT] at hi
      subst hi
      simp only [textAll, encAll, Item.text, Item.enc, List.cons_append, List.nil_append]
      rw [tok_qmark]; simp only [nextSt] at IH; rw [IH]; rfl
    | goTo w k tok =>
      simp only [okT] at hi
      obtain ⟨⟨g, o, mid, allow, rfl, hg, ho, hw⟩, hG, ht, hk⟩ := hi
      have hscan := scanWord_go t g o (mid ++ textAll is) k tok (textAll is) allow hg ho hG hw ht
      have hgl : isLetter g = true := by
        simp only [isLetter, isUpper, Bool.or_eq_true, decide_eq_true_eq]
        by_cases hl : isLower g = true
        · exact Or.inr hl
        · have : g = 71 := by simpa [upper, hl] using hg
          left; omega
      have hne : k ≠ kwRem ∧ k ≠ kwOrem ∧ k ≠ kwData := by
        rcases hk with rfl | rfl <;> decide
      simp only [textAll, encAll, Item.text, Item.enc]
      rw [List.cons_append, List.cons_append] at ⊢
      have e : g :: o :: (mid ++ textAll is) = g :: ((o :: mid) ++ textAll is) := by simp
      rw [e] at hscan ⊢
      rw [tok_word old t cd f' s g (o :: mid) k (emitKw k tok) _ hgl hscan hne.1 hne.2.1 hne.2.2]
      simp only [nextSt] at IH; rw [IH]; rfl




/-! ### well-formedness for the lister (depends on the text written so far and the next token byte) -/

/-- loop iterations the lister spends on an item -/
def cost : Item → Nat
  | .sp => 1
  | .str b => b.length + 2
  | .punct _ => 1
  | .op _ _ => 1
  | .kw k _ => if k = kwElse ∨ k = kwWhile then 2 else 1
  | .ident w => w.length
  | .num _ _ _ => 1
  | .jump _ => 1
  | .rem b => b.length + 1
  | .quote b => b.length + 3
  | .tab => 1
  | .raw _ => 1
  | .strOpen b => b.length + 1
  | .data b => b.length + 1
  | .kwAs _ _ _ => 1
  | .qmark => 1
  | .goTo _ _ _ => 1

def costAll : List Item → Nat
  | [] => 0
  | i :: is => cost i + costAll is

def okL (old : Bool) (t : Table) (cd : Codec) (out : Bytes) (i : Item) (E : Bytes) (last : Prop) : Prop :=
  match i with
  | .sp => True
  | .str b => ∀ c ∈ b, strChar c = true
  | .punct c => punctList.contains c = true
  | .op c x => toKeyword t [x] = some [c] ∧ operatorToks.contains x = true
      ∧ (x = tOPLUS → kwWhile.isSuffixOf out = false)
  | .kw k tok =>
      if k = kwElse then tok = [tELSE] ∧ toKeyword t [tELSE] = some kwElse ∧ followsNoSpace E.head? = true
      else if k = kwWhile then tok = [tWHILE] ∧ toKeyword t [tWHILE] = some kwWhile
        ∧ (∃ p, toKeyword t [tOPLUS] = some p) ∧ prevOK out = true
      else prevOK out = true ∧
        ((∃ x, tok = [x] ∧ 127 ≤ x ∧ toKeyword t [x] = some k ∧ operatorToks.contains x = false ∧ x ≠ tREM
            ∧ x ≠ tOREM ∧ x ≠ tELSE ∧ (isQuietTok x = true ∨ followsNoSpace E.head? = true))
         ∨ (∃ x y, tok = [x, y] ∧ 127 ≤ x ∧ toKeyword t [x] = none ∧ toKeyword t [x, y] = some k
            ∧ followsNoSpace E.head? = true))
  | .ident w => ∀ c ∈ w, isNameChar c = true
  | .num txt lead pay => isLead lead = true ∧ listNumber old cd lead (pay ++ E) = .ok (txt, E)
  | .jump n => n < 65536
  | .rem b => last ∧ toKeyword t [tREM] = some kwRem ∧ prevOK out = true ∧ b.head? ≠ some tOREM
      ∧ ∀ c ∈ b, remChar c = true
  | .quote b => last ∧ (∃ kw, toKeyword t [tREM] = some kw) ∧ ∀ c ∈ b, remChar c = true
  | .tab => True
  | .raw c => isDigit c = true ∨ c = 46
  | .strOpen b => last ∧ ∀ c ∈ b, strChar c = true
  | .data b => toKeyword t [tDATA] = some kwData ∧ prevOK out = true ∧ followsNoSpace (b ++ E).head? = true
      ∧ dataOK E false b = true
  | .kwAs _ _ _ => False
  | .qmark => False
  | .goTo _ _ _ => False

def wfL (old : Bool) (t : Table) (cd : Codec) : Bytes → List Item → Prop
  | _, [] => True
  | out, i :: is => okL old t cd out i (encAll is) (is = []) ∧ wfL old t cd (out ++ i.text) is

theorem listLoop_nil (old : Bool) (t : Table) (cd : Codec) (f : Nat) (lit com : Bool) (out : Bytes) :
    listLoop old t cd f lit com out [] = .ok out := by
  cases f <;> simp [listLoop]

theorem nameChar_printable {c : Nat} (h : isNameChar c = true) : 32 ≤ c ∧ c ≤ 126 ∧ c ≠ 34 := by
  simp only [isNameChar, isAlnum, isLetter, isUpper, isLower, isDigit, Bool.or_eq_true, decide_eq_true_eq,
    beq_iff_eq] at h
  omega

theorem punct_printable {c : Nat} (h : punctList.contains c = true) : 32 ≤ c ∧ c ≤ 126 ∧ c ≠ 34 := by
  simp only [punctList, List.contains_eq_mem, List.mem_cons, List.not_mem_nil, or_false, decide_eq_true_eq] at h
  omega

/-- the lister turns the tokens of a well-formed item sequence into its text -/
theorem lst_items (old : Bool) (t : Table) (cd : Codec) : ∀ (is : List Item) (out : Bytes) (f : Nat),
    costAll is ≤ f → wfL old t cd out is →
    listLoop old t cd f false false out (encAll is) = .ok (out ++ textAll is) := by
  intro is
  induction is with
  | nil => intro out f _ _; simp [textAll, encAll, listLoop_nil]
  | cons i is ih =>
    intro out f hf hw
    obtain ⟨hok, hrest⟩ := hw
    simp only [costAll] at hf
    obtain ⟨g, rfl⟩ : ∃ g, f = g + cost i := ⟨f - cost i, by omega⟩
    have IH := ih (out ++ i.text) g (by omega) hrest
    cases i with
    | sp =>
      simp only [textAll, encAll, Item.text, Item.enc, cost, List.cons_append, List.nil_append] at IH ⊢
      rw [lst_char old t cd g false false out 32 _ (by omega) (by omega) (not_lead_of_ge (by omega))
        (Or.inr (Or.inr (by omega))), IH]
      simp
    | str b =>
      simp only [okL] at hok
      simp only [textAll, encAll, Item.text, Item.enc, cost, List.cons_append, List.append_assoc,
        List.nil_append] at IH ⊢
      rw [lst_str old t cd g out b _ hok]
      simpa using IH
    | punct c =>
      simp only [okL] at hok
      obtain ⟨p1, p2, p3⟩ := punct_printable hok
      simp only [textAll, encAll, Item.text, Item.enc, cost, List.cons_append, List.nil_append] at IH ⊢
      rw [lst_char old t cd g false false out c _ (by omega) p3 (not_lead_of_ge p1) (Or.inr (Or.inr ⟨p1, p2⟩)), IH]
      simp
    | op c x =>
      simp only [okL] at hok
      obtain ⟨h1, h2, h3⟩ := hok
      simp only [textAll, encAll, Item.text, Item.enc, cost, List.cons_append, List.nil_append] at IH ⊢
      rw [lst_token old t cd g out x _ (op_facts h2).2.2.2, listKeyword_op t x [c] out _ h1 h2 h3]
      exact IH.trans (by simp)
    | kw k tok =>
      simp only [okL] at hok
      simp only [textAll, encAll, Item.text, Item.enc, cost] at IH ⊢
      by_cases hke : k = kwElse
      · subst hke
        simp only [if_true] at hok
        obtain ⟨rfl, h2, h3⟩ := hok
        have he : emitKw kwElse [tELSE] = [58, tELSE] := by decide
        simp only [he, true_or, if_true, List.cons_append, List.nil_append]
        have e : g + 2 = (g + 1) + 1 := by omega
        rw [e, lst_char old t cd (g + 1) false false out 58 _ (by omega) (by omega) (not_lead_of_ge (by omega))
          (Or.inr (Or.inr (by omega))), lst_token old t cd g _ tELSE _ (by decide), listKeyword_else t kwElse out _ h2 h3]
        simpa using IH
      · by_cases hkw : k = kwWhile
        · subst hkw
          simp only [hke, if_false, if_true] at hok
          obtain ⟨rfl, h2, ⟨p, h3⟩, h4⟩ := hok
          have he : emitKw kwWhile [tWHILE] = [tWHILE, tOPLUS] := by decide
          simp only [he, or_true, if_true, List.cons_append, List.nil_append]
          have e : g + 2 = (g + 1) + 1 := by omega
          have hf : followsNoSpace (tOPLUS :: encAll is).head? = true := by
            simp [followsNoSpace, operatorToks, tOPLUS]
          rw [e, lst_token old t cd (g + 1) out tWHILE _ (by decide),
            listKeyword_plain1 t tWHILE kwWhile out _ h2 (by decide) h4 (by decide) (by decide) (by decide) (Or.inr hf),
            lst_token old t cd g _ tOPLUS _ (by decide), listKeyword_whileplus t p out _ h3]
          simpa using IH
        · simp only [hke, hkw, if_false] at hok
          simp only [hke, hkw, or_self, if_false]
          have hem : emitKw k tok = tok := by
            unfold emitKw
            simp [hke, hkw]
          rw [hem]
          obtain ⟨hp, hcase⟩ := hok
          rcases hcase with ⟨x, rfl, hx, h1, h2, h3, h4, h5, h6⟩ | ⟨x, y, rfl, hx, h1, h2, h3⟩
          · simp only [List.cons_append, List.nil_append]
            rw [lst_token old t cd g out x _ hx, listKeyword_plain1 t x k out _ h1 h2 hp h3 h4 h5 h6]
            simpa using IH
          · simp only [List.cons_append, List.nil_append]
            rw [lst_token old t cd g out x _ hx, listKeyword_plain2 t x y k out _ h1 h2 hp h3]
            simpa using IH
    | ident w =>
      simp only [okL] at hok
      simp only [textAll, encAll, Item.text, Item.enc, cost] at IH ⊢
      rw [lst_printable old t cd false false _ w g out (fun c hc => nameChar_printable (hok c hc))]
      simpa using IH
    | num txt lead pay =>
      simp only [okL] at hok
      simp only [textAll, encAll, Item.text, Item.enc, cost, List.cons_append] at IH ⊢
      rw [lst_num old t cd g false false out lead pay txt _ hok.1 hok.2]
      simpa using IH
    | jump n =>
      simp only [okL] at hok
      simp only [textAll, encAll, Item.text, Item.enc, cost, List.cons_append, List.nil_append] at IH ⊢
      have := lst_num old t cd g false false out tTUINT [lo n, hi n] (showBase 10 n) (encAll is) (by decide)
        (by simpa using listNumber_uint old cd n hok (encAll is))
      simp only [List.cons_append, List.nil_append] at this
      rw [this]
      simpa using IH
    | rem b =>
      simp only [okL] at hok
      obtain ⟨hl, h1, h2, h3, h4⟩ := hok
      subst hl
      simp only [textAll, encAll, Item.text, Item.enc, cost, List.append_nil, List.cons_append]
      have e : g + (b.length + 1) = (g + b.length) + 1 := by omega
      rw [e, lst_token old t cd _ out tREM _ (by decide), listKeyword_rem t kwRem out b h1 h2 h3,
        lst_comment old t cd b _ false _ (by omega) h4]
      simp
    | quote b =>
      simp only [okL] at hok
      obtain ⟨hl, ⟨kw, h1⟩, h4⟩ := hok
      subst hl
      simp only [textAll, encAll, Item.text, Item.enc, cost, List.append_nil, List.cons_append, List.nil_append]
      have e : g + (b.length + 3) = ((g + b.length + 1) + 1) + 1 := by omega
      rw [e, lst_char old t cd _ false false out 58 _ (by omega) (by omega) (not_lead_of_ge (by omega))
          (Or.inr (Or.inr (by omega))),
        lst_token old t cd _ _ tREM _ (by decide), listKeyword_quote t kw out b h1,
        lst_comment old t cd b _ false _ (by omega) h4]
      simp [kwOrem]
    | tab =>
      simp only [textAll, encAll, Item.text, Item.enc, cost, List.cons_append, List.nil_append] at IH ⊢
      rw [lst_tab, IH]; simp
    | raw c =>
      simp only [okL] at hok
      have hc : 32 ≤ c ∧ c ≤ 126 ∧ c ≠ 34 := by
        rcases hok with h | rfl
        · have : 48 ≤ c ∧ c ≤ 57 := by simpa [isDigit] using h
          omega
        · omega
      simp only [textAll, encAll, Item.text, Item.enc, cost, List.cons_append, List.nil_append] at IH ⊢
      rw [lst_char old t cd g false false out c _ (by omega) hc.2.2 (not_lead_of_ge hc.1) (Or.inr (Or.inr ⟨hc.1, hc.2.1⟩)), IH]
      simp
    | strOpen b =>
      simp only [okL] at hok
      obtain ⟨hl, h4⟩ := hok
      subst hl
      simp only [textAll, encAll, Item.text, Item.enc, cost, List.append_nil]
      exact lst_str_open old t cd g out b h4
    | data b =>
      simp only [okL] at hok
      obtain ⟨h1, h2, h3, h4⟩ := hok
      simp only [textAll, encAll, Item.text, Item.enc, cost, List.cons_append] at IH ⊢
      have e : g + (b.length + 1) = (g + b.length) + 1 := by omega
      rw [e, lst_token old t cd _ out tDATA _ (by decide),
        listKeyword_plain1 t tDATA kwData out _ h1 (by decide) h2 (by decide) (by decide) (by decide) (Or.inr h3),
        lst_data old t cd (encAll is) (encAll is) b g false _ h4]
      by_cases hE : encAll is = []
      · rw [hE] at IH ⊢
        rw [listLoop_nil'] at IH ⊢
        simpa using IH
      · rw [dataOK_flip (encAll is) hE b false h4]; simpa using IH
    | kwAs w k tok => exact absurd hok (by simp [okL])
    | qmark => exact absurd hok (by simp [okL])
    | goTo w k tok => exact absurd hok (by simp [okL])




/-! ### whole lines: `tokenise_line` / `detokenise_line` -/

theorem wfT_length (old : Bool) (t : Table) (cd : Codec) : ∀ (is : List Item) (s : St), wfT old t cd s is →
    is.length ≤ (textAll is).length := by
  intro is
  induction is with
  | nil => intro _ _; simp
  | cons i is ih =>
    intro s hw
    obtain ⟨hok, hrest⟩ := hw
    have := ih _ hrest
    have h1 : 1 ≤ i.text.length := by
      cases i with
      | sp => simp [Item.text]
      | str b => simp [Item.text]
      | punct c => simp [Item.text]
      | op c x => simp [Item.text]
      | kw k tok =>
        simp only [okT] at hok
        obtain ⟨_, _, ⟨c, k', rfl, _⟩, _⟩ := hok
        simp [Item.text]
      | ident w =>
        simp only [okT] at hok
        obtain ⟨⟨c, k', rfl, _⟩, _⟩ := hok
        simp [Item.text]
      | num txt lead pay =>
        simp only [okT] at hok
        obtain ⟨⟨c, k', rfl, _⟩, _⟩ := hok
        simp [Item.text]
      | jump n =>
        have := showBase_ne_nil 10 n
        simp only [Item.text]
        cases h : showBase 10 n with
        | nil => exact absurd h this
        | cons _ _ => simp
      | rem b => simp [Item.text, kwRem]
      | quote b => simp [Item.text]
      | tab => simp [Item.text]
      | raw c => simp [Item.text]
      | strOpen b => simp [Item.text]
      | data b => simp [Item.text, kwData]
      | kwAs w k tok =>
        simp only [okT] at hok
        obtain ⟨_, _, ⟨c, k', rfl, _⟩, _⟩ := hok
        simp [Item.text]
      | qmark => simp [Item.text]
      | goTo w k tok =>
        simp only [okT] at hok
        obtain ⟨⟨g, o, mid, allow, rfl, _⟩, _⟩ := hok
        simp [Item.text]
    simp only [textAll, List.length_cons, List.length_append]
    omega

theorem wfL_cost (old : Bool) (t : Table) (cd : Codec) : ∀ (is : List Item) (out : Bytes), wfL old t cd out is →
    costAll is ≤ (encAll is).length := by
  intro is
  induction is with
  | nil => intro _ _; simp [costAll]
  | cons i is ih =>
    intro out hw
    obtain ⟨hok, hrest⟩ := hw
    have := ih _ hrest
    have h1 : cost i ≤ i.enc.length := by
      cases i with
      | sp => simp [Item.enc, cost]
      | str b => simp [Item.enc, cost]
      | punct c => simp [Item.enc, cost]
      | op c x => simp [Item.enc, cost]
      | kw k tok =>
        simp only [okL] at hok
        simp only [cost, Item.enc]
        by_cases hke : k = kwElse
        · subst hke
          simp only [if_true] at hok
          obtain ⟨rfl, _⟩ := hok
          decide
        · by_cases hkw : k = kwWhile
          · subst hkw
            simp only [hke, if_false, if_true] at hok
            obtain ⟨rfl, _⟩ := hok
            decide
          · simp only [hke, hkw, if_false] at hok
            have hem : emitKw k tok = tok := by unfold emitKw; simp [hke, hkw]
            simp only [hke, hkw, or_self, if_false, hem]
            rcases hok.2 with ⟨x, rfl, _⟩ | ⟨x, y, rfl, _⟩ <;> simp
      | ident w => simp [Item.enc, cost]
      | num txt lead pay => simp [Item.enc, cost]
      | jump n => simp [Item.enc, cost]
      | rem b => simp [Item.enc, cost]
      | quote b => simp [Item.enc, cost]
      | tab => simp [Item.enc, cost]
      | raw c => simp [Item.enc, cost]
      | strOpen b => simp [Item.enc, cost]
      | data b => simp [Item.enc, cost]
      | kwAs w k tok => exact absurd hok (by simp [okL])
      | qmark => exact absurd hok (by simp [okL])
      | goTo w k tok => exact absurd hok (by simp [okL])
    simp only [costAll, encAll, List.length_append]
    omega

/-- the body of a line: listing the tokens gives the text (if it fits in 255 characters) -/
theorem listStatement_items (old : Bool) (t : Table) (cd : Codec) (is : List Item) (hw : wfL old t cd [] is)
    (hlen : (textAll is).length ≤ 255) : listStatement old t cd (encAll is) = .ok (textAll is) := by
  unfold listStatement
  rw [lst_items old t cd is [] _ (by have := wfL_cost old t cd is [] hw; omega) hw]
  simp [List.take_of_length_le hlen]

/-- `tokenise_line` on "<n> <text of the items>" -/
theorem tokeniseLine_items (old : Bool) (t : Table) (cd : Codec) (n : Nat) (h1 : 1 ≤ n) (h2 : n ≤ 65529)
    (is : List Item) (hw : wfT old t cd ⟨false, true, false⟩ is) (hj : jumpFollowOK (32 :: textAll is) = true) :
    tokeniseLine old t cd (showBase 10 n ++ 32 :: textAll is) = .ok ([0, 192, 222, lo n, hi n] ++ encAll is) := by
  have hr := readLineNum_showBase n h2 (32 :: textAll is) hj
  obtain ⟨c, cs, hs⟩ : ∃ c cs, showBase 10 n = c :: cs := by
    cases h : showBase 10 n with
    | nil => exact absurd h (showBase_ne_nil 10 n)
    | cons c cs => exact ⟨c, cs, rfl⟩
  have hc : isDigit c = true := showBase10_all_digit n c (by rw [hs]; exact List.mem_cons_self ..)
  have hb : isBlank c = false := (isDigit_facts hc).2.2.2.2.2.2.1
  have hd : (showBase 10 n ++ 32 :: textAll is).dropWhile isBlank = showBase 10 n ++ 32 :: textAll is := by
    rw [hs]; simp [List.dropWhile, hb]
  have hne : (showBase 10 n ++ 32 :: textAll is).isEmpty = false := by rw [hs]; rfl
  have hn0 : (n != 0) = true := by simp; omega
  unfold tokeniseLine
  simp only [hd, hne, Bool.false_eq_true, if_false, tokLineNumber, hr, hn0, if_true]
  rw [tok_items old t cd is _ _ (by have := wfT_length old t cd is _ hw; omega) hw]
  rfl

/-- `detokenise_line` on the record "<link:2> <n:2> <tokens of the items>" -/
theorem detokLine_items (old : Bool) (t : Table) (cd : Codec) (a b n : Nat) (hab : ¬ (a = 0 ∧ b = 0)) (h1 : 1 ≤ n)
    (h2 : n < 65536) (is : List Item) (hw : wfL old t cd [] is) (hlen : (textAll is).length ≤ 255)
    (htab : (encAll is).head? ≠ some 9) :
    detokLine old t cd (a :: b :: lo n :: hi n :: encAll is) = .ok (some (n, showBase 10 n ++ 32 :: textAll is)) := by
  have hn : lo n + 256 * hi n = n := by simp [lo, hi]; omega
  have hn0 : (n == 0) = false := by simp; omega
  have ht : ((encAll is).head? == some 9) = false := by simpa using htab
  unfold detokLine
  simp [hab, hn, hn0, ht, listStatement_items old t cd is hw hlen]




/-! ### executable well-formedness checks (sound for `wfT` / `wfL`) -/

def headIs (p : Nat → Bool) : Bytes → Bool
  | c :: _ => p c
  | [] => false

theorem headIs_ex {p : Nat → Bool} {w : Bytes} (h : headIs p w = true) : ∃ c w', w = c :: w' ∧ p c = true := by
  cases w with
  | nil => simp [headIs] at h
  | cons c w' => exact ⟨c, w', rfl, h⟩

def okTb (old : Bool) (t : Table) (cd : Codec) (s : St) (i : Item) (R : Bytes) (last : Bool) : Bool :=
  match i with
  | .sp => true
  | .str b => b.all strChar
  | .punct c => punctList.contains c
  | .op c x => asciiOperators.contains c && toToken t [c] == some [x]
  | .kw k tok => toToken t k == some tok && kwScanOK t k && headIs isLetter k && k != kwRem && k != kwOrem
      && k != kwData && (isNoLookahead k || nextNotName R)
  | .ident w => headIs isLetter w && identScanOKGo t [] w && identFollowOK t w R && w != kwRem && w != kwOrem
      && w != kwData
  | .num txt lead pay => headIs (fun c => c == 38 || (s.an && !s.aj && (isDigit c || c == 46))) txt
      && decide (tokNumber old cd (txt ++ R) = .ok (lead :: pay, R))
  | .jump n => s.an && s.aj && decide (n ≤ 65529) && jumpFollowOK R
  | .rem b => last && toToken t kwRem == some [tREM] && kwScanOK t kwRem && nextNotName b
      && b.all (fun x => !remEnd x)
  | .quote b => last && b.all (fun x => !remEnd x)
  | .tab => true
  | .raw c => !s.an && (isDigit c || c == 46)
  | .strOpen b => last && b.all strChar
  | .data b => toToken t kwData == some [tDATA] && kwScanOK t kwData && nextNotName (b ++ R) && dataOK R false b
  | .kwAs w k tok => toToken t k == some tok && kwScanOK t k && headIs isLetter w && w.map upper == k && !k.isEmpty
      && k != kwRem && k != kwOrem && k != kwData && (isNoLookahead k || nextNotName R)
  | .qmark => !old
  | .goTo w k tok =>
      (match w with
       | g :: o :: mid => upper g == 71 && upper o == 79 && (match wideGo (mid ++ R) with
                                                            | some (k', r, _) => k' == k && r == R
                                                            | none => false)
       | _ => false)
      && toToken t [71] == none && toToken t k == some tok && (k == kwGoto || k == kwGosub)

def wfTb (old : Bool) (t : Table) (cd : Codec) : St → List Item → Bool
  | _, [] => true
  | s, i :: is => okTb old t cd s i (textAll is) is.isEmpty && wfTb old t cd (nextSt t s i) is

theorem wfTb_sound (old : Bool) (t : Table) (cd : Codec) : ∀ (is : List Item) (s : St),
    wfTb old t cd s is = true → wfT old t cd s is := by
  intro is
  induction is with
  | nil => intro _ _; trivial
  | cons i is ih =>
    intro s h
    simp only [wfTb, Bool.and_eq_true] at h
    refine ⟨?_, ih _ h.2⟩
    have h1 := h.1
    cases i with
    | sp => trivial
    | str b => simpa [okTb, okT] using h1
    | punct c => simpa [okTb, okT] using h1
    | op c x => simpa [okTb, okT] using h1
    | kw k tok =>
      simp only [okTb, Bool.and_eq_true, beq_iff_eq, bne_iff_ne, ne_eq, Bool.or_eq_true] at h1
      obtain ⟨⟨⟨⟨⟨⟨a1, a2⟩, a3⟩, a4⟩, a5⟩, a6⟩, a7⟩ := h1
      exact ⟨a1, a2, headIs_ex a3, a4, a5, a6, a7⟩
    | ident w =>
      simp only [okTb, Bool.and_eq_true, bne_iff_ne, ne_eq] at h1
      obtain ⟨⟨⟨⟨⟨a1, a2⟩, a3⟩, a4⟩, a5⟩, a6⟩ := h1
      exact ⟨headIs_ex a1, a2, a3, a4, a5, a6⟩
    | num txt lead pay =>
      simp only [okTb, Bool.and_eq_true, decide_eq_true_eq] at h1
      obtain ⟨c, txt', rfl, hc⟩ := headIs_ex h1.1
      refine ⟨⟨c, txt', rfl, ?_⟩, h1.2⟩
      simp only [Bool.or_eq_true, beq_iff_eq, Bool.and_eq_true, Bool.not_eq_true'] at hc
      rcases hc with hc | ⟨⟨b1, b2⟩, b3⟩
      · exact Or.inl hc
      · exact Or.inr ⟨b1, b2, b3⟩
    | jump n =>
      simp only [okTb, Bool.and_eq_true, decide_eq_true_eq] at h1
      obtain ⟨⟨⟨a1, a2⟩, a3⟩, a4⟩ := h1
      exact ⟨a1, a2, a3, a4⟩
    | rem b =>
      simp only [okTb, Bool.and_eq_true, beq_iff_eq, List.isEmpty_iff, List.all_eq_true, Bool.not_eq_true'] at h1
      obtain ⟨⟨⟨⟨a1, a2⟩, a3⟩, a4⟩, a5⟩ := h1
      exact ⟨a1, a2, a3, a4, a5⟩
    | quote b =>
      simp only [okTb, Bool.and_eq_true, List.isEmpty_iff, List.all_eq_true, Bool.not_eq_true'] at h1
      exact ⟨h1.1, h1.2⟩
    | tab => trivial
    | raw c =>
      simp only [okTb, Bool.and_eq_true, Bool.not_eq_true', Bool.or_eq_true, beq_iff_eq] at h1
      exact ⟨h1.1, h1.2⟩
    | strOpen b =>
      simp only [okTb, Bool.and_eq_true, List.isEmpty_iff, List.all_eq_true] at h1
      exact ⟨h1.1, h1.2⟩
    | data b =>
      simp only [okTb, Bool.and_eq_true, beq_iff_eq] at h1
      obtain ⟨⟨⟨a1, a2⟩, a3⟩, a4⟩ := h1
      exact ⟨a1, a2, a3, a4⟩
    | kwAs w k tok =>
      simp only [okTb, Bool.and_eq_true, beq_iff_eq, bne_iff_ne, ne_eq, Bool.or_eq_true, Bool.not_eq_true',
        List.isEmpty_eq_false_iff] at h1
      obtain ⟨⟨⟨⟨⟨⟨⟨⟨a1, a2⟩, a3⟩, a4⟩, a5⟩, a6⟩, a7⟩, a8⟩, a9⟩ := h1
      exact ⟨a1, a2, headIs_ex a3, a4, a5, a6, a7, a8, a9⟩
    | qmark =>
      simp only [okTb, Bool.not_eq_true'] at h1
      exact h1
    | goTo w k tok =>
      simp only [okTb, Bool.and_eq_true, beq_iff_eq, Bool.or_eq_true] at h1
      obtain ⟨⟨⟨a1, a2⟩, a3⟩, a4⟩ := h1
      refine ⟨?_, a2, a3, a4⟩
      split at a1
      · rename_i g o mid
        simp only [Bool.and_eq_true, beq_iff_eq] at a1
        obtain ⟨⟨b1, b2⟩, b3⟩ := a1
        split at b3
        · rename_i k' r allow hw
          simp only [Bool.and_eq_true, beq_iff_eq] at b3
          obtain ⟨rfl, rfl⟩ := b3
          exact ⟨g, o, mid, allow, rfl, b1, b2, hw⟩
        · exact absurd b3 (by simp)
      · exact absurd a1 (by simp)

def okLb (old : Bool) (t : Table) (cd : Codec) (out : Bytes) (i : Item) (E : Bytes) (last : Bool) : Bool :=
  match i with
  | .sp => true
  | .str b => b.all strChar
  | .punct c => punctList.contains c
  | .op c x => toKeyword t [x] == some [c] && operatorToks.contains x
      && (x != tOPLUS || !kwWhile.isSuffixOf out)
  | .kw k tok =>
      if k = kwElse then tok == [tELSE] && toKeyword t [tELSE] == some kwElse && followsNoSpace E.head?
      else if k = kwWhile then tok == [tWHILE] && toKeyword t [tWHILE] == some kwWhile
        && (toKeyword t [tOPLUS]).isSome && prevOK out
      else prevOK out &&
        (match tok with
         | [x] => decide (127 ≤ x) && toKeyword t [x] == some k && !operatorToks.contains x && x != tREM
             && x != tOREM && x != tELSE && (isQuietTok x || followsNoSpace E.head?)
         | [x, y] => decide (127 ≤ x) && toKeyword t [x] == none && toKeyword t [x, y] == some k
             && followsNoSpace E.head?
         | _ => false)
  | .ident w => w.all isNameChar
  | .num txt lead pay => isLead lead && decide (listNumber old cd lead (pay ++ E) = .ok (txt, E))
  | .jump n => decide (n < 65536)
  | .rem b => last && toKeyword t [tREM] == some kwRem && prevOK out && b.head? != some tOREM && b.all remChar
  | .quote b => last && (toKeyword t [tREM]).isSome && b.all remChar
  | .tab => true
  | .raw c => isDigit c || c == 46
  | .strOpen b => last && b.all strChar
  | .data b => toKeyword t [tDATA] == some kwData && prevOK out && followsNoSpace (b ++ E).head?
      && dataOK E false b
  | .kwAs _ _ _ => false
  | .qmark => false
  | .goTo _ _ _ => false

def wfLb (old : Bool) (t : Table) (cd : Codec) : Bytes → List Item → Bool
  | _, [] => true
  | out, i :: is => okLb old t cd out i (encAll is) is.isEmpty && wfLb old t cd (out ++ i.text) is

theorem wfLb_sound (old : Bool) (t : Table) (cd : Codec) : ∀ (is : List Item) (out : Bytes),
    wfLb old t cd out is = true → wfL old t cd out is := by
  intro is
  induction is with
  | nil => intro _ _; trivial
  | cons i is ih =>
    intro out h
    simp only [wfLb, Bool.and_eq_true] at h
    refine ⟨?_, ih _ h.2⟩
    have h1 := h.1
    cases i with
    | sp => trivial
    | str b => simpa [okLb, okL] using h1
    | punct c => simpa [okLb, okL] using h1
    | op c x =>
      simp only [okLb, Bool.and_eq_true, beq_iff_eq, Bool.or_eq_true, bne_iff_ne, ne_eq, Bool.not_eq_true'] at h1
      obtain ⟨⟨a1, a2⟩, a3⟩ := h1
      refine ⟨a1, a2, fun hx => ?_⟩
      rcases a3 with a3 | a3
      · exact absurd hx a3
      · exact a3
    | kw k tok =>
      simp only [okLb] at h1
      simp only [okL]
      by_cases hke : k = kwElse
      · simp only [hke, if_true, Bool.and_eq_true, beq_iff_eq] at h1 ⊢
        exact ⟨h1.1.1, h1.1.2, h1.2⟩
      · by_cases hkw : k = kwWhile
        · subst hkw
          have hne : ¬ kwWhile = kwElse := by decide
          simp only [hne, if_false, if_true, Bool.and_eq_true, beq_iff_eq, Option.isSome_iff_exists] at h1 ⊢
          exact ⟨h1.1.1.1, h1.1.1.2, h1.1.2, h1.2⟩
        · simp only [hke, hkw, if_false, Bool.and_eq_true] at h1 ⊢
          refine ⟨h1.1, ?_⟩
          have h2 := h1.2
          split at h2
          · rename_i x
            simp only [Bool.and_eq_true, decide_eq_true_eq, beq_iff_eq, Bool.not_eq_true', bne_iff_ne, ne_eq,
              Bool.or_eq_true] at h2
            obtain ⟨⟨⟨⟨⟨⟨b1, b2⟩, b3⟩, b4⟩, b5⟩, b6⟩, b7⟩ := h2
            exact Or.inl ⟨x, rfl, b1, b2, b3, b4, b5, b6, b7⟩
          · rename_i x y
            simp only [Bool.and_eq_true, decide_eq_true_eq, beq_iff_eq] at h2
            obtain ⟨⟨⟨b1, b2⟩, b3⟩, b4⟩ := h2
            exact Or.inr ⟨x, y, rfl, b1, b2, b3, b4⟩
          · exact absurd h2 (by simp)
    | ident w => simpa [okLb, okL] using h1
    | num txt lead pay =>
      simp only [okLb, Bool.and_eq_true, decide_eq_true_eq] at h1
      exact h1
    | jump n => simpa [okLb, okL] using h1
    | rem b =>
      simp only [okLb, Bool.and_eq_true, beq_iff_eq, List.isEmpty_iff, List.all_eq_true, bne_iff_ne, ne_eq] at h1
      obtain ⟨⟨⟨⟨a1, a2⟩, a3⟩, a4⟩, a5⟩ := h1
      exact ⟨a1, a2, a3, a4, a5⟩
    | quote b =>
      simp only [okLb, Bool.and_eq_true, List.isEmpty_iff, List.all_eq_true, Option.isSome_iff_exists] at h1
      exact ⟨h1.1.1, h1.1.2, h1.2⟩
    | tab => trivial
    | raw c => simpa [okLb, okL] using h1
    | strOpen b =>
      simp only [okLb, Bool.and_eq_true, List.isEmpty_iff, List.all_eq_true] at h1
      exact ⟨h1.1, h1.2⟩
    | data b =>
      simp only [okLb, Bool.and_eq_true, beq_iff_eq] at h1
      obtain ⟨⟨⟨a1, a2⟩, a3⟩, a4⟩ := h1
      exact ⟨a1, a2, a3, a4⟩
    | kwAs w k tok => simp [okLb] at h1
    | qmark => simp [okLb] at h1
    | goTo w k tok => simp [okLb] at h1


end PcbV.TokL
