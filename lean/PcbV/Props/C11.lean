import PcbV.Lemmas.VarMem
import PcbV.Gen.Translated
/-
  C11 — Variable storage is faithfully exposed and never aliased.

  Property theorems about `PcbV.VarMem` (transcription of memory/scalars.py, arrays.py, memory.py,
  values/strings.py as PEEK / VARPTR / VARPTR$ see them; `Arrays.get_memory` as REPAIRED by the pending fix
  C11-array-get-memory).  `Layout s` is the invariant of all reachable states (`wf_reachable`): scalar records lie
  consecutively from `var_start`, array records consecutively from `var_current`, every value buffer has the
  size of its type, and the variable area ends below string space.
-/
namespace PcbV.C11
open PcbV PcbV.VarMem

/-- every history of LET / DIM / SWAP / ERASE statements (failing ones included) from a fresh session
    ends in a state with the layout invariant -/
theorem wf_reachable (vs top base : Nat) (h : vs ≤ top) (ops : List Op) :
    Layout (run (init vs top base) ops) :=
  layout_run (layout_init vs top base h) ops

/-- … and with the string-space invariant `StrOK`: stored strings are non-empty, pairwise disjoint, above
    `current` and below the top; every string cell is empty or points at a stored string of its length -/
theorem strings_wf_reachable (vs top base : Nat) (h : vs ≤ top) (h16 : top < 65536) (ops : List Op) :
    StrOK (run (init vs top base) ops) :=
  strOK_run (layout_init vs top base h) (strOK_init vs top base h16) ops

example : Layout (run (init 4720 65020 0)
    [.dim [65, 37] [3], .dim [66, 37] [3], .letv (.el [66, 37] [1]) (.num [0x78, 0x56]),
     .letv (.sc [83, 36]) (.str [104, 105]), .erase [[65, 37]]]) := wf_reachable _ _ _ (by decide) _

/-! ### PEEK at VARPTR -/

/-- scalars: PEEK(VARPTR(v) + i) is byte `i` of the stored value, for every `i` below the size of the type
    (numbers: the MKI$/MKS$/MKD$ bytes; strings: length, address low, address high) -/
theorem peek_varptr_scalar {s : VM} (h : Layout s) {name : Bytes} {p : Nat} (hp : varptr s (.sc name) = .ok p) :
    (rawCell s (.sc name)).length = vsize name ∧
    ∀ i, i < vsize name → getVarMemory s (p + i) = (rawCell s (.sc name))[i]?
      ∧ peek s (p + i) = (rawCell s (.sc name)).getD i 0 := by
  simp only [varptr] at hp
  cases hf : findS name s.scalars with
  | none => simp [hf] at hp
  | some r =>
    simp only [hf, Except.ok.injEq] at hp
    subst hp
    obtain ⟨hm, hn⟩ := findS_mem hf
    obtain ⟨c1, c2, c3, c4⟩ := chainS_mem h.sc r hm
    have hraw : rawCell s (.sc name) = r.val := by simp [rawCell, hf]
    rw [hraw, ← hn]
    refine ⟨c2, ?_⟩
    intro i hi
    obtain ⟨k, hk⟩ := List.getElem?_of_mem hm
    have hvc : varCurrent s = s.varStart + (s.scalars.map sizeS).sum := by simp [varCurrent, h.scCur]
    have hlt : r.varPtr + i < varCurrent s := by
      have : sizeS r = recSize r.name + vsize r.name := rfl
      omega
    have hsel : select (s.scalars.map (·.namePtr)) (r.varPtr + i) = some k := by
      rw [chainS_map h.sc]
      apply select_offsets (q := r.namePtr) (sz := sizeS r)
      · intro x hx
        obtain ⟨y, _, rfl⟩ := List.mem_map.mp hx
        exact sizeS_pos y
      · rw [← chainS_map h.sc]; exact getElem?_of_mem_map _ hk
      · exact getElem?_of_mem_map _ hk
      · omega
      · have : sizeS r = recSize r.name + vsize r.name := rfl
        omega
    have hg : getVarMemory s (r.varPtr + i) = r.val[i]? := by
      simp only [getVarMemory, hlt, if_true, scalGetMemory, hsel, hk]
      have h1 : r.varPtr + i ≥ r.varPtr := by omega
      have h2 : ¬ (r.varPtr + i - r.varPtr ≥ vsize r.name) := by omega
      simp only [h1, if_true, h2, if_false]
      congr 1; omega
    refine ⟨hg, ?_⟩
    have hge : r.varPtr + i ≥ s.varStart := by omega
    simp only [peek, hge, if_true, hg]
    have : i < r.val.length := by omega
    simp [List.getD, List.getElem?_eq_getElem this]

/-- the name record in front of a scalar: PEEK gives `get_name_in_memory` (type size, first two characters,
    length - 3, remaining characters with bit 7 set) -/
theorem peek_name_scalar {s : VM} (h : Layout s) {name : Bytes} {p : Nat} (hp : varptr s (.sc name) = .ok p) :
    ∀ j, j < recSize name → getVarMemory s (p - recSize name + j) = getNameInMemory name j := by
  simp only [varptr] at hp
  cases hf : findS name s.scalars with
  | none => simp [hf] at hp
  | some r =>
    simp only [hf, Except.ok.injEq] at hp
    subst hp
    obtain ⟨hm, hn⟩ := findS_mem hf
    obtain ⟨c1, c2, c3, c4⟩ := chainS_mem h.sc r hm
    rw [← hn]
    intro j hj
    obtain ⟨k, hk⟩ := List.getElem?_of_mem hm
    have hvc : varCurrent s = s.varStart + (s.scalars.map sizeS).sum := by simp [varCurrent, h.scCur]
    have hsz : sizeS r = recSize r.name + vsize r.name := rfl
    have hadr : r.varPtr - recSize r.name + j = r.namePtr + j := by omega
    rw [hadr]
    have hlt : r.namePtr + j < varCurrent s := by omega
    have hsel : select (s.scalars.map (·.namePtr)) (r.namePtr + j) = some k := by
      rw [chainS_map h.sc]
      apply select_offsets (q := r.namePtr) (sz := sizeS r)
      · intro x hx
        obtain ⟨y, _, rfl⟩ := List.mem_map.mp hx
        exact sizeS_pos y
      · rw [← chainS_map h.sc]; exact getElem?_of_mem_map _ hk
      · exact getElem?_of_mem_map _ hk
      · omega
      · omega
    simp only [getVarMemory, hlt, if_true, scalGetMemory, hsel, hk]
    have h1 : ¬ (r.namePtr + j ≥ r.varPtr) := by omega
    simp only [h1, if_false]
    congr 1; omega

/-- array elements: for every subscript tuple that `check_dim` accepts, PEEK(VARPTR(a(idx)) + i) is byte `i`
    of the stored element -/
theorem peek_varptr_element {s : VM} (h : Layout s) {name : Bytes} {idx : List Nat} {a : ARec} {p : Nat}
    (hf : findA name s.arrays = some a) (hl : idx.length = a.dims.length)
    (hc : checkLoop s.base idx a.dims = true) (hp : varptr s (.el name idx) = .ok p) :
    (rawCell s (.el name idx)).length = vsize name ∧
    ∀ i, i < vsize name → getVarMemory s (p + i) = (rawCell s (.el name idx))[i]?
      ∧ peek s (p + i) = (rawCell s (.el name idx)).getD i 0 := by
  simp only [varptr, hf, Except.ok.injEq] at hp
  subst hp
  obtain ⟨hm, hn⟩ := findA_mem hf
  obtain ⟨c1, c2, c3, c4, c5⟩ := chainA_mem h.ar a hm
  have hk := index_lt_flatLength s.base idx a.dims hl hc
  generalize hkdef : index s.base idx a.dims = k at hk ⊢
  have hkl : k < a.cells.length := by omega
  have hcell : a.cells[k]? = some a.cells[k] := List.getElem?_eq_getElem hkl
  have hclen : (a.cells[k]).length = vsize name := by rw [← hn]; exact c3 _ (List.getElem_mem hkl)
  have hraw : rawCell s (.el name idx) = a.cells[k] := by simp [rawCell, hf, hkdef, hcell]
  rw [hraw]
  refine ⟨hclen, ?_⟩
  intro i hi
  obtain ⟨j, hj⟩ := List.getElem?_of_mem hm
  have hmul : vsize name * k + vsize name ≤ vsize name * flatLength s.base a.dims := by
    have := Nat.mul_le_mul_left (vsize name) (show k + 1 ≤ flatLength s.base a.dims by omega)
    rw [Nat.mul_succ] at this; exact this
  have hbuf : bufSize s.base a.name a.dims = vsize name * flatLength s.base a.dims := by
    rw [hn]; unfold bufSize; exact Nat.mul_comm _ _
  have hsz : sizeA s.base a = arecSize a.name a.dims + bufSize s.base a.name a.dims := rfl
  have hcur := h.arCur
  generalize hX : vsize name * k = X at hmul ⊢
  generalize hY : vsize name * flatLength s.base a.dims = Y at hmul hbuf
  have h1 : ¬ (varCurrent s + a.arrPtr + X + i < varCurrent s) := by omega
  have h2 : varCurrent s + a.arrPtr + X + i < varCurrent s + s.arrCur := by omega
  have hsel : select (s.arrays.map (·.namePtr)) (varCurrent s + a.arrPtr + X + i - varCurrent s) = some j := by
    rw [chainA_map h.ar]
    apply select_offsets (q := a.namePtr) (sz := sizeA s.base a)
    · intro x hx
      obtain ⟨y, _, rfl⟩ := List.mem_map.mp hx
      exact sizeA_pos _ y
    · rw [← chainA_map h.ar]; exact getElem?_of_mem_map _ hj
    · exact getElem?_of_mem_map _ hj
    · omega
    · omega
  have hg : getVarMemory s (varCurrent s + a.arrPtr + X + i) = (a.cells[k])[i]? := by
    simp only [getVarMemory, h1, if_false, h2, if_true, arrGetMemory, hsel, hj, arrRead]
    have h3 : varCurrent s + a.arrPtr + X + i ≥ varCurrent s + a.arrPtr := by omega
    have h4 : ¬ (varCurrent s + a.arrPtr + X + i - a.arrPtr - varCurrent s ≥ bufSize s.base a.name a.dims) := by omega
    simp only [h3, if_true, h4, if_false]
    have h5 : varCurrent s + a.arrPtr + X + i - a.arrPtr - varCurrent s = vsize name * k + i := by omega
    rw [h5, flatten_cell a.cells k i (by rw [← hn]; exact c3) hkl hi, hcell]
    rfl
  refine ⟨hg, ?_⟩
  have hge : varCurrent s + a.arrPtr + X + i ≥ s.varStart := by simp only [varCurrent]; omega
  simp only [peek, hge, if_true, hg]
  have : i < (a.cells[k]).length := by omega
  simp [List.getD, List.getElem?_eq_getElem this]


/-! ### address ranges: inside the variable area, pairwise disjoint -/

/-- the variable area `[var_start, var_current + arrays)` ends below string space -/
theorem area_below_strings {s : VM} (h : Layout s) :
    s.varStart ≤ varCurrent s ∧ varCurrent s + s.arrCur ≤ s.strCur ∧ s.strCur ≤ s.strTop :=
  ⟨by simp [varCurrent], h.room, h.top⟩

/-- a scalar's record (name record + value) lies inside the scalar area; its value is the tail of the record -/
theorem scalar_inside {s : VM} (h : Layout s) {name : Bytes} {p : Nat} (hp : varptr s (.sc name) = .ok p) :
    s.varStart + recSize name ≤ p ∧ p + vsize name ≤ varCurrent s := by
  simp only [varptr] at hp
  cases hf : findS name s.scalars with
  | none => simp [hf] at hp
  | some r =>
    simp only [hf, Except.ok.injEq] at hp
    subst hp
    obtain ⟨hm, hn⟩ := findS_mem hf
    obtain ⟨c1, c2, c3, c4⟩ := chainS_mem h.sc r hm
    have hvc : varCurrent s = s.varStart + (s.scalars.map sizeS).sum := by simp [varCurrent, h.scCur]
    have hsz : sizeS r = recSize r.name + vsize r.name := rfl
    rw [← hn]; omega

/-- an element's value lies inside the buffer of its array, inside the array area -/
theorem element_inside {s : VM} (h : Layout s) {name : Bytes} {idx : List Nat} {a : ARec} {p : Nat}
    (hf : findA name s.arrays = some a) (hl : idx.length = a.dims.length)
    (hc : checkLoop s.base idx a.dims = true) (hp : varptr s (.el name idx) = .ok p) :
    varCurrent s + a.namePtr + arecSize name a.dims ≤ p
    ∧ p + vsize name ≤ varCurrent s + a.namePtr + sizeA s.base a
    ∧ varCurrent s + a.namePtr + sizeA s.base a ≤ varCurrent s + s.arrCur := by
  simp only [varptr, hf, Except.ok.injEq] at hp
  subst hp
  obtain ⟨hm, hn⟩ := findA_mem hf
  obtain ⟨c1, c2, c3, c4, c5⟩ := chainA_mem h.ar a hm
  have hk := index_lt_flatLength s.base idx a.dims hl hc
  generalize index s.base idx a.dims = k at hk ⊢
  have hmul : vsize name * k + vsize name ≤ vsize name * flatLength s.base a.dims := by
    have := Nat.mul_le_mul_left (vsize name) (show k + 1 ≤ flatLength s.base a.dims by omega)
    rw [Nat.mul_succ] at this; exact this
  have hbuf : bufSize s.base a.name a.dims = vsize name * flatLength s.base a.dims := by
    rw [hn]; unfold bufSize; exact Nat.mul_comm _ _
  have hsz : sizeA s.base a = arecSize a.name a.dims + bufSize s.base a.name a.dims := rfl
  have hcur := h.arCur
  rw [hn] at hsz c1 hbuf
  generalize vsize name * k = X at hmul ⊢
  generalize vsize name * flatLength s.base a.dims = Y at hmul hbuf
  omega

/-- the records of two different scalars are disjoint (hence their values are) -/
theorem scalars_disjoint {s : VM} (h : Layout s) {n1 n2 : Bytes} {p1 p2 : Nat} (hne : n1 ≠ n2)
    (h1 : varptr s (.sc n1) = .ok p1) (h2 : varptr s (.sc n2) = .ok p2) :
    p1 + vsize n1 ≤ p2 - recSize n2 ∨ p2 + vsize n2 ≤ p1 - recSize n1 := by
  simp only [varptr] at h1 h2
  cases hf1 : findS n1 s.scalars with
  | none => simp [hf1] at h1
  | some r1 =>
    cases hf2 : findS n2 s.scalars with
    | none => simp [hf2] at h2
    | some r2 =>
      simp only [hf1, hf2, Except.ok.injEq] at h1 h2
      subst h1; subst h2
      obtain ⟨hm1, hn1⟩ := findS_mem hf1
      obtain ⟨hm2, hn2⟩ := findS_mem hf2
      obtain ⟨a1, _, _, _⟩ := chainS_mem h.sc r1 hm1
      obtain ⟨b1, _, _, _⟩ := chainS_mem h.sc r2 hm2
      obtain ⟨k1, hk1⟩ := List.getElem?_of_mem hm1
      obtain ⟨k2, hk2⟩ := List.getElem?_of_mem hm2
      have hk : k1 ≠ k2 := by
        intro he; subst he; rw [hk1] at hk2
        have : r1 = r2 := by simpa using hk2
        subst this; exact hne (hn1.symm.trans hn2)
      have hd := offsets_disjoint (p := s.varStart) (szs := s.scalars.map sizeS)
        (by rw [← chainS_map h.sc]; exact getElem?_of_mem_map (·.namePtr) hk1) (getElem?_of_mem_map sizeS hk1)
        (by rw [← chainS_map h.sc]; exact getElem?_of_mem_map (·.namePtr) hk2) (getElem?_of_mem_map sizeS hk2) hk
      have s1 : sizeS r1 = recSize r1.name + vsize r1.name := rfl
      have s2 : sizeS r2 = recSize r2.name + vsize r2.name := rfl
      rw [← hn1, ← hn2]; omega

/-- every scalar lies below every array element -/
theorem scalar_element_disjoint {s : VM} (h : Layout s) {n1 n2 : Bytes} {idx : List Nat} {a : ARec} {p1 p2 : Nat}
    (h1 : varptr s (.sc n1) = .ok p1)
    (hf : findA n2 s.arrays = some a) (hl : idx.length = a.dims.length)
    (hc : checkLoop s.base idx a.dims = true) (h2 : varptr s (.el n2 idx) = .ok p2) :
    p1 + vsize n1 ≤ p2 := by
  have := scalar_inside h h1
  have := element_inside h hf hl hc h2
  omega

/-- elements of two different arrays are disjoint (their whole records are) -/
theorem elements_disjoint_other {s : VM} (h : Layout s) {n1 n2 : Bytes} {i1 i2 : List Nat} {a1 a2 : ARec}
    {p1 p2 : Nat} (hne : n1 ≠ n2)
    (hf1 : findA n1 s.arrays = some a1) (hl1 : i1.length = a1.dims.length)
    (hc1 : checkLoop s.base i1 a1.dims = true) (h1 : varptr s (.el n1 i1) = .ok p1)
    (hf2 : findA n2 s.arrays = some a2) (hl2 : i2.length = a2.dims.length)
    (hc2 : checkLoop s.base i2 a2.dims = true) (h2 : varptr s (.el n2 i2) = .ok p2) :
    p1 + vsize n1 ≤ p2 ∨ p2 + vsize n2 ≤ p1 := by
  have e1 := element_inside h hf1 hl1 hc1 h1
  have e2 := element_inside h hf2 hl2 hc2 h2
  obtain ⟨hm1, hn1⟩ := findA_mem hf1
  obtain ⟨hm2, hn2⟩ := findA_mem hf2
  obtain ⟨k1, hk1⟩ := List.getElem?_of_mem hm1
  obtain ⟨k2, hk2⟩ := List.getElem?_of_mem hm2
  have hk : k1 ≠ k2 := by
    intro he; subst he; rw [hk1] at hk2
    have : a1 = a2 := by simpa using hk2
    subst this; exact hne (hn1.symm.trans hn2)
  have hd := offsets_disjoint (p := 0) (szs := s.arrays.map (sizeA s.base))
    (by rw [← chainA_map h.ar]; exact getElem?_of_mem_map (·.namePtr) hk1) (getElem?_of_mem_map (sizeA s.base) hk1)
    (by rw [← chainA_map h.ar]; exact getElem?_of_mem_map (·.namePtr) hk2) (getElem?_of_mem_map (sizeA s.base) hk2) hk
  omega

/-- two elements of one array with different flat indices are disjoint (different in-bounds subscript tuples
    have different flat indices: `C12.index_injective`) -/
theorem elements_disjoint_same {s : VM} {name : Bytes} {i1 i2 : List Nat} {a : ARec} {p1 p2 : Nat}
    (hf : findA name s.arrays = some a)
    (h1 : varptr s (.el name i1) = .ok p1) (h2 : varptr s (.el name i2) = .ok p2)
    (hk : index s.base i1 a.dims ≠ index s.base i2 a.dims) :
    p1 + vsize name ≤ p2 ∨ p2 + vsize name ≤ p1 := by
  simp only [varptr, hf, Except.ok.injEq] at h1 h2
  subst h1; subst h2
  rcases Nat.lt_or_gt_of_ne hk with hlt | hlt
  · left
    have := Nat.mul_le_mul_left (vsize name) (show index s.base i1 a.dims + 1 ≤ index s.base i2 a.dims by omega)
    rw [Nat.mul_succ] at this; omega
  · right
    have := Nat.mul_le_mul_left (vsize name) (show index s.base i2 a.dims + 1 ≤ index s.base i1 a.dims by omega)
    rw [Nat.mul_succ] at this; omega

/-! ### VARPTR$ -/

/-- VARPTR$ is the type byte (2, 3, 4, 8) followed by the little-endian VARPTR address -/
theorem varptr_str_spec {s : VM} {d : Dst} {p : Nat} (hp : varptr s d = .ok p) (h16 : p < 65536) :
    varptrStr s d = .ok [vsize d.name, p % 256, p / 256]
    ∧ p % 256 < 256 ∧ p / 256 < 256 ∧ p % 256 + 256 * (p / 256) = p := by
  refine ⟨by simp [varptrStr, hp, le16], by omega, by omega, by omega⟩

/-- … and inside a session whose string space ends below 64K every VARPTR fits 16 bits -/
theorem varptr_fits {s : VM} (h : Layout s) (htop : s.strTop < 65536) {name : Bytes} {p : Nat}
    (hp : varptr s (.sc name) = .ok p) : p < 65536 := by
  have := scalar_inside h hp
  have := area_below_strings h
  omega

/-! ### non-vacuity: the hypotheses of the theorems above hold in concrete reachable states -/

/-- `DIM A%(3): DIM B$(2,1): X#=…: S$="hi": B$(1,1)="xyz": SWAP S$,B$(1,1): ERASE A%` -/
def demoState : VM :=
  run (init 4720 65020 0)
    [.dim [65, 37] [3], .dim [66, 36] [2, 1], .letv (.sc [88, 35]) (.num [1, 2, 3, 4, 5, 6, 7, 0x81]),
     .letv (.sc [83, 36]) (.str [104, 105]), .letv (.el [66, 36] [1, 1]) (.str [120, 121, 122]),
     .swap (.sc [83, 36]) (.el [66, 36] [1, 1]), .erase [[65, 37]]]

example : varptr demoState (.sc [88, 35]) = .ok 4724 ∧ varptr demoState (.el [66, 36] [1, 1]) = .ok 4762
    ∧ (findA [66, 36] demoState.arrays).isSome = true
    ∧ checkLoop demoState.base [1, 1] [2, 1] = true
    ∧ isStr [83, 36] = true ∧ cellLen (rawCell demoState (.sc [83, 36])) = 3
    ∧ readBack demoState (.sc [83, 36]) = [120, 121, 122]
    ∧ readBack demoState (.el [66, 36] [1, 1]) = [104, 105]
    ∧ (List.range 8).map (fun i => peek demoState (4724 + i)) = [1, 2, 3, 4, 5, 6, 7, 0x81] := by decide

example : Layout demoState ∧ StrOK demoState :=
  ⟨wf_reachable _ _ _ (by decide) _, strings_wf_reachable _ _ _ (by decide) (by decide) _⟩

/-! ### the defect repaired by the pending fix (D6) -/

/-- `DIM A%(3): DIM B%(3): B%(1)=&H5678` -/
def d6State : VM :=
  run (init 4720 65020 0) [.dim [65, 37] [3], .dim [66, 37] [3], .letv (.el [66, 37] [1]) (.num [0x78, 0x56])]

/-- the old `Arrays.get_memory` (relative pointer compared with an absolute address, `break` at the first
    array) makes PEEK(VARPTR(B%(1))) 0 although the element holds &H78 &H56; the repaired function reads &H78 -/
theorem D6_counterexample :
    varptr d6State (.el [66, 37] [1]) = .ok 4748 ∧ rawCell d6State (.el [66, 37] [1]) = [0x78, 0x56]
    ∧ peekOld d6State 4748 = 0 ∧ peek d6State 4748 = 0x78 := by
  decide


/-! ### assignment changes nothing else -/

/-- LET on a scalar (successful or failing, allocation of the record included): the cell of every other scalar
    and of every array element holds the same bytes afterwards -/
theorem assign_frame_scalar (n : Bytes) (v : Val) (s : VM) :
    (∀ n', n' ≠ n → rawCell (letStmt (.sc n) v s).state (.sc n') = rawCell s (.sc n'))
    ∧ (∀ n' idx', rawCell (letStmt (.sc n) v s).state (.el n' idx') = rawCell s (.el n' idx')) := by
  suffices hP : (letStmt (.sc n) v s).state.arrays = s.arrays ∧ (letStmt (.sc n) v s).state.base = s.base
      ∧ ∀ n', n' ≠ n → findS n' (letStmt (.sc n) v s).state.scalars = findS n' s.scalars by
    obtain ⟨p1, p2, p3⟩ := hP
    exact ⟨fun n' hne => by simp only [rawCell, p3 n' hne], fun n' idx' => by simp only [rawCell, p1, p2]⟩
  obtain ⟨f1, f2, _, _, f5⟩ := ensureScalar_frame n s
  unfold letStmt
  simp only [prealloc]
  cases he : ensureScalar n s with
  | error x => rw [he] at f1 f2 f5; exact ⟨f1, f2, f5⟩
  | ok s1 =>
    rw [he] at f1 f2 f5
    simp only [MR.state] at f1 f2 f5
    have hw : ∀ (c : Bytes) (s2 : VM), s2.arrays = s1.arrays → s2.base = s1.base → s2.scalars = s1.scalars →
        (writeCell (.sc n) c s2).arrays = s.arrays ∧ (writeCell (.sc n) c s2).base = s.base
        ∧ ∀ n', n' ≠ n → findS n' (writeCell (.sc n) c s2).scalars = findS n' s.scalars := by
      intro c s2 e1 e2 e3
      refine ⟨by simp [writeCell, e1, f1], by simp [writeCell, e2, f2], ?_⟩
      intro n' hne
      simp only [writeCell, findS_mapS_ne hne, e3]
      exact f5 n' hne
    cases v with
    | num b =>
      dsimp only
      split
      · exact ⟨f1, f2, f5⟩
      · exact hw b s1 rfl rfl rfl
    | str b =>
      dsimp only
      split
      · exact ⟨f1, f2, f5⟩
      · split
        · exact ⟨f1, f2, f5⟩
        · split
          · exact ⟨f1, f2, f5⟩
          · exact hw _ _ rfl rfl rfl

/-- LET on an array element (successful or failing, auto-dimensioning included): every scalar and every other
    element that existed before holds the same bytes afterwards -/
theorem assign_frame_element (n : Bytes) (idx : List Nat) (v : Val) (s : VM) :
    (∀ n', rawCell (letStmt (.el n idx) v s).state (.sc n') = rawCell s (.sc n'))
    ∧ (∀ n' idx' a, findA n' s.arrays = some a →
        (n' = n → index s.base idx' a.dims ≠ index s.base idx a.dims) →
        rawCell (letStmt (.el n idx) v s).state (.el n' idx') = rawCell s (.el n' idx')) := by
  suffices hQ : (letStmt (.el n idx) v s).state.scalars = s.scalars ∧ (letStmt (.el n idx) v s).state.base = s.base
      ∧ ∀ n' a, findA n' s.arrays = some a → ∃ a', findA n' (letStmt (.el n idx) v s).state.arrays = some a'
          ∧ a'.dims = a.dims ∧ ∀ k', (n' = n → k' ≠ index s.base idx a.dims) → a'.cells[k']? = a.cells[k']? by
    obtain ⟨q1, q2, q3⟩ := hQ
    refine ⟨fun n' => by simp only [rawCell, q1], ?_⟩
    intro n' idx' a hf hk
    obtain ⟨a', g1, g2, g3⟩ := q3 n' a hf
    simp only [rawCell, g1, hf, q2, g2, Option.bind_some]
    rw [g3 _ hk]
  obtain ⟨f1, f2, _, f4⟩ := checkDim_frame n idx s
  unfold letStmt
  simp only [prealloc]
  have hbase : ∀ n' a, findA n' s.arrays = some a → ∀ (s' : VM), findA n' s'.arrays = some a →
      ∃ a', findA n' s'.arrays = some a' ∧ a'.dims = a.dims
        ∧ ∀ k', (n' = n → k' ≠ index s.base idx a.dims) → a'.cells[k']? = a.cells[k']? :=
    fun n' a _ s' h => ⟨a, h, rfl, fun _ _ => rfl⟩
  cases he : checkDim n idx s with
  | error x => rw [he] at f1 f2 f4; exact ⟨f1, f2, fun n' a hf => hbase n' a hf _ (f4 n' a hf)⟩
  | ok s1 =>
    rw [he] at f1 f2 f4
    simp only [MR.state] at f1 f2 f4
    have hs1 : s1.scalars = s.scalars ∧ s1.base = s.base ∧ ∀ n' a, findA n' s.arrays = some a →
        ∃ a', findA n' s1.arrays = some a' ∧ a'.dims = a.dims
          ∧ ∀ k', (n' = n → k' ≠ index s.base idx a.dims) → a'.cells[k']? = a.cells[k']? :=
      ⟨f1, f2, fun n' a hf => hbase n' a hf _ (f4 n' a hf)⟩
    have hw : ∀ (c : Bytes) (s2 : VM), s2.arrays = s1.arrays → s2.base = s1.base → s2.scalars = s1.scalars →
        (writeCell (.el n idx) c s2).scalars = s.scalars ∧ (writeCell (.el n idx) c s2).base = s.base
        ∧ ∀ n' a, findA n' s.arrays = some a → ∃ a', findA n' (writeCell (.el n idx) c s2).arrays = some a'
          ∧ a'.dims = a.dims ∧ ∀ k', (n' = n → k' ≠ index s.base idx a.dims) → a'.cells[k']? = a.cells[k']? := by
      intro c s2 e1 e2 e3
      refine ⟨by simp [writeCell, e3, f1], by simp [writeCell, e2, f2], ?_⟩
      intro n' a hf
      have h1 := f4 n' a hf
      by_cases hn : n' = n
      · subst hn
        refine ⟨{ a with cells := a.cells.set (index s2.base idx a.dims) c }, ?_, rfl, ?_⟩
        · simp only [writeCell, findA_mapA_same, e1, h1, Option.map_some]
        · intro k' hk
          have := hk rfl
          simp only
          rw [List.getElem?_set_ne]
          rw [e2, f2]; exact fun h => this h.symm
      · refine ⟨a, ?_, rfl, fun _ _ => rfl⟩
        simp only [writeCell, findA_mapA_ne hn, e1, h1]
    cases v with
    | num b =>
      dsimp only
      split
      · exact hs1
      · exact hw b s1 rfl rfl rfl
    | str b =>
      dsimp only
      split
      · exact hs1
      · split
        · exact hs1
        · split
          · exact hs1
          · exact hw _ _ rfl rfl rfl


/-! ### strings: the pointer leads to the characters -/

/-- for a string variable or element with a non-empty value: the cell holds (length, address), the string
    stored at that address has that length and is what the program reads back, and PEEK at address + j is
    character j -/
theorem peek_string_chars {s : VM} (h : Layout s) (hs : StrOK s) (d : Dst) (hd : isStr d.name = true)
    (hlen : cellLen (rawCell s d) ≠ 0) :
    ∃ chars, Heap.lookup s.strs (cellAddr (rawCell s d)) = some chars
      ∧ chars.length = cellLen (rawCell s d) ∧ readBack s d = chars
      ∧ varCurrent s + s.arrCur ≤ cellAddr (rawCell s d)
      ∧ ∀ j, j < chars.length → getVarMemory s (cellAddr (rawCell s d) + j) = chars[j]?
          ∧ peek s (cellAddr (rawCell s d) + j) = chars.getD j 0 := by
  rcases rawCell_ptrOK hs d hd with hz | ⟨b, hb, hbl⟩
  · exact absurd hz hlen
  · have hl := lookup_of_mem (fun x hx => (hs.above x hx).2.1) hs.disj hb
    obtain ⟨a1, a2, a3⟩ := hs.above _ hb
    simp only at a1 a2 a3
    have hroom := h.room
    refine ⟨b, hl, hbl, ?_, by omega, ?_⟩
    · simp only [readBack, hd, if_true, derefCell]
      have : ¬ ((rawCell s d).getD 0 0 = 0) := hlen
      simp only [this, if_false]
      simp only [cellAddr] at hl
      rw [hl]; rfl
    · intro j hj
      have h1 : ¬ (cellAddr (rawCell s d) + j < varCurrent s) := by omega
      have h2 : ¬ (cellAddr (rawCell s d) + j < varCurrent s + s.arrCur) := by omega
      have h3 : cellAddr (rawCell s d) + j > s.strCur := by omega
      have hg : getVarMemory s (cellAddr (rawCell s d) + j) = b[j]? := by
        simp only [getVarMemory, h1, h2, h3, if_false, if_true]
        rw [strGetLoop_of_mem hs.disj hb (by omega) (by omega)]
        congr 1; omega
      refine ⟨hg, ?_⟩
      have hge : cellAddr (rawCell s d) + j ≥ s.varStart := by simp only [varCurrent] at h1; omega
      simp only [peek, hge, if_true, hg]
      simp [List.getD, List.getElem?_eq_getElem hj]

/-- what a program reads back (numbers: the cell; strings: the characters behind the pointer) is unchanged by a
    LET for every variable whose cell bytes are unchanged (`assign_frame_scalar`, `assign_frame_element`):
    the string a pointer leads to is never overwritten or moved by an assignment to another variable -/
theorem assign_frame_readback {s : VM} (hs : StrOK s) (d : Dst) (v : Val) (d' : Dst)
    (hraw : rawCell (letStmt d v s).state d' = rawCell s d') :
    readBack (letStmt d v s).state d' = readBack s d' := by
  unfold readBack
  by_cases hd : isStr d'.name = true
  · simp only [hd, if_true, hraw]
    exact derefCell_stable hs (rawCell_ptrOK hs d' hd) (letStmt_strs d v s)
  · simp [hd, hraw]


/-! ### ERASE of a list of names -/

/-- `ERASE n1, n2, …` (one statement, successful or failing part-way on an undeclared or repeated name): every
    scalar and every element of an array that is not named reads back the same bytes and the same value.
    (That the surviving arrays are moved to addresses that are again consecutive, disjoint and inside the
    array area is `wf_reachable` + the `*_inside` / `*_disjoint` theorems, which hold in every reachable state;
    that PEEK at the moved VARPTR still shows the element is `peek_varptr_element`.) -/
theorem erase_frame (names : List Bytes) (s : VM) :
    (∀ n', rawCell (eraseList names s).state (.sc n') = rawCell s (.sc n')
        ∧ readBack (eraseList names s).state (.sc n') = readBack s (.sc n'))
    ∧ (∀ n' idx, n' ∉ names → rawCell (eraseList names s).state (.el n' idx) = rawCell s (.el n' idx)
        ∧ readBack (eraseList names s).state (.el n' idx) = readBack s (.el n' idx)) := by
  obtain ⟨f1, f2, f3, f4⟩ := eraseList_frame names s
  have hsc : ∀ n', rawCell (eraseList names s).state (.sc n') = rawCell s (.sc n') :=
    fun n' => by simp only [rawCell, f1]
  have hel : ∀ n' idx, n' ∉ names →
      rawCell (eraseList names s).state (.el n' idx) = rawCell s (.el n' idx) := by
    intro n' idx hn
    have h := f4 n' hn
    simp only [rawCell, f2]
    cases h1 : findA n' (eraseList names s).state.arrays with
    | none =>
      cases h2 : findA n' s.arrays with
      | none => rfl
      | some a => rw [h1, h2] at h; simp at h
    | some a' =>
      cases h2 : findA n' s.arrays with
      | none => rw [h1, h2] at h; simp at h
      | some a =>
        rw [h1, h2] at h
        simp only [Option.map_some, Option.some.injEq, coreA, Prod.mk.injEq] at h
        simp only [Option.bind_some, h.1, h.2]
  refine ⟨fun n' => ⟨hsc n', ?_⟩, fun n' idx hn => ⟨hel n' idx hn, ?_⟩⟩
  · simp only [readBack, hsc n', derefCell, f3]
  · simp only [readBack, hel n' idx hn, derefCell, f3]


/-! ### tie to the source: the record sizes

`PcbV.Gen.Translated.scalarRecordSize / arrayRecordSize` are regenerated from the Python AST of
`Scalars._record_size` and `Arrays._record_size` (gen/tables_py2lean.py; `len(name)`, `len(dimensions)`
are the parameters).  The theorems say that `recSize` / `arecSize` of the model are that code. -/

theorem translated_recordSize_supported :
    Gen.Translated.scalarRecordSize_supported = true ∧ Gen.Translated.arrayRecordSize_supported = true := by
  decide

theorem translated_scalarRecordSize_eq (name : Bytes) :
    ((recSize name : Nat) : Int) = Gen.Translated.scalarRecordSize (name.length : Int) := by
  unfold recSize Gen.Translated.scalarRecordSize; omega
theorem translated_arrayRecordSize_eq (name : Bytes) (dims : List Nat) :
    ((arecSize name dims : Nat) : Int) = Gen.Translated.arrayRecordSize (name.length : Int) (dims.length : Int) := by
  unfold arecSize Gen.Translated.arrayRecordSize; omega

end PcbV.C11
