import PcbV.Model.TextScreen
namespace PcbV.Drv.C36
open PcbV PcbV.TextScreen

def parseInt (w : String) : Option Int := w.toInt?

def parseOptInt (w : String) : Option (Option Int) :=
  if w == "_" then some none else (parseInt w).map some

/-- one op: `p<hex>` PRINT A$; · `P<hex>` PRINT A$ · `l<r>,<c>` LOCATE (`_` = omitted) · `c` CLS ·
    `v<t>,<b>` VIEW PRINT t TO b · `v_` VIEW PRINT · `w<n>` WIDTH n · `s<n>` SCREEN n · `q<r>,<c>` S%=SCREEN(r,c) -/
def parseOp (w : String) : Option Op :=
  match w.toList with
  | 'p' :: rest => (ofHex (String.ofList rest)).map (Op.print · false)
  | 'P' :: rest => (ofHex (String.ofList rest)).map (Op.print · true)
  | 'l' :: rest =>
    match (String.ofList rest).splitOn "," with
    | [a, b] => do
        let r ← parseOptInt a
        let c ← parseOptInt b
        pure (Op.locate r c)
    | _ => none
  | ['c'] => some Op.cls
  | ['v', '_'] => some (Op.viewPrint none)
  | 'v' :: rest =>
    match (String.ofList rest).splitOn "," with
    | [a, b] => do
        let t ← parseInt a
        let b ← parseInt b
        pure (Op.viewPrint (some (t, b)))
    | _ => none
  | 'w' :: rest => (String.ofList rest).toNat?.map Op.width
  | 's' :: rest => (String.ofList rest).toNat?.map Op.screen
  | 'q' :: rest =>
    match (String.ofList rest).splitOn "," with
    | [a, b] => do
        let r ← parseInt a
        let c ← parseInt b
        pure (Op.screenFn r c)
    | _ => none
  | _ => none

def rstrip (l : List Nat) : List Nat := (l.reverse.dropWhile (· == 32)).reverse

/-- non-blank rows as `row=hex` (trailing blanks stripped), comma separated; `-` when all blank -/
def showScreen (s : St) : String :=
  let rows := (List.range s.chars.length).filterMap (fun i =>
    let r := rstrip (s.chars.getD i [])
    if r.isEmpty then none else some (toString (i + 1) ++ "=" ++ toHex r))
  if rows.isEmpty then "-" else ",".intercalate rows

/-- `err:width:csrlin:pos:value:screen` after one statement (value: result of a `q` op, else `-`) -/
def showStep (s : St) (op : Op) : St × String :=
  let r := stepE s op
  let v := match op with
    | .screenFn a b => (match screenFn s a b with | .ok n => toString n | .error _ => "-")
    | _ => "-"
  let s' := r.1
  (s', toString r.2 ++ ":" ++ toString s'.width ++ ":" ++ toString (csrlin s') ++ ":" ++ toString (pos s')
        ++ ":" ++ v ++ ":" ++ showScreen s')

def runShow (s : St) : List Op → List String
  | [] => []
  | op :: rest => let r := showStep s op; r.2 :: runShow r.1 rest

def handleHist (s0 : St) (ops : String) : String :=
  match (if ops == "-" then some [] else (ops.splitOn ";").mapM parseOp) with
  | some l => "ok " ++ " ".intercalate (runShow s0 l)
  | none => "bad-op"

/-- `hist <ops>`: fresh VGA session; `histt <ops>`: fresh Tandy/PCjr session -/
def handle : List String → String
  | ["hist", ops] => handleHist init ops
  | ["histt", ops] => handleHist initTandy ops
  | _ => "bad-op"

end PcbV.Drv.C36
