import PcbV.Model.Arrays
/-
  Driver for C12.  One request = one history:
    hist <op>;<op>;…
  ops:  ob0 | ob1            OPTION BASE
        d:<n>=<dims>/<n>=…   DIM   (dims: comma-separated ints, `_` = none)
        e:<n>,<n>…           ERASE
        g:<n>:<idx>          read an element
        s:<n>:<idx>:<v>      assign an element
        c                    CLEAR
        l:<n>:<idx>:<srcs>:<c>:<fail>   LET n(idx) = sum of srcs + c   (srcs: `n.idx+n.idx…` or `_`; fail: errno or 0)
        w:<n>:<idx>:<m>:<idx2>          SWAP n(idx), m(idx2)
        dump                 (pseudo-op) all arrays, by name id: n=dims=values in lexicographic subscript order
  reply: one token per op: `ok`, `v<int>`, `e<errno>`, `[n=dims=vals|…]`.
    idx <base> <idx> <dims>  → flat index and flat length
-/
namespace PcbV.Drv.C12
open PcbV PcbV.Arrays

def parseInts (s : String) : Option (List Int) :=
  if s == "_" then some [] else (s.splitOn ",").mapM String.toInt?

def parseNats (s : String) : Option (List Nat) :=
  if s == "_" then some [] else (s.splitOn ",").mapM String.toNat?

def parseDimItem (s : String) : Option (Nat × List Int) :=
  match s.splitOn "=" with
  | [n, d] => do
      let n ← n.toNat?
      let d ← parseInts d
      pure (n, d)
  | _ => none

def parseOp (s : String) : Option Op :=
  match s.splitOn ":" with
  | ["ob0"] => some (.optionBase false)
  | ["ob1"] => some (.optionBase true)
  | ["c"] => some .clear
  | ["d", items] => do
      let l ← (items.splitOn "/").mapM parseDimItem
      pure (.dim l)
  | ["e", names] => do
      let l ← parseNats names
      pure (.erase l)
  | ["g", n, idx] => do
      let n ← n.toNat?
      let idx ← parseInts idx
      pure (.get n idx)
  | ["s", n, idx, v] => do
      let n ← n.toNat?
      let idx ← parseInts idx
      let v ← v.toInt?
      pure (.set n idx v)
  | _ => none

def showInts (l : List Int) : String := if l.isEmpty then "_" else ",".intercalate (l.map toString)

def showOut : Out → String
  | .done => "ok"
  | .val v => "v" ++ toString v
  | .err e => "e" ++ toString e

/-- all subscript tuples `base..d` per dimension, lexicographic (first subscript outermost) -/
def tuples (b : Int) : List Int → List (List Int)
  | [] => [[]]
  | d :: ds =>
    let rest := tuples b ds
    let vals := (List.range (d + 1 - b).toNat).map (fun (k : Nat) => b + Int.ofNat k)
    vals.flatMap (fun v => rest.map (fun t => v :: t))

def insertSorted (x : Nat × Arr) : List (Nat × Arr) → List (Nat × Arr)
  | [] => [x]
  | y :: ys => if x.1 ≤ y.1 then x :: y :: ys else y :: insertSorted x ys

def dumpArr (st : State) (na : Nat × Arr) : String :=
  let vals := (tuples st.b na.2.dims).map (fun t =>
    match (get st na.1 t).2 with
    | .ok v => toString v
    | .error e => "e" ++ toString e)
  toString na.1 ++ "=" ++ showInts na.2.dims ++ "=" ++ ",".intercalate vals

def dump (st : State) : String :=
  "[" ++ "|".intercalate ((st.arrs.foldr insertSorted []).map (dumpArr st)) ++ "]"

def parseSrc (s : String) : Option (Nat × List Int) :=
  match s.splitOn "." with
  | [n, idx] => do
      let n ← n.toNat?
      let idx ← parseInts idx
      pure (n, idx)
  | _ => none

def parseSrcs (s : String) : Option (List (Nat × List Int)) :=
  if s == "_" then some [] else (s.splitOn "+").mapM parseSrc

/-- the statements that are not single `Op`s -/
def compound (st : State) (s : String) : Option (State × Option Nat) :=
  match s.splitOn ":" with
  | ["l", n, idx, srcs, c, fail] => do
      let n ← n.toNat?
      let idx ← parseInts idx
      let srcs ← parseSrcs srcs
      let c ← c.toInt?
      let fail ← fail.toNat?
      pure (letFrom st n idx srcs c (if fail = 0 then none else some fail))
  | ["w", n, idx, m, idx2] => do
      let n ← n.toNat?
      let idx ← parseInts idx
      let m ← m.toNat?
      let idx2 ← parseInts idx2
      pure (swap st n idx m idx2)
  | _ => none

def runOps (st : State) : List String → Option (List String)
  | [] => some []
  | "dump" :: rest => do
      let r ← runOps st rest
      pure (dump st :: r)
  | s :: rest =>
    match compound st s with
    | some (st', e) => do
      let r ← runOps st' rest
      pure (showOut (outOf e) :: r)
    | none => do
      let op ← parseOp s
      let (st', o) := step st op
      let r ← runOps st' rest
      pure (showOut o :: r)

def handle : List String → String
  | ["hist", ops] =>
    match runOps State.init (ops.splitOn ";") with
    | some outs => "ok " ++ " ".intercalate outs
    | none => "bad-op"
  | ["idx", b, idx, dims] =>
    match b.toInt?, parseInts idx, parseInts dims with
    | some b, some idx, some dims => "ok " ++ toString (index b idx dims) ++ " " ++ toString (flatLength b dims)
    | _, _, _ => "bad-op"
  | _ => "bad-op"

end PcbV.Drv.C12
