import PcbV.Model.Draw
/-
  Model of the sprite side of `pcbasic/basic/display/graphics.py` (`get_`, `put_`, `point_`) and of the sprite
  builders of `pcbasic/basic/display/framebuffer.py` (`PackedSpriteBuilder`, `PlanedSpriteBuilder`,
  `Tandy6SpriteBuilder`) with the `pack_bytes` / `unpack_bytes` / `frompacked` / `packed` helpers of
  `pcbasic/basic/base/bytematrix.py` they rest on.

  A sprite (a `ByteMatrix`) is its list of rows, each a list of attributes (`Rows`); a byte array is `Bytes`.
  `pack_bytes` / `unpack_bytes` use `&`, `<<`, `>>` on non-negative ints; the model writes the same functions
  with `%`, `*`, `/` (`b & (2^k-1) = b % 2^k`, `b << s = b * 2^s`, `b >> s = b / 2^s`).  The plane
  combination of the EGA builder and the PUT operations are bitwise, as coded.
  The 4-byte size record is `struct.pack('<HH', …)`: it raises for values ≥ 65536, which no screen reaches;
  the model takes the low 16 bits.
  `unpack*` model an array that is at least as long as its own size record demands (GET always produces
  one; PUT of a shorter array is outside C31).
-/
namespace PcbV.Sprite
open PcbV PcbV.Viewport PcbV.Draw

abbrev Rows := List (List Nat)

/-- `ByteMatrix.width` (the length of the first row) -/
def width (s : Rows) : Nat := (s.headD []).length
/-- `ByteMatrix.height` -/
def height (s : Rows) : Nat := s.length

/-- `k` successive slices `l[0:m], l[m:2m], …` (Python slices: the last ones may be short or empty) -/
def chunksN (m : Nat) : Nat → List α → List (List α)
  | 0, _ => []
  | k + 1, l => l.take m :: chunksN m k (l.drop m)

/-! ### bytematrix.pack_bytes / unpack_bytes -/

/-- items per byte -/
def ipb (bpp : Nat) : Nat := 8 / bpp

/-- one output byte of `pack_bytes`: `sum((b & mask) << shift)` over at most `n` items, the shifts being
    `bpp*(n-1), …, bpp, 0` -/
def packByte (bpp : Nat) : Nat → List Nat → Nat
  | 0, _ => 0
  | _ + 1, [] => 0
  | n + 1, b :: bs => (b % 2 ^ bpp) * 2 ^ (bpp * n) + packByte bpp n bs

/-- `pack_bytes(row, 8 // bpp)`: `ceil(len/ipb)` bytes -/
def packRow (bpp : Nat) (row : List Nat) : List Nat :=
  (chunksN (ipb bpp) ((row.length + ipb bpp - 1) / ipb bpp) row).map (packByte bpp (ipb bpp))

/-- the items of one byte in `unpack_bytes`: `(byte >> shift) & mask` for the `n` shifts -/
def unpackByte (bpp : Nat) : Nat → Nat → List Nat
  | 0, _ => []
  | n + 1, byte => byte / 2 ^ (bpp * n) % 2 ^ bpp :: unpackByte bpp n byte

/-- `unpack_bytes(bytes, 8 // bpp)` -/
def unpackRow (bpp : Nat) (bytes : List Nat) : List Nat :=
  bytes.flatMap (unpackByte bpp (ipb bpp))

/-! ### the size record -/

/-- `struct.pack('<H', n)` -/
def u16 (n : Nat) : Bytes := [n % 256, n / 256 % 256]

/-- `struct.unpack('<H', b[i:i+2])` -/
def rdU16 (b : Bytes) (i : Nat) : Nat := b.getD i 0 + 256 * b.getD (i + 1) 0

/-! ### PackedSpriteBuilder (CGA: 1, 2, 4 bits per pixel) -/

def packPacked (bpp : Nat) (s : Rows) : Bytes :=
  u16 (width s * bpp) ++ u16 (height s) ++ s.flatMap (packRow bpp)

def unpackPacked (bpp : Nat) (arr : Bytes) : Rows :=
  let rowBits := rdU16 arr 0
  let h := rdU16 arr 2
  let w := rowBits / bpp
  let rowBytes := (w * bpp + 7) / 8
  let packed := (arr.drop 4).take (rowBytes * h)
  -- `frompacked`: rows of `len(packed) // height = rowBytes` bytes, unpacked, then clipped to the width
  (chunksN rowBytes h packed).map (fun r => (unpackRow bpp r).take w)

/-! ### PlanedSpriteBuilder (EGA: one bit plane after the other within each row) -/

/-- `sprite >> plane` on one row (`pack_bytes` masks the low bit) -/
def planeRow (p : Nat) (row : List Nat) : List Nat := row.map (· >>> p)

/-- the packed plane rows in the order they are stored: row 0 plane 0, row 0 plane 1, …, row 1 plane 0, … -/
def interlaced (n : Nat) (s : Rows) : List (List Nat) :=
  s.flatMap (fun row => (List.range n).map (fun p => packRow 1 (planeRow p row)))

def packPlaned (n : Nat) (s : Rows) : Bytes :=
  u16 (width s) ++ u16 (height s) ++ (interlaced n s).flatten

/-- `plane << p` (`ByteMatrix.__lshift__` masks to a byte) -/
def shiftRow (p : Nat) (r : List Nat) : List Nat := r.map (fun b => (b <<< p) &&& 0xff)

def orRows (a b : List Nat) : List Nat := List.zipWith (· ||| ·) a b

/-- `functools.reduce(operator.__ior__, planes)` on the rows of one sprite row, plane `p` onward -/
def combineFrom : Nat → List Nat → List (List Nat) → List Nat
  | _, acc, [] => acc
  | p, acc, r :: rs => combineFrom (p + 1) (orRows acc (shiftRow p r)) rs

def combineGroup : List (List Nat) → List Nat
  | [] => []
  | r :: rs => combineFrom 1 (shiftRow 0 r) rs

def unpackPlaned (n : Nat) (arr : Bytes) : Rows :=
  let w := rdU16 arr 0
  let h := rdU16 arr 2
  let rowBytes := (w + 7) / 8
  let packed := (arr.drop 4).take (h * n * rowBytes)
  let allplanes := (chunksN rowBytes (h * n) packed).map (fun r => (unpackRow 1 r).take w)
  -- plane p of sprite row r is `allplanes[r*n + p]` (`allplanes[p::n]`, row r)
  (chunksN n h allplanes).map combineGroup

/-! ### Tandy6SpriteBuilder: the record holds half the width -/

def packTandy6 (n : Nat) (s : Rows) : Bytes :=
  u16 (width s / 2) ++ (packPlaned n s).drop 2

def unpackTandy6 (n : Nat) (arr : Bytes) : Rows :=
  unpackPlaned n (u16 (rdU16 arr 0 * 2) ++ arr.drop 2)

/-! ### the builder of a mode -/

inductive Builder where
  | packed (bpp : Nat)
  | planed (n : Nat)
  | tandy6 (n : Nat)
deriving Repr, DecidableEq

def Builder.pack : Builder → Rows → Bytes
  | .packed bpp => packPacked bpp
  | .planed n => packPlaned n
  | .tandy6 n => packTandy6 n

def Builder.unpack : Builder → Bytes → Rows
  | .packed bpp => unpackPacked bpp
  | .planed n => unpackPlaned n
  | .tandy6 n => unpackTandy6 n

/-- `width_factor` -/
def Builder.widthFactor : Builder → Nat
  | .tandy6 _ => 2
  | _ => 1

/-- bits per pixel of the mode (the builders are constructed with `mode.bitsperpixel`) -/
def Builder.bpp : Builder → Nat
  | .packed bpp => bpp
  | .planed n => n
  | .tandy6 n => n

/-- the sprites the builder stores faithfully: rectangular, non-empty, attributes below `2^bpp`,
    size record within 16 bits (Tandy SCREEN 6: even width) -/
def Builder.admits (b : Builder) (s : Rows) (w : Nat) : Prop :=
  0 < w ∧ 0 < s.length ∧ s.length < 65536 ∧ (∀ r ∈ s, r.length = w) ∧ (∀ r ∈ s, ∀ a ∈ r, a < 2 ^ b.bpp) ∧
  match b with
  | .packed bpp => w * bpp < 65536
  | .planed _ => w < 65536
  | .tandy6 _ => w < 65536 ∧ w % 2 = 0

/-! ### GET, PUT, POINT on a page -/

/-- `graph_view[y0:y0+h, x0:x0+w]` of a rectangle that lies on the page (absolute coordinates) -/
def getRect (pg : Page) (x0 y0 : Int) (w h : Nat) : Rows :=
  (List.range h).map (fun (j : Nat) => (List.range w).map (fun (i : Nat) => pg (x0 + (i : Int)) (y0 + (j : Int))))

inductive PutOp where
  | pset | preset | and | or | xor
deriving Repr, DecidableEq

/-- new cell value from the screen value `p` and the sprite value `s` -/
def PutOp.cell (bpp : Nat) : PutOp → Nat → Nat → Nat
  | .pset, _, s => s
  | .preset, _, s => s ^^^ (2 ^ bpp - 1)
  | .and, p, s => p &&& s
  | .or, p, s => p ||| s
  | .xor, p, s => p ^^^ s

def cellAt (s : Rows) (i j : Nat) : Nat := (s.getD j []).getD i 0

/-- `graph_view[y0:y1+1, x0:x1+1] = rect` for a sprite that lies on the page (absolute coordinates) -/
def putRect (op : PutOp) (bpp : Nat) (pg : Page) (x0 y0 : Int) (s : Rows) : Page :=
  fun x y =>
    if x0 ≤ x ∧ x < x0 + width s ∧ y0 ≤ y ∧ y < y0 + height s then
      op.cell bpp (pg x y) (cellAt s (x - x0).toNat (y - y0).toNat)
    else pg x y

/-- `get_` from physical coordinates on: corners sorted, width times the builder's factor, the whole rectangle
    must lie in the viewport, the record must fit the array of `arrLen` bytes -/
def getStmt (b : Builder) (v : View) (pg : Page) (xa ya xb yb : Int) (arrLen : Nat) : R Bytes :=
  let y0 := min ya yb
  let y1 := max ya yb
  let x0 := min xa xb
  let x1 := max xa xb
  let w := x1 - x0 + 1
  let x1 := x0 + b.widthFactor * w - 1
  if ¬ v.contains x0 y0 then .error ifc
  else if ¬ v.contains x1 y1 then .error ifc
  else
    let packed := b.pack (getRect pg (x0 + v.offX) (y0 + v.offY) (x1 - x0 + 1).toNat (y1 - y0 + 1).toNat)
    if packed.length > arrLen then .error ifc else .ok packed

/-- `put_` from physical coordinates on -/
def putStmt (b : Builder) (v : View) (pg : Page) (x0 y0 : Int) (arr : Bytes) (op : PutOp) : R Page :=
  let s := b.unpack arr
  let x1 := x0 + width s - 1
  let y1 := y0 + height s - 1
  if ¬ v.contains x0 y0 then .error ifc
  else if ¬ v.contains x1 y1 then .error ifc
  else .ok (putRect op b.bpp pg (x0 + v.offX) (y0 + v.offY) s)

/-- `point_` with two arguments, from physical coordinates on: -1 outside the screen size (tested on the
    viewport coordinates, as coded), else the pixel the viewport maps the point to -/
def point (v : View) (pg : Page) (x y : Int) : Int :=
  if x < 0 ∨ x ≥ v.W ∨ y < 0 ∨ y ≥ v.H then -1 else (pg (x + v.offX) (y + v.offY) : Int)

/-! ### histories: the arrays hold bytes; GET writes them, PUT reads them afresh every time -/

/-- `byte_array[:len(packed)] = packed`: the record replaces the head of the array, the rest stays -/
def writePrefix (old packed : Bytes) : Bytes := packed ++ old.drop packed.length

/-- the page and the current bytes of every array (by number) -/
structure GState where
  pg : Page
  arrs : Nat → Bytes

def GState.setArr (s : GState) (a : Nat) (b : Bytes) : GState :=
  { s with arrs := fun i => if i = a then b else s.arrs i }

inductive GStmt where
  | get (a : Nat) (xa ya xb yb : Int)
  | put (a : Nat) (x0 y0 : Int) (op : PutOp)
  /-- element assignments, the session API, ERASE + DIM: afterwards the array holds these bytes -/
  | store (a : Nat) (bytes : Bytes)

/-- one statement; `put_` unpacks `view_full_buffer(array_name)`, i.e. what the array holds now -/
def gstep (b : Builder) (v : View) (s : GState) : GStmt → R GState
  | .get a xa ya xb yb =>
    match getStmt b v s.pg xa ya xb yb (s.arrs a).length with
    | .error e => .error e
    | .ok packed => .ok (s.setArr a (writePrefix (s.arrs a) packed))
  | .put a x0 y0 op =>
    match putStmt b v s.pg x0 y0 (s.arrs a) op with
    | .error e => .error e
    | .ok pg => .ok { s with pg := pg }
  | .store a bytes => .ok (s.setArr a bytes)

/-- a history: a refused statement (Illegal function call) leaves page and arrays as they were -/
def grun (b : Builder) (v : View) (s : GState) : List GStmt → GState
  | [] => s
  | st :: rest =>
    match gstep b v s st with
    | .ok s' => grun b v s' rest
    | .error _ => grun b v s rest

/-! ### coordinate forms: STEP offsets and the graphics cursor (`_last_point`), no WINDOW, integer arguments -/

/-- `_get_window_physical(x, y, step)` with the cursor at `last` -/
def resolve (last : Int × Int) (step : Bool) (x y : Int) : Int × Int :=
  if step then (last.1 + x, last.2 + y) else (x, y)

/-- a coordinate pair as written: `(x,y)` or `STEP(x,y)` -/
structure Coord where
  step : Bool
  x : Int
  y : Int

/-- `line_`: first corner (omitted: the cursor), cursor := first corner, second corner, cursor := second corner.
    Result: (first corner, second corner, cursor afterwards) -/
def lineCorners (last : Int × Int) (first : Option Coord) (second : Coord) : (Int × Int) × (Int × Int) × (Int × Int) :=
  let p0 := match first with
    | some c => resolve last c.step c.x c.y
    | none => last
  let p1 := resolve p0 second.step second.x second.y
  (p0, p1, p1)

/-- `get_`: the first corner is absolute, the cursor is set to it, then the second corner is resolved -/
def getCorners (_last : Int × Int) (x0 y0 : Int) (second : Coord) : (Int × Int) × (Int × Int) × (Int × Int) :=
  let p0 := (x0, y0)
  let p1 := resolve p0 second.step second.x second.y
  (p0, p1, p1)

/-- `get_` without the intermediate `self._last_point = x0, y0` (seeded change C31e) -/
def getCornersNoStore (last : Int × Int) (x0 y0 : Int) (second : Coord) : (Int × Int) × (Int × Int) × (Int × Int) :=
  let p0 := (x0, y0)
  let p1 := resolve last second.step second.x second.y
  (p0, p1, p1)

/-- `_pset_preset`, `circle_`, `paint_` (seed on the screen), `put_`: one point, the cursor is left on it -/
def pointStmt (last : Int × Int) (c : Coord) : (Int × Int) × (Int × Int) :=
  let p := resolve last c.step c.x c.y
  (p, p)

end PcbV.Sprite
