import PcbV.Model.MiniBasic
/-
  Driver for C19: `run <fixed 0|1> <fuel> <program>`; the whole program travels in one word:
    lines separated by `|`, a line is `<number>:<stmt>;<stmt>…`, statement fields separated by `,`,
    expressions are prefix token lists separated by `_` (`n<int>`, `v<index>`, `f<int>/<nat>`, add sub lt le eq ne gt ge),
    an absent line number / step is `-`.
  Reply: `ok <printed values, comma separated or -> <end | err<n> | fuel>`.
-/
namespace PcbV.Drv.C19
open PcbV PcbV.MiniBasic

def parseTok (t : String) : Option (Sum Expr BinOp) :=
  match t with
  | "add" => some (.inr .add) | "sub" => some (.inr .sub)
  | "lt" => some (.inr .lt) | "le" => some (.inr .le) | "eq" => some (.inr .eq)
  | "ne" => some (.inr .ne) | "gt" => some (.inr .gt) | "ge" => some (.inr .ge)
  | _ =>
    match t.toList with
    | 'n' :: rest => (String.ofList rest).toInt?.map (fun n => .inl (.lit n))
    | 'v' :: rest => (String.ofList rest).toNat?.map (fun n => .inl (.var n))
    | 'f' :: rest =>
      match (String.ofList rest).splitOn "/" with
      | [n, d] => do pure (.inl (.frac (← n.toInt?) (← d.toNat?)))
      | _ => none
    | _ => none

/-- prefix expression parser; fuel = number of tokens -/
def parseExprAux : Nat → List String → Option (Expr × List String)
  | 0, _ => none
  | _, [] => none
  | f + 1, t :: rest =>
    match parseTok t with
    | none => none
    | some (.inl e) => some (e, rest)
    | some (.inr op) =>
      match parseExprAux f rest with
      | none => none
      | some (a, rest1) =>
        match parseExprAux f rest1 with
        | none => none
        | some (b, rest2) => some (.bin op a b, rest2)

def parseExpr (s : String) : Option Expr :=
  let toks := s.splitOn "_"
  match parseExprAux (toks.length + 1) toks with
  | some (e, []) => some e
  | _ => none

def parseOptNat (s : String) : Option (Option Nat) :=
  if s == "-" then some none else s.toNat?.map some

def parseNats (l : List String) : Option (List Nat) := l.mapM (·.toNat?)

def parseStmt (s : String) : Option Stmt :=
  match s.splitOn "," with
  | ["P", e] => (parseExpr e).map .print
  | ["L", v, e] => do pure (.let_ (← v.toNat?) (← parseExpr e))
  | ["F", v, a, b, c] => do
      let c' ← if c == "-" then some none else (parseExpr c).map some
      pure (.for_ (← v.toNat?) (← parseExpr a) (← parseExpr b) c')
  | "N" :: vs => (parseNats vs).map .next
  | ["W", e] => (parseExpr e).map .while_
  | ["D"] => some .wend
  | ["U", n] => n.toNat?.map .gosub
  | ["R"] => some .ret
  | ["G", n] => n.toNat?.map .goto
  | ["I", e, t] => do pure (.ifThen (← parseExpr e) (← parseOptNat t))
  | ["S", t] => (parseOptNat t).map .else_
  | "O" :: k :: e :: ts => do
      let sub ← if k == "s" then some true else if k == "g" then some false else none
      pure (.on_ (← parseExpr e) sub (← parseNats ts))
  | ["E"] => some .end_
  | _ => none

def parseLine (s : String) : Option Line :=
  match s.splitOn ":" with
  | [n, body] => do pure ⟨← n.toNat?, ← (body.splitOn ";").mapM parseStmt⟩
  | _ => none

def parseProg (s : String) : Option (List Line) := (s.splitOn "|").mapM parseLine

def showInts (l : List Int) : String := if l.isEmpty then "-" else ",".intercalate (l.map toString)

def showStatus : Status → String
  | .ended => "end"
  | .err e => "err" ++ toString e
  | .fuel => "fuel"

def handle : List String → String
  | ["run", fixed, fuel, prog] =>
    match fuel.toNat?, parseProg prog with
    | some fuel, some p =>
      let (tr, st) := trace (fixed == "1") p fuel
      "ok " ++ showInts tr ++ " " ++ showStatus st
    | _, _ => "bad-op"
  | _ => "bad-op"

end PcbV.Drv.C19
