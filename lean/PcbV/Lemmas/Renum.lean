import PcbV.Model.Renum
import PcbV.Lemmas.ProgramEdit
/-
  Lemmas for C14 (RENUM): the item view of a body (`parse`) against `skip_to`'s scan, the numbering
  loop, and order facts about sorted programs.
-/
namespace PcbV.Renum
open PcbV PcbV.Gen PcbV.Gen.ProgTokens PcbV.Gen.RenumTokens PcbV.Program

/-! ### scanning -/
theorem length_unparse_map (f : Nat → Nat) : ∀ is : List Item,
    (unparse (is.map (Item.map f))).length = (unparse is).length
  | [] => rfl
  | i :: is => by
    cases i <;> simp [unparse, Item.map, Item.bytes, length_unparse_map f is]

theorem unparse_map_byte (l : Bytes) : unparse (l.map Item.byte) = l := by
  induction l with
  | nil => rfl
  | cons c l ih => simp [unparse, Item.bytes, ih]

theorem map_map_byte (f : Nat → Nat) (l : Bytes) : (l.map Item.byte).map (Item.map f) = l.map Item.byte := by
  induction l with
  | nil => rfl
  | cons c l ih => simp [Item.map]

theorem lo_le16 (a b : Nat) (ha : a < 256) : lo (le16 a b) = a := by unfold lo le16; omega
theorem hi_le16 (a b : Nat) (ha : a < 256) (hb : b < 256) : hi (le16 a b) = b := by unfold hi le16; omega

theorem ok_tail {c : Nat} {l : Bytes} (h : Bytes.ok (c :: l)) : Bytes.ok l := fun x hx => h x (List.mem_cons_of_mem _ hx)

/-- the item view loses nothing: writing the items back gives the body -/
theorem unparse_parse (st : Scan) (eg : Nat) (b : Bytes) (hok : Bytes.ok b) : unparse (parse st eg b) = b := by
  fun_induction parse st eg b with
  | case1 => rfl
  | case2 st eg c h a b rest' h2 ih =>
    simp [unparse, Item.bytes, ih (ok_tail (ok_tail (ok_tail hok)))]
  | case3 st eg c h a b rest' h2 ih =>
    have ha : a < 256 := hok a (by simp)
    have hb : b < 256 := hok b (by simp)
    simp [unparse, Item.bytes, ih (ok_tail (ok_tail (ok_tail hok))), lo_le16 a b ha, hi_le16 a b ha hb]
  | case4 => simp [unparse, Item.bytes, unparse_map_byte]
  | case5 => simp [unparse, Item.bytes, unparse_map_byte]
  | case6 st eg c rest h st' hs ih => simp [unparse, Item.bytes, ih (ok_tail hok)]

theorem scanAll_uint (x y : Nat) (rest : Bytes) :
    scanAll false Scan.init (tUint :: x :: y :: rest) = scanAll false Scan.init rest := by
  simp [scanAll, scanStep, Scan.init, tUint, plusBytes, remTok]

/-- rewriting reference payloads is invisible to `skip_to`: same scan state at the end of the body -/
theorem scanAll_rw (f : Nat → Nat) (st : Scan) (eg : Nat) (b : Bytes) :
    scanAll false st (unparse ((parse st eg b).map (Item.map f))) = scanAll false st b := by
  fun_induction parse st eg b with
  | case1 => rfl
  | case2 st eg c h a b rest' h2 ih =>
    obtain ⟨rfl, rfl⟩ := h
    obtain ⟨_, rfl, rfl⟩ := h2
    simp only [List.map, Item.map, unparse, Item.bytes, List.cons_append, List.nil_append, scanAll_uint, ih]
  | case3 st eg c h a b rest' h2 ih =>
    obtain ⟨rfl, rfl⟩ := h
    simp only [List.map, Item.map, unparse, Item.bytes, List.cons_append, List.nil_append, scanAll_uint, ih]
  | case4 => rw [map_map_byte, unparse_map_byte]
  | case5 => rw [map_map_byte, unparse_map_byte]
  | case6 st eg c rest h st' hs ih =>
    simp only [List.map, Item.map, unparse, Item.bytes, List.cons_append, List.nil_append, scanAll, hs, ih]

theorem parse_cons (st : Scan) (eg c : Nat) (rest : Bytes) :
    parse st eg (c :: rest) =
      if st = Scan.init ∧ c = tUint then
        match rest with
        | a :: b :: rest' =>
          if eg = 2 ∧ a = 0 ∧ b = 0 then .byte c :: .byte a :: .byte b :: parse Scan.init 0 rest'
          else .byte c :: .ref (le16 a b) :: parse Scan.init 0 rest'
        | _ => (c :: rest).map .byte
      else
        match scanStep false st c with
        | none => (c :: rest).map .byte
        | some st' => .byte c :: parse st' (egNext st eg c) rest := by
  rw [parse.eq_def]; rfl

theorem le16_lo_hi' (n : Nat) (h : n < 65536) : le16 (lo n) (hi n) = n := by unfold le16 lo hi; omega

/-- re-reading the rewritten body gives the mapped items: the rewrite changes the references and
    nothing else, as RENUM (and the interpreter) will see the line afterwards.  `hf0`: no reference
    other than 0 is mapped to 0 (else `ON ERROR GOTO n` would turn into `ON ERROR GOTO 0`). -/
theorem parse_rw (f : Nat → Nat) (hf : ∀ n, n < 65536 → f n < 65536) (hf0 : ∀ n, n ≠ 0 → f n ≠ 0)
    (st : Scan) (eg : Nat) (b : Bytes) (hok : Bytes.ok b) :
    parse st eg (unparse ((parse st eg b).map (Item.map f))) = (parse st eg b).map (Item.map f) := by
  fun_induction parse st eg b with
  | case1 => rfl
  | case2 st eg c h a b rest' h2 ih =>
    simp only [List.map, Item.map, unparse, Item.bytes, List.cons_append, List.nil_append]
    rw [parse_cons]; simp only [h, h2, and_self, if_true]; rw [ih (ok_tail (ok_tail (ok_tail hok)))]
  | case3 st eg c h a b rest' h2 ih =>
    have ha : a < 256 := hok a (by simp)
    have hb : b < 256 := hok b (by simp)
    have hn : le16 a b < 65536 := by unfold le16; omega
    simp only [List.map, Item.map, unparse, Item.bytes, List.cons_append, List.nil_append]
    rw [parse_cons]; simp only [h, and_self, if_true]
    have hne : ¬ (eg = 2 ∧ lo (f (le16 a b)) = 0 ∧ hi (f (le16 a b)) = 0) := by
      rintro ⟨he, h1, h3⟩
      have hz : f (le16 a b) = 0 := by
        have := le16_lo_hi' _ (hf (le16 a b) hn); rw [h1, h3] at this; simpa [le16] using this.symm
      by_cases hn : le16 a b = 0
      · apply h2; refine ⟨he, ?_, ?_⟩ <;> (unfold le16 at hn; omega)
      · exact hf0 _ hn hz
    rw [if_neg hne, le16_lo_hi' _ (hf _ hn), ih (ok_tail (ok_tail (ok_tail hok)))]
  | case4 st eg c rest h hno =>
    rw [map_map_byte, unparse_map_byte]
    rw [parse_cons]; simp only [h, and_self, if_true]
  | case5 st eg c rest h hs =>
    rw [map_map_byte, unparse_map_byte]
    rw [parse_cons]; simp only [h, if_false, hs]
  | case6 st eg c rest h st' hs ih =>
    simp only [List.map, Item.map, unparse, Item.bytes, List.cons_append, List.nil_append]
    rw [parse_cons]; simp only [h, if_false, hs, ih (ok_tail hok)]

/-- the item view has the length of the body (no hypothesis on the bytes) -/
theorem length_unparse_parse (st : Scan) (eg : Nat) (b : Bytes) : (unparse (parse st eg b)).length = b.length := by
  fun_induction parse st eg b with
  | case1 => rfl
  | case2 st eg c h a b rest' h2 ih => simp [unparse, Item.bytes, ih]
  | case3 st eg c h a b rest' h2 ih => simp [unparse, Item.bytes, ih]
  | case4 => rw [unparse_map_byte]
  | case5 => rw [unparse_map_byte]
  | case6 st eg c rest h st' hs ih => simp [unparse, Item.bytes, ih]

theorem length_renumBody (f : Nat → Nat) (b : Bytes) : (renumBody f b).length = b.length := by
  unfold renumBody items; rw [length_unparse_map, length_unparse_parse]

theorem wfBody_renumBody (f : Nat → Nat) (b : Bytes) : wfBody (renumBody f b) = wfBody b := by
  unfold wfBody renumBody items; rw [scanAll_rw]

theorem items_renumBody (f : Nat → Nat) (hf : ∀ n, n < 65536 → f n < 65536) (hf0 : ∀ n, n ≠ 0 → f n ≠ 0)
    (b : Bytes) (hok : Bytes.ok b) : items (renumBody f b) = (items b).map (Item.map f) :=
  parse_rw f hf hf0 Scan.init 0 b hok

/-- the identity renumbering leaves a body as it is -/
theorem renumBody_id (b : Bytes) (hok : Bytes.ok b) : renumBody (fun n => n) b = b := by
  unfold renumBody items
  have : ∀ is : List Item, is.map (Item.map (fun n => n)) = is := by
    intro is; induction is with
    | nil => rfl
    | cons i is ih => cases i <;> simp [Item.map, ih]
  rw [this, unparse_parse _ _ _ hok]

/-! ### numbering -/

theorem look_cons (l v k : Nat) (m : List (Nat × Nat)) :
    look ((l, v) :: m) k = if l = k then some v else look m k := by
  unfold look
  by_cases h : l = k <;> simp [h]

theorem look_none_of_not_mem (m : List (Nat × Nat)) (n : Nat) (h : n ∉ m.map (·.1)) : look m n = none := by
  induction m with
  | nil => rfl
  | cons e m ih =>
    obtain ⟨l, v⟩ := e
    simp only [List.map_cons, List.mem_cons, not_or] at h
    rw [look_cons, if_neg (fun hh => h.1 hh.symm), ih h.2]

theorem look_mem (m : List (Nat × Nat)) (n v : Nat) (h : look m n = some v) : (n, v) ∈ m := by
  induction m with
  | nil => simp [look] at h
  | cons e m ih =>
    obtain ⟨l, w⟩ := e
    rw [look_cons] at h
    by_cases hl : l = n
    · simp only [hl, if_true, Option.some.injEq] at h; subst hl; subst h; simp
    · simp only [hl, if_false] at h; exact List.mem_cons_of_mem _ (ih h)

theorem fmap_of_not_mem (m : List (Nat × Nat)) (n : Nat) (h : n ∉ m.map (·.1)) : fmap m n = n := by
  unfold fmap; rw [look_none_of_not_mem m n h]; rfl

theorem map_fmap_keys (m : List (Nat × Nat)) (hnd : (m.map (·.1)).Nodup) :
    (m.map (·.1)).map (fmap m) = m.map (·.2) := by
  induction m with
  | nil => rfl
  | cons e m ih =>
    obtain ⟨l, v⟩ := e
    simp only [List.map_cons, List.nodup_cons] at hnd
    simp only [List.map_cons]
    congr 1
    · simp [fmap, look_cons]
    · rw [← ih hnd.2]
      apply List.map_congr_left
      intro k hk
      have : l ≠ k := fun hh => hnd.1 (hh ▸ hk)
      simp [fmap, look_cons, this]

theorem assign_spec : ∀ (ls : List Nat) (new step : Nat) (m : List (Nat × Nat)), assign new step ls = .ok m →
    m.map (·.1) = ls ∧ m.map (·.2) = List.range' new ls.length step
  | [], _, _, m, h => by simp [assign] at h; subst h; simp
  | l :: ls, new, step, m, h => by
    unfold assign at h
    split at h
    · cases h
    · split at h
      · rename_i m' hm'
        cases h
        have := assign_spec ls _ _ _ hm'
        simp [this.1, this.2, List.range'_succ]
      · cases h

/-- the numbering loop succeeds iff every number it hands out is ≤ 65529 -/
theorem assign_ok_iff : ∀ (ls : List Nat) (new step : Nat), (∀ l ∈ ls, l < 65535) →
    ((∃ m, assign new step ls = .ok m) ↔ ∀ i, i < ls.length → new + step * i ≤ 65529)
  | [], _, _, _ => by simp [assign]
  | l :: ls, new, step, hl => by
    have hl0 : l < 65535 := hl l (by simp)
    have ih := assign_ok_iff ls (new + step) step (fun x hx => hl x (List.mem_cons_of_mem _ hx))
    unfold assign
    constructor
    · rintro ⟨m, hm⟩ i hi
      split at hm
      · cases hm
      · rename_i hc
        split at hm
        · rename_i m' hm'
          have h2 := ih.mp ⟨m', hm'⟩
          cases i with
          | zero => simp only [Nat.mul_zero, Nat.add_zero]; omega
          | succ j =>
            have := h2 j (by simpa using hi)
            rw [Nat.mul_succ]; omega
        · cases hm
    · intro h
      have h0 := h 0 (by simp)
      simp only [Nat.mul_zero, Nat.add_zero] at h0
      rw [if_neg (by omega)]
      have : ∀ i, i < ls.length → new + step + step * i ≤ 65529 := by
        intro i hi
        have := h (i + 1) (by simpa using hi)
        rw [Nat.mul_succ] at this; omega
      obtain ⟨m', hm'⟩ := ih.mpr this
      exact ⟨_, by rw [hm']⟩

/-! ### sorted programs -/

theorem split_kept_moved (rs : List Rec) (start : Nat) (hs : Sorted rs) : rs = kept rs start ++ moved rs start := by
  induction rs with
  | nil => rfl
  | cons r t ih =>
    have hs' : Sorted t := (List.pairwise_cons.mp hs).2
    have hlt : ∀ x ∈ t, r.1 < x.1 := (List.pairwise_cons.mp hs).1
    have ih := ih hs'
    unfold kept moved at ih ⊢
    by_cases h : r.1 < start
    · have h' : ¬ start ≤ r.1 := by omega
      simp only [List.filter_cons, h, h', decide_true, decide_false, if_true, List.cons_append]
      simp only [Bool.false_eq_true, if_false]
      rw [← ih]
    · have h' : start ≤ r.1 := by omega
      have e1 : t.filter (fun r => decide (r.1 < start)) = [] :=
        List.filter_eq_nil_iff.mpr (fun x hx => by have := hlt x hx; simp; omega)
      have e2 : t.filter (fun r => decide (start ≤ r.1)) = t :=
        List.filter_eq_self.mpr (fun x hx => by have := hlt x hx; simp; omega)
      simp [h, h', e1, e2]

theorem pairwise_either {α : Type} {S : α → α → Prop} {l : List α} (h : l.Pairwise S) {x y : α}
    (hx : x ∈ l) (hy : y ∈ l) : x = y ∨ S x y ∨ S y x := by
  induction l with
  | nil => cases hx
  | cons a t ih =>
    have h1 := (List.pairwise_cons.mp h).1
    have h2 := (List.pairwise_cons.mp h).2
    rcases List.mem_cons.mp hx with rfl | hx' <;> rcases List.mem_cons.mp hy with rfl | hy'
    · exact Or.inl rfl
    · exact Or.inr (Or.inl (h1 _ hy'))
    · exact Or.inr (Or.inr (h1 _ hx'))
    · exact ih h2 hx' hy'

/-! ### unfolding an accepted RENUM; small list facts -/

/-- what an accepted RENUM consists of -/
theorem renum_ok {rs : List Rec} {new start step : Nat} {res : Result}
    (h : renum rs new start step = .ok res) :
    (∀ r ∈ kept rs start, r.1 < new) ∧ assign new step (lineNos (moved rs start)) = .ok res.map ∧
      res.prog = rs.map (fun r => (fmap res.map r.1, renumBody (fmap res.map) r.2)) ∧
      res.reports = reports res.map rs := by
  unfold renum at h
  split at h
  · cases h
  · rename_i hk
    split at h
    · cases h
    · rename_i m hm
      cases h
      refine ⟨?_, hm, rfl, rfl⟩
      intro r hr
      have : ¬ new ≤ r.1 := fun hle => hk (List.any_eq_true.mpr ⟨r, hr, by simpa using hle⟩)
      omega

theorem nodup_lineNos {rs : List Rec} (hs : Sorted rs) : (lineNos rs).Nodup := by
  unfold lineNos Sorted at *
  rw [List.nodup_iff_pairwise_ne, List.pairwise_map]
  exact hs.imp (fun h => Nat.ne_of_lt h)

theorem sorted_moved {rs : List Rec} (start : Nat) (hs : Sorted rs) : Sorted (moved rs start) :=
  List.Pairwise.sublist List.filter_sublist hs

theorem sorted_kept {rs : List Rec} (start : Nat) (hs : Sorted rs) : Sorted (kept rs start) :=
  List.Pairwise.sublist List.filter_sublist hs

theorem fmap_kept {rs : List Rec} {new start step : Nat} {m : List (Nat × Nat)}
    (hm : assign new step (lineNos (moved rs start)) = .ok m) (n : Nat) (hn : n < start) : fmap m n = n := by
  apply fmap_of_not_mem
  rw [(assign_spec _ _ _ _ hm).1]
  intro hmem
  obtain ⟨r, hr, rfl⟩ := List.mem_map.mp hmem
  have := (List.mem_filter.mp hr).2
  simp at this; omega

theorem findIdx_map {α β : Type} (g : α → β) (p : α → Bool) (q : β → Bool) :
    ∀ l : List α, (∀ x ∈ l, q (g x) = p x) → (l.map g).findIdx? q = l.findIdx? p
  | [], _ => rfl
  | x :: l, hpq => by
    have ih := findIdx_map g p q l (fun y hy => hpq y (List.mem_cons_of_mem _ hy))
    simp only [List.map_cons, List.findIdx?_cons, hpq x (by simp), ih]

theorem size_map_eq (g : Rec → Rec) (hg : ∀ r, (g r).2.length = r.2.length) :
    ∀ rs : List Rec, size (rs.map g) = size rs
  | [] => rfl
  | r :: rs => by simp [size, recSize, hg r, size_map_eq g hg rs]


end PcbV.Renum
