"""Helpers to drive the real interpreter in-process (imported from /repo via PYTHONPATH)."""
import contextlib
import io
import re


def new_session(**kw):
    from pcbasic.basic import Session
    kw.setdefault('output_streams', None)
    kw.setdefault('input_streams', None)
    kw.setdefault('peek_values', {})
    s = Session(**kw)
    s.start()
    return s


ERR_RX = re.compile(br'(?m)^([A-Z][A-Za-z \?\x27]+?)(?: in (\d+))?\xff?\r?$')


def error_table():
    """message -> number, from the implementation's own table."""
    from pcbasic.basic.base import error
    return {v: k for k, v in error.BASICError.messages.items()} if hasattr(error.BASICError, 'messages') else {}


def exec_capture(session, text):
    """Execute BASIC text (bytes); returns the bytes written to the output stream."""
    if isinstance(text, str):
        text = text.encode('latin-1')
    return session.execute(text)


def last_error(session):
    """(ERR, ERL) as kept by the interpreter."""
    imp = session._impl
    return imp.interpreter.error_num, imp.interpreter.error_pos


def screen_lines(session):
    return [b''.join(r).rstrip() for r in session.get_chars()]


def safe_exec(session, text):
    """session.execute, but a host exception escaping the interpreter is returned as b'<<EXC name>>'
    (an escaping host exception is itself a finding, never a harness crash)."""
    try:
        return exec_capture(session, text)
    except Exception as e:   # noqa
        return b'<<EXC %s>>' % type(e).__name__.encode()
