import PcbV.Lemmas.Heap
/-
  The relocation done by the collector is monotone in the old address, and the re-addressed
  temporaries boundary `_temp` stays below every string that was above it (PcbV.Props.C10).
-/
namespace PcbV.Heap
open PcbV

/-- second invariant of the re-store loop; `D` = the cells written so far -/
structure MInv (s t : Heap) (last : Option (Nat × Ptr)) (R : List Entry) (D : List Loc) : Prop where
  done : ∀ l ∈ D, ∀ p, getLoc t l = some p → 0 < p.len →
      ∃ p0, getLoc s l = some p0 ∧ 0 < p0.len ∧ s.varStart ≤ p0.addr ∧ (∃ b, lookup t.strs p.addr = some b) ∧
        ∃ a q, last = some (a, q) ∧ a ≤ p0.addr ∧ (p0.addr = a → p = q)
  mono : ∀ l ∈ D, ∀ l' ∈ D, ∀ p p' p0 p0', getLoc t l = some p → getLoc t l' = some p' →
      getLoc s l = some p0 → getLoc s l' = some p0' → 0 < p.len → 0 < p'.len →
      p0.addr ≤ p0'.addr → p.addr ≤ p'.addr
  cover : ∀ l p0, getLoc s l = some p0 → 0 < p0.len → s.varStart ≤ p0.addr → l ∈ D ∨ ∃ e ∈ R, e.loc = l
  untouched : ∀ l, l ∉ D → getLoc t l = getLoc s l

theorem MInv.fresh {s t : Heap} {last : Option (Nat × Ptr)} {e : Entry} {R : List Entry} {D : List Loc}
    (hs : WF s) (h : RInv s t last (e :: R)) (m : MInv s t last (e :: R) D)
    (hc : ∀ a q, last = some (a, q) → ¬ (e.bytes.length > 0 ∧ e.addr = a)) :
    MInv s (setLoc (storeRaw t e.bytes).1 e.loc (storeRaw t e.bytes).2)
      (if e.bytes.length > 0 then some (e.addr, (storeRaw t e.bytes).2) else last) R (e.loc :: D) := by
  have he := h.ents e List.mem_cons_self
  obtain ⟨hde, hz, hpos⟩ := entry_facts s hs e he
  obtain ⟨hg, hv, hr⟩ := he
  obtain ⟨f1, f2, f3, f4, f5, f6, f7, f8, f9, f10, f11⟩ := storeRaw_fields t e.bytes
  obtain ⟨g1, g2, g3, g4, g5, g6, g7, g8, g9, g10⟩ := setLoc_frame (storeRaw t e.bytes).1 e.loc (storeRaw t e.bytes).2
  have hlen : (storeRaw t e.bytes).2.len = e.bytes.length := by rw [f3]
  have haddr : (storeRaw t e.bytes).2.addr = t.current - e.bytes.length + 1 := by rw [f3]
  have hex : ∃ p1, getLoc t e.loc = some p1 := by
    cases hq : getLoc t e.loc with
    | none => rw [(h.none_iff e.loc).mp hq] at hg; cases hg
    | some p1 => exact ⟨p1, rfl⟩
  obtain ⟨p1, hp1⟩ := hex
  have hsame : getLoc (setLoc (storeRaw t e.bytes).1 e.loc (storeRaw t e.bytes).2) e.loc = some (storeRaw t e.bytes).2 :=
    getLoc_setLoc_same _ _ _ p1 (by rw [getLoc_storeRaw]; exact hp1)
  have hother : ∀ l, l ≠ e.loc →
      getLoc (setLoc (storeRaw t e.bytes).1 e.loc (storeRaw t e.bytes).2) l = getLoc t l := by
    intro l hl
    rw [getLoc_setLoc_ne _ _ _ _ (fun x => hl x.symm), getLoc_storeRaw]
  have hroom : 0 < e.bytes.length → e.bytes.length ≤ t.current := by
    intro hn
    obtain ⟨_, hlk, hcur, htop⟩ := hpos hn
    cases hl : last with
    | none =>
      have := h.lastNone hl
      omega
    | some aq =>
      obtain ⟨a, q⟩ := aq
      obtain ⟨_, haq, hcq, b, hb, _, _⟩ := h.lastOk a q hl
      have hle := h.bound a q hl e List.mem_cons_self
      have hne : e.addr ≠ a := fun x => hc a q hl ⟨hn, x⟩
      have := hs.blocks.sep hlk hb (by omega)
      omega
  -- an old key stays, and lies above the new pointer
  have hkey : ∀ a b, lookup t.strs a = some b →
      lookup (setLoc (storeRaw t e.bytes).1 e.loc (storeRaw t e.bytes).2).strs a = some b ∧
      (0 < e.bytes.length → t.current - e.bytes.length + 1 ≤ a) := by
    intro a b hab
    have hk := (h.blocks.key hab).1
    have hne : 0 < e.bytes.length → t.current - e.bytes.length + 1 ≠ a := by
      intro hn0
      have := hroom hn0
      omega
    have hle : 0 < e.bytes.length → t.current - e.bytes.length + 1 ≤ a := by
      intro hn0
      have := hroom hn0
      omega
    rw [g1, f2]
    by_cases hn : e.bytes.length > 0
    · rw [if_pos hn]
      exact ⟨by rw [lookup_cons_ne _ _ _ _ (hne hn)]; exact hab, hle⟩
    · rw [if_neg hn]; exact ⟨hab, fun x => absurd x hn⟩
  -- the other cells written so far keep their facts
  have hdone' : ∀ l ∈ D, l ≠ e.loc → ∀ p, getLoc t l = some p → 0 < p.len →
      ∃ p0, getLoc s l = some p0 ∧ 0 < p0.len ∧ s.varStart ≤ p0.addr ∧
        (∃ b, lookup (setLoc (storeRaw t e.bytes).1 e.loc (storeRaw t e.bytes).2).strs p.addr = some b) ∧
        (0 < e.bytes.length → t.current - e.bytes.length + 1 ≤ p.addr ∧ e.addr < p0.addr) ∧
        ∃ a q, last = some (a, q) ∧ a ≤ p0.addr ∧ (p0.addr = a → p = q) := by
    intro l hl _ p hp h0
    obtain ⟨p0, k1, k2, k3, ⟨b, k4⟩, a, q, k5, k6, k7⟩ := m.done l hl p hp h0
    refine ⟨p0, k1, k2, k3, ⟨b, (hkey _ _ k4).1⟩, fun hn => ⟨(hkey _ _ k4).2 hn, ?_⟩, a, q, k5, k6, k7⟩
    have hle := h.bound a q k5 e List.mem_cons_self
    have hne : e.addr ≠ a := fun x => hc a q k5 ⟨hn, x⟩
    omega
  refine ⟨?_, ?_, ?_, ?_⟩
  · -- done
    intro l hl p hp h0
    by_cases hle : l = e.loc
    · subst hle
      rw [hsame] at hp; cases hp
      rw [hlen] at h0
      obtain ⟨hpl, hlk, _, _⟩ := hpos h0
      refine ⟨_, hg, by simp; omega, hv, ⟨e.bytes, ?_⟩, e.addr, (storeRaw t e.bytes).2, by rw [if_pos h0], Nat.le_refl _, fun _ => rfl⟩
      rw [g1, f2, if_pos h0, haddr]; exact lookup_cons_self _ _ _
    · have hl' : l ∈ D := by
        cases hl with
        | head => exact absurd rfl hle
        | tail _ x => exact x
      rw [hother l hle] at hp
      obtain ⟨p0, k1, k2, k3, k4, k5, a, q, k6, k7, k8⟩ := hdone' l hl' hle p hp h0
      refine ⟨p0, k1, k2, k3, k4, ?_⟩
      by_cases hn : e.bytes.length > 0
      · rw [if_pos hn]
        have := (k5 hn).2
        exact ⟨e.addr, _, rfl, by omega, fun x => by omega⟩
      · rw [if_neg hn]; exact ⟨a, q, k6, k7, k8⟩
  · -- mono
    intro l hl l' hl' p p' p0 p0' hp hp' hs0 hs0' h0 h0' hle
    by_cases e1 : l = e.loc
    · subst e1
      rw [hsame] at hp; cases hp
      by_cases e2 : l' = e.loc
      · subst e2; rw [hsame] at hp'; cases hp'; exact Nat.le_refl _
      · have hlD : l' ∈ D := by
          cases hl' with
          | head => exact absurd rfl e2
          | tail _ x => exact x
        rw [hother l' e2] at hp'
        rw [hlen] at h0
        obtain ⟨_, _, _, _, _, k5, _⟩ := hdone' l' hlD e2 p' hp' h0'
        rw [haddr]; exact (k5 h0).1
    · have hlD : l ∈ D := by
        cases hl with
        | head => exact absurd rfl e1
        | tail _ x => exact x
      rw [hother l e1] at hp
      by_cases e2 : l' = e.loc
      · subst e2
        rw [hsame] at hp'; cases hp'
        rw [hlen] at h0'
        obtain ⟨q0, k1, _, _, _, k5, _⟩ := hdone' l hlD e1 p hp h0
        rw [hs0] at k1; cases k1
        rw [hg] at hs0'; cases hs0'
        have := (k5 h0').2
        simp at hle
        omega
      · have hlD' : l' ∈ D := by
          cases hl' with
          | head => exact absurd rfl e2
          | tail _ x => exact x
        rw [hother l' e2] at hp'
        exact m.mono l hlD l' hlD' p p' p0 p0' hp hp' hs0 hs0' h0 h0' hle
  · -- cover
    intro l p0 k1 k2 k3
    rcases m.cover l p0 k1 k2 k3 with hd | ⟨e', hm, hloc⟩
    · exact Or.inl (List.mem_cons_of_mem _ hd)
    · cases hm with
      | head => exact Or.inl (by rw [← hloc]; exact List.mem_cons_self)
      | tail _ hm => exact Or.inr ⟨e', hm, hloc⟩
  · intro l hl
    have h1 : l ≠ e.loc := fun x => hl (by rw [x]; exact List.mem_cons_self)
    have h2 : l ∉ D := fun x => hl (List.mem_cons_of_mem _ x)
    rw [hother l h1]; exact m.untouched l h2

theorem MInv.dedupe {s t : Heap} {a : Nat} {q : Ptr} {e : Entry} {R : List Entry} {D : List Loc} (hs : WF s)
    (h : RInv s t (some (a, q)) (e :: R)) (m : MInv s t (some (a, q)) (e :: R) D)
    (hn : e.bytes.length > 0) (ha : e.addr = a) :
    MInv s (setLoc t e.loc q) (some (a, q)) R (e.loc :: D) := by
  have he := h.ents e List.mem_cons_self
  obtain ⟨hde, hz, hpos⟩ := entry_facts s hs e he
  obtain ⟨hg, hv, hr⟩ := he
  obtain ⟨g1, g2, g3, g4, g5, g6, g7, g8, g9, g10⟩ := setLoc_frame t e.loc q
  obtain ⟨q1, q2, q3, b, q4, q5, q6⟩ := h.lastOk a q rfl
  obtain ⟨hpl, hlk, _, _⟩ := hpos hn
  have hex : ∃ p1, getLoc t e.loc = some p1 := by
    cases hq : getLoc t e.loc with
    | none => rw [(h.none_iff e.loc).mp hq] at hg; cases hg
    | some p1 => exact ⟨p1, rfl⟩
  obtain ⟨p1, hp1⟩ := hex
  have hsame : getLoc (setLoc t e.loc q) e.loc = some q := getLoc_setLoc_same _ _ _ p1 hp1
  have hother : ∀ l, l ≠ e.loc → getLoc (setLoc t e.loc q) l = getLoc t l :=
    fun l hl => getLoc_setLoc_ne _ _ _ _ (fun x => hl x.symm)
  have hinD : ∀ l, l ∈ e.loc :: D → l ≠ e.loc → l ∈ D := by
    intro l hl hne
    cases hl with
    | head => exact absurd rfl hne
    | tail _ x => exact x
  refine ⟨?_, ?_, ?_, ?_⟩
  · intro l hl p hp h0
    by_cases hle : l = e.loc
    · subst hle
      rw [hsame] at hp; cases hp
      exact ⟨_, hg, by simp; omega, hv, ⟨b, by rw [g1]; exact q5⟩, a, q, rfl, by simp; omega, fun _ => rfl⟩
    · rw [hother l hle] at hp
      obtain ⟨p0, k1, k2, k3, ⟨b', k4⟩, k5⟩ := m.done l (hinD l hl hle) p hp h0
      exact ⟨p0, k1, k2, k3, ⟨b', by rw [g1]; exact k4⟩, k5⟩
  · intro l hl l' hl' p p' p0 p0' hp hp' hs0 hs0' h0 h0' hle
    by_cases e1 : l = e.loc
    · subst e1
      rw [hsame] at hp; cases hp
      by_cases e2 : l' = e.loc
      · subst e2; rw [hsame] at hp'; cases hp'; exact Nat.le_refl _
      · rw [hother l' e2] at hp'
        obtain ⟨_, _, _, _, ⟨b', k4⟩, _⟩ := m.done l' (hinD l' hl' e2) p' hp' h0'
        have := (h.blocks.key k4).1
        omega
    · rw [hother l e1] at hp
      by_cases e2 : l' = e.loc
      · subst e2
        rw [hsame] at hp'; cases hp'
        obtain ⟨q0, k1, _, _, _, a', q', k6, k7, k8⟩ := m.done l (hinD l hl e1) p hp h0
        cases k6
        rw [hs0] at k1; cases k1
        rw [hg] at hs0'; cases hs0'
        simp at hle
        have : p0.addr = a := by omega
        rw [k8 this]; exact Nat.le_refl _
      · rw [hother l' e2] at hp'
        exact m.mono l (hinD l hl e1) l' (hinD l' hl' e2) p p' p0 p0' hp hp' hs0 hs0' h0 h0' hle
  · intro l p0 k1 k2 k3
    rcases m.cover l p0 k1 k2 k3 with hd | ⟨e', hm, hloc⟩
    · exact Or.inl (List.mem_cons_of_mem _ hd)
    · cases hm with
      | head => exact Or.inl (by rw [← hloc]; exact List.mem_cons_self)
      | tail _ hm => exact Or.inr ⟨e', hm, hloc⟩
  · intro l hl
    have h1 : l ≠ e.loc := fun x => hl (by rw [x]; exact List.mem_cons_self)
    have h2 : l ∉ D := fun x => hl (List.mem_cons_of_mem _ x)
    rw [hother l h1]; exact m.untouched l h2

theorem restore_inv2 {s : Heap} (hs : WF s) (R : List Entry) (t : Heap) (last : Option (Nat × Ptr)) (D : List Loc)
    (h : RInv s t last R) (m : MInv s t last R D) :
    ∃ last' D', RInv s (restore t last R) last' [] ∧ MInv s (restore t last R) last' [] D' := by
  induction R generalizing t last D with
  | nil => exact ⟨last, D, h, m⟩
  | cons e R ih =>
    cases hl : last with
    | none =>
      subst hl
      simp only [restore]
      exact ih _ _ _ (h.fresh hs (fun a q x => by cases x)) (m.fresh hs h (fun a q x => by cases x))
    | some aq =>
      obtain ⟨a, q⟩ := aq
      subst hl
      simp only [restore]
      by_cases hc : e.bytes.length > 0 ∧ e.addr = a
      · rw [if_pos hc]
        exact ih _ _ _ (h.dedupe hs hc.1 hc.2) (m.dedupe hs h hc.1 hc.2)
      · rw [if_neg hc]
        exact ih _ _ _ (h.fresh hs (fun a' q' x => by cases x; exact hc))
          (m.fresh hs h (fun a' q' x => by cases x; exact hc))

/-! ### the re-addressed boundary -/

theorem restore_temp (R : List Entry) (t : Heap) (last : Option (Nat × Ptr)) :
    (restore t last R).temp = t.temp := by
  induction R generalizing t last with
  | nil => rfl
  | cons e R ih =>
    cases last with
    | none =>
      simp only [restore]
      rw [ih]
      exact (setLoc_frame _ _ _).2.2.1
    | some aq =>
      obtain ⟨a, q⟩ := aq
      simp only [restore]
      split
      · rw [ih]; exact (setLoc_frame _ _ _).2.2.1
      · rw [ih]; exact (setLoc_frame _ _ _).2.2.1

/-- the sentinel search: nothing found, or the first entry with the lowest address among the
    non-empty entries above `temp` -/
theorem sentinel_spec (temp : Nat) (es : List Entry) (lp : Nat) (v : Option Loc) :
    (sentinel temp es lp v = v ∧ ∀ e ∈ es, ¬ (e.plen > 0 ∧ e.addr > temp ∧ e.addr < lp)) ∨
    (∃ e ∈ es, sentinel temp es lp v = some e.loc ∧ e.plen > 0 ∧ e.addr > temp ∧ e.addr < lp ∧
      ∀ e' ∈ es, e'.plen > 0 → e'.addr > temp → e.addr ≤ e'.addr) := by
  induction es generalizing lp v with
  | nil => left; exact ⟨rfl, fun e he => by cases he⟩
  | cons e0 r ih =>
    simp only [sentinel]
    by_cases hc : e0.plen > 0 ∧ e0.addr > temp ∧ e0.addr < lp
    · rw [if_pos hc]
      right
      rcases ih e0.addr (some e0.loc) with ⟨h1, h2⟩ | ⟨e, hm, h1, h2, h3, h4, h5⟩
      · refine ⟨e0, List.mem_cons_self, h1, hc.1, hc.2.1, hc.2.2, ?_⟩
        intro e' he' k1 k2
        cases he' with
        | head => exact Nat.le_refl _
        | tail _ he' =>
          have := h2 e' he'
          by_cases hlt : e'.addr < e0.addr
          · exact absurd ⟨k1, k2, hlt⟩ this
          · omega
      · refine ⟨e, List.mem_cons_of_mem _ hm, h1, h2, h3, by omega, ?_⟩
        intro e' he' k1 k2
        cases he' with
        | head => omega
        | tail _ he' => exact h5 e' he' k1 k2
    · rw [if_neg hc]
      rcases ih lp v with ⟨h1, h2⟩ | ⟨e, hm, h1, h2, h3, h4, h5⟩
      · left
        refine ⟨h1, ?_⟩
        intro e' he'
        cases he' with
        | head => exact hc
        | tail _ he' => exact h2 e' he'
      · right
        refine ⟨e, List.mem_cons_of_mem _ hm, h1, h2, h3, h4, ?_⟩
        intro e' he' k1 k2
        cases he' with
        | head =>
          by_cases hlt : e0.addr < lp
          · exact absurd ⟨k1, k2, hlt⟩ hc
          · omega
        | tail _ he' => exact h5 e' he' k1 k2

/-- the loop invariants at the start of the re-store loop -/
theorem inv_init (s : Heap) (es : List Entry) (he : entriesOf s (rootLocs s) = some es) :
    RInv s { s with strs := [], current := s.top } none (sortDesc es) ∧
    MInv s { s with strs := [], current := s.top } none (sortDesc es) [] := by
  have hgl : ∀ l, getLoc { s with strs := [], current := s.top } l = getLoc s l :=
    fun l => getLoc_congr _ s rfl rfl rfl l
  have hcov : ∀ l p, getLoc s l = some p → s.varStart ≤ p.addr → ∃ e ∈ sortDesc es, e.loc = l := by
    intro l p hp hv
    obtain ⟨e, hm, hl⟩ := entriesOf_complete s _ es he l (mem_rootLocs s l p hp) p hp hv
    exact ⟨e, (mem_sortDesc e es).mpr hm, hl⟩
  constructor
  · refine ⟨rfl, rfl, rfl, rfl, rfl, by simp [sumLen], Nat.le_refl _, (fun l => by rw [hgl]),
      ?_, (fun a q x => by cases x), (fun _ => rfl), sorted_sortDesc es, (fun a q x => by cases x), ?_⟩
    · intro l p hp
      right
      rw [hgl] at hp
      exact ⟨hp, fun _ hv => hcov l p hp hv⟩
    · intro e hm
      exact entriesOf_spec s _ es he e ((mem_sortDesc e es).mp hm)
  · refine ⟨(fun l hl => by cases hl), (fun l hl => by cases hl), ?_, fun l _ => hgl l⟩
    intro l p0 hp _ hv
    exact Or.inr (hcov l p0 hp hv)

/-- after the loop every non-empty string-space cell has been moved to a live block -/
theorem RInv.moved {s t : Heap} {last : Option (Nat × Ptr)} (hs : WF s) (h : RInv s t last [])
    (l : Loc) (p0 : Ptr) (hp0 : getLoc s l = some p0) (h0 : 0 < p0.len) (hv : s.varStart ≤ p0.addr) :
    ∃ p b, getLoc t l = some p ∧ p.len = p0.len ∧ lookup t.strs p.addr = some b := by
  cases hp : getLoc t l with
  | none => rw [(h.none_iff l).mp hp] at hp0; cases hp0
  | some p =>
    rcases h.cells l p hp with ⟨q0, hg, hl, _, hlive⟩ | ⟨hu, hpend⟩
    · rw [hp0] at hg; cases hg
      obtain ⟨b, hb, hbl⟩ := hs.live l p0 hp0 h0 hv
      have hd := deref_live s p0 b (by omega) hv hb
      rw [hd, hbl] at hl
      obtain ⟨_, b', hb', _⟩ := hlive (by omega)
      exact ⟨p, b', rfl, hl, hb'⟩
    · rw [hp0] at hu; cases hu
      obtain ⟨e, hm, _⟩ := hpend h0 hv
      cases hm

/-- **The boundary after a collection.**  `current ≤ _temp`, and every non-empty string that lay
    above the old boundary lies above the new one (the relocation is monotone and the sentinel is the
    lowest such string). -/
theorem collect_boundary (s s' : Heap) (hs : WF s) (h : collect s = .ok s') :
    s'.current ≤ s'.temp ∧
    (∀ l p0 p, getLoc s l = some p0 → getLoc s' l = some p → 0 < p0.len → s.varStart ≤ p0.addr →
      s.temp < p0.addr → s'.temp < p.addr) ∧
    (∀ l p0 p, getLoc s l = some p0 → getLoc s' l = some p → 0 < p.len → s.varStart ≤ p.addr →
      0 < p0.len ∧ s.varStart ≤ p0.addr) := by
  obtain ⟨es, he⟩ := entriesOf_total s hs (rootLocs s)
  obtain ⟨hr0, hm0⟩ := inv_init s es he
  obtain ⟨last, D, hr, hm⟩ := restore_inv2 hs _ _ _ _ hr0 hm0
  have hspec := entriesOf_spec s _ es he
  -- a cell above the old boundary has a candidate entry
  have hcand : ∀ l p0, getLoc s l = some p0 → 0 < p0.len → s.varStart ≤ p0.addr → s.temp < p0.addr →
      ∃ e ∈ es, e.loc = l ∧ e.plen > 0 ∧ e.addr > s.temp ∧ e.addr < s.top + 1 ∧ e.addr = p0.addr := by
    intro l p0 hp0 h0 hv ht
    obtain ⟨e, hme, hloc⟩ := entriesOf_complete s _ es he l (mem_rootLocs s l p0 hp0) p0 hp0 hv
    have hsp := hspec e hme
    rw [hloc, hp0] at hsp
    have hpe : p0 = ⟨e.plen, e.addr⟩ := Option.some.inj hsp.1
    have hsp' := hspec e hme
    obtain ⟨_, hz, hpos⟩ := entry_facts s hs e hsp'
    have hplen : e.plen = p0.len := by rw [hpe]
    have haddr : e.addr = p0.addr := by rw [hpe]
    have hb : 0 < e.bytes.length := by
      cases hbl : e.bytes.length with
      | zero => have := hz hbl; omega
      | succ n => omega
    obtain ⟨_, _, _, htop⟩ := hpos hb
    exact ⟨e, hme, hloc, by omega, by omega, by omega, haddr⟩
  -- a non-empty string-space pointer after the loop comes from one before it
  have hc3 : ∀ l p0 p, getLoc s l = some p0 →
      getLoc (restore { s with strs := [], current := s.top } none (sortDesc es)) l = some p →
      0 < p.len → s.varStart ≤ p.addr → 0 < p0.len ∧ s.varStart ≤ p0.addr := by
    intro l p0 p hp0 hp h0 hv
    by_cases hD : l ∈ D
    · obtain ⟨q0, k1, k2, k3, _⟩ := hm.done l hD p hp h0
      rw [hp0] at k1; cases k1
      exact ⟨k2, k3⟩
    · rw [hm.untouched l hD, hp0] at hp; cases hp
      exact ⟨h0, hv⟩
  have hg' : ∀ (tmp : Nat) l, getLoc { restore { s with strs := [], current := s.top } none (sortDesc es) with temp := tmp } l
      = getLoc (restore { s with strs := [], current := s.top } none (sortDesc es)) l :=
    fun tmp l => getLoc_congr _ _ rfl rfl rfl l
  unfold collect at h
  rw [he] at h
  simp only at h
  have hrt := restore_temp (sortDesc es) { s with strs := [], current := s.top } none
  split at h
  · -- no sentinel
    next hsent =>
    cases h
    refine ⟨hr.blocks.le_top, ?_, fun l p0 p hp0 hp h0 hv => hc3 l p0 p hp0 (by rw [← hg']; exact hp) h0 hv⟩
    intro l p0 p hp0 _ h0 hv ht
    obtain ⟨e, hme, _, c1, c2, c3, _⟩ := hcand l p0 hp0 h0 hv ht
    rcases sentinel_spec s.temp es (s.top + 1) none with ⟨_, hno⟩ | ⟨e', _, hsome, _⟩
    · exact absurd ⟨c1, c2, c3⟩ (hno e hme)
    · rw [hsent] at hsome; cases hsome
  · next lstar hsent =>
    rcases sentinel_spec s.temp es (s.top + 1) none with ⟨hnone, _⟩ | ⟨es', hmes, hsome, d1, d2, d3, dmin⟩
    · rw [hsent] at hnone; cases hnone
    · rw [hsent] at hsome
      have hls : lstar = es'.loc := Option.some.inj hsome
      have hsp := hspec es' hmes
      obtain ⟨_, hz, hpos⟩ := entry_facts s hs es' hsp
      have hb : 0 < es'.bytes.length := by
        cases hbl : es'.bytes.length with
        | zero => have := hz hbl; omega
        | succ n => omega
      obtain ⟨_, _, _, htop⟩ := hpos hb
      split at h
      · -- boundary re-addressed below the sentinel
        cases h
        obtain ⟨ps, bs, hps, hpl, hpk⟩ := hr.moved hs es'.loc ⟨es'.plen, es'.addr⟩ hsp.1 d1 hsp.2.1
        have hkey := (hr.blocks.key hpk).1
        have hg : getLoc (restore { s with strs := [], current := s.top } none (sortDesc es)) lstar = some ps := by
          rw [hls]; exact hps
        simp only [hg, Option.getD]
        refine ⟨by omega, ?_, fun l p0 p hp0 hp h0 hv => hc3 l p0 p hp0 (by rw [← hg']; exact hp) h0 hv⟩
        intro l p0 p hp0 hp h0 hv ht
        have hp' : getLoc (restore { s with strs := [], current := s.top } none (sortDesc es)) l = some p := by
          rw [← hp]; exact (getLoc_congr _ _ rfl rfl rfl l).symm
        obtain ⟨e, hme, _, c1, c2, _, c4⟩ := hcand l p0 hp0 h0 hv ht
        have hmin := dmin e hme c1 c2
        obtain ⟨p2, b2, hp2, hpl2, _⟩ := hr.moved hs l p0 hp0 h0 hv
        rw [hp'] at hp2; cases hp2
        have hD1 : es'.loc ∈ D := by
          rcases hm.cover es'.loc _ hsp.1 d1 hsp.2.1 with x | ⟨_, x, _⟩
          · exact x
          · cases x
        have hD2 : l ∈ D := by
          rcases hm.cover l p0 hp0 h0 hv with x | ⟨_, x, _⟩
          · exact x
          · cases x
        have hle : es'.addr ≤ p0.addr := by omega
        have hps0 : 0 < ps.len := by rw [hpl]; exact d1
        have := hm.mono es'.loc hD1 l hD2 ps p ⟨es'.plen, es'.addr⟩ p0 hps hp' hsp.1 hp0 hps0 (by omega) hle
        omega
      · -- `_temp == stack_start`: no string can lie above it
        omega

/-- the variable-owned strings lie above the boundary -/
def Perm (s : Heap) : Prop :=
  ∀ l p, getLoc s (.v l) = some p → 0 < p.len → s.varStart ≤ p.addr → s.temp < p.addr

/-- **The temporaries-boundary invariant is preserved by a collection.** -/
theorem collect_perm (s s' : Heap) (hs : WF s) (hp : Perm s) (h : collect s = .ok s') :
    Perm s' ∧ s'.current ≤ s'.temp := by
  obtain ⟨hb1, hb2, hb3⟩ := collect_boundary s s' hs h
  refine ⟨?_, hb1⟩
  obtain ⟨t, last, hr, hsh, e1, e2, e3, e4, e5, e6, e7, e8, e9, e10, _, _⟩ := collect_facts s s' hs h
  have hg : ∀ l, getLoc s' l = getLoc t l := getLoc_congr s' t e8 e9 e10
  intro l p hpl h0 hv
  rw [e5, hr.vs] at hv
  cases hp0 : getLoc s (.v l) with
  | none =>
    have := (hr.none_iff (.v l)).mpr hp0
    rw [← hg, hpl] at this; cases this
  | some p0 =>
    obtain ⟨k1, k2⟩ := hb3 (.v l) p0 p hp0 hpl h0 hv
    exact hb2 (.v l) p0 p hp0 hpl k1 k2 (hp l p0 hp0 k1 k2)

end PcbV.Heap
