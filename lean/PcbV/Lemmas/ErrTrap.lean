import PcbV.Model.ErrTrap
/-
  Lemmas for property C21 about `PcbV.Model.ErrTrap`:
    * positions of a line-structured program in its flattened form (`posOf`), and what `lineOf`,
      `lineIndex` and the statement lookup return there;
    * what a raising statement leaves unchanged (`raise_keeps`);
    * the invariant "error_handle_mode ⇔ error_resume is set" of the repaired mechanism.
-/
namespace PcbV.ErrTrap

open PcbV.Gen

/-! ## positions in a flattened program -/

/-- index of statement k of line i in `flatten p` -/
def posOf (p : List Line) (i k : Nat) : Nat := ((p.take i).map (·.stmts.length)).sum + k

theorem posOf_zero (p : List Line) (k : Nat) : posOf p 0 k = k := by simp [posOf]

theorem posOf_succ (l : Line) (p : List Line) (i k : Nat) :
    posOf (l :: p) (i + 1) k = l.stmts.length + posOf p i k := by
  simp [posOf, Nat.add_assoc]

theorem flatten_cons (l : Line) (p : List Line) : flatten (l :: p) = flattenLine l ++ flatten p := by
  simp [flatten]

theorem flattenLine_length (l : Line) : (flattenLine l).length = l.stmts.length := by
  unfold flattenLine; cases l.stmts <;> simp

/-- statement k of a flattened line -/
theorem flattenLine_get (l : Line) (k : Nat) (hk : k < l.stmts.length) :
    (flattenLine l)[k]? = some ⟨if k = 0 then some l.num else none, l.stmts[k]⟩ := by
  obtain ⟨num, stmts⟩ := l
  unfold flattenLine
  cases stmts with
  | nil => simp at hk
  | cons a rest =>
    cases k with
    | zero => simp
    | succ k =>
      have hk' : k < rest.length := by simpa using hk
      simp [hk']

theorem flatten_get (p : List Line) (i k : Nat) (hi : i < p.length) (hk : k < p[i].stmts.length) :
    (flatten p)[posOf p i k]? = some ⟨if k = 0 then some p[i].num else none, p[i].stmts[k]⟩ := by
  induction p generalizing i with
  | nil => simp at hi
  | cons l p ih =>
    rw [flatten_cons]
    cases i with
    | zero =>
      simp only [posOf_zero, List.getElem_cons_zero] at hk ⊢
      rw [List.getElem?_append_left (by rw [flattenLine_length]; exact hk)]
      exact flattenLine_get l k hk
    | succ i =>
      have hi' : i < p.length := by simpa using hi
      simp only [List.getElem_cons_succ] at hk ⊢
      rw [posOf_succ, List.getElem?_append_right (by rw [flattenLine_length]; omega)]
      rw [flattenLine_length, Nat.add_sub_cancel_left]
      exact ih i hi' hk

/-- the statement found at position (i, k) is statement k of line i -/
theorem stmt_flatten (p : List Line) (i k : Nat) (hi : i < p.length) (hk : k < p[i].stmts.length) :
    ((flatten p)[posOf p i k]?).map (·.stmt) = some (p[i].stmts[k]) := by
  rw [flatten_get p i k hi hk]; rfl

/-! ### `lineOf` -/

theorem lineOfFrom_unmarked (cur : Option Nat) (rest : List Stmt) (tail : List Instr) (k : Nat) :
    lineOfFrom cur (rest.map (fun t => (⟨none, t⟩ : Instr)) ++ tail) k =
      if k < rest.length then cur else lineOfFrom cur tail (k - rest.length) := by
  induction rest generalizing k with
  | nil => simp
  | cons a rest ih =>
    cases k with
    | zero => simp [lineOfFrom]
    | succ k =>
      simp only [List.map_cons, List.cons_append, lineOfFrom, Option.isSome_none, Bool.false_eq_true,
        if_false, List.length_cons, Nat.add_lt_add_iff_right, Nat.add_sub_add_right]
      exact ih k

theorem lineOfFrom_flattenLine (cur : Option Nat) (l : Line) (tail : List Instr) (k : Nat) :
    lineOfFrom cur (flattenLine l ++ tail) k =
      if k < l.stmts.length then some l.num
      else lineOfFrom (if l.stmts = [] then cur else some l.num) tail (k - l.stmts.length) := by
  unfold flattenLine
  cases h : l.stmts with
  | nil => simp
  | cons a rest =>
    cases k with
    | zero => simp [lineOfFrom]
    | succ k =>
      simp only [List.cons_append, lineOfFrom, Option.isSome_some, if_true, List.length_cons,
        Nat.add_lt_add_iff_right, Nat.add_sub_add_right, reduceCtorEq, if_false]
      exact lineOfFrom_unmarked (some l.num) rest tail k

theorem lineOfFrom_flatten (cur : Option Nat) (p : List Line) (i k : Nat) (hi : i < p.length)
    (hk : k < p[i].stmts.length) : lineOfFrom cur (flatten p) (posOf p i k) = some p[i].num := by
  induction p generalizing i cur with
  | nil => simp at hi
  | cons l p ih =>
    rw [flatten_cons, lineOfFrom_flattenLine]
    cases i with
    | zero =>
      simp only [posOf_zero, List.getElem_cons_zero] at hk ⊢
      simp [hk]
    | succ i =>
      have hi' : i < p.length := by simpa using hi
      simp only [List.getElem_cons_succ] at hk ⊢
      rw [posOf_succ, if_neg (by omega), Nat.add_sub_cancel_left]
      exact ih _ i hi' hk

/-- `get_line_number` at any statement of line i is the number of line i -/
theorem lineOf_flatten (p : List Line) (i k : Nat) (hi : i < p.length) (hk : k < p[i].stmts.length) :
    lineOf (flatten p) (posOf p i k) = some p[i].num :=
  lineOfFrom_flatten none p i k hi hk

/-! ### `lineIndex` -/

theorem lineIndexFrom_unmarked (rest : List Stmt) (tail : List Instr) (b n : Nat) :
    lineIndexFrom (rest.map (fun t => (⟨none, t⟩ : Instr)) ++ tail) b n =
      lineIndexFrom tail (b + rest.length) n := by
  induction rest generalizing b with
  | nil => simp
  | cons a rest ih =>
    simp only [List.map_cons, List.cons_append, lineIndexFrom, reduceCtorEq, if_false, List.length_cons]
    rw [ih]; congr 1; omega

theorem lineIndexFrom_flattenLine (l : Line) (tail : List Instr) (b n : Nat) :
    lineIndexFrom (flattenLine l ++ tail) b n =
      if l.stmts ≠ [] ∧ l.num = n then some b else lineIndexFrom tail (b + l.stmts.length) n := by
  unfold flattenLine
  cases h : l.stmts with
  | nil => simp
  | cons a rest =>
    simp only [List.cons_append, lineIndexFrom, Option.some.injEq, ne_eq, reduceCtorEq, not_false_eq_true,
      true_and, List.length_cons]
    split
    · rfl
    · rw [lineIndexFrom_unmarked]; congr 1; omega

/-- `line_numbers[n]` is the first statement of the first line numbered n -/
theorem lineIndexFrom_flatten (p : List Line) (b i : Nat) (hi : i < p.length) (hne : p[i].stmts ≠ [])
    (hfirst : ∀ j (hj : j < i), (p[j]'(by omega)).stmts = [] ∨ (p[j]'(by omega)).num ≠ p[i].num) :
    lineIndexFrom (flatten p) b p[i].num = some (b + posOf p i 0) := by
  induction p generalizing i b with
  | nil => simp at hi
  | cons l p ih =>
    rw [flatten_cons, lineIndexFrom_flattenLine]
    cases i with
    | zero =>
      simp only [List.getElem_cons_zero] at hne ⊢
      simp [hne, posOf_zero]
    | succ i =>
      have hi' : i < p.length := by simpa using hi
      simp only [List.getElem_cons_succ] at hne ⊢
      have h0 := hfirst 0 (by omega)
      simp only [List.getElem_cons_zero, List.getElem_cons_succ] at h0
      rw [if_neg (by rcases h0 with h0 | h0 <;> simp [h0])]
      rw [posOf_succ, ih (b + l.stmts.length) i hi' hne]
      · congr 1; omega
      · intro j hj
        have := hfirst (j + 1) (by omega)
        simpa using this

theorem lineIndex_flatten (p : List Line) (i : Nat) (hi : i < p.length) (hne : p[i].stmts ≠ [])
    (hfirst : ∀ j (hj : j < i), (p[j]'(by omega)).stmts = [] ∨ (p[j]'(by omega)).num ≠ p[i].num) :
    lineIndex (flatten p) p[i].num = some (posOf p i 0) := by
  have := lineIndexFrom_flatten p 0 i hi hne hfirst
  simpa [lineIndex] using this

/-- the statement after the last one of line i is the first statement of line i+1 -/
theorem posOf_next_line (p : List Line) (i : Nat) (hi : i < p.length) :
    posOf p i (p[i].stmts.length) = posOf p (i + 1) 0 := by
  induction p generalizing i with
  | nil => simp at hi
  | cons l p ih =>
    cases i with
    | zero => simp [posOf_zero, posOf_succ]
    | succ i =>
      have hi' : i < p.length := by simpa using hi
      simp only [List.getElem_cons_succ]
      rw [posOf_succ, posOf_succ, ih i hi']

/-- the statement after the last one of the last line is the end of the program -/
theorem posOf_end (p : List Line) : posOf p p.length 0 = (flatten p).length := by
  induction p with
  | nil => simp [posOf, flatten]
  | cons l p ih =>
    rw [List.length_cons, posOf_succ, flatten_cons, List.length_append, flattenLine_length, ih]

/-! ## raising statements -/

/-- a statement that raises leaves pointer, stack and output as they were -/
theorem raise_keeps {code : List Instr} {s s1 : St} {st : Stmt} {e : Nat}
    (h : execStmt code s st = .raise e s1) :
    s1.run = s.run ∧ s1.pc = s.pc ∧ s1.gosubs = s.gosubs ∧ s1.out = s.out := by
  cases st <;> simp only [execStmt, advance, doEnd, resumeState] at h
  all_goals (try (split at h))
  all_goals (try (split at h))
  all_goals (try (split at h))
  all_goals (first | (cases h; done) | (cases h; simp))

/-- the only statement that raises an error with a position of its own is ON ERROR GOTO 0 inside a handler -/
theorem raiseAt_keeps {code : List Instr} {s s1 : St} {st : Stmt} {e : Nat} {pos : EPos}
    (h : execStmt code s st = .raiseAt e pos s1) :
    st = .onErr 0 ∧ s.handling = true ∧ e = s.errNum ∧ pos = s.errPos ∧
      s1 = { s with onErr := 0, softRaise := false } := by
  cases st <;> simp only [execStmt, advance, doEnd, resumeState] at h
  case onErr n =>
    split at h
    · cases h
    · split at h
      · rename_i hc
        obtain ⟨hn, hh⟩ := hc
        cases h
        subst hn
        simp [hh]
      · cases h
  all_goals (try (split at h))
  all_goals (try (split at h))
  all_goals (try (split at h))
  all_goals (cases h)

/-! ## the invariant of the repaired mechanism -/

/-- a resume position is held only while the handler flag is set, and the trap line exists -/
def Inv (code : List Instr) (s : St) : Prop :=
  (s.resume.isSome = true → s.handling = true) ∧ (s.onErr ≠ 0 → (lineIndex code s.onErr).isSome = true)

def Outcome.st : Outcome → St
  | .next s | .fin s | .raise _ s | .raiseAt _ _ s => s

def Res.st : Res → St
  | .running s | .done s | .stopped _ _ s => s

theorem exec_inv (code : List Instr) (s : St) (st : Stmt) (h : Inv code s) :
    Inv code (execStmt code s st).st := by
  obtain ⟨h1, h2⟩ := h
  cases st <;> simp only [execStmt, advance, doEnd, resumeState]
  all_goals (try split)
  all_goals (try split)
  all_goals (try split)
  all_goals (first | exact ⟨h1, h2⟩ | (simp_all [Inv, Outcome.st]; done) | skip)
  · rename_i n hc _
    refine ⟨h1, fun hn => ?_⟩
    simp only [Outcome.st] at hn ⊢
    cases hl : lineIndex code n with
    | none => exact absurd ⟨hn, hl⟩ hc
    | some j => rfl

theorem trap_inv (code : List Instr) (s : St) (e : Nat) (pos : EPos) (h : Inv code s) :
    Inv code (trap true code s e pos).st := by
  obtain ⟨h1, h2⟩ := h
  unfold trap
  split
  · rename_i hc
    have := h2 hc.1
    split
    · exact ⟨fun _ => rfl, h2⟩
    · rename_i hn; simp [hn] at this
  · exact ⟨by simp [Res.st], h2⟩

theorem step_inv (code : List Instr) (dl : List Stmt) (s : St) (h : Inv code s) :
    Inv code (step true code dl s).st := by
  unfold step
  split
  · split
    · exact trap_inv code _ _ _ ⟨fun _ => rfl, h.2⟩
    · exact ⟨h.1, h.2⟩
  · rename_i st _
    have hx := exec_inv code s st h
    split <;> rename_i heq <;> rw [heq] at hx
    · exact hx
    · exact hx
    · exact trap_inv code _ _ _ hx
    · exact trap_inv code _ _ _ hx

end PcbV.ErrTrap
