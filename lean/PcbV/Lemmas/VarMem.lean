import PcbV.Model.VarMem
/-
  Lemmas about PcbV.Model.VarMem used by Props/C11: the search loop of get_memory on a consecutive
  layout, the layout invariant and its preservation by every statement, frame lemmas.
-/
namespace PcbV.VarMem
open PcbV

/-! ### consecutive layouts -/

/-- start addresses of consecutive blocks of the given sizes -/
def offsets (p : Nat) : List Nat → List Nat
  | [] => []
  | sz :: r => p :: offsets (p + sz) r

theorem offsets_length (p : Nat) (l : List Nat) : (offsets p l).length = l.length := by
  induction l generalizing p with
  | nil => rfl
  | cons x r ih => simp [offsets, ih]

theorem offsets_ge {p : Nat} {l : List Nat} : ∀ x ∈ offsets p l, p ≤ x := by
  induction l generalizing p with
  | nil => intro x h; simp [offsets] at h
  | cons sz r ih =>
    intro x h
    simp only [offsets, List.mem_cons] at h
    rcases h with h | h
    · omega
    · have := ih x h; omega

theorem selLoop_skip (addr : Nat) : ∀ (l : List Nat) (i : Nat) (acc : Option (Nat × Nat)),
    (∀ x ∈ l, addr < x) → selLoop addr l i acc = acc := by
  intro l
  induction l with
  | nil => intros; rfl
  | cons x r ih =>
    intro i acc h
    have hx : addr < x := h x (by simp)
    have : ¬ (x ≤ addr ∧ beats x acc = true) := by omega
    simp only [selLoop, this, if_false]
    exact ih _ _ (fun y hy => h y (by simp [hy]))

/-- on a consecutive layout with non-empty blocks the loop finds the block that contains the address -/
theorem selLoop_offsets (addr : Nat) : ∀ (szs : List Nat) (p i k : Nat) (acc : Option (Nat × Nat)),
    (∀ x ∈ szs, 0 < x) → (∀ b j, acc = some (b, j) → b < p) →
    ∀ q sz, (offsets p szs)[k]? = some q → szs[k]? = some sz → q ≤ addr → addr < q + sz →
    selLoop addr (offsets p szs) i acc = some (q, i + k) := by
  intro szs
  induction szs with
  | nil => intro p i k acc _ _ q sz h; simp [offsets] at h
  | cons s r ih =>
    intro p i k acc hpos hacc q sz hq hsz hle hlt
    have hs : 0 < s := hpos s (by simp)
    cases k with
    | zero =>
      simp only [offsets, List.getElem?_cons_zero, Option.some.injEq] at hq hsz
      subst hq; subst hsz
      have hb : beats p acc = true := by
        cases acc with
        | none => rfl
        | some x => obtain ⟨b, j⟩ := x; have := hacc b j rfl; simp [beats]; omega
      simp only [offsets, selLoop, hle, hb, and_self, if_true]
      rw [selLoop_skip]
      · simp
      · intro x hx; have := offsets_ge x hx; omega
    | succ k =>
      simp only [offsets, List.getElem?_cons_succ] at hq hsz
      have hqge : p + s ≤ q := offsets_ge q (List.mem_of_getElem? hq)
      have hb : beats p acc = true := by
        cases acc with
        | none => rfl
        | some x => obtain ⟨b, j⟩ := x; have := hacc b j rfl; simp [beats]; omega
      have hpa : p ≤ addr := by omega
      simp only [offsets, selLoop, hpa, hb, and_self, if_true]
      have := ih (p + s) (i + 1) k (some (p, i)) (fun x hx => hpos x (by simp [hx]))
        (by intro b j h; simp only [Option.some.injEq, Prod.mk.injEq] at h; omega) q sz hq hsz hle hlt
      rw [this]; congr 2; omega

theorem select_offsets {addr p : Nat} {szs : List Nat} {k q sz : Nat}
    (hpos : ∀ x ∈ szs, 0 < x) (hq : (offsets p szs)[k]? = some q) (hsz : szs[k]? = some sz)
    (hle : q ≤ addr) (hlt : addr < q + sz) : select (offsets p szs) addr = some k := by
  unfold select
  rw [selLoop_offsets addr szs p 0 k none hpos (by intro b j h; cases h) q sz hq hsz hle hlt]
  simp

/-! ### the layout invariant -/

def sizeS (r : SRec) : Nat := memSize r.name
def sizeA (b : Nat) (a : ARec) : Nat := amemSize b a.name a.dims

theorem recSize_pos (n : Bytes) : 4 ≤ recSize n := by unfold recSize; omega
theorem sizeS_pos (r : SRec) : 0 < sizeS r := by have := recSize_pos r.name; unfold sizeS memSize; omega
theorem sizeA_pos (b : Nat) (a : ARec) : 0 < sizeA b a := by unfold sizeA amemSize arecSize; omega

/-- scalar records lie one after the other from `p`, each with its value buffer of the size of its type -/
def ChainS : Nat → List SRec → Prop
  | _, [] => True
  | p, r :: rest => r.namePtr = p ∧ r.varPtr = p + recSize r.name ∧ r.val.length = vsize r.name
                    ∧ ChainS (p + sizeS r) rest

/-- array records lie one after the other from `p` (array-space coordinates) -/
def ChainA (b : Nat) : Nat → List ARec → Prop
  | _, [] => True
  | p, a :: rest => a.namePtr = p ∧ a.arrPtr = p + arecSize a.name a.dims
                    ∧ a.cells.length = flatLength b a.dims ∧ (∀ c ∈ a.cells, c.length = vsize a.name)
                    ∧ ChainA b (p + sizeA b a) rest

structure Layout (s : VM) : Prop where
  sc : ChainS s.varStart s.scalars
  scCur : s.scalCur = (s.scalars.map sizeS).sum
  ar : ChainA s.base 0 s.arrays
  arCur : s.arrCur = (s.arrays.map (sizeA s.base)).sum
  room : varCurrent s + s.arrCur ≤ s.strCur
  top : s.strCur ≤ s.strTop

theorem chainS_map {p : Nat} {l : List SRec} (h : ChainS p l) :
    l.map (·.namePtr) = offsets p (l.map sizeS) := by
  induction l generalizing p with
  | nil => rfl
  | cons r rest ih =>
    obtain ⟨h1, _, _, h4⟩ := h
    simp [offsets, h1, ih h4]

theorem chainA_map {b p : Nat} {l : List ARec} (h : ChainA b p l) :
    l.map (·.namePtr) = offsets p (l.map (sizeA b)) := by
  induction l generalizing p with
  | nil => rfl
  | cons r rest ih =>
    obtain ⟨h1, _, _, _, h4⟩ := h
    simp [offsets, h1, ih h4]

theorem chainS_append {p : Nat} {l1 l2 : List SRec} :
    ChainS p (l1 ++ l2) ↔ ChainS p l1 ∧ ChainS (p + (l1.map sizeS).sum) l2 := by
  induction l1 generalizing p with
  | nil => simp [ChainS]
  | cons r rest ih =>
    simp only [List.cons_append, ChainS, ih, List.map_cons, List.sum_cons, Nat.add_assoc]
    constructor
    · rintro ⟨a, b, c, d, e⟩; exact ⟨⟨a, b, c, d⟩, e⟩
    · rintro ⟨⟨a, b, c, d⟩, e⟩; exact ⟨a, b, c, d, e⟩

theorem chainA_append {b p : Nat} {l1 l2 : List ARec} :
    ChainA b p (l1 ++ l2) ↔ ChainA b p l1 ∧ ChainA b (p + (l1.map (sizeA b)).sum) l2 := by
  induction l1 generalizing p with
  | nil => simp [ChainA]
  | cons r rest ih =>
    simp only [List.cons_append, ChainA, ih, List.map_cons, List.sum_cons, Nat.add_assoc]
    constructor
    · rintro ⟨a, b, c, d, e, f⟩; exact ⟨⟨a, b, c, d, e⟩, f⟩
    · rintro ⟨⟨a, b, c, d, e⟩, f⟩; exact ⟨a, b, c, d, e, f⟩

/-- what the chain says about one scalar record -/
theorem chainS_mem {p : Nat} {l : List SRec} (h : ChainS p l) : ∀ r ∈ l,
    r.varPtr = r.namePtr + recSize r.name ∧ r.val.length = vsize r.name ∧ p ≤ r.namePtr
    ∧ r.namePtr + sizeS r ≤ p + (l.map sizeS).sum := by
  induction l generalizing p with
  | nil => intro r hr; cases hr
  | cons x rest ih =>
    obtain ⟨h1, h2, h3, h4⟩ := h
    intro r hr
    simp only [List.mem_cons] at hr
    rcases hr with rfl | hr
    · simp only [List.map_cons, List.sum_cons]; omega
    · have := ih h4 r hr
      simp only [List.map_cons, List.sum_cons]; omega

theorem chainA_mem {b p : Nat} {l : List ARec} (h : ChainA b p l) : ∀ a ∈ l,
    a.arrPtr = a.namePtr + arecSize a.name a.dims ∧ a.cells.length = flatLength b a.dims
    ∧ (∀ c ∈ a.cells, c.length = vsize a.name) ∧ p ≤ a.namePtr
    ∧ a.namePtr + sizeA b a ≤ p + (l.map (sizeA b)).sum := by
  induction l generalizing p with
  | nil => intro r hr; cases hr
  | cons x rest ih =>
    obtain ⟨h1, h2, h3, h3', h4⟩ := h
    intro r hr
    simp only [List.mem_cons] at hr
    rcases hr with rfl | hr
    · simp only [List.map_cons, List.sum_cons]; refine ⟨by omega, h3, h3', by omega, by omega⟩
    · have := ih h4 r hr
      simp only [List.map_cons, List.sum_cons]; refine ⟨this.1, this.2.1, this.2.2.1, by omega, by omega⟩

/-! ### statements keep the layout -/

def MR.state : MR → VM
  | .ok s => s
  | .error (_, s) => s

theorem layout_init (vs top base : Nat) (h : vs ≤ top) : Layout (init vs top base) :=
  ⟨trivial, rfl, trivial, rfl, by simp [init, varCurrent]; exact h, Nat.le_refl _⟩

theorem lowMem_false {s : VM} {n : Nat} (h : lowMem s n = false) : varCurrent s + s.arrCur + n < s.strCur := by
  unfold lowMem at h; simp at h; exact h

theorem layout_ensureScalar {s : VM} (h : Layout s) (name : Bytes) : Layout (ensureScalar name s).state := by
  unfold ensureScalar
  cases hf : findS name s.scalars with
  | some r => exact h
  | none =>
    cases hm : lowMem s (memSize name) with
    | true => exact h
    | false =>
      have hm' := lowMem_false hm
      simp only [MR.state, Bool.false_eq_true, if_false]
      refine ⟨?_, ?_, h.ar, h.arCur, ?_, h.top⟩
      · rw [chainS_append]
        refine ⟨h.sc, ?_⟩
        simp [ChainS, varCurrent, h.scCur, sizeS]
      · simp [h.scCur, sizeS]
      · simp only [varCurrent] at hm' ⊢; omega

theorem layout_allocate {s : VM} (h : Layout s) (name : Bytes) (dims : List Nat) :
    Layout (allocate name dims s).state := by
  unfold allocate
  by_cases hd : dims = []
  · simp [hd, MR.state]; exact h
  · simp only [hd, if_false]
    cases hf : findA name s.arrays with
    | some r => exact h
    | none =>
      by_cases hb : (dims.any fun d => decide (d < s.base)) = true
      · simp [hb, MR.state]; exact h
      · simp only [hb, if_false]
        cases hm : lowMem s (amemSize s.base name dims) with
        | true => exact h
        | false =>
          have hm' := lowMem_false hm
          simp only [MR.state, Bool.false_eq_true, if_false]
          refine ⟨h.sc, h.scCur, ?_, ?_, ?_, h.top⟩
          · rw [chainA_append]
            refine ⟨h.ar, ?_⟩
            simp [ChainA, h.arCur]
          · simp [h.arCur, sizeA]
          · simp only [varCurrent] at hm' ⊢; omega

theorem allocate_base (name : Bytes) (dims : List Nat) (s : VM) : (allocate name dims s).state.base = s.base := by
  unfold allocate
  split
  · rfl
  · split
    · rfl
    · split
      · rfl
      · split <;> rfl

theorem layout_checkDim {s : VM} (h : Layout s) (name : Bytes) (idx : List Nat) :
    Layout (checkDim name idx s).state := by
  unfold checkDim
  cases hf : findA name s.arrays with
  | some a =>
    simp only [hf]
    split <;> (try split) <;> exact h
  | none =>
    simp only
    have h1 := layout_allocate h name (idx.map (fun _ => 10))
    cases ha : allocate name (idx.map (fun _ => 10)) s with
    | error x => rw [ha] at h1; exact h1
    | ok s1 =>
      rw [ha] at h1
      simp only [MR.state] at h1
      simp only
      split
      · exact h1
      · split <;> (try split) <;> exact h1

theorem layout_prealloc {s : VM} (h : Layout s) (d : Dst) : Layout (prealloc d s).state := by
  cases d with
  | sc n => exact layout_ensureScalar h n
  | el n idx => exact layout_checkDim h n idx

theorem layout_viewBuffer {s : VM} (h : Layout s) (d : Dst) (e : Bool) : Layout (viewBuffer d e s).state := by
  cases d with
  | sc n =>
    simp only [viewBuffer]
    cases hf : findS n s.scalars with
    | some r => exact h
    | none =>
      have h1 := layout_ensureScalar h n
      cases he : ensureScalar n s with
      | error x => rw [he] at h1; exact h1
      | ok s1 => rw [he] at h1; dsimp only; split <;> exact h1
  | el n idx => exact layout_checkDim h n idx

theorem mapS_chain {p : Nat} {l : List SRec} (name : Bytes) (v : Bytes) (hv : v.length = vsize name)
    (h : ChainS p l) : ChainS p (mapS name (fun r => { r with val := v }) l) := by
  induction l generalizing p with
  | nil => trivial
  | cons r rest ih =>
    obtain ⟨h1, h2, h3, h4⟩ := h
    simp only [mapS, List.map_cons]
    by_cases hn : r.name = name
    · simp only [hn, if_true]
      refine ⟨h1, ?_, hv, ?_⟩
      · simpa [hn] using h2
      · have := ih h4; simpa [mapS, sizeS, hn] using this
    · simp only [hn, if_false]
      exact ⟨h1, h2, h3, ih h4⟩

theorem mapS_sizes (name : Bytes) (v : Bytes) (l : List SRec) :
    (mapS name (fun r => { r with val := v }) l).map sizeS = l.map sizeS := by
  induction l with
  | nil => rfl
  | cons r rest ih =>
    simp only [mapS, List.map_cons] at ih ⊢
    rw [ih]
    by_cases hn : r.name = name <;> simp [hn, sizeS]

theorem mapA_chain {b p : Nat} {l : List ARec} (name : Bytes) (k : Nat → List Nat → Nat) (v : Bytes)
    (hv : v.length = vsize name) (h : ChainA b p l) :
    ChainA b p (mapA name (fun a => { a with cells := a.cells.set (k b a.dims) v }) l) := by
  induction l generalizing p with
  | nil => trivial
  | cons r rest ih =>
    obtain ⟨h1, h2, h3, h3', h4⟩ := h
    simp only [mapA, List.map_cons]
    by_cases hn : r.name = name
    · simp only [hn, if_true]
      refine ⟨h1, ?_, ?_, ?_, ?_⟩
      · simpa [hn] using h2
      · simpa using h3
      · intro c hc
        rcases List.mem_or_eq_of_mem_set hc with hc | hc
        · simpa [hn] using h3' c hc
        · rw [hc]; exact hv
      · have := ih h4; simpa [mapA, sizeA, hn] using this
    · simp only [hn, if_false]
      exact ⟨h1, h2, h3, h3', ih h4⟩

theorem mapA_sizes (b : Nat) (name : Bytes) (f : ARec → List Bytes) (l : List ARec) :
    (mapA name (fun a => { a with cells := f a }) l).map (sizeA b) = l.map (sizeA b) := by
  induction l with
  | nil => rfl
  | cons r rest ih =>
    simp only [mapA, List.map_cons] at ih ⊢
    rw [ih]
    by_cases hn : r.name = name <;> simp [hn, sizeA]

theorem layout_writeCell {s : VM} (h : Layout s) (d : Dst) (v : Bytes) (hv : v.length = vsize d.name) :
    Layout (writeCell d v s) := by
  cases d with
  | sc n =>
    refine ⟨mapS_chain n v hv h.sc, ?_, h.ar, h.arCur, h.room, h.top⟩
    simp only [writeCell, mapS_sizes]; exact h.scCur
  | el n idx =>
    refine ⟨h.sc, h.scCur, ?_, ?_, h.room, h.top⟩
    · exact mapA_chain n (fun b dims => index b idx dims) v hv h.ar
    · simp only [writeCell, mapA_sizes]; exact h.arCur

theorem isStr_vsize {n : Bytes} (h : isStr n = true) : vsize n = 3 := by
  unfold isStr at h; unfold vsize
  have : n.getLast? = some 36 := by simpa using h
  simp [this]

theorem vsize_congr {a b : Bytes} (h : a.getLast? = b.getLast?) : vsize a = vsize b := by
  unfold vsize; rw [h]

theorem layout_letStmt {s : VM} (h : Layout s) (d : Dst) (v : Val) : Layout (letStmt d v s).state := by
  unfold letStmt
  have h1 := layout_prealloc h d
  cases hp : prealloc d s with
  | error x => rw [hp] at h1; exact h1
  | ok s1 =>
    rw [hp] at h1
    simp only [MR.state] at h1
    cases v with
    | num b =>
      simp only
      split
      · exact h1
      · rename_i hc
        have : b.length = vsize d.name := by
          by_cases hb : b.length = vsize d.name
          · exact hb
          · exact absurd (Or.inr hb) hc
        exact layout_writeCell h1 d b this
    | str b =>
      simp only
      split
      · exact h1
      · rename_i hs
        split
        · exact h1
        · cases hm : lowMem s1 b.length with
          | true => exact h1
          | false =>
            have hm' := lowMem_false hm
            simp only [Bool.false_eq_true, if_false, MR.state]
            have hs' : isStr d.name = true := by simpa using hs
            apply layout_writeCell _ d _ (by simp [le16, isStr_vsize hs'])
            refine ⟨h1.sc, h1.scCur, h1.ar, h1.arCur, ?_, ?_⟩
            · simp only [varCurrent] at hm' ⊢; omega
            · have := h1.top; simp only; omega

theorem layout_swapStmt {s : VM} (h : Layout s) (a b : Dst) : Layout (swapStmt a b s).state := by
  unfold swapStmt
  by_cases hsig : a.name.getLast? = b.name.getLast?
  · simp only [ne_eq, hsig, not_true_eq_false, if_false]
    have h1 := layout_viewBuffer h a false
    cases ha : viewBuffer a false s with
    | error x => rw [ha] at h1; exact h1
    | ok s1 =>
      rw [ha] at h1
      simp only [MR.state] at h1
      have h2 := layout_viewBuffer h1 b true
      dsimp only
      cases hb : viewBuffer b true s1 with
      | error x => rw [hb] at h2; exact h2
      | ok s2 =>
        rw [hb] at h2
        simp only [MR.state] at h2
        dsimp only
        by_cases hc : (rawCell s2 a).length ≠ vsize a.name ∨ (rawCell s2 b).length ≠ vsize a.name
        · rw [if_pos hc]; exact h2
        · rw [if_neg hc]
          have hla : (rawCell s2 a).length = vsize a.name := by
            by_cases hx : (rawCell s2 a).length = vsize a.name
            · exact hx
            · exact absurd (Or.inl hx) hc
          have hlb : (rawCell s2 b).length = vsize a.name := by
            by_cases hx : (rawCell s2 b).length = vsize a.name
            · exact hx
            · exact absurd (Or.inr hx) hc
          apply layout_writeCell _ b _ (by rw [hla]; exact vsize_congr hsig)
          exact layout_writeCell h2 a _ hlb
  · simp only [ne_eq, hsig, not_false_eq_true, if_true]; exact h

theorem findA_mem {name : Bytes} {l : List ARec} {e : ARec} (h : findA name l = some e) : e ∈ l ∧ e.name = name := by
  induction l with
  | nil => cases h
  | cons a rest ih =>
    simp only [findA] at h
    by_cases hn : a.name = name
    · simp only [hn, if_true, Option.some.injEq] at h; subst h; exact ⟨by simp, hn⟩
    · simp only [hn, if_false] at h; have := ih h; exact ⟨by simp [this.1], this.2⟩

theorem findS_mem {name : Bytes} {l : List SRec} {e : SRec} (h : findS name l = some e) : e ∈ l ∧ e.name = name := by
  induction l with
  | nil => cases h
  | cons a rest ih =>
    simp only [findS] at h
    by_cases hn : a.name = name
    · simp only [hn, if_true, Option.some.injEq] at h; subst h; exact ⟨by simp, hn⟩
    · simp only [hn, if_false] at h; have := ih h; exact ⟨by simp [this.1], this.2⟩

theorem shiftA_size (b e k : Nat) (a : ARec) : sizeA b (shiftA e k a) = sizeA b a := by
  unfold shiftA; split <;> rfl

theorem chainA_shift_all {b k e : Nat} : ∀ {l : List ARec} {p : Nat}, ChainA b (p + k) l → e < p + k →
    ChainA b p (l.map (shiftA e k)) := by
  intro l
  induction l with
  | nil => intros; trivial
  | cons a rest ih =>
    intro p h he
    obtain ⟨h1, h2, h3, h3', h4⟩ := h
    have hc : a.namePtr > e := by omega
    simp only [List.map_cons, ChainA]
    refine ⟨?_, ?_, ?_, ?_, ?_⟩
    · simp [shiftA, hc]; omega
    · simp [shiftA, hc]; omega
    · simpa [shiftA, hc] using h3
    · simpa [shiftA, hc] using h3'
    · rw [shiftA_size]
      apply ih
      · have : p + sizeA b a + k = p + k + sizeA b a := by omega
        rw [this]; exact h4
      · omega

theorem chainA_erase {b : Nat} {name : Bytes} {e : ARec} : ∀ {l : List ARec} {p : Nat}, ChainA b p l →
    findA name l = some e →
    ChainA b p ((removeA name l).map (shiftA e.namePtr (sizeA b e)))
    ∧ (((removeA name l).map (shiftA e.namePtr (sizeA b e))).map (sizeA b)).sum + sizeA b e = (l.map (sizeA b)).sum := by
  intro l
  induction l with
  | nil => intro p _ hf; cases hf
  | cons a rest ih =>
    intro p h hf
    obtain ⟨h1, h2, h3, h3', h4⟩ := h
    simp only [findA] at hf
    by_cases hn : a.name = name
    · simp only [hn, if_true, Option.some.injEq] at hf
      subst hf
      simp only [removeA, hn, if_true]
      constructor
      · apply chainA_shift_all h4
        have := sizeA_pos b a; omega
      · simp only [List.map_map, List.map_cons, List.sum_cons]
        have : (sizeA b ∘ shiftA a.namePtr (sizeA b a)) = sizeA b := by
          funext x; simp [shiftA_size]
        rw [this]; omega
    · simp only [hn, if_false] at hf
      have hm := findA_mem hf
      have he := (chainA_mem h4 e hm.1).2.2.2.1
      have hpos := sizeA_pos b a
      have hna : ¬ (a.namePtr > e.namePtr) := by omega
      have hsa : shiftA e.namePtr (sizeA b e) a = a := by simp [shiftA, hna]
      obtain ⟨ih1, ih2⟩ := ih h4 hf
      simp only [removeA, hn, if_false, List.map_cons, hsa, List.sum_cons]
      refine ⟨⟨h1, h2, h3, h3', ih1⟩, ?_⟩
      omega

theorem layout_eraseStmt {s : VM} (h : Layout s) (name : Bytes) : Layout (eraseStmt name s).state := by
  unfold eraseStmt
  cases hf : findA name s.arrays with
  | none => exact h
  | some e =>
    have hm := findA_mem hf
    obtain ⟨c1, c2⟩ := chainA_erase h.ar hf
    have hfreed : bufSize s.base name e.dims + arecSize name e.dims = sizeA s.base e := by
      simp only [sizeA, amemSize, hm.2]; omega
    simp only [MR.state, hfreed]
    refine ⟨h.sc, h.scCur, c1, ?_, ?_, h.top⟩
    · have := h.arCur; simp only; omega
    · have := h.room; simp only [varCurrent] at this ⊢; omega

theorem layout_eraseList {s : VM} (h : Layout s) (names : List Bytes) : Layout (eraseList names s).state := by
  induction names generalizing s with
  | nil => exact h
  | cons n r ih =>
    have h1 := layout_eraseStmt h n
    simp only [eraseList]
    cases he : eraseStmt n s with
    | error x => rw [he] at h1; exact h1
    | ok s1 => rw [he] at h1; exact ih h1

theorem step_state (s : VM) (op : Op) : (step s op).1 = (stmt op s).state := by
  unfold step
  cases stmt op s with
  | ok s' => rfl
  | error x => obtain ⟨e, s'⟩ := x; rfl

theorem layout_step {s : VM} (h : Layout s) (op : Op) : Layout (step s op).1 := by
  rw [step_state]
  cases op with
  | letv d v => exact layout_letStmt h d v
  | dim n dims => exact layout_allocate h n dims
  | swap a b => exact layout_swapStmt h a b
  | erase ns => exact layout_eraseList h ns

theorem layout_run {s : VM} (h : Layout s) (ops : List Op) : Layout (run s ops) := by
  induction ops generalizing s with
  | nil => exact h
  | cons op r ih => exact ih (layout_step h op)


/-! ### array buffers -/

theorem flatten_cell {n : Nat} : ∀ (cells : List Bytes) (k i : Nat), (∀ c ∈ cells, c.length = n) →
    k < cells.length → i < n → cells.flatten[n * k + i]? = ((cells[k]?).getD [])[i]? := by
  intro cells
  induction cells with
  | nil => intro k i _ hk; simp at hk
  | cons c r ih =>
    intro k i hall hk hi
    have hc : c.length = n := hall c (by simp)
    cases k with
    | zero =>
      simp only [List.flatten_cons, Nat.mul_zero, Nat.zero_add, List.getElem?_cons_zero, Option.getD_some]
      rw [List.getElem?_append_left (by omega)]
    | succ k =>
      simp only [List.flatten_cons, List.getElem?_cons_succ]
      have : n * (k + 1) + i = c.length + (n * k + i) := by rw [hc, Nat.mul_succ]; omega
      rw [this, List.getElem?_append_right (by omega)]
      simp only [Nat.add_sub_cancel_left]
      exact ih k i (fun x hx => hall x (by simp [hx])) (by simpa using hk) hi

theorem indexLoop_le (b : Nat) : ∀ (idx dims : List Nat) (area big big' : Nat), big ≤ big' →
    idx.length = dims.length → checkLoop b idx dims = true →
    indexLoop b area big idx dims ≤ indexLoop b area big' dims dims := by
  intro idx
  induction idx with
  | nil =>
    intro dims area big big' hb hl _
    cases dims with
    | nil => simpa [indexLoop] using hb
    | cons d ds => simp at hl
  | cons i is ih =>
    intro dims area big big' hb hl hc
    cases dims with
    | nil => simp at hl
    | cons d ds =>
      simp only [checkLoop] at hc
      by_cases hbad : i < b ∨ i > d
      · simp [hbad] at hc
      · simp only [hbad, if_false] at hc
        simp only [indexLoop]
        apply ih ds _ _ _ _ (by simpa using hl) hc
        have : area * (i - b) ≤ area * (d - b) := Nat.mul_le_mul_left _ (by omega)
        omega

/-- a subscript tuple accepted by `check_dim` addresses a cell inside the buffer -/
theorem index_lt_flatLength (b : Nat) (idx dims : List Nat) (hl : idx.length = dims.length)
    (hc : checkLoop b idx dims = true) : index b idx dims < flatLength b dims := by
  have := indexLoop_le b idx dims 1 0 0 (Nat.le_refl _) hl hc
  unfold index flatLength index; omega


theorem offsets_before : ∀ (szs : List Nat) (p i j q1 z1 q2 : Nat), (offsets p szs)[i]? = some q1 →
    szs[i]? = some z1 → (offsets p szs)[j]? = some q2 → i < j → q1 + z1 ≤ q2 := by
  intro szs
  induction szs with
  | nil => intro p i j q1 z1 q2 h; simp [offsets] at h
  | cons s r ih =>
    intro p i j q1 z1 q2 h1 hz h2 hij
    cases j with
    | zero => omega
    | succ j =>
      simp only [offsets, List.getElem?_cons_succ] at h2
      cases i with
      | zero =>
        simp only [offsets, List.getElem?_cons_zero, Option.some.injEq] at h1 hz
        have := offsets_ge q2 (List.mem_of_getElem? h2)
        omega
      | succ i =>
        simp only [offsets, List.getElem?_cons_succ] at h1 hz
        exact ih (p + s) i j q1 z1 q2 h1 hz h2 (by omega)

/-- two different positions of a consecutive layout hold disjoint blocks -/
theorem offsets_disjoint {szs : List Nat} {p i j q1 z1 q2 z2 : Nat} (h1 : (offsets p szs)[i]? = some q1)
    (hz1 : szs[i]? = some z1) (h2 : (offsets p szs)[j]? = some q2) (hz2 : szs[j]? = some z2) (hij : i ≠ j) :
    q1 + z1 ≤ q2 ∨ q2 + z2 ≤ q1 := by
  rcases Nat.lt_or_gt_of_ne hij with h | h
  · exact Or.inl (offsets_before szs p i j q1 z1 q2 h1 hz1 h2 h)
  · exact Or.inr (offsets_before szs p j i q2 z2 q1 h2 hz2 h1 h)


/-! ### frame lemmas: what a statement leaves alone -/

theorem findS_append (n' : Bytes) (l : List SRec) (x : SRec) :
    findS n' (l ++ [x]) = match findS n' l with
                          | some r => some r
                          | none => if x.name = n' then some x else none := by
  induction l with
  | nil => simp [findS]
  | cons a rest ih =>
    simp only [List.cons_append, findS]
    by_cases hn : a.name = n'
    · simp [hn]
    · simp only [hn, if_false]; exact ih

theorem findA_append (n' : Bytes) (l : List ARec) (x : ARec) :
    findA n' (l ++ [x]) = match findA n' l with
                          | some r => some r
                          | none => if x.name = n' then some x else none := by
  induction l with
  | nil => simp [findA]
  | cons a rest ih =>
    simp only [List.cons_append, findA]
    by_cases hn : a.name = n'
    · simp [hn]
    · simp only [hn, if_false]; exact ih

theorem findS_mapS_ne {n n' : Bytes} (hne : n' ≠ n) (v : Bytes) (l : List SRec) :
    findS n' (mapS n (fun r => { r with val := v }) l) = findS n' l := by
  induction l with
  | nil => rfl
  | cons a rest ih =>
    simp only [mapS, List.map_cons, findS] at ih ⊢
    by_cases ha : a.name = n
    · have : ¬ a.name = n' := by rw [ha]; exact fun h => hne h.symm
      simp [ha, this, ih, hne.symm]
    · simp only [ha, if_false]
      by_cases hb : a.name = n' <;> simp [hb, ih]

theorem findA_mapA_ne {n n' : Bytes} (hne : n' ≠ n) (f : ARec → List Bytes) (l : List ARec) :
    findA n' (mapA n (fun a => { a with cells := f a }) l) = findA n' l := by
  induction l with
  | nil => rfl
  | cons a rest ih =>
    simp only [mapA, List.map_cons, findA] at ih ⊢
    by_cases ha : a.name = n
    · have : ¬ a.name = n' := by rw [ha]; exact fun h => hne h.symm
      simp [ha, this, ih, hne.symm]
    · simp only [ha, if_false]
      by_cases hb : a.name = n' <;> simp [hb, ih]

theorem findA_mapA_same (n : Bytes) (f : ARec → List Bytes) (l : List ARec) :
    findA n (mapA n (fun a => { a with cells := f a }) l) = (findA n l).map (fun a => { a with cells := f a }) := by
  induction l with
  | nil => rfl
  | cons a rest ih =>
    simp only [mapA, List.map_cons, findA] at ih ⊢
    by_cases ha : a.name = n
    · simp [ha]
    · simp [ha, ih]

/-- existing scalar records survive `Scalars.set(name, None)`; other names are not created -/
theorem ensureScalar_frame (n : Bytes) (s : VM) :
    (ensureScalar n s).state.arrays = s.arrays ∧ (ensureScalar n s).state.base = s.base
    ∧ (ensureScalar n s).state.strs = s.strs
    ∧ (∀ n' r, findS n' s.scalars = some r → findS n' (ensureScalar n s).state.scalars = some r)
    ∧ (∀ n', n' ≠ n → findS n' (ensureScalar n s).state.scalars = findS n' s.scalars) := by
  unfold ensureScalar
  cases hf : findS n s.scalars with
  | some r => simp [MR.state]
  | none =>
    cases hm : lowMem s (memSize n) with
    | true => simp [MR.state]
    | false =>
      simp only [MR.state, Bool.false_eq_true, if_false, true_and]
      constructor
      · intro n' r h; rw [findS_append, h]
      · intro n' hne
        rw [findS_append]
        cases findS n' s.scalars with
        | some r => rfl
        | none => simp; exact fun h => hne h.symm

theorem allocate_frame (n : Bytes) (dims : List Nat) (s : VM) :
    (allocate n dims s).state.scalars = s.scalars ∧ (allocate n dims s).state.base = s.base
    ∧ (allocate n dims s).state.strs = s.strs
    ∧ (∀ n' a, findA n' s.arrays = some a → findA n' (allocate n dims s).state.arrays = some a) := by
  unfold allocate
  by_cases hd : dims = []
  · simp [hd, MR.state]
  · simp only [hd, if_false]
    cases hf : findA n s.arrays with
    | some r => simp [MR.state]
    | none =>
      by_cases hb : (dims.any fun d => decide (d < s.base)) = true
      · simp [hb, MR.state]
      · simp only [hb]
        cases hm : lowMem s (amemSize s.base n dims) with
        | true => simp [MR.state]
        | false =>
          simp only [MR.state, Bool.false_eq_true, if_false, true_and]
          intro n' a h; rw [findA_append, h]

theorem checkDim_frame (n : Bytes) (idx : List Nat) (s : VM) :
    (checkDim n idx s).state.scalars = s.scalars ∧ (checkDim n idx s).state.base = s.base
    ∧ (checkDim n idx s).state.strs = s.strs
    ∧ (∀ n' a, findA n' s.arrays = some a → findA n' (checkDim n idx s).state.arrays = some a) := by
  unfold checkDim
  cases hf : findA n s.arrays with
  | some a =>
    simp only [hf]
    split <;> (try split) <;> simp [MR.state]
  | none =>
    simp only
    have h1 := allocate_frame n (idx.map (fun _ => 10)) s
    cases ha : allocate n (idx.map (fun _ => 10)) s with
    | error x => rw [ha] at h1; exact h1
    | ok s1 =>
      rw [ha] at h1
      simp only [MR.state] at h1
      simp only
      split
      · exact h1
      · split <;> (try split) <;> exact h1


/-! ### string space -/

def cellLen (c : Bytes) : Nat := c.getD 0 0
def cellAddr (c : Bytes) : Nat := c.getD 1 0 + 256 * c.getD 2 0

/-- a string pointer cell is empty or points at a stored string of its length -/
def PtrOK (strs : List (Nat × Bytes)) (c : Bytes) : Prop :=
  cellLen c = 0 ∨ ∃ b, (cellAddr c, b) ∈ strs ∧ b.length = cellLen c

def Disj (x y : Nat × Bytes) : Prop := x.1 + x.2.length ≤ y.1 ∨ y.1 + y.2.length ≤ x.1

structure StrOK (s : VM) : Prop where
  above : ∀ x ∈ s.strs, s.strCur < x.1 ∧ 0 < x.2.length ∧ x.1 + x.2.length ≤ s.strTop + 1
  disj : s.strs.Pairwise Disj
  top16 : s.strTop < 65536
  sc : ∀ r ∈ s.scalars, isStr r.name = true → PtrOK s.strs r.val
  ar : ∀ a ∈ s.arrays, isStr a.name = true → ∀ c ∈ a.cells, PtrOK s.strs c

theorem ptrOK_zero (strs : List (Nat × Bytes)) (n : Nat) : PtrOK strs (List.replicate n 0) := by
  left; unfold cellLen; cases n <;> simp [List.getD, List.replicate]

theorem ptrOK_nil (strs : List (Nat × Bytes)) : PtrOK strs [] := Or.inl rfl

theorem ptrOK_mono {l : List (Nat × Bytes)} {c : Bytes} (x : Nat × Bytes) (h : PtrOK l c) : PtrOK (l ++ [x]) c := by
  rcases h with h | ⟨b, hb, hl⟩
  · exact Or.inl h
  · exact Or.inr ⟨b, by simp [hb], hl⟩

theorem lookup_of_mem {l : List (Nat × Bytes)} (hpos : ∀ x ∈ l, 0 < x.2.length) (hd : l.Pairwise Disj)
    {a : Nat} {b : Bytes} (hm : (a, b) ∈ l) : Heap.lookup l a = some b := by
  induction l with
  | nil => cases hm
  | cons x r ih =>
    obtain ⟨k, v⟩ := x
    rw [List.pairwise_cons] at hd
    simp only [Heap.lookup]
    by_cases hk : k = a
    · subst hk
      simp only [if_true]
      rcases List.mem_cons.mp hm with he | hr
      · simp only [Prod.mk.injEq] at he; rw [he.2]
      · have h1 := hd.1 _ hr
        have h2 := hpos (k, v) (by simp)
        have h3 := hpos (k, b) (by simp [hr])
        simp only [Disj] at h1 h2 h3; omega
    · simp only [hk, if_false]
      rcases List.mem_cons.mp hm with he | hr
      · simp only [Prod.mk.injEq] at he; exact absurd he.1.symm hk
      · exact ih (fun y hy => hpos y (by simp [hy])) hd.2 hr

theorem strGetLoop_of_mem {l : List (Nat × Bytes)} (hd : l.Pairwise Disj)
    {a x : Nat} {b : Bytes} (hm : (a, b) ∈ l) (h1 : a ≤ x) (h2 : x < a + b.length) :
    strGetLoop x l = b[x - a]? := by
  induction l with
  | nil => cases hm
  | cons y r ih =>
    obtain ⟨k, v⟩ := y
    rw [List.pairwise_cons] at hd
    simp only [strGetLoop]
    rcases List.mem_cons.mp hm with he | hr
    · simp only [Prod.mk.injEq] at he
      obtain ⟨rfl, rfl⟩ := he
      simp [h1, h2]
    · have hdis := hd.1 _ hr
      simp only [Disj] at hdis
      have : ¬ (k ≤ x ∧ x < k + v.length) := by omega
      simp only [this, if_false]
      exact ih hd.2 hr

theorem removeA_mem {n : Bytes} {l : List ARec} {x : ARec} (h : x ∈ removeA n l) : x ∈ l := by
  induction l with
  | nil => cases h
  | cons a r ih =>
    simp only [removeA] at h
    by_cases hn : a.name = n
    · simp only [hn, if_true] at h; simp [h]
    · simp only [hn, if_false, List.mem_cons] at h
      rcases h with h | h
      · simp [h]
      · simp [ih h]

theorem strOK_ensureScalar {s : VM} (h : StrOK s) (name : Bytes) : StrOK (ensureScalar name s).state := by
  unfold ensureScalar
  cases hf : findS name s.scalars with
  | some r => exact h
  | none =>
    cases hm : lowMem s (memSize name) with
    | true => exact h
    | false =>
      simp only [MR.state, Bool.false_eq_true, if_false]
      refine ⟨h.above, h.disj, h.top16, ?_, h.ar⟩
      intro r hr hs
      rcases List.mem_append.mp hr with hr | hr
      · exact h.sc r hr hs
      · simp only [List.mem_singleton] at hr; subst hr; exact ptrOK_zero _ _

theorem strOK_allocate {s : VM} (h : StrOK s) (name : Bytes) (dims : List Nat) :
    StrOK (allocate name dims s).state := by
  unfold allocate
  by_cases hd : dims = []
  · simp [hd, MR.state]; exact h
  · simp only [hd, if_false]
    cases hf : findA name s.arrays with
    | some r => exact h
    | none =>
      by_cases hb : (dims.any fun d => decide (d < s.base)) = true
      · simp [hb, MR.state]; exact h
      · simp only [hb]
        cases hm : lowMem s (amemSize s.base name dims) with
        | true => exact h
        | false =>
          simp only [MR.state, Bool.false_eq_true, if_false]
          refine ⟨h.above, h.disj, h.top16, h.sc, ?_⟩
          intro a ha hs c hc
          rcases List.mem_append.mp ha with ha | ha
          · exact h.ar a ha hs c hc
          · simp only [List.mem_singleton] at ha; subst ha
            rw [List.mem_replicate] at hc
            rw [hc.2]; exact ptrOK_zero _ _

theorem strOK_checkDim {s : VM} (h : StrOK s) (name : Bytes) (idx : List Nat) :
    StrOK (checkDim name idx s).state := by
  unfold checkDim
  cases hf : findA name s.arrays with
  | some a =>
    simp only [hf]
    split <;> (try split) <;> exact h
  | none =>
    simp only
    have h1 := strOK_allocate h name (idx.map (fun _ => 10))
    cases ha : allocate name (idx.map (fun _ => 10)) s with
    | error x => rw [ha] at h1; exact h1
    | ok s1 =>
      rw [ha] at h1
      simp only [MR.state] at h1
      simp only
      split
      · exact h1
      · split <;> (try split) <;> exact h1

theorem strOK_prealloc {s : VM} (h : StrOK s) (d : Dst) : StrOK (prealloc d s).state := by
  cases d with
  | sc n => exact strOK_ensureScalar h n
  | el n idx => exact strOK_checkDim h n idx

theorem strOK_viewBuffer {s : VM} (h : StrOK s) (d : Dst) (e : Bool) : StrOK (viewBuffer d e s).state := by
  cases d with
  | sc n =>
    simp only [viewBuffer]
    cases hf : findS n s.scalars with
    | some r => exact h
    | none =>
      have h1 := strOK_ensureScalar h n
      cases he : ensureScalar n s with
      | error x => rw [he] at h1; exact h1
      | ok s1 => rw [he] at h1; dsimp only; split <;> exact h1
  | el n idx => exact strOK_checkDim h n idx

theorem strOK_writeCell {s : VM} (h : StrOK s) (d : Dst) (v : Bytes)
    (hv : isStr d.name = true → PtrOK s.strs v) : StrOK (writeCell d v s) := by
  cases d with
  | sc n =>
    refine ⟨h.above, h.disj, h.top16, ?_, h.ar⟩
    intro r hr hs
    simp only [writeCell, mapS, List.mem_map] at hr
    obtain ⟨r0, hr0, rfl⟩ := hr
    by_cases hn : r0.name = n
    · simp only [hn, if_true] at hs ⊢
      exact hv (by simpa [Dst.name, hn] using hs)
    · simp only [hn, if_false] at hs ⊢
      exact h.sc r0 hr0 hs
  | el n idx =>
    refine ⟨h.above, h.disj, h.top16, h.sc, ?_⟩
    intro a ha hs c hc
    simp only [writeCell, mapA, List.mem_map] at ha
    obtain ⟨a0, ha0, rfl⟩ := ha
    by_cases hn : a0.name = n
    · simp only [hn, if_true] at hs hc
      rcases List.mem_or_eq_of_mem_set hc with hc | hc
      · exact h.ar a0 ha0 (by simpa [hn] using hs) c hc
      · rw [hc]; exact hv (by simpa [Dst.name, hn] using hs)
    · simp only [hn, if_false] at hs hc
      exact h.ar a0 ha0 hs c hc

theorem rawCell_ptrOK {s : VM} (h : StrOK s) (d : Dst) (hs : isStr d.name = true) : PtrOK s.strs (rawCell s d) := by
  cases d with
  | sc n =>
    simp only [rawCell]
    cases hf : findS n s.scalars with
    | none => exact ptrOK_nil _
    | some r =>
      obtain ⟨hm, hn⟩ := findS_mem hf
      exact h.sc r hm (by simpa [Dst.name, hn] using hs)
  | el n idx =>
    simp only [rawCell]
    cases hf : findA n s.arrays with
    | none => exact ptrOK_nil _
    | some a =>
      obtain ⟨hm, hn⟩ := findA_mem hf
      simp only [Option.bind_some]
      cases hc : a.cells[index s.base idx a.dims]? with
      | none => exact ptrOK_nil _
      | some c => exact h.ar a hm (by simpa [Dst.name, hn] using hs) c (List.mem_of_getElem? hc)

theorem isStr_congr {a b : Bytes} (h : a.getLast? = b.getLast?) : isStr a = isStr b := by
  unfold isStr; rw [h]

theorem strOK_swapStmt {s : VM} (h : StrOK s) (a b : Dst) : StrOK (swapStmt a b s).state := by
  unfold swapStmt
  by_cases hsig : a.name.getLast? = b.name.getLast?
  · simp only [ne_eq, hsig, not_true_eq_false, if_false]
    have h1 := strOK_viewBuffer h a false
    cases ha : viewBuffer a false s with
    | error x => rw [ha] at h1; exact h1
    | ok s1 =>
      rw [ha] at h1
      simp only [MR.state] at h1
      have h2 := strOK_viewBuffer h1 b true
      dsimp only
      cases hb : viewBuffer b true s1 with
      | error x => rw [hb] at h2; exact h2
      | ok s2 =>
        rw [hb] at h2
        simp only [MR.state] at h2
        dsimp only
        by_cases hc : (rawCell s2 a).length ≠ vsize a.name ∨ (rawCell s2 b).length ≠ vsize a.name
        · rw [if_pos hc]; exact h2
        · rw [if_neg hc]
          simp only [MR.state]
          apply strOK_writeCell
          · apply strOK_writeCell h2
            intro hs; exact rawCell_ptrOK h2 b (by rw [← isStr_congr hsig]; exact hs)
          · intro hs
            have : (writeCell a (rawCell s2 b) s2).strs = s2.strs := by cases a <;> rfl
            rw [this]
            exact rawCell_ptrOK h2 a (by rw [isStr_congr hsig]; exact hs)
  · simp only [ne_eq, hsig, not_false_eq_true, if_true]; exact h

theorem strOK_eraseStmt {s : VM} (h : StrOK s) (name : Bytes) : StrOK (eraseStmt name s).state := by
  unfold eraseStmt
  cases hf : findA name s.arrays with
  | none => exact h
  | some e =>
    simp only [MR.state]
    refine ⟨h.above, h.disj, h.top16, h.sc, ?_⟩
    intro a ha hs c hc
    simp only [List.mem_map] at ha
    obtain ⟨a0, ha0, rfl⟩ := ha
    have hm := removeA_mem ha0
    have e1 : (shiftA e.namePtr (bufSize s.base name e.dims + arecSize name e.dims) a0).name = a0.name := by
      unfold shiftA; split <;> rfl
    have e2 : (shiftA e.namePtr (bufSize s.base name e.dims + arecSize name e.dims) a0).cells = a0.cells := by
      unfold shiftA; split <;> rfl
    rw [e1] at hs; rw [e2] at hc
    exact h.ar a0 hm hs c hc

theorem strOK_eraseList {s : VM} (h : StrOK s) (names : List Bytes) : StrOK (eraseList names s).state := by
  induction names generalizing s with
  | nil => exact h
  | cons n r ih =>
    have h1 := strOK_eraseStmt h n
    simp only [eraseList]
    cases he : eraseStmt n s with
    | error x => rw [he] at h1; exact h1
    | ok s1 => rw [he] at h1; exact ih h1

theorem strOK_letStmt {s : VM} (hl : Layout s) (h : StrOK s) (d : Dst) (v : Val) : StrOK (letStmt d v s).state := by
  unfold letStmt
  have h1 := strOK_prealloc h d
  have l1 := layout_prealloc hl d
  cases hp : prealloc d s with
  | error x => rw [hp] at h1; exact h1
  | ok s1 =>
    rw [hp] at h1 l1
    simp only [MR.state] at h1 l1
    cases v with
    | num b =>
      dsimp only
      split
      · exact h1
      · rename_i hc
        apply strOK_writeCell h1
        intro hs
        exact absurd (Or.inl hs) hc
    | str b =>
      dsimp only
      split
      · exact h1
      · split
        · exact h1
        · cases hm : lowMem s1 b.length with
          | true => exact h1
          | false =>
            have hm' := lowMem_false hm
            have htop := l1.top
            have h16 := h1.top16
            simp only [Bool.false_eq_true, if_false, MR.state]
            by_cases hb : b.length > 0
            · simp only [hb, if_true]
              apply strOK_writeCell
              · refine ⟨?_, ?_, h16, ?_, ?_⟩
                · intro x hx
                  rcases List.mem_append.mp hx with hx | hx
                  · have := h1.above x hx; simp only; omega
                  · simp only [List.mem_singleton] at hx; subst hx; simp only; omega
                · rw [List.pairwise_append]
                  refine ⟨h1.disj, by simp, ?_⟩
                  intro x hx y hy
                  simp only [List.mem_singleton] at hy; subst hy
                  have := h1.above x hx
                  right; simp only; omega
                · intro r hr hs; exact ptrOK_mono _ (h1.sc r hr hs)
                · intro a ha hs c hc; exact ptrOK_mono _ (h1.ar a ha hs c hc)
              · intro _
                right
                refine ⟨b, ?_, by simp [cellLen, le16]⟩
                have : cellAddr (b.length :: le16 (s1.strCur - b.length + 1)) = s1.strCur - b.length + 1 := by
                  simp only [cellAddr, le16, List.getD, List.getElem?_cons_succ, List.getElem?_cons_zero,
                    Option.getD_some]
                  omega
                rw [this]; simp
            · simp only [hb, if_false]
              have hb0 : b.length = 0 := by omega
              apply strOK_writeCell
              · refine ⟨?_, h1.disj, h16, h1.sc, h1.ar⟩
                intro x hx; have := h1.above x hx; simp only; omega
              · intro _; left; simp [cellLen, hb0]

theorem strOK_init (vs top base : Nat) (h : top < 65536) : StrOK (init vs top base) :=
  { above := fun x hx => (by cases hx)
    disj := List.Pairwise.nil
    top16 := h
    sc := fun r hr => (by cases hr)
    ar := fun a ha => (by cases ha) }

theorem strOK_step {s : VM} (hl : Layout s) (h : StrOK s) (op : Op) : StrOK (step s op).1 := by
  rw [step_state]
  cases op with
  | letv d v => exact strOK_letStmt hl h d v
  | dim n dims => exact strOK_allocate h n dims
  | swap a b => exact strOK_swapStmt h a b
  | erase ns => exact strOK_eraseList h ns

theorem strOK_run {s : VM} (hl : Layout s) (h : StrOK s) (ops : List Op) : StrOK (run s ops) := by
  induction ops generalizing s with
  | nil => exact h
  | cons op r ih => exact ih (layout_step hl op) (strOK_step hl h op)


theorem lookup_append_some {l : List (Nat × Bytes)} {a : Nat} {b : Bytes} (x : Nat × Bytes)
    (h : Heap.lookup l a = some b) : Heap.lookup (l ++ [x]) a = some b := by
  induction l with
  | nil => cases h
  | cons y r ih =>
    obtain ⟨k, v⟩ := y
    simp only [List.cons_append, Heap.lookup] at h ⊢
    by_cases hk : k = a
    · simpa [hk] using h
    · simp only [hk, if_false] at h ⊢; exact ih h

theorem writeCell_strs (d : Dst) (v : Bytes) (s : VM) : (writeCell d v s).strs = s.strs := by
  cases d <;> rfl

theorem prealloc_strs (d : Dst) (s : VM) : (prealloc d s).state.strs = s.strs := by
  cases d with
  | sc n => exact (ensureScalar_frame n s).2.2.1
  | el n idx => exact (checkDim_frame n idx s).2.2.1

/-- a LET leaves string space as it is or appends one string -/
theorem letStmt_strs (d : Dst) (v : Val) (s : VM) :
    (letStmt d v s).state.strs = s.strs ∨ ∃ x, (letStmt d v s).state.strs = s.strs ++ [x] := by
  unfold letStmt
  have h1 := prealloc_strs d s
  cases hp : prealloc d s with
  | error x => rw [hp] at h1; exact Or.inl h1
  | ok s1 =>
    rw [hp] at h1
    simp only [MR.state] at h1
    cases v with
    | num b =>
      dsimp only
      split
      · exact Or.inl h1
      · left; simp only [MR.state, writeCell_strs]; exact h1
    | str b =>
      dsimp only
      split
      · exact Or.inl h1
      · split
        · exact Or.inl h1
        · split
          · exact Or.inl h1
          · simp only [MR.state, writeCell_strs]
            split
            · right; exact ⟨_, by rw [h1]⟩
            · left; exact h1

theorem derefCell_stable {s s' : VM} (h : StrOK s) {c : Bytes} (hc : PtrOK s.strs c)
    (hs : s'.strs = s.strs ∨ ∃ x, s'.strs = s.strs ++ [x]) : derefCell s' c = derefCell s c := by
  unfold derefCell
  rcases hc with hz | ⟨b, hb, _⟩
  · simp only [cellLen] at hz; rw [if_pos hz, if_pos hz]
  · have hl := lookup_of_mem (fun x hx => (h.above x hx).2.1) h.disj hb
    simp only [cellAddr] at hl
    rcases hs with hs | ⟨x, hs⟩
    · rw [hs]
    · rw [hs, hl, lookup_append_some x hl]


theorem getElem?_of_mem_map {α β : Type} {l : List α} {k : Nat} {x : α} (f : α → β) (h : l[k]? = some x) :
    (l.map f)[k]? = some (f x) := by simp [h]


/-! ### ERASE leaves the other arrays' contents alone -/

/-- what a program can read of an array -/
def coreA (a : ARec) : List Nat × List Bytes := (a.dims, a.cells)

theorem findA_removeA_ne {n n' : Bytes} (hne : n' ≠ n) (l : List ARec) :
    findA n' (removeA n l) = findA n' l := by
  induction l with
  | nil => rfl
  | cons a rest ih =>
    simp only [removeA]
    by_cases ha : a.name = n
    · have : ¬ a.name = n' := by rw [ha]; exact fun h => hne h.symm
      simp only [ha, if_true, findA, this, if_false]
      rw [ha] at this; simp only [this, if_false]
    · simp only [ha, if_false, findA, ih]

theorem findA_map_shift (n' : Bytes) (e k : Nat) (l : List ARec) :
    (findA n' (l.map (shiftA e k))).map coreA = (findA n' l).map coreA := by
  induction l with
  | nil => rfl
  | cons a rest ih =>
    have hn : (shiftA e k a).name = a.name := by unfold shiftA; split <;> rfl
    have hc : coreA (shiftA e k a) = coreA a := by unfold shiftA coreA; split <;> rfl
    simp only [List.map_cons, findA, hn]
    by_cases ha : a.name = n'
    · simp [ha, hc]
    · simp only [ha, if_false]; exact ih

theorem eraseStmt_frame (n : Bytes) (s : VM) :
    (eraseStmt n s).state.scalars = s.scalars ∧ (eraseStmt n s).state.base = s.base
    ∧ (eraseStmt n s).state.strs = s.strs
    ∧ ∀ n', n' ≠ n → (findA n' (eraseStmt n s).state.arrays).map coreA = (findA n' s.arrays).map coreA := by
  unfold eraseStmt
  cases hf : findA n s.arrays with
  | none => simp [MR.state]
  | some e =>
    simp only [MR.state, true_and]
    intro n' hne
    rw [findA_map_shift, findA_removeA_ne hne]

theorem eraseList_frame (names : List Bytes) (s : VM) :
    (eraseList names s).state.scalars = s.scalars ∧ (eraseList names s).state.base = s.base
    ∧ (eraseList names s).state.strs = s.strs
    ∧ ∀ n', n' ∉ names → (findA n' (eraseList names s).state.arrays).map coreA = (findA n' s.arrays).map coreA := by
  induction names generalizing s with
  | nil => simp [eraseList, MR.state]
  | cons n r ih =>
    obtain ⟨f1, f2, f3, f4⟩ := eraseStmt_frame n s
    simp only [eraseList]
    cases he : eraseStmt n s with
    | error x =>
      rw [he] at f1 f2 f3 f4
      exact ⟨f1, f2, f3, fun n' hn => f4 n' (fun h => hn (by simp [h]))⟩
    | ok s1 =>
      rw [he] at f1 f2 f3 f4
      simp only [MR.state] at f1 f2 f3 f4
      obtain ⟨g1, g2, g3, g4⟩ := ih s1
      refine ⟨g1.trans f1, g2.trans f2, g3.trans f3, ?_⟩
      intro n' hn
      have h1 : n' ≠ n := fun h => hn (by simp [h])
      have h2 : n' ∉ r := fun h => hn (by simp [h])
      rw [g4 n' h2, f4 n' h1]


end PcbV.VarMem
