"""C42: PLAY tables and defaults (pcbasic/basic/sound.py) -> lean/PcbV/Gen/Notes.lean."""
import sys
from fractions import Fraction

_gt = sys.modules.get('__main__')
if not hasattr(_gt, 'GENERATORS') or not hasattr(_gt, 'generator'):
    import gen_tables as _gt

generator, HEADER = _gt.generator, _gt.HEADER


def _recip(x, what):
    """x is a float of the form p/q with small q; return the exact Fraction (checked)."""
    f = Fraction(x).limit_denominator(4096)
    if float(f) != x:
        raise ValueError('C42 translator: %s = %r is not a small rational' % (what, x))
    return f


@generator('Notes')
def gen_notes():
    from pcbasic.basic import sound
    out = [HEADER, 'namespace PcbV.Gen.Notes\n']
    # NOTES: name (letter byte, accidental byte or 0) -> semitone
    rows = []
    for name, semi in sorted(sound.NOTES.items()):
        b = bytearray(name)
        if len(b) not in (1, 2) or not isinstance(semi, int) or semi < 0:
            raise ValueError('C42 translator: unexpected NOTES entry %r: %r' % (name, semi))
        rows.append('(%d, %d, %d)' % (b[0], b[1] if len(b) == 2 else 0, semi))
    out.append('/-- sound.NOTES as (letter byte, accidental byte `#`=35 / `-`=45 / none=0, semitone) -/')
    out.append('def notes : List (Nat × Nat × Nat) := [%s]' % ', '.join(rows))
    # NOTE_FREQ: equal temperament, 440 Hz at one index; only the shape is a subject of the theorems,
    # the float values are compared numerically by the harness
    nf = sound.NOTE_FREQ
    a440 = [i for i, f in enumerate(nf) if f == 440.0]
    if len(a440) != 1:
        raise ValueError('C42 translator: NOTE_FREQ has no unique 440.0 entry')
    out.append('/-- len(sound.NOTE_FREQ) -/')
    out.append('def noteCount : Nat := %d' % len(nf))
    out.append('/-- the index i with NOTE_FREQ[i] == 440.0 -/')
    out.append('def a440Index : Nat := %d' % a440[0])
    # Tandy/PCjr tone generator: emit_tone plays 0 < f < 110 Hz as 110 Hz; as table indices:
    # every index below the first entry that is >= 110 Hz becomes that entry (which must be 110.0 exactly)
    low = [i for i, f in enumerate(nf) if f >= 110.]
    if not low or nf[low[0]] != 110.0 or any(nf[i] >= nf[i + 1] for i in range(len(nf) - 1)):
        raise ValueError('C42 translator: NOTE_FREQ is not increasing with an exact 110.0 entry')
    out.append('/-- the index i with NOTE_FREQ[i] == 110.0: lower notes are played at this one on Tandy/PCjr -/')
    out.append('def a110Index : Nat := %d' % low[0])
    ps = sound.PlayState()
    length = _recip(ps.length, 'PlayState.length')
    tempo = _recip(ps.tempo, 'PlayState.tempo')
    fill = _recip(ps.fill, 'PlayState.fill')
    if length.numerator != 1 or (240 / tempo).denominator != 1 or (fill * 8).denominator != 1:
        raise ValueError('C42 translator: PlayState defaults are not of the form 1/L, 240/T, k/8')
    for name, val, doc in (
            ('defOctave', ps.octave, 'PlayState().octave'),
            ('defLength', length.denominator, '1 / PlayState().length'),
            ('defTempo', int(240 / tempo), '240 / PlayState().tempo'),
            ('defFill8', int(fill * 8), '8 * PlayState().fill'),
            ('defVolume', ps.volume, 'PlayState().volume')):
        if not isinstance(val, int) or val < 0:
            raise ValueError('C42 translator: %s is not a natural number: %r' % (doc, val))
        out.append('/-- %s -/' % doc)
        out.append('def %s : Nat := %d' % (name, val))
    # limit on the nesting of X substrings (0 = the code has none)
    nest = getattr(sound, 'MAX_SUBSTRING_NESTING', 0)
    if not isinstance(nest, int) or nest < 0:
        raise ValueError('C42 translator: MAX_SUBSTRING_NESTING is not a natural number: %r' % (nest,))
    out.append('/-- sound.MAX_SUBSTRING_NESTING (0 if the code has no such limit) -/')
    out.append('def maxNesting : Nat := %d' % nest)
    out.append('\nend PcbV.Gen.Notes\n')
    return '\n'.join(out)
