"""C25 — Random-access files behave as arrays of fixed-length records."""
import os
import shutil
import struct
import tempfile

from vlib import basic, translated

LEVEL = 'proof'
RULE = ('one case = one step of a random history; histories of OPEN (record lengths 1..128, boundary-dense, three '
        'spellings; host files empty, absent or pre-filled with a length that is not a multiple of the record '
        'length), FIELD (several variables, re-FIELD, overlapping layouts, overflow), LSET/RSET (shorter/longer/'
        'binary strings), PUT/GET with implicit, repeated, gapped, fractional, out-of-range (0, negative, > 2^25) '
        'and single-precision-boundary record numbers (literal, %, !, # variables, expressions), CLOSE and reopen '
        'under another number / record length, over file numbers 1..3 (and invalid 0, 4, unopened) and three host '
        'files open at once; plus a sweep of GET record numbers around 2^24, 2^25 and 0; non-trivial = the step '
        'reached RandomFile.get/put or _check_pos')
EXPLANATION = ('theorems (PcbV.Props.C25) by induction over arbitrary FIELD-write/PUT/GET histories of the model; '
               'correspondence: error number, LOC, LOF, EOF, the values of six string variables after every step '
               'and the host file bytes at the end, against the Lean model; oracle: a dict record -> bytes with a '
               'high-water mark per open file and a private copy of each FIELD buffer, judged by the statement text')
TRUSTED_BASE = ['source tie: the record arithmetic of RandomFile.eof, _set_record_pos and put is translated mechanically from '
                'the current Python AST (PcbV.Gen.Translated.rfEof/rfSeekOffset/rfSeekRecpos/rfPutOffset, gen/py2lean.py), '
                'proved equal to the model (translated_rfEof_eq, translated_rfSeek_eq, translated_rfPutOffset_eq) and '
                'compared with a real RandomFile over a recording host file (vlib/translated.py: check_randfile); '
                'the translator itself is trusted only as far as that comparison reaches',
                'model PcbV.Model.RandFile is a hand transcription of diskfiles.py:RandomFile/FieldFile, '
                'files.py:_check_pos/open_/field_/get_/put_ and memory.py:Field validated by this correspondence',
                'host file system: a write behind the end of a file zero-fills the gap (POSIX); only the original '
                '(pre-86ee4641) put relied on it']
ASSUMPTIONS = ['fractional record numbers (k+0.25, k+0.5, k+0.75, k < 2000) are rounded half-to-even by the harness '
               'before being handed to the model, which takes integer record numbers; the oracle rounds them '
               'independently (IEEE single via struct, then round())',
               'the model rounds to single precision only below 2^26 (above, any rounding stays above 2^25)',
               'one host file is open under at most one file number at a time (sharing is property C26; two Python '
               'file objects on one host file do not see each other\'s buffered writes)',
               'LOC/LOF are read as CDBL(LOC(n)): they are single-precision values, exact below 2^24']

NAMES = [b'A.DAT', b'B.DAT', b'C.DAT']
VARS = ['A$', 'B$', 'C$', 'D$', 'E$', 'F$']
MAXREC = 2 ** 25
S4_KEY = 'record number in (2^25, 2^25+2] accepted after single-precision rounding'
RECLENS = [1, 2, 3, 4, 5, 7, 8, 16, 31, 32, 64, 100, 127, 128]
BAD_POS = [0, -1, -7, -32768, MAXREC + 3, MAXREC + 4, MAXREC + 5, MAXREC + 8, 2 ** 26, 2 ** 31, 10 ** 12]
S4_POS = [MAXREC + 1, MAXREC + 2]
BIG_GET = [MAXREC, MAXREC - 1, MAXREC - 2, MAXREC - 3, 2 ** 24, 2 ** 24 + 1, 2 ** 24 + 2, 2 ** 24 + 3,
           2 ** 24 - 1, 2 ** 24 + 5, 2 ** 24 + 6, 20000001, 30000003]
PUT_LIMIT = 24000      # bytes: explicit/implicit PUTs are kept below this offset


def single(x):
    """nearest IEEE single (24-bit mantissa, ties to even) — same grid as MBF single in this range"""
    return struct.unpack('<f', struct.pack('<f', x))[0]


def denoted_record(p):
    """the integer record number a numeric value denotes (BASIC rounds a float to the nearest integer)"""
    return int(round(single(p)))


# ---------------------------------------------------------------------------------------------
# BASIC spelling

def basic_str(b, rnd):
    """a BASIC string expression with value b"""
    if not b:
        return b'""'
    parts = []
    run = bytearray()
    for c in bytearray(b):
        if 32 <= c < 127 and c != 34 and rnd(8):
            run.append(c)
        else:
            if run:
                parts.append(b'"' + bytes(run) + b'"')
                run = bytearray()
            parts.append(b'CHR$(%d)' % c)
    if run:
        parts.append(b'"' + bytes(run) + b'"')
    return b'+'.join(parts)


def num_text(p):
    if isinstance(p, int):
        return b'%d' % p
    t = ('%.2f' % p).rstrip('0').encode()
    return t


def pos_stmt(kw, num, p, rnd):
    """GET/PUT statement text; the record number literal, through a variable or as an expression"""
    head = kw + (b' #%d' % num if rnd(4) else b' %d' % num)
    if p is None:
        return head
    lit = num_text(p)
    v = rnd(8)
    if isinstance(p, int) and -32768 <= p <= 32767 and v == 0:
        return b'P%%=%s:' % lit + head + b',P%'
    if isinstance(p, int) and abs(p) < 2 ** 24 and v == 1:
        return b'P!=%s:' % lit + head + b',P!'
    if v == 2:
        return b'P#=%s:' % lit + head + b',P#'
    if isinstance(p, int) and 1 < p < 2 ** 40 and v == 3:
        return head + b',(%d+%d)' % (p - 1, 1)
    if isinstance(p, int) and abs(p) >= 2 ** 15 and v == 4:
        return head + b',%s#' % lit
    return head + b', ' + lit


def enc_cmd(c):
    k = c[0]
    if k == 'o':
        return 'o:%d:%d:%d' % (c[1], c[2], c[3])
    if k == 'c':
        return 'c:%d' % c[1]
    if k == 'f':
        return 'f:%d:%s' % (c[1], ','.join('%d.%d' % (w, v) for w, v in c[2]) or '-')
    if k == 'l':
        return 'l:%d:%s:%s' % (c[1], 'R' if c[2] else 'L', bytes(c[3]).hex() or '-')
    p = c[2]
    if p is not None and not isinstance(p, int):
        p = int(round(p))            # see ASSUMPTIONS
    return '%s:%d:%s' % (k, c[1], '-' if p is None else p)


def stmt(c, rnd):
    k = c[0]
    if k == 'o':
        _, num, fid, rl = c
        name = NAMES[fid] if rnd(3) else NAMES[fid].lower()
        v = rnd(3)
        if v == 0:
            return b'OPEN "R",%s%d,"%s",%d' % (b'#' if rnd(2) else b'', num, name, rl)
        if v == 1:
            return b'OPEN "%s" FOR RANDOM AS %s%d LEN=%d' % (name, b'#' if rnd(2) else b'', num, rl)
        return b'OPEN "%s" AS %d LEN=%d' % (name, num, rl)
    if k == 'c':
        return b'CLOSE #%d' % c[1] if rnd(2) else b'CLOSE %d' % c[1]
    if k == 'f':
        t = b'FIELD #%d' % c[1] if rnd(3) else b'FIELD %d' % c[1]
        for w, v in c[2]:
            t += b', %d AS %s' % (w, VARS[v - 1].encode())
        return t
    if k == 'l':
        return (b'RSET ' if c[2] else b'LSET ') + VARS[c[1] - 1].encode() + b'=' + basic_str(bytes(c[3]), rnd)
    return pos_stmt(b'PUT' if k == 'p' else b'GET', c[1], c[2], rnd)


# ---------------------------------------------------------------------------------------------
# the real interpreter on a temp-dir drive

class Impl(object):

    def __init__(self):
        self.dir = tempfile.mkdtemp(prefix='pcbv_c25_')
        self.session = basic.new_session(devices={'C': self.dir}, current_device='C')
        from pcbasic.basic.base import error
        self.msg_to_err = {m: n for n, m in error.BASICError.messages.items()}
        self.max_files = self.session._impl.files.max_files
        self.max_reclen = self.session._impl.files.max_reclen

    def close(self):
        try:
            self.session.execute(b'CLOSE')
            self.session.close()
        finally:
            shutil.rmtree(self.dir, ignore_errors=True)

    def reset(self, disk):
        """fresh history: nothing open, FIELD buffers and variables cleared, host files as given"""
        self.session.execute(b'CLOSE:CLEAR')
        for f in os.listdir(self.dir):
            os.remove(os.path.join(self.dir, f))
        for fid, data in disk.items():
            with open(os.path.join(self.dir, NAMES[fid].decode()), 'wb') as h:
                h.write(data)

    def host(self):
        out = {}
        for fid, n in enumerate(NAMES):
            p = os.path.join(self.dir, n.decode())
            if os.path.exists(p):
                with open(p, 'rb') as h:
                    out[fid] = h.read()
        extra = sorted(set(os.listdir(self.dir)) - set(n.decode() for n in NAMES))
        return out, extra

    def execute(self, text):
        try:
            out = self.session.execute(text)
        except Exception as e:  # an escaping host exception
            return 'exc:%s' % type(e).__name__
        text = out.replace(b'\xff', b'').strip()
        if not text:
            return 0
        return self.msg_to_err.get(text, 'out:%r' % out)

    def obs(self, num):
        """(LOC, LOF, EOF) as BASIC reports them, None if the functions fail"""
        try:
            loc = self.session.evaluate('CDBL(LOC(%d))' % num)
            lof = self.session.evaluate('CDBL(LOF(%d))' % num)
            eof = self.session.evaluate('EOF(%d)' % num)
        except Exception as e:
            return 'exc:%s' % type(e).__name__
        if loc is None or lof is None or eof is None:
            return None
        return int(loc), int(lof), 1 if eof else 0

    def vars(self):
        return [bytes(self.session.get_variable(v)) for v in VARS]


# ---------------------------------------------------------------------------------------------
# the oracle: dict record -> bytes with a high-water mark (from the property statement)

class Oracle(object):

    def __init__(self, disk, max_reclen):
        self.disk = dict(disk)       # fid -> bytes of the closed host file
        self.open = {}               # num -> dict(fid, r, base, recs, loc)
        self.buf = {}                # num -> bytearray(max_reclen): private copy of the FIELD buffer
        self.vars = {}               # var -> (num, off, w) | None (unknown after a failed FIELD)
        self.max_reclen = max_reclen

    def buffer(self, num):
        return self.buf.setdefault(num, bytearray(self.max_reclen))

    def record(self, f, k):
        r = f['r']
        if k in f['recs']:
            return f['recs'][k]
        return f['base'][(k - 1) * r:k * r].ljust(r, b'\0')

    def lof(self, f):
        hi = max(f['recs']) if f['recs'] else 0
        return max(len(f['base']), f['r'] * hi)

    def flatten(self, f):
        out = bytearray(f['base'].ljust(self.lof(f), b'\0'))
        r = f['r']
        for k, b in f['recs'].items():
            out[(k - 1) * r:k * r] = b
        return bytes(out)

    def expected_vars(self):
        out = {}
        for v, a in self.vars.items():
            if a is not None:
                num, off, w = a
                out[v] = bytes(self.buffer(num)[off:off + w])
        return out

    def final_disk(self):
        d = dict(self.disk)
        for f in self.open.values():
            d[f['fid']] = self.flatten(f)
        return d


def judge(ctx, orc, c, err, obs, vals, case, stepno):
    """Judge one executed statement against the statement text and update the oracle's state."""
    k = c[0]

    def fail(key, what):
        ctx.fail(key, case, 'step %d %s -> err %r: %s' % (stepno, enc_cmd(c), err, what))

    if isinstance(err, str) and err.startswith('exc:'):
        fail('host-exception', 'a host exception escaped Session.execute')
        return
    if k == 'o':
        _, num, fid, rl = c
        if err == 0:
            orc.open[num] = dict(fid=fid, r=rl, base=orc.disk.get(fid, b''), recs={}, loc=0)
        elif (1 <= num <= 3 and num not in orc.open and 1 <= rl <= 128
              and all(f['fid'] != fid for f in orc.open.values())):
            fail('open-refused', 'a valid OPEN of a random file was refused')
    elif k == 'c':
        f = orc.open.pop(c[1], None)
        if f is not None:
            orc.disk[f['fid']] = orc.flatten(f)
    elif k == 'f':
        num = c[1]
        if err == 0:
            off = 0
            for w, v in c[2]:
                orc.vars[v] = (num, off, w)
                off += w
        else:
            # a refused FIELD keeps the variables attached before the one that does not fit (the buffer of a
            # file number is max_reclen bytes; FIELD works left to right)
            off = 0
            for w, v in c[2]:
                if w > 255 or off + w > orc.max_reclen or num not in orc.open:
                    break
                orc.vars[v] = (num, off, w)
                off += w
            if num in orc.open and sum(w for w, _ in c[2]) <= orc.open[num]['r'] and all(w <= 255 for w, _ in c[2]):
                fail('field-refused', 'FIELD within the record length was refused')
    elif k == 'l':
        a = orc.vars.get(c[1])
        if a is not None and err == 0:
            num, off, w = a
            s = bytes(c[3])[:w]
            orc.buffer(num)[off:off + w] = s.rjust(w) if c[2] else s.ljust(w)
    else:
        num, p = c[1], c[2]
        f = orc.open.get(num)
        if f is not None:
            r = f['r']
            if p is None:
                rec, valid, s4 = f['loc'] + 1, True, False
                ctx.count('oracle:implicit-record')
            else:
                rec = denoted_record(p)
                n = p if isinstance(p, int) else int(round(p))
                valid = 1 <= n <= MAXREC          # the statement, read literally
                s4 = MAXREC < n <= MAXREC + 2
                if rec != n and valid:
                    ctx.count('oracle:record-number-not-representable-in-single')
            if not valid:
                ctx.count('oracle:bad-record-number')
                if err == 0 and s4:
                    ctx.count('oracle:S4')
                    if S4_KEY not in ctx.notes.setdefault('deviations_seen', []):
                        ctx.notes['deviations_seen'].append(S4_KEY)
                        fail(S4_KEY, 'record number %r is outside 1..2^25 but was accepted (as record %d)' % (p, rec))
                    valid = True        # follow the implementation: it accessed record 2^25
                elif err != 63:
                    fail('bad-record-number-not-refused:%s' % ('low' if n < 1 else 'high'),
                         'record number %r is outside 1..2^25, expected Bad record number (63)' % (p,))
            elif err != 0:
                fail('valid-record-refused', 'record %d is inside 1..2^25 but %s failed' % (rec, 'GET' if k == 'g' else 'PUT'))
            if valid and err == 0:
                if k == 'p':
                    ctx.count('oracle:put-' + ('overwrite' if rec in f['recs'] else
                                               'behind-a-gap' if (rec - 1) * r > orc.lof(f) else
                                               'append' if (rec - 1) * r == orc.lof(f) else 'inside'))
                    f['recs'][rec] = bytes(orc.buffer(num)[:r])
                else:
                    was_put = rec in f['recs']
                    orc.buffer(num)[:r] = orc.record(f, rec)
                    ctx.count('oracle:get-' + ('put-record' if was_put else
                                               'unwritten-below-end' if rec * r <= orc.lof(f) else
                                               'partial-tail' if (rec - 1) * r < orc.lof(f) else 'beyond-end'))
                f['loc'] = rec
    # expectations that hold after every step -----------------------------------------------------
    f = orc.open.get(c[1]) if k != 'l' else None
    if f is not None and obs is not None and not isinstance(obs, str):
        loc, lof, eof = obs
        if loc != int(single(f['loc'])):
            fail('loc-wrong', 'LOC is %d, the last record accessed is %d' % (loc, f['loc']))
        if lof != orc.lof(f):
            fail('lof-wrong', 'LOF is %d, expected %d (record length %d, highest record written %d, %d bytes at OPEN)'
                 % (lof, orc.lof(f), f['r'], max(f['recs']) if f['recs'] else 0, len(f['base'])))
        if orc.lof(f) % f['r'] == 0 and k in 'gp' and eof != (1 if f['loc'] * f['r'] > orc.lof(f) else 0):
            fail('eof-wrong', 'EOF is %d after access to record %d of a file of %d records'
                 % (eof, f['loc'], orc.lof(f) // f['r']))
    elif f is not None:
        fail('loc-lof-unavailable', 'LOC/LOF/EOF of an open random file failed: %r' % (obs,))
    exp = orc.expected_vars()
    for v, b in sorted(exp.items()):
        if vals[v - 1] != b:
            fail('field-var-wrong:' + ('after-get' if k == 'g' else 'after-' + k),
                 '%s is %r, expected %r' % (VARS[v - 1], vals[v - 1], b))
            break


# ---------------------------------------------------------------------------------------------
# generator

def gen_bytes(rng, n):
    kind = rng.random()
    if kind < 0.5:
        return bytes(rng.choice(b'abcdefghijklmnopqrstuvwxyzABCDXYZ0123456789 ,') for _ in range(n))
    if kind < 0.8:
        return bytes(rng.randrange(256) for _ in range(n))
    return bytes(rng.choice([0, 0, 32, 255, 34, 13, 10, 26, 65]) for _ in range(n))


def gen_history(rng):
    """(disk, cmds).  The generator keeps its own idea of the record pointers (only to keep files small)."""
    disk = {}
    for fid in range(3):
        r = rng.random()
        if r < 0.25:
            disk[fid] = b''
        elif r < 0.5:
            disk[fid] = gen_bytes(rng, rng.choice([1, 2, 3, 5, 10, 17, 64, 129, 200, rng.randint(1, 300)]))
    n = rng.randint(8, 60)
    cmds = []
    opened = {}      # num -> dict(fid, r, loc, used=[records])
    fielded = []     # variables fielded at least once
    profile = rng.choices(['dense', 'gaps', 'mixed', 'errors'], [30, 30, 30, 10])[0]

    def gen_open():
        free = [f for f in range(3) if all(o['fid'] != f for o in opened.values())]
        q = rng.random()
        if q < 0.06 or not free:
            num = rng.choice([0, 4, 1, 2, 3])
            return ('o', num, rng.randrange(3) if not free else rng.choice(free),
                    rng.choice([0, 129, 200, 1, 128]) if q < 0.03 else rng.choice(RECLENS))
        nums = [x for x in (1, 2, 3) if x not in opened] or [1, 2, 3]
        rl = rng.choice(RECLENS) if rng.random() < 0.7 else rng.randint(1, 128)
        return ('o', rng.choice(nums), rng.choice(free), rl)

    def gen_field(num):
        r = opened[num]['r'] if num in opened else 8
        q = rng.random()
        parts = []
        if q < 0.05:
            widths = [rng.choice([100, 128, 129, 200, 256, 300]), rng.choice([1, 29, 60])]
        elif q < 0.15:
            widths = [r]
        elif q < 0.25:
            widths = [rng.randint(0, min(255, r + 3))]
        else:
            widths, left = [], r
            for _ in range(rng.randint(1, 4)):
                if left <= 0:
                    break
                w = rng.randint(0 if rng.random() < 0.1 else 1, left)
                widths.append(w)
                left -= w
        vs = rng.sample(range(1, 7), min(len(widths), 6))
        for w, v in zip(widths, vs):
            parts.append((w, v))
            if v not in fielded:
                fielded.append(v)
        return ('f', num, parts)

    def pick_pos(o, kind):
        """record number for GET ('g') / PUT ('p') on open file o"""
        r = o['r']
        cap = max(1, PUT_LIMIT // r)
        q = rng.random()
        if profile == 'errors' and q < 0.3 or q < 0.05:
            return rng.choice(BAD_POS)
        if q < 0.08:
            return rng.choice(S4_POS) if kind == 'g' else rng.choice(BAD_POS)
        if q < 0.13 and kind == 'g':
            return rng.choice(BIG_GET)
        if q < 0.18:
            return rng.choice([0.25, 0.5, 0.75, 1.5, 2.5, 3.5, 1.25, 2.75, rng.randint(1, 40) + 0.5,
                               rng.randint(1, 40) + rng.choice([0.25, 0.75])])
        if q < 0.38 and o['loc'] < cap:
            return None
        if q < 0.62 and o['used']:
            return rng.choice(o['used'])
        if profile == 'dense':
            return rng.randint(1, 6)
        if profile == 'gaps' or q < 0.8:
            base = max(o['used']) if o['used'] else 0
            return min(cap, base + rng.choice([1, 2, 2, 3, 4, 5, 9, 17, 40]))
        return rng.randint(1, min(cap, 30))

    cmds.append(gen_open())
    while len(cmds) < n:
        last = cmds[-1]
        if last[0] == 'o' and 1 <= last[1] <= 3 and last[1] not in opened and 1 <= last[3] <= 128 \
                and all(o['fid'] != last[2] for o in opened.values()):
            opened[last[1]] = dict(fid=last[2], r=last[3], loc=0, used=[])
        x = rng.random()
        nums = sorted(opened)
        if x < 0.08 or not nums:
            cmds.append(gen_open())
        elif x < 0.13:
            num = rng.choice(nums + [rng.choice([0, 1, 2, 3, 4])])
            cmds.append(('c', num))
            opened.pop(num, None)
        elif x < 0.23:
            num = rng.choice(nums) if rng.random() < 0.95 else rng.choice([0, 1, 2, 3])
            cmds.append(gen_field(num))
        elif x < 0.45:
            v = rng.choice(fielded) if fielded and rng.random() < 0.95 else rng.randint(1, 6)
            ln = rng.choice([0, 1, 2, 3, 5, 8, 20, rng.randint(0, 130)])
            cmds.append(('l', v, rng.random() < 0.4, gen_bytes(rng, min(ln, 200))))
        else:
            kind = 'p' if rng.random() < 0.5 else 'g'
            num = rng.choice(nums) if rng.random() < 0.96 else rng.choice([0, 1, 2, 3, 4])
            o = opened.get(num)
            if o is None:
                cmds.append((kind, num, rng.choice([None, 1, 2])))
                continue
            p = pick_pos(o, kind)
            rec = o['loc'] + 1 if p is None else denoted_record(p)
            if kind == 'p' and rec * o['r'] > PUT_LIMIT and (rec <= MAXREC + 2 or o['r'] > 2 or rec > MAXREC + 8):
                kind = 'g'      # keeps host files small, also if a broken range check let the PUT through
            cmds.append((kind, num, p))
            if (p is None or 1 <= rec <= MAXREC) and (p is None or p <= MAXREC + 2):
                o['loc'] = rec
                if rec * o['r'] <= PUT_LIMIT:
                    o['used'].append(rec)
    return profile, disk, cmds


FIXED = [
    # D20: PUT that skips records with a record length other than 1
    ({}, [('o', 1, 0, 2), ('f', 1, [(2, 1)]), ('l', 1, False, b'ab'), ('p', 1, 1), ('l', 1, False, b'cd'),
          ('p', 1, 5), ('g', 1, 5), ('g', 1, 3), ('g', 1, None), ('g', 1, None), ('g', 1, None), ('c', 1)]),
    ({}, [('o', 2, 1, 7), ('f', 2, [(3, 1), (4, 2)]), ('l', 1, False, b'xyz'), ('l', 2, True, b'Q'), ('p', 2, 3),
          ('p', 2, None), ('p', 2, 9), ('g', 2, 3), ('g', 2, 4), ('g', 2, 9), ('g', 2, 8), ('g', 2, 10), ('c', 2),
          ('o', 1, 1, 3), ('g', 1, 21), ('g', 1, None), ('g', 1, 22), ('p', 1, 23), ('c', 1)]),
    # S4 and the edges of the range
    ({0: b'0123456789'}, [('o', 1, 0, 4), ('f', 1, [(4, 3)]), ('g', 1, 0), ('g', 1, -1), ('g', 1, MAXREC),
                          ('g', 1, None), ('g', 1, MAXREC + 1), ('g', 1, MAXREC + 2), ('g', 1, MAXREC + 3),
                          ('p', 1, MAXREC + 3), ('p', 1, 0), ('g', 1, 3), ('g', 1, None), ('g', 1, 0.5),
                          ('g', 1, 2.5), ('g', 1, 1.5), ('g', 1, 2 ** 24 + 1), ('g', 1, 2 ** 24 + 3), ('c', 1)]),
    # several files at once, reopen with another record length and number
    ({2: b'abcdefghijk'}, [('o', 1, 0, 4), ('o', 2, 1, 4), ('o', 3, 2, 5), ('f', 1, [(4, 1)]), ('f', 2, [(4, 2)]),
                           ('f', 3, [(2, 3), (3, 4)]), ('l', 1, False, b'one'), ('p', 1, None), ('l', 2, True, b'two'),
                           ('p', 2, 2), ('g', 3, 3), ('g', 3, 2), ('l', 3, False, b'ZZ'), ('p', 3, 1), ('g', 1, 1),
                           ('c', 1), ('c', 3), ('o', 3, 0, 2), ('g', 3, 2), ('o', 1, 2, 11), ('g', 1, 1), ('p', 3, 4),
                           ('c', 2), ('c', 1), ('c', 3)]),
]


# ---------------------------------------------------------------------------------------------

def run_history(ctx, impl, disk, cmds, rng, texts=None):
    """Execute a history on the real interpreter and judge every step; returns (protocol line, impl reply)."""
    impl.reset(disk)
    orc = Oracle(disk, impl.max_reclen)
    rnd = lambda n: rng.randrange(n)
    if texts is None:
        texts = [stmt(c, rnd).decode('latin-1') for c in cmds]
    case = {'disk': {str(k): v.hex() for k, v in disk.items()}, 'cmds': [enc_case(c) for c in cmds], 'texts': texts}
    steps = []
    hist = []
    for i, (c, text) in enumerate(zip(cmds, texts)):
        err = impl.execute(text.encode('latin-1'))
        hist.append(enc_cmd(c))
        num = c[1] if c[0] != 'l' else 0
        obs = impl.obs(num) if 1 <= num <= 255 else None
        vals = impl.vars()
        judge(ctx, orc, c, err, obs, vals, case, i + 1)
        steps.append('%s|%s|%s' % (err, '-' if obs is None else ('%d,%d,%d' % obs if not isinstance(obs, str) else obs),
                                   ','.join(v.hex() or '-' for v in vals)))
        ctx.case(('hist', tuple(hist)))
        ctx.count('op:' + c[0])
        ctx.count('err:%s' % err)
        if c[0] == 'o' and err == 0:
            ctx.count('reclen:' + ('1' if c[3] == 1 else '2-8' if c[3] <= 8 else '9-127' if c[3] < 128 else '128'))
    impl.execute(b'CLOSE')
    host, extra = impl.host()
    want = orc.final_disk()
    for fid in sorted(set(host) | set(want)):
        if host.get(fid) != want.get(fid):
            ctx.fail('file-bytes-wrong', case, 'host file %s holds %r, expected %r'
                     % (NAMES[fid].decode(), host.get(fid), want.get(fid)))
            break
    if extra:
        ctx.fail('stray-host-files', case, 'unexpected files on the drive: %r' % extra)
    line = 'hist 1 %d %d %s %s' % (impl.max_reclen, impl.max_files,
                                   '/'.join('%d=%s' % (k, v.hex() or '-') for k, v in sorted(disk.items())) or '-',
                                   ';'.join(hist))
    out = 'ok ' + ';'.join(steps) + '#' + \
          ('/'.join('%d=%s' % (k, v.hex() or '-') for k, v in sorted(host.items())) or '-')
    return line, out, case


def enc_case(c):
    """JSON form of a command (keeps fractional record numbers)"""
    if c[0] == 'f':
        return ['f', c[1], [list(p) for p in c[2]]]
    if c[0] == 'l':
        return ['l', c[1], bool(c[2]), bytes(c[3]).hex()]
    return list(c)


def dec_case(j):
    if j[0] == 'f':
        return ('f', j[1], [tuple(p) for p in j[2]])
    if j[0] == 'l':
        return ('l', j[1], j[2], bytes.fromhex(j[3]))
    return tuple(j)


def histories(ctx, impl, n_hist):
    rng = ctx.rng
    lines, outs, cases = [], [], []
    todo = [('fixed', d, c) for d, c in FIXED]
    for _ in range(n_hist):
        todo.append(gen_history(rng))
    for profile, disk, cmds in todo:
        ctx.count('profile:' + profile)
        line, out, case = run_history(ctx, impl, disk, cmds, rng)
        lines.append(line)
        outs.append(out)
        cases.append(case)
    ctx.compare(cases, outs, lines, label='hist')
    ctx.sample({'history': lines[0], 'impl': outs[0]})
    ctx.sample({'history': lines[-1], 'impl': outs[-1]})


def sweep_positions(ctx, impl, extra):
    """GET with record numbers around the edges of the range and of single precision (file of 1-byte records)."""
    rng = ctx.rng
    impl.reset({0: b'xyz'})
    impl.execute(b'OPEN "A.DAT" AS 1 LEN=1')
    ps = set()
    for c in (0, 1, 2 ** 15, 2 ** 16, 2 ** 24, 2 ** 25, 2 ** 25 + 4, 2 ** 26):
        for d in range(-9, 10):
            ps.add(c + d)
    for _ in range(extra):
        ps.add(rng.choice([rng.randint(2 ** 24, 2 ** 25 + 8), rng.randint(-5, 2 ** 24), rng.randint(2 ** 25, 2 ** 27)]))
    lines, outs, cases = [], [], []
    seen_s4 = False
    for p in sorted(ps):
        impl.execute(b'GET #1,1')
        text = pos_stmt(b'GET', 1, p, lambda n: rng.randrange(n))
        err = impl.execute(text)
        obs = impl.obs(1)
        case = {'sweep': p, 'text': text.decode()}
        ctx.case(('pos', p))
        ctx.count('sweep:' + ('refused' if err == 63 else 'accepted' if err == 0 else str(err)))
        rec = denoted_record(p)
        inside = 1 <= p <= MAXREC
        if inside and (err != 0 or obs is None or obs[0] != rec):
            ctx.fail('valid-record-refused' if err else 'loc-wrong', case,
                     'GET #1,%d -> err %r, LOC/LOF/EOF %r; expected record %d' % (p, err, obs, rec))
        if not inside and err != 63:
            if MAXREC < p <= MAXREC + 2 and err == 0:
                if not seen_s4:
                    ctx.fail(S4_KEY, case, 'GET #1,%d accepted, LOC=%r' % (p, obs and obs[0]))
                seen_s4 = True
            else:
                ctx.fail('bad-record-number-not-refused:%s' % ('low' if p < 1 else 'high'), case,
                         'GET #1,%d -> err %r, expected Bad record number (63)' % (p, err))
        if not inside and err == 63 and (obs is None or obs[0] != 1):
            ctx.fail('refused-get-moved-pointer', case, 'LOC is %r after a refused GET (was 1)' % (obs,))
        lines.append('pos %d' % p)
        outs.append('err 63' if err == 63 else 'ok %d' % obs[0] if err == 0 and obs else 'other %r' % (err,))
        cases.append(case)
    impl.execute(b'CLOSE')
    ctx.compare(cases, outs, lines, label='pos')


def run(ctx):
    impl = Impl()
    try:
        sweep_positions(ctx, impl, 200 if ctx.quick else 5000)
        ctx.log('sweep done')
        histories(ctx, impl, 260 if ctx.quick else 5000)
    finally:
        impl.close()
    translated.check_randfile(ctx)


def replay(ctx, payload):
    import random
    case = payload.get('case', {})
    sub = Ctx2(ctx)
    impl = Impl()
    try:
        if case.get('cmds'):
            disk = {int(k): bytes.fromhex(v) for k, v in case.get('disk', {}).items()}
            run_history(sub, impl, disk, [dec_case(j) for j in case['cmds']], random.Random(0), texts=case.get('texts'))
        elif 'sweep' in case:
            sub.rng = random.Random(0)
            sweep_positions(sub, impl, 0)
        else:
            sub.rng = random.Random(payload.get('seed', 0))
            run(sub)
    finally:
        impl.close()
    hits = [f for f in sub.failures if f['key'] == payload.get('key')]
    return hits[0]['what'] if hits else None


class Ctx2(object):
    """thin proxy so replay can reuse run() without touching the outer evidence"""
    def __init__(self, ctx):
        self.__dict__.update(ctx.__dict__)
        self._ctx = ctx
        self.failures = []
        self.disagreements = []
        self.notes = {}

    def __getattr__(self, name):
        return getattr(self._ctx.__class__, name).__get__(self)
