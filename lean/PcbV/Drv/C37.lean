import PcbV.Model.KeyBuf
namespace PcbV.Drv.C37
open PcbV PcbV.KeyBuf

/-- one op: `k:<hex>:<scan>` press, `j:<hex>` inject, `r` INKEY$, `p:<addr>` PEEK, `w:<addr>:<val>` POKE,
    `c` = POKE 1050,PEEK(1052) -/
def parseOp (w : String) : Option Op :=
  match w.splitOn ":" with
  | ["k", h, sc] => do
      let c ← ofHex h
      let n ← sc.toNat?
      pure (.press c n)
  | ["j", h] => do
      let c ← ofHex h
      pure (.inject c)
  | ["r"] => some .read
  | ["p", a] => do
      let a ← a.toNat?
      pure (.peek a)
  | ["w", a, v] => do
      let a ← a.toNat?
      let v ← v.toNat?
      if v < 256 then pure (.poke a v) else none
  | ["c"] => some .clear
  | _ => none

def showOut : Out → String
  | .key c => "r" ++ toHex c
  | .byte n => "p" ++ toString n

/-- old-code run (fuel-limited padding loop): `none` = hang -/
def oldRun (s : KB) : List Op → Option (List Out × KB)
  | [] => some ([], s)
  | op :: rest =>
    let r : Option (KB × Option Out) :=
      match op with
      | .poke a v => (Old.pokeMem 64 s a v).map (·, none)
      | .clear => (Old.pokeMem 64 s 1050 (peekMem s 1052)).map (·, none)
      | op => some (step s op)
    match r with
    | none => none
    | some r =>
      match oldRun r.1 rest with
      | none => none
      | some t => some (match r.2 with | some o => o :: t.1 | none => t.1, t.2)

def parseAll (ops : String) : Option (List Op) :=
  if ops == "-" then some [] else (ops.splitOn ";").mapM parseOp

def render (r : List Out × KB) : String :=
  "ok " ++ (if r.1.isEmpty then "-" else ",".intercalate (r.1.map showOut))

/-- byte set as ranges `lo-hi,lo-hi` (decimal), `-` = empty -/
def parseRanges (w : String) : Option (List (Nat × Nat)) :=
  if w == "-" then some [] else
  (w.splitOn ",").mapM fun r =>
    match r.splitOn "-" with
    | [a, b] => do
        let a ← a.toNat?
        let b ← b.toNat?
        pure (a, b)
    | _ => none

def inRanges (rs : List (Nat × Nat)) (x : Nat) : Bool := rs.any fun r => decide (r.1 ≤ x) && decide (x ≤ r.2)

def parseRds (w : String) : Option (List Rd) :=
  if w == "-" then some [] else
  w.toList.mapM fun c => if c == 'b' then some Rd.byte else if c == 'f' then some Rd.full else none

def handle : List String → String
  | ["full", lead, trail, ops, rds] =>
    match parseRanges lead, parseRanges trail, parseAll ops, parseRds rds with
    | some l, some t, some o, some r =>
      let res := readAll (inRanges l) (inRanges t) (run init o).2 r
      "ok " ++ (if res.1.isEmpty then "-" else ",".intercalate (res.1.map toHex))
    | _, _, _, _ => "bad-op"
  | ["run", ops] =>
    match parseAll ops with
    | some l => render (run init l)
    | none => "bad-op"
  | ["oldrun", ops] =>
    match parseAll ops with
    | some l =>
      match oldRun init l with
      | some r => render r
      | none => "hang"
    | none => "bad-op"
  | _ => "bad-op"

end PcbV.Drv.C37
