import PcbV.Basic
import PcbV.Gen.Errors
/-
  Model of `pcbasic/basic/values/numbers.py: Integer` (16-bit signed little-endian integer)
  and of the bitwise operators of `values.py`.  A value is its unsigned 16-bit pattern
  `w < 65536`; the two buffer bytes are `w % 256` (lsb) and `w / 256` (msb).
  The code is transcribed literally, including its byte-wise carry logic.
-/
namespace PcbV.IntOps

/-- error numbers come from the regenerated table of base/error.py -/
def overflow : Nat := PcbV.Gen.E.overflow
def divZero : Nat := PcbV.Gen.E.division_by_zero

/-- `Integer.to_int()` : struct.unpack('<h') -/
def toInt (w : Nat) : Int := if w < 32768 then (w : Int) else (w : Int) - 65536

/-- the 16-bit pattern of an integer already known to be in range (struct.pack) -/
def pack (n : Int) : Nat := if n < 0 then (n + 65536).toNat else n.toNat

/-- `Integer.from_int(in_int, unsigned)`: range check on the number as given, negatives are then
    stored as their two's complement (`pack`) -/
def fromInt (n : Int) (unsigned : Bool) : R Nat :=
  let maxint : Int := if unsigned then 65535 else 32767
  if -32768 ≤ n ∧ n ≤ maxint then .ok (pack n) else .error overflow

/-- `Integer.ineg()` -/
def ineg (a : Nat) : R Nat :=
  if a = 32768 then .error overflow else
  let lsb := (255 - a % 256) + 1      -- (b ^ 0xff) + 1
  let msb := 255 - a / 256            -- b ^ 0xff
  let lsb' := if lsb > 255 then lsb - 256 else lsb
  let msb' := if lsb > 255 then msb + 1 else msb
  .ok (lsb' + 256 * (msb' % 256))

/-- the sign-change test of `Integer.iadd`, parameterised by the way the sum's
    high byte is looked at (`hi msb`): the code compares `msb > 0x7f`. -/
def iaddWith (hi : Nat → Nat) (a b : Nat) : R Nat :=
  let lsb := a % 256 + b % 256
  let msb := a / 256 + b / 256
  let lsb' := if lsb > 255 then lsb - 256 else lsb
  let msb' := if lsb > 255 then msb + 1 else msb
  -- Python chained comparison:  (x == y) and (y != z)
  if ((a / 256 > 127) ↔ (b / 256 > 127)) ∧ ¬ ((b / 256 > 127) ↔ (hi msb' > 127)) then .error overflow
  else .ok (lsb' + 256 * (msb' % 256))

/-- `Integer.iadd(rhs)` as coded: the sign of the sum is read from `msb & 0xff`. -/
def iadd (a b : Nat) : R Nat := iaddWith (· % 256) a b

/-- `Integer.iadd` before the repair of defect D18 (sign read from the unmasked `msb`). -/
def iaddUnmasked (a b : Nat) : R Nat := iaddWith id a b

/-- `Integer.isub(rhs)` = iadd(rhs.clone().ineg()) -/
def isub (a b : Nat) : R Nat := do
  let nb ← ineg b
  iadd a nb

/-- `Integer.iabs()` -/
def iabs (a : Nat) : R Nat := if a / 256 ≥ 128 then ineg a else .ok a

/-- `Integer.idiv_int(rhs)`; ZeroDivisionError is turned into BASIC error 11 by the handler -/
def idivInt (a b : Nat) : R Nat :=
  if b = 0 then .error divZero else
  let dividend := toInt a
  let divisor := toInt b
  if (dividend ≥ 0) ↔ (divisor ≥ 0) then
    fromInt (pyFloorDiv dividend divisor) false
  else
    fromInt (-(pyFloorDiv (Int.natAbs dividend) (Int.natAbs divisor))) false

/-- `Integer.imod(rhs)` -/
def imod (a b : Nat) : R Nat :=
  if b = 0 then .error divZero else
  let dividend := toInt a
  let divisor := toInt b
  let dividend' := if dividend < 0 then -dividend else dividend
  let divisor' := if divisor < 0 then -divisor else divisor
  let m := pyMod dividend' divisor'
  fromInt (if dividend < 0 then -m else m) false

/-- `Integer.gt(rhs)` for two integers -/
def gt (a b : Nat) : Bool :=
  let aneg := decide (a / 256 ≥ 128)
  let bneg := decide (b / 256 ≥ 128)
  if aneg != bneg then !aneg else
  let lmsb := a / 256 % 128
  let rmsb := b / 256 % 128
  if lmsb > rmsb then true
  else if lmsb < rmsb then false
  else decide (a % 256 > b % 256)

def eq (a b : Nat) : Bool := a == b

/-! bitwise operators of values.py; operands have already been converted by the signed
    `to_integer`, so they are 16-bit patterns; Python's `~x` is `-x-1`. -/
def not_ (a : Nat) : R Nat := fromInt (-(toInt a) - 1) false
def and_ (a b : Nat) : R Nat := fromInt (Int.ofNat (a &&& b)) true
def or_ (a b : Nat) : R Nat := fromInt (Int.ofNat (a ||| b)) true
def xor_ (a b : Nat) : R Nat := fromInt (Int.ofNat (a ^^^ b)) true
def eqv_ (a b : Nat) : R Nat := fromInt ((-(Int.ofNat (a ^^^ b)) - 1) % 65536) true
/-- `((~a) | b) & 0xffff` on Python ints, a, b ≥ 0:  `(~a)|b` equals `-((a &&& ~~~b)) - 1` = ~(a & ~b);
    Python's `& 0xffff` of a negative int is the residue mod 65536 -/
def imp_ (a b : Nat) : R Nat := fromInt ((-(Int.ofNat (a &&& (65535 - b))) - 1) % 65536) true

/-! ### the integer FOR loop of interpreter.py (`for_` / `iterate_loop`) -/

/-- `Integer.sign()` -/
def sgn (w : Nat) : Int := if w / 256 ≥ 128 then -1 else if w = 0 then 0 else 1

/-- one NEXT: add the step in place, then test the end condition -/
def nextStep (counter stop step : Nat) : R (Nat × Bool) := do
  let c ← iadd counter step
  pure (c, if sgn step > 0 then gt c stop else gt stop c)

/-- run the loop body (which prints the counter) at most `fuel` times -/
def forRun : Nat → Nat → Nat → Nat → List Nat → List Nat × String
  | 0, _, _, _, acc => (acc.reverse, "fuel")
  | fuel + 1, c, stop, step, acc =>
    -- the test program stops itself right after the pass that uses up the fuel, before its NEXT
    if fuel = 0 then ((c :: acc).reverse, "fuel") else
    match nextStep c stop step with
    | .error e => ((c :: acc).reverse, "err " ++ toString e)
    | .ok (c', true) => ((c :: acc).reverse, "end " ++ toString c')
    | .ok (c', false) => forRun fuel c' stop step (c :: acc)

/-- `FOR I% = start TO stop STEP step` … `NEXT`: the empty-loop test jumps to NEXT, which iterates once -/
def forLoop (fuel start stop step : Nat) : List Nat × String :=
  if (if sgn step ≥ 0 then gt start stop else gt stop start) then
    match nextStep start stop step with
    | .error e => ([], "err " ++ toString e)
    | .ok (c', true) => ([], "end " ++ toString c')
    | .ok (c', false) => forRun fuel c' stop step []
  else forRun fuel start stop step []

/-! ### FOR operands that are variables, assigned to while the loop runs

`for_` evaluates start, limit and step once and keeps *copies* (`.clone()`) of the converted values in the
FOR record; `iterate_loop` adds the recorded step to the counter.  `env` is the part of the variable memory the
operands live in (one slot per scalar / array element), the loop body is a list of assignments to it. -/

/-- an operand of FOR: a value (literal, expression) or the variable / array element in a slot of the store -/
inductive ForOperand where
  | lit (v : Nat)
  | var (slot : Nat)

def ForOperand.eval (env : List Nat) : ForOperand → Nat
  | .lit v => v
  | .var i => env.getD i 0

/-- an assignment in the loop body: `X = val` or `X = X + val` (on 16-bit patterns) -/
structure ForAssign where
  slot : Nat
  incr : Bool
  val : Nat

def ForAssign.run (env : List Nat) (a : ForAssign) : List Nat :=
  env.set a.slot (if a.incr then (env.getD a.slot 0 + a.val) % 65536 else a.val)

/-- the body of pass `n` (counted from 1): the assignments are executed from pass `frm` on -/
def forBodyRun (asg : List ForAssign) (frm n : Nat) (env : List Nat) : List Nat :=
  if n ≥ frm then asg.foldl ForAssign.run env else env

/-- `forRun` with the body's assignments executed in every pass; NEXT works on the FOR record -/
def forRunEnv (asg : List ForAssign) (frm : Nat) :
    Nat → Nat → List Nat → Nat → Nat → Nat → List Nat → List Nat × String
  | 0, _, _, _, _, _, acc => (acc.reverse, "fuel")
  | fuel + 1, n, env, c, stop, step, acc =>
    if fuel = 0 then ((c :: acc).reverse, "fuel") else
    match nextStep c stop step with
    | .error e => ((c :: acc).reverse, "err " ++ toString e)
    | .ok (c', true) => ((c :: acc).reverse, "end " ++ toString c')
    | .ok (c', false) => forRunEnv asg frm fuel (n + 1) (forBodyRun asg frm n env) c' stop step (c :: acc)

/-- `FOR I% = a TO b STEP s` with operands read from the store when FOR is executed -/
def forLoopEnv (asg : List ForAssign) (frm fuel : Nat) (env : List Nat) (a b s : ForOperand) : List Nat × String :=
  let start := a.eval env
  let stop := b.eval env
  let step := s.eval env
  if (if sgn step ≥ 0 then gt start stop else gt stop start) then
    match nextStep start stop step with
    | .error e => ([], "err " ++ toString e)
    | .ok (c', true) => ([], "end " ++ toString c')
    | .ok (c', false) => forRunEnv asg frm fuel 1 env c' stop step []
  else forRunEnv asg frm fuel 1 env start stop step []

/-- a FOR record that keeps the step *operand* instead of a copy of its value (what `for_` would do without
    `.clone()`, since `to_type` hands a same-typed variable through as a view of its buffer): NEXT adds whatever
    the variable holds by then; the direction of the end test is still the one fixed at FOR -/
def nextStepLive (counter stop dir step : Nat) : R (Nat × Bool) := do
  let c ← iadd counter step
  pure (c, if sgn dir > 0 then gt c stop else gt stop c)

def forRunLive (asg : List ForAssign) (frm : Nat) (s : ForOperand) (dir : Nat) :
    Nat → Nat → List Nat → Nat → Nat → List Nat → List Nat × String
  | 0, _, _, _, _, acc => (acc.reverse, "fuel")
  | fuel + 1, n, env, c, stop, acc =>
    if fuel = 0 then ((c :: acc).reverse, "fuel") else
    let env' := forBodyRun asg frm n env
    match nextStepLive c stop dir (s.eval env') with
    | .error e => ((c :: acc).reverse, "err " ++ toString e)
    | .ok (c', true) => ((c :: acc).reverse, "end " ++ toString c')
    | .ok (c', false) => forRunLive asg frm s dir fuel (n + 1) env' c' stop (c :: acc)

def forLoopLive (asg : List ForAssign) (frm fuel : Nat) (env : List Nat) (a b s : ForOperand) : List Nat × String :=
  let start := a.eval env
  let stop := b.eval env
  let step := s.eval env
  if (if sgn step ≥ 0 then gt start stop else gt stop start) then
    match nextStepLive start stop step step with
    | .error e => ([], "err " ++ toString e)
    | .ok (c', true) => ([], "end " ++ toString c')
    | .ok (c', false) => forRunLive asg frm s step fuel 1 env c' stop []
  else forRunLive asg frm s step fuel 1 env start stop []

end PcbV.IntOps
