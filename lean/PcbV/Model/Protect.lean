import PcbV.Basic
import PcbV.Gen.Protect
/-
  PcbV.Protect — transcription of pcbasic/basic/converter/protect.py (Kocher's algorithm for
  GW-BASIC ",P" files).

  Python computes on unbounded ints (`c -= …; c ^= KEY1[…]; c ^= KEY2[…]; c += …; c % 256`); since
  the keys are bytes, XOR only touches the low 8 bits and the result mod 256 equals the mod-256
  computation below.  This identification is validated *exhaustively* (all 143 positions × 256 bytes,
  both directions) against the real functions on every run of the check.

  The key tables are a parameter, so that the bijection theorem holds for ANY tables; `tableKeys`
  are the tables regenerated from protect.KEY1 / protect.KEY2.
-/
namespace PcbV.Protect
open PcbV

structure Keys where
  /-- `KEY1[index % 13]` as a function of `index % 13` -/
  k1 : Nat → Nat
  /-- `KEY2[index % 11]` as a function of `index % 11` -/
  k2 : Nat → Nat

def tableKeys : Keys :=
  ⟨fun j => Gen.Protect.key1.getD j 0, fun j => Gen.Protect.key2.getD j 0⟩

/-- one step of `unprotect`: `c -= 11-(i%11); c ^= KEY1[i%13]; c ^= KEY2[i%11]; c += 13-(i%13); c % 256` -/
def unprotByte (k : Keys) (i b : Nat) : Nat :=
  let c := (b + 256 - (11 - i % 11)) % 256
  let c := (c ^^^ k.k1 (i % 13)) ^^^ k.k2 (i % 11)
  (c + (13 - i % 13)) % 256

/-- one step of `protect`: `c -= 13-(i%13); c ^= KEY1[i%13]; c ^= KEY2[i%11]; c += 11-(i%11); c % 256` -/
def protByte (k : Keys) (i b : Nat) : Nat :=
  let c := (b + 256 - (13 - i % 13)) % 256
  let c := (c ^^^ k.k1 (i % 13)) ^^^ k.k2 (i % 11)
  (c + (11 - i % 11)) % 256

/-- `index = (index+1) % (13*11)` -/
def nextIndex (i : Nat) : Nat := (i + 1) % (13 * 11)

/-- `protect(ins, outs)`: every byte of the input stream is encoded; returns what was written. -/
def protStream (k : Keys) : Nat → Bytes → Bytes
  | _, [] => []
  | i, b :: bs => protByte k i b :: protStream k (nextIndex i) bs

def protect (k : Keys) (s : Bytes) : Bytes := protStream k 0 s

/-- `unprotect(ins, outs)`: a byte is decoded only once its successor has been read, so the last
    byte of the stream (the 0x1A written by SAVE – but any byte, it is not inspected) is dropped. -/
def unprotStream (k : Keys) : Nat → Bytes → Bytes
  | _, [] => []
  | _, [_] => []
  | i, s :: n :: rest => unprotByte k i s :: unprotStream k (nextIndex i) (n :: rest)

def unprotect (k : Keys) (s : Bytes) : Bytes := unprotStream k 0 s

/-! ### the code before the fix `C15-protect-empty-stream`
  Both functions ended with a `return` of a variable that is bound only inside the loop, so the call
  raised UnboundLocalError (modelled as `none`) exactly when the loop body never ran. -/

def protectOld (k : Keys) (s : Bytes) : Option Bytes :=
  if s.length = 0 then none else some (protect k s)

def unprotectOld (k : Keys) (s : Bytes) : Option Bytes :=
  if s.length < 2 then none else some (unprotect k s)

end PcbV.Protect
