/-
  Lemmas for C27 (and reusable by C28): what the DOS-name functions can return.
-/
import PcbV.Model.Paths
namespace PcbV.PathLemmas
open PcbV PcbV.DosNames PcbV.Paths PcbV.Gen.DosTables

/-- a host path component that keeps its plain meaning: not `.`, not `..`, no separator -/
def SafeName (c : HostName) : Prop := c ≠ [46] ∧ c ≠ [46, 46] ∧ 47 ∉ c
def SafePath (p : HostPath) : Prop := ∀ c ∈ p, SafeName c

theorem cpTable_length : cpTable.length = 256 := by decide +kernel

theorem cp_small : ∀ b, b < 256 → (cpTable.getD b 65533 = 46 → b = 46) ∧ (cpTable.getD b 65533 = 47 → b = 47) := by
  decide +kernel

theorem cp_dot (b : Nat) (h : cpTable.getD b 65533 = 46) : b = 46 := by
  by_cases hb : b < 256
  · exact (cp_small b hb).1 h
  · have : cpTable[b]? = none := List.getElem?_eq_none (by rw [cpTable_length]; omega)
    simp [List.getD, this] at h

theorem cp_slash (b : Nat) (h : cpTable.getD b 65533 = 47) : b = 47 := by
  by_cases hb : b < 256
  · exact (cp_small b hb).2 h
  · have : cpTable[b]? = none := List.getElem?_eq_none (by rw [cpTable_length]; omega)
    simp [List.getD, this] at h

theorem toUni_dot {n : Bytes} (h : toUni n = [46]) : n = [46] := by
  cases n with
  | nil => simp [toUni] at h
  | cons b t =>
    cases t with
    | nil => simp [toUni] at h; rw [cp_dot b h]
    | cons c t => simp [toUni] at h

theorem toUni_dotdot {n : Bytes} (h : toUni n = [46, 46]) : n = [46, 46] := by
  cases n with
  | nil => simp [toUni] at h
  | cons a t =>
    cases t with
    | nil => simp [toUni] at h
    | cons b t =>
      cases t with
      | nil => simp [toUni] at h; rw [cp_dot a h.1, cp_dot b h.2]
      | cons c t => simp [toUni] at h

theorem toUni_no_slash {n : Bytes} (h : 47 ∉ n) : 47 ∉ toUni n := by
  intro hm
  simp only [toUni, List.mem_map] at hm
  obtain ⟨b, hb, hc⟩ := hm
  exact h (cp_slash b hc ▸ hb)

theorem isDots_iff (s : List Nat) : isDots s = true ↔ s = [46] ∨ s = [46, 46] := by
  simp [isDots]

theorem toUni_safe {n : Bytes} (hs : 47 ∉ n) (hd : isDots n = false) : SafeName (toUni n) := by
  have hd' : ¬ (n = [46] ∨ n = [46, 46]) := by rw [← isDots_iff]; simp [hd]
  exact ⟨fun h => hd' (Or.inl (toUni_dot h)), fun h => hd' (Or.inr (toUni_dotdot h)), toUni_no_slash hs⟩

end PcbV.PathLemmas
