import PcbV.Basic
import PcbV.Gen.Errors
import PcbV.Gen.ProgTokens
import PcbV.Gen.RenumTokens
import PcbV.Model.Program
/-
  PcbV.Model.Renum — RENUM: pcbasic/basic/program.py `Program.renum` and the trap remapping of
  pcbasic/basic/interpreter.py `Interpreter.renum_`.

  Level: the program is the record list that C13's abstraction function yields (`Program.Rec` =
  (line number, token bytes of the line), in stream order = ascending line order under C13's
  invariant).  RENUM never moves or resizes a record: it overwrites the two line-number bytes of each
  record header and the two payload bytes of jump-number tokens (`0E lo hi`), then renames the keys of
  `line_numbers`.  The model therefore maps every record to (new number, rewritten body).

  Transcribed:
  * the guard `remaining and new_line <= max(remaining)`  (as: some kept line number ≥ new);
  * the numbering loop over the sorted keys ≥ start with `old_line < 65535 and new_line > 65529`
    checked before each assignment (the sentinel 65536 ends the loop unchecked);
  * the token-aware scan `skip_to_read((T_UINT, ERROR))`: `parse` evolves C13's `scanStep` (string
    literals, REM, payload bytes of number tokens) and recognises a jump token only in the state
    outside literal/REM/payload; the scan is done per record body — `skip_to` resets its state at every
    line end and skips the 4 header bytes, so for well-formed bodies the global scan is the
    concatenation of the per-body scans;
  * the `ON ERROR GOTO 0` exception of the REPAIRED code: from an ERROR token look ahead over
    blanks, GOTO, blanks, `0E 00 00`; written here as the equivalent forward tracker `eg`
    (0 = nothing, 1 = ERROR blanks*, 2 = ERROR blanks* GOTO blanks*) — the bytes in between are
    blanks and the GOTO token, which have no payload and do not change the scan state;
  * the unrepaired code (`rwOld`): for a jump number 0 back-skip blanks over the RAW bytes before the
    token and compare with GOTO, then ERROR — raw bytes that may be the tail of a number constant
    (`IF X=167 GOTO 0`: `0F A7`) or of the record header (line 42752 = `00 A7`);
  * `old_to_new[jumpnum]` / `jumpnum not in line_numbers` / "Undefined line n in m" with m taken from
    the not yet renamed dict (the OLD number of the referring line);
  * `Interpreter.renum_`: defaults 10, 0, 10, `step < 1` → Illegal function call, trap remap
    `old_to_new.get(line, line)` guarded by truthiness (line 0 / None = no trap).
-/
namespace PcbV.Renum
open PcbV PcbV.Gen PcbV.Gen.ProgTokens PcbV.Gen.RenumTokens PcbV.Program

/-! ### token-aware view of a line body -/

/-- a body as RENUM sees it: plain bytes and the payloads of live jump-number tokens -/
inductive Item where
  | byte (c : Nat)
  | ref (n : Nat)
deriving DecidableEq, Repr

def Item.map (f : Nat → Nat) : Item → Item
  | .byte c => .byte c
  | .ref n => .ref (f n)

/-- `struct.pack('<H', n)` for a reference -/
def Item.bytes : Item → Bytes
  | .byte c => [c]
  | .ref n => [lo n, hi n]

def Item.ref? : Item → Option Nat
  | .byte _ => none
  | .ref n => some n

def unparse : List Item → Bytes
  | [] => []
  | i :: is => i.bytes ++ unparse is

/-- the ERROR-GOTO tracker after reading `c` in scan state `st` -/
def egNext (st : Scan) (eg c : Nat) : Nat :=
  if st ≠ Scan.init then 0
  else if c = tError then 1
  else if isBlank c then eg
  else if c = tGoto ∧ eg = 1 then 2
  else 0

/-- the scan of `Program.renum` over one body -/
def parse : Scan → Nat → Bytes → List Item
  | _, _, [] => []
  | st, eg, c :: rest =>
    if st = Scan.init ∧ c = tUint then
      match rest with
      | a :: b :: rest' =>
        if eg = 2 ∧ a = 0 ∧ b = 0 then
          -- ON ERROR GOTO 0: not a reference, left alone
          .byte c :: .byte a :: .byte b :: parse Scan.init 0 rest'
        else .byte c :: .ref (le16 a b) :: parse Scan.init 0 rest'
      | _ => (c :: rest).map .byte
    else
      match scanStep false st c with
      | none => (c :: rest).map .byte
      | some st' => .byte c :: parse st' (egNext st eg c) rest

def items (b : Bytes) : List Item := parse Scan.init 0 b

/-- the line numbers a body refers to, in order -/
def refsBody (b : Bytes) : List Nat := (items b).filterMap Item.ref?

/-- the body after every reference n has been overwritten by f n -/
def renumBody (f : Nat → Nat) (b : Bytes) : Bytes := unparse ((items b).map (Item.map f))

/-! ### numbering -/

/-- dict lookup `old_to_new[k]` -/
def look (m : List (Nat × Nat)) (k : Nat) : Option Nat := (m.find? (fun e => e.1 == k)).map (·.2)

/-- `old_to_new.get(n, n)` -/
def fmap (m : List (Nat × Nat)) (n : Nat) : Nat := (look m n).getD n

/-- the numbering loop over the sorted line numbers ≥ start (sentinel left out: it only ends the loop) -/
def assign : Nat → Nat → List Nat → R (List (Nat × Nat))
  | _, _, [] => .ok []
  | new, step, l :: ls =>
    if l < 65535 ∧ new > 65529 then .error E.ifc
    else match assign (new + step) step ls with
      | .ok m => .ok ((l, new) :: m)
      | .error e => .error e

def lineNos (rs : List Rec) : List Nat := rs.map (·.1)

/-- "Undefined line n in l" reports, in scan order: (n, l) -/
def reports (m : List (Nat × Nat)) (rs : List Rec) : List (Nat × Nat) :=
  rs.flatMap (fun r =>
    ((refsBody r.2).filter (fun n => (look m n).isNone && !(lineNos rs).contains n)).map (fun n => (n, r.1)))

structure Result where
  prog : List Rec
  map : List (Nat × Nat)
  reports : List (Nat × Nat)
deriving DecidableEq, Repr

def kept (rs : List Rec) (start : Nat) : List Rec := rs.filter (fun r => decide (r.1 < start))
def moved (rs : List Rec) (start : Nat) : List Rec := rs.filter (fun r => decide (start ≤ r.1))

/-- Program.renum with explicit arguments on a program in ascending line order -/
def renum (rs : List Rec) (new start step : Nat) : R Result :=
  if (kept rs start).any (fun r => decide (new ≤ r.1)) then .error E.ifc
  else match assign new step (lineNos (moved rs start)) with
    | .error e => .error e
    | .ok m => .ok ⟨rs.map (fun r => (fmap m r.1, renumBody (fmap m) r.2)), m, reports m rs⟩

/-- Interpreter.renum_: argument defaults and the step check -/
def renumCmd (rs : List Rec) (new old step : Option Nat) : R Result :=
  if step = some 0 then .error E.ifc
  else renum rs (new.getD 10) (old.getD 0) (step.getD 10)

/-- Interpreter.renum_: an active error / event trap line (0 = none) -/
def trapAfter (m : List (Nat × Nat)) (t : Nat) : Nat := if t = 0 then 0 else fmap m t

/-! ### the unrepaired scan (before the pending fix C14-renum-error-goto-0) -/

/-- `backskip_blank() == tok` on the reversed bytes before the current position; the rest before it -/
def backIs (tok : Nat) (acc : Bytes) : Option Bytes :=
  match acc.dropWhile isBlank with
  | g :: r => if g = tok then some r else none
  | [] => none

def errGotoBefore (acc : Bytes) : Bool :=
  match backIs tGoto acc with
  | some r => (backIs tError r).isSome
  | none => false

/-- old in-place rewrite; `acc` = bytes already passed (rewritten), reversed -/
def rwOld (f : Nat → Nat) : Scan → Bytes → Bytes → Bytes
  | _, acc, [] => acc.reverse
  | st, acc, c :: rest =>
    if st = Scan.init ∧ c = tUint then
      match rest with
      | a :: b :: rest' =>
        if a = 0 ∧ b = 0 ∧ errGotoBefore acc = true then rwOld f Scan.init (b :: a :: c :: acc) rest'
        else rwOld f Scan.init (hi (f (le16 a b)) :: lo (f (le16 a b)) :: c :: acc) rest'
      | _ => acc.reverse ++ c :: rest
    else
      match scanStep false st c with
      | none => acc.reverse ++ c :: rest
      | some st' => rwOld f st' (c :: acc) rest

/-- old rewrite of a body that follows the header bytes `hdr` (next-address and the NEW line number) -/
def renumBodyOld (f : Nat → Nat) (hdr b : Bytes) : Bytes := (rwOld f Scan.init hdr.reverse b).drop hdr.length

end PcbV.Renum
