/-
  Lemmas about the reader of PcbV.Model.SeqFile: the logical stream (`view`) that single-byte reads see,
  and the effect of peek 1 / read 1 / read_one on it.
-/
import PcbV.Model.SeqFile
namespace PcbV.SeqFile
open PcbV

/-- what NewlineWrapper delivers under single-byte reads: CR LF → CR, other LF → CR -/
def norm : Option Nat → Bytes → Bytes
  | _, [] => []
  | last, b :: bs =>
    if last = some 13 ∧ b = 10 then norm (some 10) bs else lf2cr b :: norm (some b) bs

/-- the bytes that single-byte reads will still see (before the 1A cut) -/
def Rd.view (r : Rd) : Bytes := r.ahead ++ (if r.wrap then norm r.nl r.raw else r.raw)

theorem nlRead_one (raw : Bytes) (nl : Option Nat) :
    (nlRead 1 raw nl).1 = (norm nl raw).take 1 ∧
    norm (nlRead 1 raw nl).2.2 (nlRead 1 raw nl).2.1 = (norm nl raw).drop 1 ∧
    (nlRead 1 raw nl).2.1.length ≤ raw.length := by
  cases raw with
  | nil => simp [nlRead, nlLoop, norm]
  | cons b bs =>
    by_cases h : nl = some 13 ∧ b = 10
    · cases bs with
      | nil => simp [nlRead, nlLoop, norm, h]
      | cons c cs =>
        simp [nlRead, nlLoop, norm, h]
        omega
    · simp [nlRead, nlLoop, norm, h]

theorem view_length_le (r : Rd) : r.view.length + 2 ≤ r.fuel := by
  have hn : ∀ (raw : Bytes) (nl : Option Nat), (norm nl raw).length ≤ raw.length := by
    intro raw
    induction raw with
    | nil => intro nl; simp [norm]
    | cons b bs ih =>
      intro nl
      simp only [norm]
      split
      · have := ih (some 10); simp; omega
      · have := ih (some b); simp; omega
  unfold Rd.view Rd.fuel
  by_cases hw : r.wrap
  · have := hn r.raw r.nl
    simp [hw]; omega
  · simp [hw]

/-- peek 1 shows the head of the view and changes nothing observable -/
theorem peek1_spec (r : Rd) :
    (r.peek 1).1 = r.view.take 1 ∧ (r.peek 1).2.view = r.view ∧ (r.peek 1).2.prev = r.prev ∧
    (r.peek 1).2.cur = r.cur ∧ (r.peek 1).2.size = r.size ∧ (r.peek 1).2.wrap = r.wrap := by
  unfold Rd.peek
  by_cases ha : 1 > r.ahead.length
  · have ha0 : r.ahead = [] := by
      cases h : r.ahead with
      | nil => rfl
      | cons a as => simp [h] at ha
    by_cases hw : r.wrap
    · have h1 := nlRead_one r.raw r.nl
      simp [ha0, Rd.streamRead, hw, Rd.view, h1.1, h1.2.1]
      cases hn : norm r.nl r.raw <;> simp
    · simp [ha0, Rd.streamRead, hw, Rd.view]
      cases hn : r.raw <;> simp
  · have : ¬ (r.ahead.length = 0) := by omega
    simp [ha, Rd.view]
    cases h : r.ahead with
    | nil => simp [h] at this
    | cons a as => simp

theorem peek1_ahead (r : Rd) : (r.peek 1).2.ahead = [] → r.view = [] := by
  unfold Rd.peek
  by_cases ha : 1 > r.ahead.length
  · have ha0 : r.ahead = [] := by
      cases h : r.ahead with
      | nil => rfl
      | cons a as => simp [h] at ha
    by_cases hw : r.wrap
    · have h1 := nlRead_one r.raw r.nl
      simp [ha0, Rd.streamRead, hw, Rd.view, h1.1]
    · simp [ha0, Rd.streamRead, hw, Rd.view]
  · simp [ha, Rd.view]
    intro h; simp [h] at ha

/-- read 1 in terms of the view -/
theorem read1_spec (r : Rd) :
    (r.read 1).2.prev = r.cur ∧ (r.read 1).2.size = r.size ∧
    ((r.view = [] ∧ (r.read 1).1 = [] ∧ (r.read 1).2.view = [] ∧ (r.read 1).2.cur = []) ∨
     (∃ t, r.view = 26 :: t ∧ (r.read 1).1 = [] ∧ (r.read 1).2.view = 26 :: t ∧ (r.read 1).2.cur = []) ∨
     (∃ x t, r.view = x :: t ∧ x ≠ 26 ∧ (r.read 1).1 = [x] ∧ (r.read 1).2.view = t ∧ (r.read 1).2.cur = [x])) := by
  have hp := peek1_spec r
  have hah := peek1_ahead r
  obtain ⟨hp1, hpv, hpp, hpc, hps, hpw⟩ := hp
  cases hv : r.view with
  | nil =>
    rw [hv] at hpv hp1
    simp only [Rd.view] at hpv
    simp [Rd.read, hp1, cut1A, hpc, hps, Rd.view]
    simpa using hpv
  | cons x t =>
    rw [hv] at hpv hp1
    simp only [Rd.view] at hpv
    by_cases hx : x = 26
    · subst hx
      simp [Rd.read, hp1, cut1A, hpc, hps, Rd.view]
      exact hpv
    · have hne : (r.peek 1).2.ahead ≠ [] := by
        intro h; have := hah h; simp [hv] at this
      simp [Rd.read, hp1, cut1A, hx, hpc, hps, Rd.view]
      cases ha : (r.peek 1).2.ahead with
      | nil => exact absurd ha hne
      | cons a as =>
        simp [ha] at hpv ⊢
        exact ⟨x, t, ⟨rfl, rfl⟩, hx, rfl, hpv.2, rfl⟩

theorem read1_cons {r : Rd} {x : Nat} {t : Bytes} (hv : r.view = x :: t) (hx : x ≠ 26) :
    (r.read 1).1 = [x] ∧ (r.read 1).2.view = t ∧ (r.read 1).2.cur = [x] ∧ (r.read 1).2.prev = r.cur ∧
    (r.read 1).2.size = r.size := by
  obtain ⟨hp, hs, h | ⟨t', h⟩ | ⟨x', t', h⟩⟩ := read1_spec r
  · rw [hv] at h; simp at h
  · rw [hv] at h; simp at h; exact absurd h.1.1 hx
  · rw [hv] at h
    obtain ⟨he, _, h1, h2, h3⟩ := h
    simp at he
    obtain ⟨rfl, rfl⟩ := he
    exact ⟨h1, h2, h3, hp, hs⟩

theorem read1_stop {r : Rd} (hv : r.view = [] ∨ ∃ t, r.view = 26 :: t) :
    (r.read 1).1 = [] ∧ (r.read 1).2.view = r.view ∧ (r.read 1).2.cur = [] ∧ (r.read 1).2.prev = r.cur ∧
    (r.read 1).2.size = r.size := by
  obtain ⟨hp, hs, h | ⟨t', h⟩ | ⟨x', t', h⟩⟩ := read1_spec r
  · exact ⟨h.2.1, by rw [h.2.2.1, h.1], h.2.2.2, hp, hs⟩
  · exact ⟨h.2.1, by rw [h.2.2.1, h.1], h.2.2.2, hp, hs⟩
  · rcases hv with hv | ⟨t, hv⟩
    · rw [hv] at h; simp at h
    · rw [hv] at h; simp at h; exact absurd h.1.1.symm h.2.1

/-- read_one on a byte that is neither CR nor the EOF byte -/
theorem readOne_plain {r : Rd} {x : Nat} {t : Bytes} (hv : r.view = x :: t) (hx : x ≠ 26) (hcr : x ≠ 13) :
    r.readOne.1 = [x] ∧ r.readOne.2.view = t ∧ r.readOne.2.cur = [x] ∧ r.readOne.2.prev = r.cur ∧
    r.readOne.2.size = r.size := by
  have h := read1_cons hv hx
  simp [Rd.readOne, h.1, hcr]
  exact ⟨h.2.1, h.2.2.1, h.2.2.2.1, h.2.2.2.2⟩

theorem readOne_stop {r : Rd} (hv : r.view = [] ∨ ∃ t, r.view = 26 :: t) :
    r.readOne.1 = [] ∧ r.readOne.2.view = r.view ∧ r.readOne.2.size = r.size := by
  have h := read1_stop hv
  simp [Rd.readOne, h.1]
  exact ⟨h.2.1, h.2.2.2.2⟩

/-- read_one on CR when the previous byte was not LF: a following LF is swallowed -/
theorem readOne_cr {r : Rd} {t : Bytes} (hv : r.view = 13 :: t) (hc : r.cur ≠ [10]) :
    r.readOne.1 = [13] ∧ r.readOne.2.view = (match t with | 10 :: t' => t' | _ => t) ∧
    r.readOne.2.cur = [13] ∧ r.readOne.2.prev = r.cur ∧ r.readOne.2.size = r.size := by
  have h := read1_cons hv (by decide)
  obtain ⟨h1, h2, h3, h4, h5⟩ := h
  have hp := peek1_spec (r.read 1).2
  obtain ⟨p1, p2, p3, p4, p5, _⟩ := hp
  rw [h2] at p1 p2
  simp only [Rd.readOne, h1, h4]
  simp [hc]
  match t, h2, p1, p2 with
  | 10 :: t', h2, p1, p2 =>
    have hq := read1_cons p2 (by decide : (10:Nat) ≠ 26)
    simp [p1]
    simp [Rd.view] at hq ⊢
    refine ⟨hq.2.1, ?_, ?_, ?_⟩
    · rw [p4, h3]
    · rw [p3, h4]
    · rw [hq.2.2.2.2, p5, h5]
  | [], h2, p1, p2 =>
    simp [p1]
    exact ⟨p2, by rw [p4, h3], by rw [p3, h4], by rw [p5, h5]⟩
  | y :: t', h2, p1, p2 =>
    by_cases hy : y = 10
    · subst hy
      have hq := read1_cons p2 (by decide : (10:Nat) ≠ 26)
      simp [p1]
      simp [Rd.view] at hq ⊢
      refine ⟨hq.2.1, ?_, ?_, ?_⟩
      · rw [p4, h3]
      · rw [p3, h4]
      · rw [hq.2.2.2.2, p5, h5]
    · simp [p1, hy]
      exact ⟨p2, by rw [p4, h3], by rw [p3, h4], by rw [p5, h5]⟩
