import PcbV.Lemmas.C03Nat
import Mathlib.Tactic.Linarith
import Mathlib.Tactic.Ring
import Mathlib.Tactic.FieldSimp
import Mathlib.Tactic.Positivity
import Mathlib.Tactic.NormNum
import Mathlib.Tactic.Push
import Mathlib.Algebra.Order.Field.Basic
import Mathlib.Data.Rat.Floor
/-
  Rational-valued lemmas for C03: the value of a pattern as `± N / 2^s` with natural `N`, `s`,
  and the floor / round-half-up facts about natural division that `to_int_truncate` / `to_int` use.
-/
namespace PcbV.Mbf

theorem pow2_sub (a b : Nat) : pow2 ((a : Int) - b) = (2 : Rat) ^ (a - b) / 2 ^ (b - a) := by
  unfold pow2
  by_cases h : b ≤ a
  · have h1 : (a : Int) - b ≥ 0 := by omega
    have h2 : ((a : Int) - b).toNat = a - b := by omega
    have h3 : b - a = 0 := by omega
    simp only [h1, if_true, h2, h3, pow_zero, div_one]
  · have h1 : ¬ ((a : Int) - b ≥ 0) := by omega
    have h2 : (-((a : Int) - b)).toNat = b - a := by omega
    have h3 : a - b = 0 := by omega
    simp only [h1, if_false, h2, h3, pow_zero]

theorem pow2_pos (k : Int) : 0 < pow2 k := by
  unfold pow2; split <;> positivity

/-- the sign factor of a pattern -/
def sg (f : Fmt) (x : F) : Rat := if isNeg f x then -1 else 1

/-- the magnitude `manOf·2^(e-bias)` written with natural numerator and denominator -/
def mag (f : Fmt) (x : F) : Rat := ((manOf f x * 2 ^ up f x : Nat) : Rat) / 2 ^ dn f x

theorem val_eq (f : Fmt) (x : F) (he : x.e ≠ 0) : val f x = sg f x * mag f x := by
  unfold val sg mag up dn
  simp only [he, if_false]
  rw [pow2_sub]
  push_cast
  ring

theorem val_zero (f : Fmt) (x : F) (he : x.e = 0) : val f x = 0 := by
  unfold val; simp [he]

theorem floor_lemma (N P : Nat) (hP : 0 < P) :
    ((N / P : Nat) : Rat) ≤ (N : Rat) / P ∧ (N : Rat) / P < ((N / P : Nat) : Rat) + 1 := by
  have hP' : (0 : Rat) < P := by exact_mod_cast hP
  constructor
  · rw [le_div_iff₀ hP']
    exact_mod_cast Nat.div_mul_le_self N P
  · rw [div_lt_iff₀ hP']
    have : N < (N / P + 1) * P := by
      rw [Nat.mul_comm]; exact Nat.lt_mul_div_succ N hP
    exact_mod_cast this

theorem round_lemma (N P : Nat) (hP : 0 < P) :
    (((N * 256 / P + 128) / 256 : Nat) : Rat) - 1 / 2 ≤ (N : Rat) / P ∧
    (N : Rat) / P < (((N * 256 / P + 128) / 256 : Nat) : Rat) + 1 / 2 := by
  obtain ⟨h1, h2⟩ := floor_lemma (N * 256) P hP
  obtain ⟨h3, h4⟩ := floor_lemma (N * 256 / P + 128) 256 (by decide)
  have e : ((N * 256 : Nat) : Rat) / P = 256 * ((N : Rat) / P) := by push_cast; ring
  rw [e] at h1 h2
  have h5 : N * 256 / P + 129 ≤ ((N * 256 / P + 128) / 256 + 1) * 256 := by omega
  have h6 : ((N * 256 / P : Nat) : Rat) + 129 ≤ ((((N * 256 / P + 128) / 256 : Nat) : Rat) + 1) * 256 := by
    exact_mod_cast h5
  push_cast at h3 h4 h6 ⊢
  constructor <;> linarith

section wf
variable {f : Fmt} (hf : f.WF) {x : F} (hx : F.Valid f x)
include hf hx

theorem mag_pos : 0 < mag f x := by
  have := (manOf_bounds hf hx).1
  have hp : 0 < 2 ^ (f.w - 1) := Nat.two_pow_pos _
  unfold mag
  apply div_pos
  · have : 0 < manOf f x * 2 ^ up f x := Nat.mul_pos (by omega) (Nat.two_pow_pos _)
    exact_mod_cast this
  · positivity

theorem truncMag_spec : ((truncMag f x : Nat) : Rat) ≤ mag f x ∧ mag f x < (truncMag f x : Nat) + 1 := by
  unfold truncMag mag
  have := floor_lemma (manOf f x * 2 ^ up f x) (2 ^ dn f x) (Nat.two_pow_pos _)
  push_cast at this ⊢
  exact this

theorem roundMag_spec :
    ((roundMag f x : Nat) : Rat) - 1 / 2 ≤ mag f x ∧ mag f x < (roundMag f x : Nat) + 1 / 2 := by
  unfold roundMag mag
  have := round_lemma (manOf f x * 2 ^ up f x) (2 ^ dn f x) (Nat.two_pow_pos _)
  have e : manOf f x * 2 ^ up f x * 256 = manOf f x * 256 * 2 ^ up f x := by ring
  rw [e] at this
  push_cast at this ⊢
  exact this

/-- exponent byte 0: both integer conversions give 0 -/
theorem mags_zero (he : x.e = 0) : truncMag f x = 0 ∧ roundMag f x = 0 := by
  have hb := (manOf_bounds hf hx).2
  obtain ⟨h8, hbias, _⟩ := hf
  have hup : up f x = 0 := by unfold up; omega
  have hdn : dn f x = 128 + f.w := by unfold dn; omega
  have hlt : manOf f x * 256 < 2 ^ (128 + f.w) := by
    have : 2 ^ (128 + f.w) = 2 ^ 128 * 2 ^ f.w := Nat.pow_add 2 128 f.w
    have h3 : 256 * 2 ^ f.w ≤ 2 ^ 128 * 2 ^ f.w := Nat.mul_le_mul_right _ (by decide)
    omega
  unfold truncMag roundMag
  rw [hup, hdn]
  simp only [Nat.pow_zero, Nat.mul_one]
  constructor
  · exact Nat.div_eq_of_lt (by omega)
  · rw [Nat.div_eq_of_lt hlt]

end wf

/-- value of a packed normalised mantissa -/
theorem val_pack {f : Fmt} (hf : f.WF) (M e : Nat) (neg : Bool) (h1 : 2 ^ (f.w - 1) ≤ M) (h2 : M < 2 ^ f.w)
    (he0 : e ≠ 0) (he : e < 256) :
    val f ⟨packMan f M neg, e⟩ = (if neg then -1 else 1) * ((M : Rat) * 2 ^ (e - f.bias) / 2 ^ (f.bias - e)) := by
  obtain ⟨_, hn, hm⟩ := pack_spec hf M e neg h1 h2 he
  rw [val_eq f _ he0]
  unfold sg mag up dn
  rw [hn, hm]
  push_cast
  rfl

theorem int_cast_natAbs (n : Int) :
    (n : Rat) = (if decide (n < 0) = true then -1 else 1) * (n.natAbs : Rat) := by
  rw [show (n.natAbs : Rat) = ((n.natAbs : Int) : Rat) from (Int.cast_natCast _).symm]
  by_cases h : n < 0
  · simp only [h, decide_true, if_true]
    rw [show (n.natAbs : Int) = -n by omega]
    simp
  · simp only [h, decide_false, Bool.false_eq_true, if_false]
    rw [show (n.natAbs : Int) = n by omega]
    simp

/-- `from_int` is exact on every integer of at most `w` bits -/
theorem fromInt_exact {f : Fmt} (hf : f.WF) (hb : f.bias ≤ 255) (n : Int) (hn : n.natAbs < 2 ^ f.w) :
    ∃ y, fromInt f n = .ok y ∧ F.Valid f y ∧ val f y = n := by
  by_cases hn0 : n = 0
  · subst hn0
    refine ⟨zero, by simp [fromInt], ⟨Nat.two_pow_pos _, by decide⟩, ?_⟩
    simp [val, zero]
  · obtain ⟨k, hk, h1, h2, he⟩ := fromInt_small hf hb n hn0 hn
    have hbias : f.bias = 128 + f.w := hf.2.1
    have hev : f.bias - k < 256 := by omega
    have he0 : f.bias - k ≠ 0 := by omega
    refine ⟨_, he, (pack_spec hf _ _ _ h1 h2 hev).1, ?_⟩
    rw [val_pack hf _ _ _ h1 h2 he0 hev, int_cast_natAbs n]
    have e1 : f.bias - k - f.bias = 0 := by omega
    have e2 : f.bias - (f.bias - k) = k := by omega
    rw [e1, e2]
    push_cast
    have : (2 : Rat) ^ k ≠ 0 := by positivity
    field_simp

/-- FIX on a float: `from_int(to_int_truncate())` has exactly the truncated value, and values
    with exponent ≥ bias (all integers already) are returned unchanged, byte for byte -/
theorem itrunc_exact {f : Fmt} (hf : f.WF) (hb : f.bias ≤ 255) (x : F) (hx : F.Valid f x) :
    (∃ y, itrunc f x = .ok y ∧ F.Valid f y ∧ val f y = toIntTrunc f x) ∧
    (f.bias ≤ x.e → itrunc f x = .ok x) := by
  have hmb := manOf_bounds hf hx
  have ht := toIntTrunc_eq hf hx
  have hpos : 0 < 2 ^ (f.w - 1) := Nat.two_pow_pos _
  by_cases hbig : f.bias ≤ x.e
  · have hdn : dn f x = 0 := by unfold dn; omega
    have htm : truncMag f x = manOf f x * 2 ^ up f x := by unfold truncMag; rw [hdn]; simp
    have hmp : 0 < manOf f x * 2 ^ up f x := Nat.mul_pos (by omega) (Nat.two_pow_pos _)
    have habs : (toIntTrunc f x).natAbs = manOf f x * 2 ^ up f x := by
      rw [ht, htm]; split <;> omega
    have hneg : decide (toIntTrunc f x < 0) = isNeg f x := by
      rw [ht, htm]
      by_cases h : isNeg f x = true
      · simp only [h, if_true]; simp; omega
      · simp only [h, if_false]; simp [h]
    have hx2 := hx.2
    have hup : f.bias + up f x = x.e := by unfold up; omega
    have key : itrunc f x = .ok x := by
      unfold itrunc
      rw [fromInt_big hf _ (manOf f x) (up f x) hmb.1 hmb.2 habs (by omega), hneg, pack_self hf x hx, hup]
    refine ⟨⟨x, key, hx, ?_⟩, fun _ => key⟩
    have hbias : f.bias = 128 + f.w := hf.2.1
    have he0 : x.e ≠ 0 := by omega
    rw [val_eq f x he0, ht, htm]
    unfold sg mag
    rw [hdn]
    split <;> push_cast <;> ring
  · refine ⟨?_, fun h => absurd h hbig⟩
    have hup : up f x = 0 := by unfold up; omega
    have hlt : truncMag f x < 2 ^ f.w := by
      unfold truncMag; rw [hup]
      simp only [Nat.pow_zero, Nat.mul_one]
      exact Nat.lt_of_le_of_lt (Nat.div_le_self _ _) hmb.2
    have habs : (toIntTrunc f x).natAbs < 2 ^ f.w := by
      rw [ht]; split <;> omega
    exact fromInt_exact hf hb _ habs

/-- a single widens to a double of exactly the same value -/
theorem fromSingle_val (s : F) (hs : F.Valid single s) :
    F.Valid double (fromSingle s) ∧ val double (fromSingle s) = val single s := by
  have hm : s.m < 2 ^ 24 := hs.1
  have hv : F.Valid double (fromSingle s) := by
    refine ⟨?_, hs.2⟩
    show s.m * 2 ^ 32 < 2 ^ 56
    omega
  refine ⟨hv, ?_⟩
  by_cases he : s.e = 0
  · rw [val_zero _ _ he, val_zero _ _ (by exact he)]
  · have he' : (fromSingle s).e ≠ 0 := he
    rw [val_eq _ _ he, val_eq _ _ he']
    have hn : isNeg double (fromSingle s) = isNeg single s := by
      rw [isNeg_iff double_wf hv, isNeg_iff single_wf hs]
      show decide (2 ^ 55 ≤ s.m * 2 ^ 32) = decide (2 ^ 23 ≤ s.m)
      apply decide_eq_decide.mpr; omega
    have hman : manOf double (fromSingle s) = manOf single s * 2 ^ 32 := by
      unfold manOf
      rw [hn]
      show (if isNeg single s = true then s.m * 2 ^ 32 else s.m * 2 ^ 32 + 2 ^ 55) =
        (if isNeg single s = true then s.m else s.m + 2 ^ 23) * 2 ^ 32
      split <;> omega
    unfold sg mag
    rw [hn, hman]
    have hs2 := hs.2
    by_cases hbig : 184 ≤ s.e
    · have e1 : up double (fromSingle s) = s.e - 184 := rfl
      have e2 : dn double (fromSingle s) = 0 := by show 184 - s.e = 0; omega
      have e3 : up single s = (s.e - 184) + 32 := by show s.e - 152 = _; omega
      have e4 : dn single s = 0 := by show 152 - s.e = 0; omega
      rw [e1, e2, e3, e4]
      push_cast
      ring
    · by_cases hmid : 152 ≤ s.e
      · have e1 : up double (fromSingle s) = 0 := by show s.e - 184 = 0; omega
        have e2 : dn double (fromSingle s) = 184 - s.e := rfl
        have e3 : up single s = s.e - 152 := rfl
        have e4 : dn single s = 0 := by show 152 - s.e = 0; omega
        rw [e1, e2, e3, e4]
        have h32 : (2 : Rat) ^ (s.e - 152) * 2 ^ (184 - s.e) = 2 ^ 32 := by
          rw [← pow_add]
          have : s.e - 152 + (184 - s.e) = 32 := by omega
          rw [this]
        simp only [Nat.cast_mul, Nat.cast_pow, Nat.cast_ofNat]
        rw [← h32]
        have : (2 : Rat) ^ (184 - s.e) ≠ 0 := by positivity
        field_simp
      · have e1 : up double (fromSingle s) = 0 := by show s.e - 184 = 0; omega
        have e2 : dn double (fromSingle s) = (152 - s.e) + 32 := by show 184 - s.e = _; omega
        have e3 : up single s = 0 := by show s.e - 152 = 0; omega
        have e4 : dn single s = 152 - s.e := rfl
        rw [e1, e2, e3, e4]
        simp only [Nat.cast_mul, Nat.cast_pow, Nat.cast_ofNat]
        have : (2 : Rat) ^ (152 - s.e) ≠ 0 := by positivity
        rw [pow_add]
        field_simp

end PcbV.Mbf
