import PcbV.Lemmas.Strings
/-
  C09 — String functions and statements match their reference definitions.
  Property theorems about `PcbV.Strings` (transcription of values.py StringFunctions / len_ / asc_ / chr_ / space_,
  strings.py String.add/eq/gt/lset/midset, memory.py DataSegment.mid_/lset_/rset_).
  Strings are byte lists; `.num i` is a numeric argument whose value rounds to the integer `i` (any magnitude):
  outside −32768..32767 it raises Overflow, inside the integer range but outside the range a function accepts
  it raises Illegal function call; `.str` where a number is expected (or vice versa) is a Type mismatch.
  Every theorem quantifies over all strings (length ≤ 255 where the code needs it) and all integer arguments.
-/
namespace PcbV.C09
open PcbV PcbV.Strings

/-- LEFT$ = `List.take`; Overflow outside the integer range, Illegal function call outside 0..255 -/
theorem left_spec (s : Bytes) (n : Int) (hs : s.length ≤ 255) :
    left_ (.str s) (.num n) =
      if ¬ InInt n then .error overflow
      else if n < 0 ∨ 255 < n then .error ifc
      else .ok (s.take n.toNat) := by
  unfold InInt
  simp only [left_, passString, toIntV, toInt16, rangeCheck, bind, Except.bind, pure, Except.pure]
  by_cases h1 : -32768 ≤ n ∧ n ≤ 32767
  · simp only [h1, and_self, ite_true, not_true_eq_false, ite_false]
    by_cases h0 : n = 0
    · subst h0; simp
    · simp only [h0, ite_false]
      by_cases h2 : 0 ≤ n ∧ n ≤ 255
      · rw [if_pos h2, if_neg (by omega)]
        simp only
        rw [pySlice_zero _ _ h2.1, store_ok]
        rw [List.length_take]; omega
      · rw [if_neg h2, if_pos (by omega)]
  · simp [h1]

/-- RIGHT$ = `drop (len - n)` (the whole string when `n ≥ len`) -/
theorem right_spec (s : Bytes) (n : Int) (hs : s.length ≤ 255) :
    right_ (.str s) (.num n) =
      if ¬ InInt n then .error overflow
      else if n < 0 ∨ 255 < n then .error ifc
      else .ok (s.drop (s.length - n.toNat)) := by
  unfold InInt
  simp only [right_, passString, toIntV, toInt16, rangeCheck, bind, Except.bind, pure, Except.pure]
  by_cases h1 : -32768 ≤ n ∧ n ≤ 32767
  · simp only [h1, and_self, ite_true, not_true_eq_false, ite_false]
    by_cases h0 : n = 0
    · subst h0; simp
    · simp only [h0, ite_false]
      by_cases h2 : 0 ≤ n ∧ n ≤ 255
      · rw [if_pos h2, if_neg (by omega)]
        simp only
        rw [pySliceFrom_neg _ _ (by omega), store_ok]
        rw [List.length_drop]; omega
      · rw [if_neg h2, if_pos (by omega)]
  · simp [h1]

/-- MID$ function, three arguments -/
theorem mid_spec (s : Bytes) (st n : Int) (hs : s.length ≤ 255) :
    (¬ InInt st ∨ ¬ InInt n → mid_ (.str s) (.num st) (some (.num n)) = .error overflow) ∧
    (InInt st → InInt n → (st < 1 ∨ 255 < st ∨ n < 0 ∨ 255 < n) →
      mid_ (.str s) (.num st) (some (.num n)) = .error ifc) ∧
    (1 ≤ st ∧ st ≤ 255 → 0 ≤ n ∧ n ≤ 255 →
      mid_ (.str s) (.num st) (some (.num n)) = .ok ((s.drop (st.toNat - 1)).take n.toNat)) := by
  simp only [mid_, passString, toIntV, bind, Except.bind, pure, Except.pure]
  refine ⟨?_, ?_, ?_⟩
  · intro h
    by_cases h1 : InInt st
    · simp only [toInt16_ok _ h1, toInt16_err _ (h.resolve_left (fun na => na h1))]
    · simp only [toInt16_err _ h1]
  · intro h1 h2 h
    simp only [toInt16_ok _ h1, toInt16_ok _ h2]
    by_cases h3 : 1 ≤ st ∧ st ≤ 255
    · simp only [rangeCheck_ok _ _ _ h3, rangeCheck_err 0 255 n (by omega)]
    · simp only [rangeCheck_err _ _ _ h3]
  · intro h1 h2
    simp only [toInt16_ok st (by unfold InInt; omega), toInt16_ok n (by unfold InInt; omega), rangeCheck_ok _ _ _ h1, rangeCheck_ok _ _ _ h2]
    by_cases h4 : n = 0 ∨ st > s.length
    · rw [if_pos h4]
      rcases h4 with h4 | h4
      · subst h4; simp
      · rw [List.drop_eq_nil_of_le (by omega)]; simp
    · rw [if_neg h4, pySlice_window _ _ _ (by omega) h2.1, store_ok]
      · congr 3; omega
      · rw [List.length_take, List.length_drop]; omega

/-- MID$ function, two arguments: to the end of the string -/
theorem mid2_spec (s : Bytes) (st : Int) (hs : s.length ≤ 255) :
    (¬ InInt st → mid_ (.str s) (.num st) none = .error overflow) ∧
    (InInt st → (st < 1 ∨ 255 < st) → mid_ (.str s) (.num st) none = .error ifc) ∧
    (1 ≤ st ∧ st ≤ 255 → mid_ (.str s) (.num st) none = .ok (s.drop (st.toNat - 1))) := by
  simp only [mid_, passString, toIntV, bind, Except.bind, pure, Except.pure]
  refine ⟨?_, ?_, ?_⟩
  · intro h; simp only [toInt16_err _ h]
  · intro h1 h; simp only [toInt16_ok _ h1, rangeCheck_err 1 255 st (by omega)]
  · intro h1
    simp only [toInt16_ok st (by unfold InInt; omega), rangeCheck_ok _ _ _ h1, rangeCheck_ok 0 255 (s.length : Int) (by omega)]
    by_cases h4 : (s.length : Int) = 0 ∨ st > s.length
    · rw [if_pos h4, List.drop_eq_nil_of_le (by omega)]
    · rw [if_neg h4, pySlice_window _ _ _ (by omega) (by omega), store_ok]
      · rw [List.take_of_length_le]
        · congr 2; omega
        · rw [List.length_drop]; omega
      · rw [List.length_take, List.length_drop]; omega

/-- STRING$ with a numeric character code -/
theorem string_num_spec (n c : Int) :
    (¬ InInt n → string_ (.num n) (.num c) = .error overflow) ∧
    (InInt n → (n < 0 ∨ 255 < n) → string_ (.num n) (.num c) = .error ifc) ∧
    (0 ≤ n ∧ n ≤ 255 → ¬ InInt c → string_ (.num n) (.num c) = .error overflow) ∧
    (0 ≤ n ∧ n ≤ 255 → InInt c → (c < 0 ∨ 255 < c) → string_ (.num n) (.num c) = .error ifc) ∧
    (0 ≤ n ∧ n ≤ 255 → 0 ≤ c ∧ c ≤ 255 →
      string_ (.num n) (.num c) = .ok (List.replicate n.toNat c.toNat)) := by
  simp only [string_, toIntV, bind, Except.bind, pure, Except.pure]
  refine ⟨?_, ?_, ?_, ?_, ?_⟩
  · intro h; simp only [toInt16_err _ h]
  · intro h1 h; simp only [toInt16_ok _ h1, rangeCheck_err 0 255 n (by omega)]
  · intro h1 h2; simp only [toInt16_ok _ (inInt_of_byte h1), rangeCheck_ok _ _ _ h1, toInt16_err _ h2]
  · intro h1 h2 h; simp only [toInt16_ok _ (inInt_of_byte h1), rangeCheck_ok _ _ _ h1, toInt16_ok _ h2, rangeCheck_err 0 255 c (by omega)]
  · intro h1 h2
    simp only [toInt16_ok _ (inInt_of_byte h1), rangeCheck_ok _ _ _ h1, toInt16_ok _ (inInt_of_byte h2), rangeCheck_ok _ _ _ h2]
    rw [store_ok]; rw [List.length_replicate]; omega

/-- STRING$ with a string: its first character; an empty string is an Illegal function call -/
theorem string_str_spec (n : Int) (s : Bytes) :
    (¬ InInt n → string_ (.num n) (.str s) = .error overflow) ∧
    (InInt n → (n < 0 ∨ 255 < n) → string_ (.num n) (.str s) = .error ifc) ∧
    (0 ≤ n ∧ n ≤ 255 → s = [] → string_ (.num n) (.str s) = .error ifc) ∧
    (0 ≤ n ∧ n ≤ 255 → ∀ ch t, s = ch :: t →
      string_ (.num n) (.str s) = .ok (List.replicate n.toNat ch)) := by
  simp only [string_, toIntV, bind, Except.bind, pure, Except.pure]
  refine ⟨?_, ?_, ?_, ?_⟩
  · intro h; simp only [toInt16_err _ h]
  · intro h1 h; simp only [toInt16_ok _ h1, rangeCheck_err 0 255 n (by omega)]
  · intro h1 h2; subst h2; simp only [toInt16_ok _ (inInt_of_byte h1), rangeCheck_ok _ _ _ h1]
  · intro h1 ch t h2; subst h2
    simp only [toInt16_ok _ (inInt_of_byte h1), rangeCheck_ok _ _ _ h1]
    rw [store_ok]; rw [List.length_replicate]; omega

theorem space_spec (n : Int) :
    (¬ InInt n → space_ (.num n) = .error overflow) ∧
    (InInt n → (n < 0 ∨ 255 < n) → space_ (.num n) = .error ifc) ∧
    (0 ≤ n ∧ n ≤ 255 → space_ (.num n) = .ok (List.replicate n.toNat 32)) := by
  simp only [space_, toIntV, bind, Except.bind, pure, Except.pure]
  refine ⟨?_, ?_, ?_⟩
  · intro h; simp only [toInt16_err _ h]
  · intro h1 h; simp only [toInt16_ok _ h1, rangeCheck_err 0 255 n (by omega)]
  · intro h1
    simp only [toInt16_ok _ (inInt_of_byte h1), rangeCheck_ok _ _ _ h1]
    rw [store_ok]; rw [List.length_replicate]; omega

theorem chr_spec (n : Int) :
    (¬ InInt n → chr_ (.num n) = .error overflow) ∧
    (InInt n → (n < 0 ∨ 255 < n) → chr_ (.num n) = .error ifc) ∧
    (0 ≤ n ∧ n ≤ 255 → chr_ (.num n) = .ok [n.toNat]) := by
  simp only [chr_, toIntV, bind, Except.bind, pure, Except.pure]
  refine ⟨?_, ?_, ?_⟩
  · intro h; simp only [toInt16_err _ h]
  · intro h1 h; simp only [toInt16_ok _ h1, rangeCheck_err 0 255 n (by omega)]
  · intro h1
    simp only [toInt16_ok _ (inInt_of_byte h1), rangeCheck_ok _ _ _ h1]
    rw [store_ok]; simp

theorem len_spec (s : Bytes) : len_ (.str s) = .ok s.length := rfl

theorem asc_spec (s : Bytes) :
    (s = [] → asc_ (.str s) = .error ifc) ∧ (∀ c t, s = c :: t → asc_ (.str s) = .ok c) := by
  constructor
  · intro h; subst h; rfl
  · intro c t h; subst h; rfl

/-- ASC and CHR$ are inverse on one-byte strings -/
theorem asc_chr (n : Int) (h : 0 ≤ n ∧ n ≤ 255) :
    (chr_ (.num n)).bind (fun b => asc_ (.str b)) = .ok n.toNat := by
  rw [(chr_spec n).2.2 h]; rfl

/-- concatenation: String too long exactly when the result would exceed 255 bytes -/
theorem add_spec (a b : Bytes) :
    add (.str a) (.str b) =
      some (if a.length + b.length > 255 then .error stringTooLong else .ok (a ++ b)) := by
  simp only [add, matchStr, Option.map, Except.bind, strAdd, store, List.length_append]


/-! ### INSTR -/

/-- `small` occurs in `big` at the 1-based position `j` (a position inside the string) -/
def Occ (big small : Bytes) (j : Nat) : Prop :=
  1 ≤ j ∧ j ≤ big.length ∧ small <+: big.drop (j - 1)

/-- INSTR with a start position in 1..255: the result is the least position `≥ start` at which
    `small` occurs, and 0 when there is none (in particular for an empty `big` or `start > LEN(big)`;
    an empty `small` occurs at every position inside `big`) -/
theorem instr_spec (big small : Bytes) (st : Int) (h : 1 ≤ st ∧ st ≤ 255) :
    ∃ r, instr_ (some st) (.str big) (.str small) = .ok r ∧
      ((r = 0 ∧ ∀ j, st.toNat ≤ j → ¬ Occ big small j) ∨
       (st.toNat ≤ r ∧ Occ big small r ∧ ∀ j, st.toNat ≤ j → j < r → ¬ Occ big small j)) := by
  simp only [instr_, passString, bind, Except.bind, pure, Except.pure,
    toInt16_ok st (by unfold InInt; omega), rangeCheck_ok _ _ _ h]
  by_cases hg : big.isEmpty = true ∨ st > big.length
  · rw [if_pos hg]
    refine ⟨0, rfl, Or.inl ⟨rfl, ?_⟩⟩
    intro j hj ho
    rcases hg with hg | hg
    · rw [List.isEmpty_iff] at hg; subst hg
      have := ho.2.1; have := ho.1; simp at *; omega
    · have := ho.2.1; omega
  · rw [if_neg hg]
    have hlen : st.toNat ≤ big.length := by omega
    rw [pySliceFrom_nonneg _ _ (by omega)]
    have e1 : (st - 1).toNat = st.toNat - 1 := by omega
    rw [e1]
    have fs := find_spec small (big.drop (st.toNat - 1))
    cases hf : find small (big.drop (st.toNat - 1)) with
    | none =>
      rw [hf] at fs
      refine ⟨0, rfl, Or.inl ⟨rfl, ?_⟩⟩
      intro j hj ho
      refine fs (j - st.toNat) ?_ ?_
      · rw [List.length_drop]; have := ho.2.1; omega
      · rw [List.drop_drop]
        have e : st.toNat - 1 + (j - st.toNat) = j - 1 := by omega
        rw [e]; exact ho.2.2
    | some k =>
      rw [hf] at fs
      obtain ⟨hk, hp, hmin⟩ := fs
      rw [List.length_drop] at hk
      rw [List.drop_drop] at hp
      have hk' : k < big.length - (st.toNat - 1) := by
        rcases Nat.lt_or_ge k (big.length - (st.toNat - 1)) with h' | h'
        · exact h'
        · exfalso
          have hk0 : 0 < k := by omega
          have : small = [] := by
            have hd : List.drop (st.toNat - 1 + k) big = [] := List.drop_eq_nil_of_le (by omega)
            rw [hd] at hp
            exact List.prefix_nil.mp hp
          subst this
          exact hmin 0 hk0 List.nil_prefix
      refine ⟨st.toNat + k, rfl, Or.inr ⟨by omega, ⟨by omega, by omega, ?_⟩, ?_⟩⟩
      · have e : st.toNat + k - 1 = st.toNat - 1 + k := by omega
        rw [e]; exact hp
      · intro j hj hjr ho
        refine hmin (j - st.toNat) (by omega) ?_
        rw [List.drop_drop]
        have e : st.toNat - 1 + (j - st.toNat) = j - 1 := by omega
        rw [e]; exact ho.2.2

/-- the two-argument form searches from position 1 -/
theorem instr2_spec (big small : V) : instr_ none big small = instr_ (some 1) big small := by
  simp only [instr_, bind, Except.bind, pure, Except.pure,
    toInt16_ok 1 (by unfold InInt; omega), rangeCheck_ok 1 255 1 (by omega)]

/-- INSTR start position: Overflow outside the integer range, Illegal function call outside 1..255 -/
theorem instr_errors (big small : V) (st : Int) :
    (¬ InInt st → instr_ (some st) big small = .error overflow) ∧
    (InInt st → (st < 1 ∨ 255 < st) → instr_ (some st) big small = .error ifc) := by
  simp only [instr_, bind, Except.bind, pure, Except.pure]
  constructor
  · intro h; simp only [toInt16_err _ h]
  · intro h1 h; simp only [toInt16_ok _ h1, rangeCheck_err 1 255 st (by omega)]

/-! ### comparison -/

/-- `String.gt` is the strict lexicographic order on byte lists (core `List` order: first
    differing byte decides, a proper prefix is smaller) -/
theorem strGt_iff : ∀ a b : Bytes, strGt a b = true ↔ b < a
  | [], b => by
    unfold strGt
    constructor
    · intro h; cases h
    · intro h; exact absurd h (List.not_lt_nil _)
  | x :: xs, [] => by
    unfold strGt
    exact ⟨fun _ => List.nil_lt_cons _ _, fun _ => rfl⟩
  | x :: xs, y :: ys => by
    unfold strGt
    rw [List.cons_lt_cons_iff]
    have ih := strGt_iff xs ys
    by_cases h1 : x > y
    · rw [if_pos h1]; exact ⟨fun _ => Or.inl h1, fun _ => rfl⟩
    · rw [if_neg h1]
      by_cases h2 : x < y
      · rw [if_pos h2]
        constructor
        · intro h; cases h
        · intro h; rcases h with h | ⟨h, _⟩ <;> omega
      · rw [if_neg h2, ih]
        have : y = x := by omega
        constructor
        · intro h; exact Or.inr ⟨this, h⟩
        · intro h; rcases h with h | ⟨_, h⟩
          · omega
          · exact h

/-- reference definition of the order, part 1: a proper prefix sorts first -/
theorem prefix_first (a : Bytes) (x : Nat) (t : Bytes) : strGt (a ++ x :: t) a = true := by
  induction a with
  | nil => rfl
  | cons c cs ih => simp only [List.cons_append, strGt, Nat.lt_irrefl, gt_iff_lt, if_false, ih]

/-- reference definition of the order, part 2: the first differing byte decides -/
theorem first_difference (p : Bytes) (x y : Nat) (s t : Bytes) (h : y < x) :
    strGt (p ++ x :: s) (p ++ y :: t) = true ∧ strGt (p ++ y :: t) (p ++ x :: s) = false := by
  induction p with
  | nil =>
    simp only [List.nil_append, strGt, gt_iff_lt]
    rw [if_pos h, if_neg (by omega), if_pos h]
    exact ⟨rfl, rfl⟩
  | cons c cs ih => simp only [List.cons_append, strGt, Nat.lt_irrefl, gt_iff_lt, if_false, ih]; trivial

/-- the six BASIC comparison operators on strings -/
theorem cmpStr_spec (a b : Bytes) :
    (cmpStr .eq a b = true ↔ a = b) ∧ (cmpStr .neq a b = true ↔ a ≠ b) ∧
    (cmpStr .gt a b = true ↔ b < a) ∧ (cmpStr .lt a b = true ↔ a < b) ∧
    (cmpStr .gte a b = true ↔ b ≤ a) ∧ (cmpStr .lte a b = true ↔ a ≤ b) := by
  refine ⟨?_, ?_, ?_, ?_, ?_, ?_⟩
  · simp [cmpStr, strEq]
  · simp [cmpStr, strEq]
  · exact strGt_iff a b
  · exact strGt_iff b a
  · show (!strGt b a) = true ↔ ¬ a < b
    rw [← strGt_iff b a]; cases strGt b a <;> simp
  · show (!strGt a b) = true ↔ ¬ b < a
    rw [← strGt_iff a b]; cases strGt a b <;> simp

/-- exactly one of `<`, `=`, `>` holds -/
theorem cmp_trichotomy : ∀ a b : Bytes,
    (strGt a b = true ∧ a ≠ b ∧ strGt b a = false) ∨
    (strGt a b = false ∧ a = b ∧ strGt b a = false) ∨
    (strGt a b = false ∧ a ≠ b ∧ strGt b a = true)
  | [], [] => Or.inr (Or.inl ⟨rfl, rfl, rfl⟩)
  | [], y :: ys => Or.inr (Or.inr ⟨rfl, by simp, rfl⟩)
  | x :: xs, [] => Or.inl ⟨rfl, by simp, rfl⟩
  | x :: xs, y :: ys => by
    have ih := cmp_trichotomy xs ys
    unfold strGt
    by_cases h1 : x > y
    · rw [if_pos h1, if_neg (by omega), if_pos (by omega)]
      exact Or.inl ⟨rfl, by intro h; injection h; omega, rfl⟩
    · by_cases h2 : x < y
      · rw [if_neg h1, if_pos h2, if_pos (by omega)]
        exact Or.inr (Or.inr ⟨rfl, by intro h; injection h; omega, rfl⟩)
      · have e : x = y := by omega
        subst e
        rw [if_neg h1, if_neg h2, if_neg h1, if_neg h2]
        rcases ih with ⟨p, q, r⟩ | ⟨p, q, r⟩ | ⟨p, q, r⟩
        · exact Or.inl ⟨p, by intro h; injection h with _ h; exact q h, r⟩
        · exact Or.inr (Or.inl ⟨p, by rw [q], r⟩)
        · exact Or.inr (Or.inr ⟨p, by intro h; injection h with _ h; exact q h, r⟩)


/-! ### LSET / RSET -/

/-- LSET: the value truncated to the target length, padded with spaces on the right; the length of
    the target is unchanged -/
theorem lset_spec (t s : Bytes) :
    lset t s false = .ok (s.take t.length ++ List.replicate (t.length - s.length) 32) ∧
    (s.take t.length ++ List.replicate (t.length - s.length) 32).length = t.length := by
  have hl : (s.take t.length ++ List.replicate (t.length - s.length) 32).length = t.length := by
    rw [List.length_append, List.length_take, List.length_replicate]; omega
  refine ⟨?_, hl⟩
  unfold lset
  simp only [Bool.false_eq_true, if_false, ljust]
  rw [pySlice_zero _ _ (by omega)]
  simp only [Int.toNat_natCast, List.length_take]
  have e : t.length - min t.length s.length = t.length - s.length := by omega
  rw [e]
  exact sliceAssign_all _ _ hl

/-- RSET: the value truncated (at the tail) to the target length, padded with spaces on the left -/
theorem rset_spec (t s : Bytes) :
    lset t s true = .ok (List.replicate (t.length - s.length) 32 ++ s.take t.length) ∧
    (List.replicate (t.length - s.length) 32 ++ s.take t.length).length = t.length := by
  have hl : (List.replicate (t.length - s.length) 32 ++ s.take t.length).length = t.length := by
    rw [List.length_append, List.length_take, List.length_replicate]; omega
  refine ⟨?_, hl⟩
  unfold lset
  simp only [if_true, rjust]
  rw [pySlice_zero _ _ (by omega)]
  simp only [Int.toNat_natCast, List.length_take]
  have e : t.length - min t.length s.length = t.length - s.length := by omega
  rw [e]
  exact sliceAssign_all _ _ hl

/-- the statements: Type mismatch for a numeric target or a numeric value, else `String.lset` -/
theorem lsetStmt_spec (right : Bool) :
    (∀ t s, lsetStmt (.str t) (.str s) right = lset t s right) ∧
    (∀ i s, lsetStmt (.num i) s right = .error typeMismatch) ∧
    (∀ t i, lsetStmt (.str t) (.num i) right = .error typeMismatch) :=
  ⟨fun _ _ => rfl, fun _ _ => rfl, fun _ _ => rfl⟩

/-! ### MID$ statement -/

/-- number of bytes the MID$ statement replaces -/
def midCount (t v : Bytes) (st n : Nat) : Nat := min n (min v.length (t.length - (st - 1)))

/-- `String.midset`, source distinct from the target: the window `st .. st+k-1` receives the first
    `k` bytes of the value, everything else is kept; no Python exception can occur -/
theorem midset_diff (t v : Bytes) (st n : Int) (h1 : 1 ≤ st) (hn : 0 ≤ n)
    (h : 0 < n → st ≤ t.length) :
    midset t st n v false =
      .ok (t.take (st.toNat - 1) ++ v.take (midCount t v st.toNat n.toNat)
            ++ t.drop (st.toNat - 1 + midCount t v st.toNat n.toNat)) := by
  unfold midset midCount
  simp only [Bool.not_false, if_true, midNum_eq]
  by_cases hle : min (min n (v.length : Int)) ((t.length : Int) - (st - 1)) ≤ 0
  · -- nothing to copy
    rw [if_pos hle]
    have hk : min n.toNat (min v.length (t.length - (st.toNat - 1))) = 0 := by omega
    rw [hk]
    simp
  · rw [if_neg hle]
    have hnpos : 0 < n := by omega
    have hst := h hnpos
    obtain ⟨k, hkdef, hkeq⟩ : ∃ k : Nat, k = min n.toNat (min v.length (t.length - (st.toNat - 1))) ∧
        min (min n (v.length : Int)) ((t.length : Int) - (st - 1)) = (k : Int) :=
      ⟨_, rfl, by omega⟩
    rw [hkeq, ← hkdef]
    have hk0 : 0 < k := by omega
    unfold sliceAssign
    rw [pyIdx_nonneg _ _ (by omega), pyIdx_nonneg _ _ (by omega), pySlice_zero _ _ (by omega)]
    have e1 : min (st - 1).toNat t.length = st.toNat - 1 := by omega
    have e2 : min (st - 1 + (k : Int)).toNat t.length = st.toNat - 1 + k := by omega
    rw [e1, e2]
    simp only [Int.toNat_natCast, List.length_take]
    have e3 : st.toNat - 1 + k - (st.toNat - 1) = k := by omega
    rw [e3, if_pos (by omega)]


/-- `String.midset` with the target variable itself as the value (`MID$(A$,s,n)=A$`): GW-BASIC's
    left-to-right overlapping copy.  The result `r` has the same length, is unchanged outside the
    window and satisfies `r[s-1+q] = r[q]` inside it, which determines it uniquely. -/
theorem midset_same (t : Bytes) (st n : Int) (h1 : 1 ≤ st) (hn : 0 ≤ n)
    (h : 0 < n → st ≤ t.length) :
    ∃ r, midset t st n t true = .ok r ∧ r.length = t.length ∧
      (∀ p, (p < st.toNat - 1 ∨ st.toNat - 1 + midCount t t st.toNat n.toNat ≤ p) → r[p]? = t[p]?) ∧
      (∀ q, q < midCount t t st.toNat n.toNat → r[st.toNat - 1 + q]? = r[q]?) := by
  unfold midset midCount
  simp only [Bool.not_true, Bool.false_eq_true, if_false, midNum_eq]
  by_cases hle : min (min n (t.length : Int)) ((t.length : Int) - (st - 1)) ≤ 0
  · rw [if_pos hle]
    have hk : min n.toNat (min t.length (t.length - (st.toNat - 1))) = 0 := by omega
    rw [hk]
    exact ⟨t, rfl, rfl, fun _ _ => rfl, fun q hq => absurd hq (Nat.not_lt_zero _)⟩
  · rw [if_neg hle]
    have hnpos : 0 < n := by omega
    have hst := h hnpos
    rw [if_neg (by omega)]
    have hk : (min (min n (t.length : Int)) ((t.length : Int) - (st - 1))).toNat
        = min n.toNat (min t.length (t.length - (st.toNat - 1))) := by omega
    rw [hk]
    have e : (st - 1).toNat = st.toNat - 1 := by omega
    rw [e]
    obtain ⟨r, hr, hlen, hout, hrec⟩ := copyLoop_spec (st.toNat - 1)
      (min n.toNat (min t.length (t.length - (st.toNat - 1)))) t 0 (by omega)
    refine ⟨r, hr, hlen, ?_, ?_⟩
    · intro p hp; exact hout p (by omega)
    · intro q hq
      have := hrec q hq
      simpa using this

/-- the MID$ statement (`DataSegment.mid_`), value distinct from the target: errors exactly on the
    out-of-range set, else the window is written and the length kept -/
theorem midStmt_spec (t v : Bytes) (st n : Int) :
    (¬ InInt st ∨ ¬ InInt n → midStmt t (.num st) (some (.num n)) (some (.str v)) = .error overflow) ∧
    (InInt st → InInt n → (n < 0 ∨ 255 < n ∨ st < 1 ∨ 255 < st ∨ (0 < n ∧ (t.length : Int) < st)) →
      midStmt t (.num st) (some (.num n)) (some (.str v)) = .error ifc) ∧
    (0 ≤ n ∧ n ≤ 255 → 1 ≤ st ∧ st ≤ 255 → (0 < n → st ≤ t.length) →
      midStmt t (.num st) (some (.num n)) (some (.str v)) =
        .ok (t.take (st.toNat - 1) ++ v.take (midCount t v st.toNat n.toNat)
              ++ t.drop (st.toNat - 1 + midCount t v st.toNat n.toNat))) := by
  simp only [midStmt, passString, toIntV, bind, Except.bind, pure, Except.pure]
  refine ⟨?_, ?_, ?_⟩
  · intro h
    by_cases h1 : InInt st
    · simp only [toInt16_ok _ h1, toInt16_err _ (h.resolve_left (fun na => na h1))]
    · simp only [toInt16_err _ h1]
  · intro h1 h2 h
    simp only [toInt16_ok _ h1, toInt16_ok _ h2]
    by_cases h3 : 0 ≤ n ∧ n ≤ 255
    · simp only [rangeCheck_ok _ _ _ h3]
      by_cases h4 : 1 ≤ st ∧ st ≤ 255
      · simp only [rangeCheck_ok _ _ _ h4]
        have h5 : 0 < n ∧ (t.length : Int) < st := by omega
        simp only [gt_iff_lt, h5.1, if_true, rangeCheck_err 1 (t.length : Int) st (by omega)]
      · simp only [rangeCheck_err _ _ _ h4]
    · simp only [rangeCheck_err _ _ _ h3]
  · intro h1 h2 h3
    simp only [toInt16_ok n (by unfold InInt; omega), toInt16_ok st (by unfold InInt; omega),
      rangeCheck_ok _ _ _ h1, rangeCheck_ok _ _ _ h2]
    by_cases h4 : n > 0
    · simp only [h4, if_true, rangeCheck_ok 1 (t.length : Int) st ⟨h2.1, h3 h4⟩]
      exact midset_diff t v st n h2.1 h1.1 h3
    · simp only [h4, if_false]
      exact midset_diff t v st n h2.1 h1.1 h3

/-- the result of a successful MID$ statement has the length of the target -/
theorem midStmt_length (t v : Bytes) (st n : Nat) :
    (t.take (st - 1) ++ v.take (midCount t v st n) ++ t.drop (st - 1 + midCount t v st n)).length = t.length := by
  unfold midCount
  simp only [List.length_append, List.length_take, List.length_drop]
  omega

/-- omitted length = 255 -/
theorem midStmt_default (t : Bytes) (st : V) (v : Option V) :
    midStmt t st none v = midStmt t st (some (.num 255)) v := by
  simp only [midStmt, toIntV, bind, Except.bind, pure, Except.pure, toInt16_ok 255 (by unfold InInt; omega)]

/-- MID$ statement with the target itself as value: same checks, overlapping copy -/
theorem midStmt_same_spec (t : Bytes) (st n : Int)
    (h1 : 0 ≤ n ∧ n ≤ 255) (h2 : 1 ≤ st ∧ st ≤ 255) (h3 : 0 < n → st ≤ t.length) :
    midStmt t (.num st) (some (.num n)) none = midset t st n t true := by
  simp only [midStmt, toIntV, bind, Except.bind, pure, Except.pure,
    toInt16_ok n (by unfold InInt; omega), toInt16_ok st (by unfold InInt; omega),
    rangeCheck_ok _ _ _ h1, rangeCheck_ok _ _ _ h2]
  by_cases h4 : n > 0
  · simp only [h4, if_true, rangeCheck_ok 1 (t.length : Int) st ⟨h2.1, h3 h4⟩]
  · simp only [h4, if_false]


/-! ### Type mismatch -/

/-- a value of the wrong type is a Type mismatch (error 13) in every function and statement -/
theorem type_mismatch_spec :
    (∀ i n, left_ (.num i) n = .error typeMismatch) ∧
    (∀ s t, left_ (.str s) (.str t) = .error typeMismatch) ∧
    (∀ i n, right_ (.num i) n = .error typeMismatch) ∧
    (∀ s t, right_ (.str s) (.str t) = .error typeMismatch) ∧
    (∀ s t n, mid_ s (.str t) n = .error typeMismatch) ∧
    (∀ i st n, InInt st → mid_ (.num i) (.num st) n = .error typeMismatch) ∧
    (∀ st i s, 1 ≤ st ∧ st ≤ 255 → instr_ (some st) (.num i) s = .error typeMismatch) ∧
    (∀ st b i, 1 ≤ st ∧ st ≤ 255 → instr_ (some st) (.str b) (.num i) = .error typeMismatch) ∧
    (∀ s c, string_ (.str s) c = .error typeMismatch) ∧
    (∀ s, space_ (.str s) = .error typeMismatch) ∧
    (∀ s, chr_ (.str s) = .error typeMismatch) ∧
    (∀ i, len_ (.num i) = .error typeMismatch) ∧
    (∀ i, asc_ (.num i) = .error typeMismatch) ∧
    (∀ s i, add (.str s) (.num i) = some (.error typeMismatch)) ∧
    (∀ s i, add (.num i) (.str s) = some (.error typeMismatch)) ∧
    (∀ op s i, cmp op (.str s) (.num i) = some (.error typeMismatch)) ∧
    (∀ op s i, cmp op (.num i) (.str s) = some (.error typeMismatch)) ∧
    (∀ t s n v, midStmt t (.str s) n v = .error typeMismatch) := by
  refine ⟨fun _ _ => rfl, fun _ _ => rfl, fun _ _ => rfl, fun _ _ => rfl, fun _ _ _ => rfl, ?_, ?_, ?_,
    fun _ _ => rfl, fun _ => rfl, fun _ => rfl, fun _ => rfl, fun _ => rfl, fun _ _ => rfl, fun _ _ => rfl,
    fun _ _ _ => rfl, fun _ _ _ => rfl, fun _ _ _ _ => rfl⟩
  · intro i st n h
    simp only [mid_, toIntV, passString, bind, Except.bind, toInt16_ok _ h]
  · intro st i s h
    simp only [instr_, passString, bind, Except.bind, pure, Except.pure,
      toInt16_ok st (by unfold InInt; omega), rangeCheck_ok _ _ _ h]
  · intro st b i h
    simp only [instr_, passString, bind, Except.bind, pure, Except.pure,
      toInt16_ok st (by unfold InInt; omega), rangeCheck_ok _ _ _ h]

/-- comparison and concatenation of two strings never fail for a type reason -/
theorem cmp_str (op : Cmp) (a b : Bytes) : cmp op (.str a) (.str b) = some (.ok (cmpStr op a b)) := rfl

/-! ### defects of the code before the fixes (models of the old code) -/

/-- old `STRING$(n, "")` returned an empty string instead of raising Illegal function call -/
theorem stringOld_counterexample :
    stringOld_ (.num 3) (.str []) = .ok [] ∧ string_ (.num 3) (.str []) = .error ifc := by
  constructor <;> decide

/-- old `MID$(A$, 0, 0) = "X"` (position outside 1..255, length 0) was accepted silently -/
theorem midStmtOld_counterexample :
    midStmtOld [65, 66] (.num 0) (some (.num 0)) (some (.str [88])) = .ok [65, 66] ∧
    midStmtOld [65, 66] (.num 300) (some (.num 0)) (some (.str [88])) = .ok [65, 66] ∧
    midStmt [65, 66] (.num 0) (some (.num 0)) (some (.str [88])) = .error ifc ∧
    midStmt [65, 66] (.num 300) (some (.num 0)) (some (.str [88])) = .error ifc := by
  refine ⟨?_, ?_, ?_, ?_⟩ <;> decide

/-- old `LEFT$(A$, 0)` and old `INSTR` (not found) left their arguments registered as
    garbage-collection roots: every such call grows `temp_values` -/
theorem tempsOld_counterexample :
    (leftOldT (.str [65]) (.num 0) 0).2 = 1 ∧
    (leftOldT (.str [65]) (.num (-1)) 0).2 = 1 ∧
    (instrOldT none (.str [65]) (.str [66]) 0).2 = 2 := by
  refine ⟨?_, ?_, ?_⟩ <;> decide

/-- the fixed functions release what they registered on every path, and compute the same values -/
theorem temps_balanced (s n : V) (start : Option Int) (big small : V) (c : Nat) :
    (leftT s n c).2 = c ∧ (leftT s n c).1 = left_ s n ∧
    (instrT start big small c).2 = c ∧ (instrT start big small c).1 = instr_ start big small :=
  ⟨by simp [leftT], rfl, rfl, rfl⟩

/-- the old code computed the same value as the fixed code (only the bookkeeping differed) -/
theorem leftOldT_value (s n : V) (c : Nat) : (leftOldT s n c).1 = left_ s n := by
  unfold leftOldT left_
  simp only [bind, Except.bind, pure, Except.pure]
  cases passString s with
  | error e => rfl
  | ok sb =>
    simp only
    cases toIntV n with
    | error e => rfl
    | ok stop =>
      simp only
      by_cases h0 : stop = 0
      · simp only [h0, if_true]
      · simp only [h0, if_false]
        cases rangeCheck 0 255 stop with
        | error e => rfl
        | ok u =>
          simp only
          cases store (pySlice sb 0 stop) <;> rfl

/-! ### non-vacuity: the hypotheses used above are satisfiable and the functions do produce values -/

example : left_ (.str [1, 2, 3]) (.num 2) = .ok [1, 2] := by decide
example : right_ (.str [1, 2, 3]) (.num 2) = .ok [2, 3] := by decide
example : mid_ (.str [1, 2, 3, 4]) (.num 2) (some (.num 2)) = .ok [2, 3] := by decide
example : mid_ (.str [1, 2, 3, 4]) (.num 5) none = .ok [] := by decide
example : instr_ (some 2) (.str [1, 2, 1, 2]) (.str [1, 2]) = .ok 3 := by decide
example : instr_ (some 4) (.str [1, 2, 3]) (.str []) = .ok 0 := by decide
example : instr_ (some 3) (.str [1, 2, 3]) (.str []) = .ok 3 := by decide
example : Occ [1, 2, 1, 2] [1, 2] 3 := ⟨by decide, by decide, ⟨[], rfl⟩⟩
example : string_ (.num 3) (.str [65, 66]) = .ok [65, 65, 65] := by decide
example : add (.str (List.replicate 255 1)) (.str [2]) = some (.error stringTooLong) := by
  rw [add_spec, List.length_replicate, if_pos (by decide)]
example : strGt [1, 2, 3] [1, 2] = true ∧ strGt [1, 128] [1, 127, 5] = true := by decide
example : lset [1, 2, 3, 4] [9] true = .ok [32, 32, 32, 9] := by decide
/-- `A$="12345678": MID$(A$,4)=A$` gives `12312312` (overlap), a distinct source gives `12312345` -/
example : midStmt [49, 50, 51, 52, 53, 54, 55, 56] (.num 4) none none
    = .ok [49, 50, 51, 49, 50, 51, 49, 50] := by decide
example : midStmt [49, 50, 51, 52, 53, 54, 55, 56] (.num 4) none (some (.str [49, 50, 51, 52, 53, 54, 55, 56]))
    = .ok [49, 50, 51, 49, 50, 51, 52, 53] := by decide
example : midStmt [1, 2, 3] (.num 4) (some (.num 0)) (some (.str [9])) = .ok [1, 2, 3] := by decide

/-! ### overlapping FIELD variables -/

theorem fieldGet_length (buf : Bytes) (off len : Nat) (h : off + len ≤ buf.length) :
    (fieldGet buf off len).length = len := by
  unfold fieldGet; rw [List.length_take, List.length_drop]; omega

/-- writing a window of the right size keeps the record length and touches only the window -/
theorem fieldPut_spec (buf : Bytes) (off : Nat) (new : Bytes) (h : off + new.length ≤ buf.length) :
    (fieldPut buf off new).length = buf.length ∧
    fieldGet (fieldPut buf off new) off new.length = new ∧
    (fieldPut buf off new).take off = buf.take off ∧
    (fieldPut buf off new).drop (off + new.length) = buf.drop (off + new.length) := by
  have hl : (buf.take off).length = off := by rw [List.length_take]; omega
  unfold fieldPut fieldGet
  refine ⟨?_, ?_, ?_, ?_⟩
  · simp only [List.length_append, List.length_take, List.length_drop]; omega
  · rw [List.append_assoc, List.drop_left' hl, List.take_left' rfl]
  · rw [List.append_assoc, List.take_left' hl]
  · have h2 : (buf.take off ++ new).length = off + new.length := by rw [List.length_append, hl]
    rw [List.drop_left' h2]

/-- LSET / RSET between FIELD variables of one record buffer, whatever their overlap: the target
    window receives the reference result computed from the source VALUE BEFORE the statement
    (truncate to the target length, pad with spaces), the rest of the record is unchanged -/
theorem lsetField_spec (buf : Bytes) (toff tlen soff slen : Nat) (h : toff + tlen ≤ buf.length) :
    lsetField buf toff tlen soff slen false =
      .ok (buf.take toff
            ++ ((fieldGet buf soff slen).take tlen ++ List.replicate (tlen - (fieldGet buf soff slen).length) 32)
            ++ buf.drop (toff + tlen)) ∧
    lsetField buf toff tlen soff slen true =
      .ok (buf.take toff
            ++ (List.replicate (tlen - (fieldGet buf soff slen).length) 32 ++ (fieldGet buf soff slen).take tlen)
            ++ buf.drop (toff + tlen)) := by
  have ht := fieldGet_length buf toff tlen h
  constructor
  · have := lset_spec (fieldGet buf toff tlen) (fieldGet buf soff slen)
    rw [ht] at this
    simp only [lsetField, bind, Except.bind, pure, Except.pure, this.1, fieldPut, this.2]
  · have := rset_spec (fieldGet buf toff tlen) (fieldGet buf soff slen)
    rw [ht] at this
    simp only [lsetField, bind, Except.bind, pure, Except.pure, this.1, fieldPut, this.2]

/-- consequently the record keeps its length and the target variable its length -/
theorem lsetField_length (buf : Bytes) (toff tlen soff slen : Nat) (right : Bool)
    (h : toff + tlen ≤ buf.length) :
    ∃ r, lsetField buf toff tlen soff slen right = .ok r ∧ r.length = buf.length ∧
      (fieldGet r toff tlen).length = tlen := by
  have hs := lsetField_spec buf toff tlen soff slen h
  cases right
  · refine ⟨_, hs.1, ?_⟩
    have hl : (buf.take toff ++ ((fieldGet buf soff slen).take tlen ++
        List.replicate (tlen - (fieldGet buf soff slen).length) 32) ++ buf.drop (toff + tlen)).length = buf.length := by
      simp only [List.length_append, List.length_take, List.length_drop, List.length_replicate]; omega
    exact ⟨hl, fieldGet_length _ _ _ (by rw [hl]; exact h)⟩
  · refine ⟨_, hs.2, ?_⟩
    have hl : (buf.take toff ++ (List.replicate (tlen - (fieldGet buf soff slen).length) 32 ++
        (fieldGet buf soff slen).take tlen) ++ buf.drop (toff + tlen)).length = buf.length := by
      simp only [List.length_append, List.length_take, List.length_drop, List.length_replicate]; omega
    exact ⟨hl, fieldGet_length _ _ _ (by rw [hl]; exact h)⟩

/-- MID$ statement between FIELD variables with different extents (any overlap): the window of the
    target receives the first bytes of the source VALUE before the statement -/
theorem midsetField_spec (buf : Bytes) (toff tlen soff slen : Nat) (st n : Int)
    (h : toff + tlen ≤ buf.length) (hd : ¬ (soff = toff ∧ slen = tlen))
    (h1 : 0 ≤ n ∧ n ≤ 255) (h2 : 1 ≤ st ∧ st ≤ 255) (h3 : 0 < n → st ≤ tlen) :
    midsetField buf toff tlen soff slen (.num st) (some (.num n)) =
      .ok (buf.take toff
        ++ ((fieldGet buf toff tlen).take (st.toNat - 1)
            ++ (fieldGet buf soff slen).take (midCount (fieldGet buf toff tlen) (fieldGet buf soff slen) st.toNat n.toNat)
            ++ (fieldGet buf toff tlen).drop (st.toNat - 1 +
                  midCount (fieldGet buf toff tlen) (fieldGet buf soff slen) st.toNat n.toNat))
        ++ buf.drop (toff + tlen)) := by
  have ht := fieldGet_length buf toff tlen h
  have hne : (soff == toff && slen == tlen) = false := by
    cases h' : (soff == toff && slen == tlen)
    · rfl
    · exfalso; apply hd; simpa using h'
  have hm := (midStmt_spec (fieldGet buf toff tlen) (fieldGet buf soff slen) st n).2.2 h1 h2
    (by rw [ht]; exact_mod_cast h3)
  have hlen := midStmt_length (fieldGet buf toff tlen) (fieldGet buf soff slen) st.toNat n.toNat
  rw [ht] at hlen
  simp only [midsetField, hne, Bool.false_eq_true, if_false, bind, Except.bind, pure, Except.pure, hm, fieldPut, hlen]

/-- an implementation that writes the padding before it reads a live source gives a different
    record as soon as the source lies in the padded part of the target: `LSET R$=B$` with
    `R$ = (0,8)`, `B$ = (4,2)` on `abcdefgh` must give `ef      `, not spaces -/
theorem lsetFieldLive_differs :
    lsetField [97, 98, 99, 100, 101, 102, 103, 104] 0 8 4 2 false
      = .ok [101, 102, 32, 32, 32, 32, 32, 32] ∧
    lsetFieldLive [97, 98, 99, 100, 101, 102, 103, 104] 0 8 4 2 false
      = [32, 32, 32, 32, 32, 32, 32, 32] := by
  constructor <;> decide

example : midsetField [97, 98, 99, 100, 101, 102, 103, 104] 0 8 0 4 (.num 3) none
    = .ok [97, 98, 97, 98, 99, 100, 103, 104] := by decide
example : midsetField [97, 98, 99, 100] 0 4 0 4 (.num 2) none = .ok [97, 97, 97, 97] := by decide

end PcbV.C09
