"""C29 — Files written to a cassette image (CAS / WAV) read back intact."""
import binascii
import io
import os
import re
import shutil
import tempfile

from vlib import basic

LEVEL = 'proof'
RULE = ('one case = one tape history: 1..4 files (data via PRINT#/WRITE#, ASCII / tokenised / protected programs via '
        'SAVE, memory images via BSAVE) with random names and content lengths around every multiple of the 255-byte '
        'record payload and of the 256-byte block (quick: boundary set; thorough: every length 0..3*255+2 for each '
        'file kind), written in one or two Sessions (the second appends after playing to the end), the image is '
        'reopened in fresh Sessions and read with INPUT$ / LINE INPUT# / LOAD / BLOAD in several orders, including '
        'searches that fail (name not on the tape, file behind the head) followed by further reads, data files '
        'closed after a partial read (k bytes or lines, k from 0 to the whole file) followed by the next / another '
        'file, reads after writes in the same Session, and cassette statements (OPEN of a second file in each mode, '
        'SAVE / SAVE,A / SAVE,P / BSAVE / LOAD / MERGE / BLOAD) that must be refused while a data file is open for '
        'output or for input, followed by more I/O on the open file; '
        'non-trivial = at least one file has a non-empty content')
EXPLANATION = ('theorems (PcbV.Props.C29): text and binary record framing round trip for every content, search finds the '
               'first matching file, skips the others, returns exactly its bytes and leaves the tape at the next '
               'header; correspondence: the same tape history through the Lean model (record dump of the image + '
               'messages + bytes per file); oracle: bytes/messages expected from the statement, and an independent '
               'decoder of the documented IBM cassette format applied to the CAS image')
TRUSTED_BASE = ['model PcbV.Model.Cassette is a hand transcription of cassette.py at record level',
                'the CAS bit-stream decoder and CRC in props/c29.py (independent of cassette.py)']
ASSUMPTIONS = ['bit level abstracted: leader/sync/trailer delimit records, CAS bit packing is the identity on bytes, '
               'the CRC of a block written by _write_block verifies on reading (CRC is a parameter of the model)',
               'the WAV pulse channel returns the bits written (validated on real WAV images, not proved)',
               'text files are read through TextFileBase, which ends reading at 0x1A by design: generated text '
               'contents do not contain 0x1A',
               'only appending at the end of the tape is modelled (no overwriting in the middle of a tape)']

TOKENS = {0: 'D', 1: 'M', 0x20: 'P', 0xa0: 'P', 0x40: 'A', 0x80: 'B'}
READ_TYPES = {'D': b'D', 'A': b'ABP', 'B': b'ABP', 'P': b'ABP', 'M': b'M'}
MISSING_NAME = b'~nope~'
REFUSED_NAME = b'~busy~'
# statement -> what it asks of the tape (open for output of a type / search for types)
REFUSED = {
    'openo': (b'OPEN M$ FOR OUTPUT AS 2', ('ow', 'D')),
    'opena': (b'OPEN M$ FOR APPEND AS 2', ('ow', 'D')),
    'openi': (b'OPEN M$ FOR INPUT AS 2', ('or', b'D')),
    'save': (b'SAVE M$', ('ow', 'B')),
    'savea': (b'SAVE M$,A', ('ow', 'A')),
    'savep': (b'SAVE M$,P', ('ow', 'P')),
    'bsave': (b'BSAVE M$,0,16', ('ow', 'M')),
    'load': (b'LOAD M$', ('or', b'ABP')),
    'merge': (b'MERGE M$', ('or', b'A')),
    'bload': (b'BLOAD M$', ('or', b'M')),
}
REFUSED_KINDS = sorted(REFUSED)
VIDEO_SEG = 0xb800
# text page 1 (not the visible page: console output never lands there)
SAVE_OFFS = 4096
LOAD_OFFS = 4096 + 2048


class Malformed(Exception):
    pass


# --------------------------------------------------------------------------------------------------
# independent decoder of a CAS image (documented format: leader of 1-bits, sync bit 0, sync byte 0x16,
# 256-byte blocks each followed by a big-endian CRC-16/CCITT (init ffff, inverted), trailer 30 x 1, 0)

LEADER = re.compile('1{512,}0' + '00010110')
TRAILER = '1' * 30 + '0'


def crc16(data):
    return binascii.crc_hqx(data, 0xffff) ^ 0xffff


def parse_cas(path):
    """-> list of records, each a list of 256-byte blocks"""
    raw = open(path, 'rb').read()
    bits = ''.join(format(b, '08b') for b in bytearray(raw))
    pos = 0
    recs = []
    while True:
        m = LEADER.search(bits, pos)
        if not m:
            break
        pos = m.end()
        blocks = []
        while True:
            if bits.startswith(TRAILER, pos):
                rest = bits[pos + 31:pos + 31 + 600]
                if not rest.strip('0') or rest.startswith('1' * 512):
                    pos += 31
                    break
            chunk = bits[pos:pos + 258 * 8]
            if len(chunk) < 258 * 8:
                raise Malformed('truncated block at bit %d' % pos)
            data = int(chunk, 2).to_bytes(258, 'big')
            if crc16(data[:256]) != data[256] * 256 + data[257]:
                raise Malformed('CRC mismatch in block at bit %d' % pos)
            blocks.append(data[:256])
            pos += 258 * 8
        recs.append(blocks)
    return recs


def decode_files(recs):
    """documented layout: header record, then (text) 1-block records with count byte, 0 = 255 valid bytes, else
    count-1 valid bytes and last; (binary) one record holding `length` bytes. -> [(trunk, type, content, length)]"""
    files = []
    i = 0
    while i < len(recs):
        hdr = recs[i]
        i += 1
        if len(hdr) != 1 or hdr[0][0] != 0xa5:
            raise Malformed('record %d is not a header' % (i - 1))
        h = hdr[0]
        trunk, tok, length = h[1:9], h[9], h[10] + 256 * h[11]
        if tok not in TOKENS:
            raise Malformed('unknown type token %d' % tok)
        typ = TOKENS[tok]
        if typ in 'DA':
            content = b''
            while True:
                if i >= len(recs):
                    raise Malformed('text file %r has no last record' % trunk)
                r = recs[i]
                i += 1
                if len(r) != 1:
                    raise Malformed('text record with %d blocks' % len(r))
                n = r[0][0]
                if n == 0:
                    content += r[0][1:]
                else:
                    content += r[0][1:n]
                    break
        else:
            if i >= len(recs):
                raise Malformed('binary file %r has no data record' % trunk)
            r = recs[i]
            i += 1
            if len(r) != (length + 255) // 256:
                raise Malformed('binary record of %d blocks for length %d' % (len(r), length))
            content = b''.join(r)[:length]
        files.append((trunk, typ, content))
    return files


def dump_tape(recs):
    if not recs:
        return 't:-'
    return 't:' + '/'.join('%dx%s' % (len(r), hx(b''.join(r))) for r in recs)


def hx(b):
    return binascii.hexlify(bytes(b)).decode() or '-'


def unhx(s):
    return b'' if s == '-' else binascii.unhexlify(s)


# --------------------------------------------------------------------------------------------------
# file specifications

NAME_CHARS = (b'ABCDEFGHIJKLMNOPQRSTUVWXYZabcdefghijklmnopqrstuvwxyz0123456789'
              b' .-_$#&!()' + bytes([0x80, 0xa5, 0xe1, 0xff, 0x22, 0x3a, 0x2c]))
REM_CHARS = b'ABCDEFGHIJKLMNOPQRSTUVWXYZabcdefghijklmnopqrstuvwxyz0123456789.,;-+*/()'


def trunk_of(name):
    return name[:8].ljust(8)


def gen_name(rng, used):
    for _ in range(50):
        k = rng.choice([0, 1, 1, 2, 3, 4, 5, 6, 7, 8, 8, 8])
        name = bytes(rng.choice(NAME_CHARS) for _ in range(k))
        if rng.random() < 0.15 and k < 8:
            name += b' ' * rng.randint(1, 8 - k)
        if rng.random() < 0.1 and k:
            name = b' ' + name[1:]
        key = trunk_of(name).rstrip()
        if key not in used or rng.random() < 0.04:
            used.add(key)
            return name
    return b'N%d' % len(used)


def rand_bytes(rng, n, kind):
    if kind == 'ff':
        return b'\xff' * n
    if kind == 'zero':
        return b'\0' * n
    if kind == 'a5':
        return bytes([0xa5]) * n
    if kind == 'text':
        return bytes(rng.choice(b'abcdefghijklmnopqrstuvwxyz ABCDEFG0123456789,"') for _ in range(n))
    out = bytearray(rng.getrandbits(8) for _ in range(n))
    return bytes(out)


def no_eof(b):
    return b.replace(b'\x1a', b'\x1b')


def gen_data_pieces(rng, length):
    """pieces (kind, payload) whose written form has exactly `length` bytes; also whether it is line structured"""
    style = rng.choice(['raw', 'raw', 'mixed', 'lines'])
    fill = rng.choice(['any', 'any', 'text', 'ff', 'zero', 'a5'])
    pieces = []
    left = length
    if style == 'lines':
        # complete lines only: PRINT#1,A$ / WRITE#1,A$
        while left > 0:
            if left == 1:
                pieces.append(('line', b''))
                left -= 1
                continue
            kind = 'write' if left >= 3 and rng.random() < 0.3 else 'line'
            over = 3 if kind == 'write' else 1
            room = min(left - over, 200)
            n = rng.randint(0, room)
            # do not leave an impossible remainder
            if left - over - n < 0:
                n = left - over
            payload = no_eof(rand_bytes(rng, n, 'text' if kind == 'write' else fill)).replace(b'\r', b'\n')
            if kind == 'write':
                payload = payload.replace(b'"', b"'")
            pieces.append((kind, payload))
            left -= n + over
        return pieces, True
    while left > 0:
        kind = 'raw'
        if style == 'mixed' and left >= 4 and rng.random() < 0.4:
            kind = rng.choice(['line', 'write'])
        over = {'raw': 0, 'line': 1, 'write': 3}[kind]
        n = min(left - over, rng.choice([1, 2, 7, 100, 200, 254, 255, 255, rng.randint(1, 255)]))
        payload = no_eof(rand_bytes(rng, n, 'text' if kind == 'write' else fill))
        if kind == 'write':
            payload = payload.replace(b'"', b"'")
        pieces.append((kind, payload))
        left -= n + over
    return pieces, False


def data_content(pieces):
    out = b''
    for kind, payload in pieces:
        if kind == 'raw':
            out += payload
        elif kind == 'line':
            out += payload + b'\r'
        else:
            out += b'"' + payload + b'"\r'
    return out


def gen_program(rng, target, ascii_listing, fixed):
    """REM lines "<k> REM<tail>", tail = b'' or b' ' + text.  Cost of a line: ASCII listing len(str(k)) + 5 + len(tail)
    (text + CR), tokenised 6 + len(tail) (pointer, number, REM token, NUL); `fixed` = bytes that are always there."""
    lines = []
    left = target - fixed
    k = 0
    while left > 0:
        k += 1
        mincost = len(str(k)) + 5 if ascii_listing else 6
        nextmin = len(str(k + 1)) + 5 if ascii_listing else 6
        if left < mincost:
            break
        cands = set([mincost, mincost + 2, mincost + 34, mincost + 114, left, left - nextmin,
                     rng.randint(mincost, mincost + 200)])
        cands = sorted(c for c in cands if (c == mincost or mincost + 2 <= c <= mincost + 200) and c <= left
                       and (left == c or left - c >= nextmin))
        cost = rng.choice(cands) if cands else mincost
        tail_len = cost - mincost
        tail = b'' if tail_len == 0 else b' ' + bytes(rng.choice(REM_CHARS) for _ in range(tail_len - 1))
        lines.append(b'%d REM%s' % (k, tail))
        left -= cost
    return lines


def make_file(rng, typ, length, used):
    f = {'name': hx(gen_name(rng, used)), 'type': typ, 'target': length}
    if typ == 'D':
        pieces, lined = gen_data_pieces(rng, length)
        f['pieces'] = [[k, hx(p)] for k, p in pieces]
        f['read'] = 'lineinput' if lined and rng.random() < 0.7 else 'input$'
        f['chunk'] = rng.choice([255, 255, 1, 7, 100, 254]) if length <= 300 else rng.choice([255, 255, 100, 254])
        # cassette statements that are refused while this file is open (for output / for input)
        if rng.random() < 0.3:
            f['refused'] = sorted([rng.randint(0, len(pieces)), rng.choice(REFUSED_KINDS)]
                                  for _ in range(rng.randint(1, 2)))
        if f['read'] == 'input$' and length and rng.random() < 0.3:
            nchunks = (length + f['chunk'] - 1) // f['chunk']
            f['refused_read'] = sorted([rng.randrange(min(nchunks, 4)), rng.choice(REFUSED_KINDS)]
                                       for _ in range(rng.randint(1, 2)))
    elif typ == 'A':
        # listing: "<k> REM<tail>" + CR  -> cost = len(str(k)) + 4 + len(tail) + 1
        f['lines'] = [hx(l) for l in gen_program(rng, length, True, 0)]
    elif typ in 'BP':
        # tokenised: ptr(2) num(2) REM-token(1) tail NUL(1); two NULs at the end
        f['lines'] = [hx(l) for l in gen_program(rng, length, False, 2)]
    else:
        f['content'] = hx(rand_bytes(rng, length, rng.choice(['any', 'any', 'ff', 'a5', 'zero'])))
    return f


# --------------------------------------------------------------------------------------------------
# driving the real interpreter

class Tape(object):
    """One tape image and the Sessions that use it."""

    def __init__(self, ctx, spec, workdir):
        self.ctx = ctx
        self.spec = spec
        self.fmt = spec['fmt']
        self.path = os.path.join(workdir, 'tape.' + self.fmt)
        self.session = None
        self.ops = []          # model protocol
        self.outs = []         # implementation replies, same vocabulary
        self.written = []      # what the statement says is on the tape: (trunk, type, content)
        self.problems = []     # oracle verdicts: (key suffix, text)

    def open_session(self):
        proto = 'CAS:' if self.fmt == 'cas' else 'WAV:'
        self.session = basic.new_session(devices={'CAS1': proto + self.path})
        self.session.__enter__()
        self.last = (0, 0, 0)
        self.pos = 0           # index of the file whose header is next under the head

    def close_session(self):
        if self.session is not None:
            self.session.__exit__(None, None, None)
            self.session = None

    def ex(self, text):
        return self.session.execute(text)

    def setname(self, name):
        self.session.set_variable('N$', b'CAS1:' + name)

    # ---- memory set-up / observation for BSAVE and BLOAD (video page 1)

    def poke_block(self, offs, content):
        try:
            self.session._impl.all_memory._set_memory_block(VIDEO_SEG * 16 + offs, bytearray(content))
        except AttributeError:
            for i in range(0, len(content), 255):
                self.session.set_variable('A$', content[i:i + 255])
                self.ex(b'FOR I%%=1 TO LEN(A$):POKE %d+I%%,ASC(MID$(A$,I%%,1)):NEXT' % (offs + i - 1))

    def peek_block(self, offs, n):
        try:
            return bytes(bytearray(self.session._impl.all_memory._get_memory_block(VIDEO_SEG * 16 + offs, n)))
        except AttributeError:
            data = b''
            for i in range(0, n, 200):
                k = min(200, n - i)
                self.ex(b'A$="":FOR I%%=0 TO %d:A$=A$+CHR$(PEEK(%d+I%%)):NEXT' % (k - 1, offs + i))
                data += self.session.get_variable('A$')
            return data

    # ---- statements that must be refused while a cassette file is open

    def refuse(self, kind, where):
        """Issue one cassette statement that has to fail with File already open; returns (model op, reply word)."""
        stmt, op = REFUSED[kind]
        self.session.set_variable('M$', b'CAS1:' + REFUSED_NAME)
        out = self.ex(stmt)
        _, err = parse_msgs(out)
        self.ctx.count('refused:%s:%s' % (where, kind))
        if err != 55:
            self.problems.append(('refused:%s' % kind, '%s while a cassette file is open for %s: expected File already '
                                  'open, got %r' % (stmt.decode(), where, out)))
        if op[0] == 'ow':
            return 'ow,%s,%d,0,0,0' % (hx(REFUSED_NAME), ord(op[1])), ('e%s' % err if err else 'ow')
        return 'or,%s,%s' % (hx(REFUSED_NAME), hx(op[1])), 'or:' + (',e%s' % err if err else '')

    # ---- writing

    def write_file(self, f):
        s = self.session
        name = unhx(f['name'])
        typ = f['type']
        self.setname(name)
        imp = s._impl
        if typ == 'D':
            content = data_content([(k, unhx(p)) for k, p in f['pieces']])
            out = self.ex(b'OPEN N$ FOR OUTPUT AS 1')
            refused = []
            todo = f.get('refused', [])
            for j, (kind, payload) in enumerate(f['pieces'] + [['end', '-']]):
                # statements refused while this file is open for output; it must not notice
                for at, rk in todo:
                    if at == j or (kind == 'end' and at > j):
                        refused.append(self.refuse(rk, 'output'))
                if kind == 'end':
                    break
                s.set_variable('A$', unhx(payload))
                out += self.ex({'raw': b'PRINT#1,A$;', 'line': b'PRINT#1,A$', 'write': b'WRITE#1,A$'}[kind])
            out += self.ex(b'CLOSE 1')
            seg, offs, length = self.last
            payload = content
        elif typ in 'ABP':
            out = self.ex(b'NEW')
            for l in f['lines']:
                out += self.ex(unhx(l))
            # NEW and entering lines clear the variables
            self.setname(name)
            listing = self.ex(b'LIST')
            expect_listing = b''.join(unhx(l) + b'\r\n' for l in f['lines'])
            if listing != expect_listing:
                raise RuntimeError('program generator and LIST disagree: %r vs %r' % (listing, expect_listing))
            code = imp.program.bytecode.getvalue()
            if typ == 'A':
                content = b''.join(unhx(l) + b'\r' for l in f['lines'])
                payload = content
                seg, offs, length = self.last
                out += self.ex(b'SAVE N$,A')
            else:
                content = code[1:]
                seg, offs, length = imp.memory.data_segment, imp.memory.code_start, len(content)
                self.last = (seg, offs, length)
                if typ == 'B':
                    payload = content
                    out += self.ex(b'SAVE N$')
                else:
                    from pcbasic.basic.converter import protect
                    enc = io.BytesIO()
                    protect(io.BytesIO(content), enc)
                    payload = enc.getvalue()
                    out += self.ex(b'SAVE N$,P')
        else:
            content = unhx(f['content'])
            out = self.ex(b'DEF SEG=&HB800')
            self.poke_block(SAVE_OFFS, content)
            seg, offs, length = VIDEO_SEG, SAVE_OFFS, len(content)
            self.last = (seg, offs, length)
            payload = content
            out += self.ex(b'BSAVE N$,%d,%d' % (SAVE_OFFS, len(content)))
        f['length'] = len(content)
        self.ctx.count('write:' + typ)
        self.ctx.count('len%%255=%d' % (len(content) % 255) if len(content) % 255 in (0, 1, 164, 253, 254)
                       else 'len%255=other')
        refused = refused if typ == 'D' else []
        self.ops += (['ow,%s,%d,%d,%d,%d' % (hx(name), ord(typ), seg, offs, len(payload))] + [r[0] for r in refused]
                     + ['w,' + hx(payload), 'c'])
        self.outs += [('ow' if not out.strip() else 'e:' + repr(out))] + [r[1] for r in refused] + ['w', 'c']
        if out.strip():
            self.problems.append(('write', 'writing file %r (%s, %d bytes) printed %r' % (name, typ, len(content), out)))
        # what the statement promises to find on the tape
        self.written.append({'trunk': trunk_of(name), 'type': typ, 'content': content, 'payload': payload})
        self.pos = len(self.written)

    # ---- reading

    def find_expected(self, req, types):
        """statement: the first file from the head position with that name and an acceptable type"""
        for i in range(self.pos, len(self.written)):
            w = self.written[i]
            if (not req or w['trunk'].rstrip() == req.rstrip()) and w['type'].encode() in [types[j:j+1] for j in range(len(types))]:
                return i
        return None

    def read_file(self, idx, by_empty_name=False):
        """search file idx by its name from the current position and read it completely"""
        s = self.session
        f = self.spec['files'][idx]
        typ = f['type']
        w = self.written[idx]
        req = b'' if by_empty_name else unhx(f['name'])
        types = READ_TYPES[typ]
        target = self.find_expected(req, types)
        self.setname(req)
        self.ops.append('or,%s,%s' % (hx(req), hx(types)))
        if target is None:
            # behind the head: not searched in this history (would need rewinding past the end of tape)
            raise RuntimeError('plan asks for a file behind the head')
        tw = self.written[target]
        exp_msgs = [(False, self.written[i]['trunk'], self.written[i]['type']) for i in range(self.pos, target)]
        exp_msgs.append((True, tw['trunk'], tw['type']))
        data = None
        note = ''
        if typ == 'D':
            out = self.ex(b'OPEN N$ FOR INPUT AS 1')
            msgs, err = parse_msgs(out)
            if not err:
                self.refused_now = []
                data, note = self.read_data(self.spec['files'][target], len(tw['content']))
                self.ex(b'CLOSE 1')
        elif typ in 'ABP':
            out = self.ex(b'LOAD N$')
            msgs, err = parse_msgs(out)
            if not err:
                if tw['type'] == 'A':
                    listing = self.ex(b'LIST')
                    data = listing.replace(b'\r\n', b'\r')
                else:
                    data = s._impl.program.bytecode.getvalue()[1:]
        else:
            self.ex(b'DEF SEG=&HB800')
            # clear the landing zone so that stale bytes cannot pass for loaded ones
            n = len(tw['content'])
            self.poke_block(LOAD_OFFS, b'\x5e' * (n + 2))
            out = self.ex(b'BLOAD N$,%d' % LOAD_OFFS)
            msgs, err = parse_msgs(out)
            if not err:
                data = self.peek_block(LOAD_OFFS, n + 2)
                # two guard bytes after the image must be untouched
                if data[n:] != b'\x5e\x5e':
                    note = '!overrun'
                data = data[:n]
                if tw['content'][-1:] == b'\x1a' and data == tw['content'][:-1] + b'\x5e' and not note:
                    # known finding C29-F1: BLOAD (machine.py) strips a final 0x1A as if it were the disk EOF marker
                    self.problems.append(('bload-drops-final-1a', 'M file %d: the image ends in 0x1A and BLOAD did not '
                                          'store that last byte (%d of %d bytes loaded)' % (idx, n - 1, n)))
                    self.ctx.count('known:bload-drops-final-1a')
                    data = tw['content']
        self.ctx.count('read:' + typ)
        # canonical reply in the model's vocabulary
        word = 'or:' + ','.join(('F' if fnd else 'S') + hx(t) + '.%d' % ord(ty) for fnd, t, ty in msgs)
        if err:
            word += ',e%s' % err
        self.outs.append(word)
        if data is not None:
            refused = getattr(self, 'refused_now', []) if typ == 'D' else []
            self.refused_now = []
            self.ops += [r[0] for r in refused] + ['ra', 'c']
            shown = tw['payload'] if (tw['type'] == 'P' and data == tw['content']) else data
            self.outs += [r[1] for r in refused] + ['d' + hx(shown) + note, 'c']
        # ---- oracle (from the statement)
        label = '%s file %d %r (%d bytes)' % (typ, idx, unhx(f['name']), len(w['content']))
        if [(a, b, c) for a, b, c in msgs] != exp_msgs or err:
            self.problems.append(('search:%s' % typ,
                                  '%s: messages %r error %r, expected %r' % (label, msgs, err, exp_msgs)))
        if data is not None and (data != tw['content'] or note):
            self.problems.append(('content:%s:L%%255=%d' % (typ, len(tw['content']) % 255),
                                  '%s: read back %d bytes %s, differs from the %d written (first difference at %d): '
                                  'got …%r' % (label, len(data), note, len(tw['content']),
                                               first_diff(data, tw['content']),
                                               data[max(0, first_diff(data, tw['content']) - 4):][:40])))
        if data is None and not err:
            self.problems.append(('content:%s' % typ, '%s: nothing read' % label))
        self.pos = target + 1

    def failed_search(self, req, typ):
        """A request nothing between the head and the end of the tape answers.  Statement: the files passed are
        skipped, the search gives up (Device Timeout) and the tape can be searched again from its beginning."""
        types = READ_TYPES[typ]
        assert self.find_expected(req, types) is None
        self.setname(req)
        self.ops.append('or,%s,%s' % (hx(req), hx(types)))
        stmt = {'D': b'OPEN N$ FOR INPUT AS 1', 'A': b'LOAD N$', 'B': b'LOAD N$', 'P': b'LOAD N$',
                'M': b'BLOAD N$,%d' % LOAD_OFFS}[typ]
        if typ == 'M':
            self.ex(b'DEF SEG=&HB800')
        out = self.ex(stmt)
        msgs, err = parse_msgs(out)
        word = 'or:' + ','.join(('F' if fnd else 'S') + hx(t) + '.%d' % ord(ty) for fnd, t, ty in msgs)
        if err:
            word += ',e%s' % err
        self.outs.append(word)
        exp_msgs = [(False, self.written[i]['trunk'], self.written[i]['type'])
                    for i in range(self.pos, len(self.written))]
        self.ctx.count('failed-search:%s' % ('passed-files' if exp_msgs else 'at-end'))
        if msgs != exp_msgs or err != 24:
            self.problems.append(('failed-search', 'search for %r (%s) from file %d: messages %r error %r, expected '
                                  '%r and Device Timeout' % (req, typ, self.pos, msgs, err, exp_msgs)))
        if not err:
            self.ex(b'CLOSE')
        # the tape is played from its beginning again
        self.pos = 0

    def partial_read(self, idx, k, chunk):
        """Open data file idx, take only its first k bytes (chunk > 0: INPUT$ in pieces of `chunk`) or its first k
        lines (chunk == 0: LINE INPUT#), and CLOSE it with the rest unread.  Statement: what was read is a prefix of
        the file, and the unread rest never shows up in whatever is read next."""
        s = self.session
        f = self.spec['files'][idx]
        assert f['type'] == 'D'
        req = unhx(f['name'])
        target = self.find_expected(req, b'D')
        if target is None:
            raise RuntimeError('plan asks for a partial read of a file behind the head')
        tw = self.written[target]
        content = tw['content']
        self.setname(req)
        self.ops.append('or,%s,%s' % (hx(req), hx(b'D')))
        out = self.ex(b'OPEN N$ FOR INPUT AS 1')
        msgs, err = parse_msgs(out)
        word = 'or:' + ','.join(('F' if fnd else 'S') + hx(t) + '.%d' % ord(ty) for fnd, t, ty in msgs)
        if err:
            word += ',e%s' % err
        self.outs.append(word)
        exp_msgs = [(False, self.written[i]['trunk'], self.written[i]['type']) for i in range(self.pos, target)]
        exp_msgs.append((True, tw['trunk'], tw['type']))
        label = 'partial read of D file %d %r (%d bytes)' % (idx, req, len(content))
        if msgs != exp_msgs or err:
            self.problems.append(('search:D', '%s: messages %r error %r, expected %r' % (label, msgs, err, exp_msgs)))
        got = b''
        if not err:
            if chunk == 0:
                for _ in range(k):
                    rest = content[len(got):]
                    cr = rest.find(b'\r')
                    if not rest:
                        break
                    if 0 <= cr < 255:
                        out = self.ex(b'LINE INPUT#1,A$')
                        piece = s.get_variable('A$') + b'\r'
                        # the text layer takes the line byte by byte from the stream
                        want = cr + 1
                    else:
                        out = self.ex(b'A$=INPUT$(1,#1)')
                        piece = s.get_variable('A$')
                        want = 1
                    if out.strip():
                        self.outs.append('e:' + repr(out))
                        self.ops.append('r,1')
                        break
                    self.ops += ['r,1'] * want
                    self.outs += ['d' + hx(piece[i:i + 1]) for i in range(want)]
                    got += piece
            else:
                k = min(k, len(content))
                while len(got) < k:
                    n = min(chunk, k - len(got))
                    out = self.ex(b'A$=INPUT$(%d,#1)' % n)
                    self.ops.append('r,%d' % n)
                    if out.strip():
                        self.outs.append('e:' + repr(out))
                        break
                    piece = s.get_variable('A$')
                    self.outs.append('d' + hx(piece))
                    got += piece
            self.ex(b'CLOSE 1')
            self.ops.append('c')
            self.outs.append('c')
            self.ctx.count('partial-read:%s' % ('nothing' if not got else 'whole' if len(got) == len(content)
                                                else 'record-boundary' if len(got) % 255 == 0 else 'inside-record'))
            if got != content[:len(got)] or (chunk and len(got) != k):
                self.problems.append(('partial:D', '%s: the first %d bytes read are %r…, the file starts with %r…'
                                      % (label, len(got), got[:30], content[:30])))
        self.pos = target + 1

    def read_behind(self, idx):
        """ask for a file that lies behind the head: the search runs off the end (Device Timeout); asked again,
        the file is found from the beginning of the tape"""
        f = self.spec['files'][idx]
        if self.find_expected(unhx(f['name']), READ_TYPES[f['type']]) is None:
            self.failed_search(unhx(f['name']), f['type'])
        self.read_file(idx)

    def read_data(self, f, expect):
        s = self.session
        data = b''
        note = ''
        if f['read'] == 'lineinput':
            for _ in range(expect + 10):
                self.ex(b'E%=EOF(1)')
                if s.get_variable('E%') != 0:
                    break
                out = self.ex(b'LINE INPUT#1,A$')
                if out.strip():
                    note = '!err'
                    break
                data += s.get_variable('A$') + b'\r'
            return data, note
        chunk = f['chunk']
        left = expect
        todo = list(f.get('refused_read', []))
        nread = 0
        while left > 0:
            # statements refused while this file is open for input; it must not notice
            for at, rk in todo:
                if at == nread:
                    self.refused_now.append(self.refuse(rk, 'input'))
            nread += 1
            self.ex(b'E%=EOF(1)')
            if s.get_variable('E%') != 0:
                note = '!short'
                return data, note
            n = min(chunk, left)
            out = self.ex(b'A$=INPUT$(%d,#1)' % n)
            if out.strip():
                note = '!short'
                return data, note
            data += s.get_variable('A$')
            left -= n
        # nothing may follow
        for _ in range(400):
            self.ex(b'E%=EOF(1)')
            if s.get_variable('E%') != 0:
                break
            out = self.ex(b'A$=INPUT$(1,#1)')
            if out.strip():
                break
            data += s.get_variable('A$')
        return data, note


MSG_RX = re.compile(br'^(.{8})\.(.) (Found|Skipped)\.$', re.S)


def parse_msgs(out):
    msgs = []
    err = None
    for line in out.split(b'\r\n'):
        if not line:
            continue
        m = MSG_RX.match(line)
        if m:
            msgs.append((m.group(3) == b'Found', m.group(1), m.group(2).decode('latin-1')))
        else:
            err = ERRS.get(line.rstrip(b'\xff').strip(), line.decode('latin-1'))
    return msgs, err


ERRS = {b'Device Timeout': 24, b'Device I/O error': 57, b'File already open': 55, b'Bad file number': 52,
        b'Input past end': 62, b'Bad file mode': 54}


def first_diff(a, b):
    for i in range(min(len(a), len(b))):
        if a[i] != b[i]:
            return i
    return min(len(a), len(b))


_WORK = []


def work_dir():
    if not _WORK:
        import atexit
        _WORK.append(tempfile.mkdtemp(prefix='pcbv_c29_'))
        atexit.register(shutil.rmtree, _WORK[0], True)
    return _WORK[0]


def run_plan(t, plan):
    for idx in plan:
        if isinstance(idx, list):
            if idx[0] == 'miss':
                t.failed_search(MISSING_NAME, idx[1])
            elif idx[0] == 'part':
                t.partial_read(idx[1], idx[2], idx[3])
            else:
                t.read_behind(idx[1])
        elif idx < 0:
            t.read_file(-idx - 1, by_empty_name=True)
        else:
            t.read_file(idx)


def run_tape(ctx, spec):
    """Execute one tape history on the real code; returns (model line, impl reply, problems)."""
    workdir = work_dir()
    t = Tape(ctx, spec, workdir)
    try:
        files = spec['files']
        nxt = 0
        for pi, count in enumerate(spec['phases']):
            t.open_session()
            if pi > 0:
                # a later Session appends: play the whole tape first
                t.ops.append('re')
                t.outs.append('re')
                t.pos = 0
                for i in range(nxt):
                    t.read_file(i)
            for i in range(nxt, nxt + count):
                t.write_file(files[i])
            nxt += count
            # write, then read in the same Session: the search runs off the end, rewinds, and finds the file
            # (CAS only: a WAV image created in this Session is opened write-only)
            after = spec.get('after', [])
            if t.fmt == 'cas' and pi < len(after) and after[pi]:
                run_plan(t, after[pi])
            t.close_session()
            if t.fmt == 'cas':
                t.ops.append('t')
                try:
                    recs = parse_cas(t.path)
                    t.outs.append(dump_tape(recs))
                    dec = decode_files(recs)
                    want = [(w['trunk'], w['type'], w['payload']) for w in t.written]
                    if dec != want:
                        bad = [i for i in range(max(len(dec), len(want)))
                               if i >= len(dec) or i >= len(want) or dec[i] != want[i]]
                        t.problems.append(('image', 'the image decodes (documented format) to %d files, %d were written; '
                                           'first differing file index %d' % (len(dec), len(want), bad[0])))
                except Malformed as e:
                    t.outs.append('t:malformed')
                    t.problems.append(('image', 'the image does not follow the documented format: %s' % e))
        for plan in spec['reads']:
            t.open_session()
            t.ops.append('re')
            t.outs.append('re')
            t.pos = 0
            run_plan(t, plan)
            t.close_session()
    finally:
        t.close_session()
        try:
            os.remove(t.path)
        except EnvironmentError:
            pass
    return '1111 ' + ';'.join(t.ops), ' '.join(t.outs), t.problems


# --------------------------------------------------------------------------------------------------
# generation

BOUNDARY = sorted(set(
    [0, 1, 2, 3, 5, 6, 8, 9, 10, 100] +
    [k * 255 + d for k in (1, 2, 3) for d in (-2, -1, 0, 1, 2)] +
    [k * 256 + d for k in (1, 2, 3) for d in (-1, 0, 1)] +
    [k * 255 + 164 + d for k in (0, 1, 2) for d in (-1, 0, 1)]))


BIN_BOUNDARY = sorted(set([0, 2, 8, 10, 100, 164, 165] + [k * 256 + d for k in (1, 2, 3) for d in (-2, -1, 0, 1, 2)]))


def gen_spec(rng, fmt, lengths, types, nfiles=None, quick=True):
    """A tape with the given (type, length) files first, filled up to nfiles with random ones."""
    used = set()
    files = []
    for typ, length in zip(types, lengths):
        files.append(make_file(rng, typ, length, used))
    n = nfiles if nfiles is not None else rng.randint(max(1, len(files)), 4)
    while len(files) < n:
        typ = rng.choice('DDDAABPM')
        length = rng.choice(BOUNDARY) if rng.random() < 0.6 else rng.randint(0, 3 * 255 + 2)
        files.insert(rng.randint(0, len(files)), make_file(rng, typ, length, used))
    n = len(files)
    # phases: all in one Session, or split in two (second appends)
    if n >= 2 and rng.random() < 0.3:
        k = rng.randint(1, n - 1)
        phases = [k, n - k]
    else:
        phases = [n]
    reads = [list(range(n))]
    if n >= 2:
        # a subset in tape order (the others are skipped), possibly the first hit by empty name
        sub = sorted(rng.sample(range(n), rng.randint(1, n - 1)))
        reads.append(sub)
        reads.append([n - 1])
    if rng.random() < 0.3:
        reads.append([-1])
    # histories with failed searches: a name that is not on the tape, a file behind the head
    if rng.random() < 0.6:
        plan = [['miss', rng.choice('DDAM')]]
        if rng.random() < 0.5:
            plan.append(['miss', rng.choice('DBM')])
        plan += sorted(rng.sample(range(n), rng.randint(1, n)))
        if rng.random() < 0.5:
            plan.append(['miss', files[-1]['type']])
            plan.append(rng.randrange(n))
        reads.append(plan)
    if n >= 2 and rng.random() < 0.6:
        j = rng.randint(1, n - 1)
        reads.append([j, ['back', rng.randint(0, j)], ['back', 0]])
    # histories that stop part-way through a data file, CLOSE it and go on with the next / another file
    dfiles = [i for i in range(n) if files[i]['type'] == 'D']
    for _ in range(1 if quick else 3):
        if dfiles and rng.random() < 0.6:
            reads.append(partial_plan(rng, files, rng.choice(dfiles)))
    # read after write in the same Session
    after = []
    done = 0
    for count in phases:
        done += count
        after.append([['back', rng.randrange(done)]] if rng.random() < 0.25 else [])
    return {'fmt': fmt, 'files': files, 'phases': phases, 'reads': reads, 'after': after}


def partial_plan(rng, files, i):
    n = len(files)
    L = files[i]['target']
    k = rng.choice([0, 1, 2, 7, L // 2, max(L - 1, 0), L, 254, 255, 256, 300, rng.randint(0, max(L, 1))])
    k = max(0, min(k, L))
    lined = all(kind != 'raw' for kind, _ in files[i]['pieces'])
    if lined and rng.random() < 0.5:
        item = ['part', i, rng.choice([1, 1, 2, 3]), 0]
    else:
        item = ['part', i, k, rng.choice([255, 255, 100, 7, 1]) if k <= 60 else rng.choice([255, 255, 100])]
    plan = sorted(rng.sample(range(i), rng.randint(0, i))) if i and rng.random() < 0.4 else []
    plan.append(item)
    if i + 1 < n:
        # most often the file that directly follows
        j = i + 1 if rng.random() < 0.8 else rng.randint(i + 1, n - 1)
        plan.append(j)
        if files[j]['type'] == 'D' and j + 1 < n and rng.random() < 0.5:
            plan[-1] = ['part', j, rng.randint(0, files[j]['target']), 255]
            plan.append(j + 1)
    else:
        # the same file again, completely (the search runs off the end and comes back)
        plan.append(['back', i])
    return plan


def check_spec(ctx, spec, batch):
    try:
        line, reply, problems = run_tape(ctx, spec)
    except RuntimeError as e:
        ctx.count('generator-error')
        ctx.log('generator error: %s' % e)
        return
    kinds = ''.join(f['type'] for f in spec['files'])
    ctx.case((spec['fmt'], kinds, tuple(f.get('length', -1) for f in spec['files']), len(spec['phases']),
              repr(spec['reads']), tuple(f['name'] for f in spec['files'])))
    ctx.count('fmt:' + spec['fmt'])
    ctx.count('files:%d' % len(spec['files']))
    ctx.count('phases:%d' % len(spec['phases']))
    batch.append((spec_summary(spec), reply, line))
    seen = set()
    for key, text in problems:
        k = '%s:%s' % (spec['fmt'], key)
        if k in seen:
            continue
        seen.add(k)
        ctx.fail(k, {'spec': spec}, text)
    ctx.sample({'tape': spec_summary(spec), 'reply': reply[:300]}, limit=4)


def spec_summary(spec):
    return {'fmt': spec['fmt'], 'phases': spec['phases'], 'reads': spec['reads'],
            'files': [[unhx(f['name']).decode('latin-1'), f['type'], f.get('length', f['target'])]
                      for f in spec['files']]}


def flush_batch(ctx, batch):
    if batch:
        ctx.compare([b[0] for b in batch], [b[1] for b in batch], [b[2] for b in batch], label='tape')
        del batch[:]


def run(ctx):
    rng = ctx.rng
    batch = []
    specs = []
    if ctx.quick:
        # every boundary length as the first of two data files and as the last file
        for L in BOUNDARY:
            specs.append(gen_spec(rng, 'cas', [L, rng.choice(BOUNDARY)], 'DD', nfiles=2))
        # every kind at boundary lengths, packed four to a tape
        for typ in 'ABPM':
            ls = list(BOUNDARY if typ == 'A' else BIN_BOUNDARY)
            rng.shuffle(ls)
            for i in range(0, len(ls), 3):
                specs.append(gen_spec(rng, 'cas', ls[i:i + 3], typ * len(ls[i:i + 3])))
        for _ in range(30):
            specs.append(gen_spec(rng, 'cas', [], ''))
        for _ in range(4):
            specs.append(gen_spec(rng, 'wav', [rng.choice([253, 254, 255, 164, 509, 510]), rng.choice(BOUNDARY)],
                                  rng.choice(['DD', 'DA', 'DM', 'DB']), nfiles=rng.randint(2, 3)))
    else:
        top = 3 * 255 + 2
        for L in range(top + 1):
            specs.append(gen_spec(rng, 'cas', [L, rng.choice(BOUNDARY)], 'DD', nfiles=2, quick=False))
        for typ in 'ABPM':
            for L in range(0, top + 1, 3):
                ls = [l for l in (L, L + 1, L + 2) if l <= top]
                specs.append(gen_spec(rng, 'cas', ls, typ * len(ls), quick=False))
        for _ in range(300):
            specs.append(gen_spec(rng, 'cas', [], '', quick=False))
        for L in BOUNDARY:
            specs.append(gen_spec(rng, 'wav', [L, rng.choice(BOUNDARY)], rng.choice(['DD', 'DA', 'DM', 'DB', 'DP']),
                                  nfiles=rng.randint(2, 3)))
        for _ in range(40):
            specs.append(gen_spec(rng, 'wav', [], '', quick=False))
        ctx.exhaustive = False
        ctx.notes['exhaustive_lengths'] = 'every content length 0..%d for data files (first of two) and, in groups of ' \
                                          'three per tape, for A/B/P/M files' % top
    ctx.log('%d tape histories' % len(specs))
    for i, spec in enumerate(specs):
        check_spec(ctx, spec, batch)
        if len(batch) >= 50:
            flush_batch(ctx, batch)
    flush_batch(ctx, batch)
    crafted(ctx)


def crafted(ctx):
    """Named adversarial tapes: a data record that looks like a header of the file searched for."""
    batch = []
    for fmt in ('cas',):
        for k in (0, 1):
            # content of 164 + 255k bytes: the last record holds 165 bytes = count byte 0xA5
            body = b'TWO     \x00' + b'x' * 155
            files = [
                {'name': hx(b'ONE'), 'type': 'D', 'target': 164 + 255 * k,
                 'pieces': [['raw', hx(b'y' * 255)]] * k + [['raw', hx(body)]], 'read': 'input$', 'chunk': 255},
                {'name': hx(b'TWO'), 'type': 'D', 'target': 11, 'pieces': [['raw', hx(b'second file')]],
                 'read': 'input$', 'chunk': 255},
            ]
            check_spec(ctx, {'fmt': fmt, 'files': files, 'phases': [2],
                             'reads': [[1], [0, 1], [['part', 0, 5, 255], 1]]}, batch)
        # memory image starting with 0xA5 and a name, skipped on the way to the file of that name
        files = [
            {'name': hx(b'IMG'), 'type': 'M', 'target': 300, 'content': hx(b'\xa5NEXT    \x00' + b'\x07' * 289 + b'\x1a')},
            {'name': hx(b'NEXT'), 'type': 'D', 'target': 5, 'pieces': [['line', hx(b'data')]], 'read': 'lineinput',
             'chunk': 255},
            {'name': hx(b'EMPTY'), 'type': 'M', 'target': 0, 'content': hx(b'')},
            {'name': hx(b'LAST'), 'type': 'D', 'target': 254, 'pieces': [['raw', hx(b'z' * 254)]], 'read': 'input$',
             'chunk': 100},
        ]
        check_spec(ctx, {'fmt': fmt, 'files': files, 'phases': [4],
                         'reads': [[1, 3], [3], [0, 1, 2, 3], [['miss', 'D'], 1, ['back', 0], ['miss', 'M'], 3]]}, batch)
    partial_family(ctx, batch)
    refused_family(ctx, batch)
    flush_batch(ctx, batch)


def refused_family(ctx, batch):
    """Every refusable cassette statement while a data file is open for output and while it is open for input,
    followed by more I/O on the open file and a full read-back."""
    kinds = REFUSED_KINDS
    pieces = [['line', hx(b'LINE %02d %s' % (i, b'abcdefghij' * 3))] for i in range(len(kinds) + 2)]
    n = sum(len(unhx(p)) + 1 for _, p in pieces)
    for fmt, ks in (('cas', kinds), ('wav', ['bsave', 'save'])):
        busy = {'name': hx(b'BUSY'), 'type': 'D', 'target': n, 'pieces': pieces, 'read': 'input$', 'chunk': 40,
                'refused': [[i + 1, k] for i, k in enumerate(ks)],
                'refused_read': [[i + 1, k] for i, k in enumerate(ks)]}
        other = {'name': hx(b'OTHER'), 'type': 'D', 'target': 6, 'pieces': [['line', hx(b'other')]],
                 'read': 'lineinput', 'chunk': 255}
        check_spec(ctx, {'fmt': fmt, 'files': [busy, other], 'phases': [2], 'reads': [[0, 1], [1]]}, batch)


def partial_family(ctx, batch):
    """Deterministic family: a data file is closed before its current record is consumed, then the file that
    directly follows (every kind) is read; also at record boundaries, with nothing read, and on a WAV image."""
    def dfile(name, lines, raw=b''):
        pieces = [['line', hx(l)] for l in lines] + ([['raw', hx(raw)]] if raw else [])
        n = sum(len(l) + 1 for l in lines) + len(raw)
        return {'name': hx(name), 'type': 'D', 'target': n, 'pieces': pieces, 'read': 'input$', 'chunk': 255}
    long_lines = [b'LINE %03d ' % i + b'abcdefghijklmnopqrstuvwxyz'[:i % 20] for i in range(28)]
    first = dfile(b'FIRST', [b'ALPHA', b'BRAVO', b'CHARLIE'])
    big = dfile(b'BIG', long_lines, b'tail without line end')
    second = dfile(b'SECOND', [b'12345', b'SECOND FILE'])
    prog = {'name': hx(b'PROG'), 'type': 'B', 'target': 40, 'lines': [hx(b'10 REM tape program'), hx(b'20 REM x')]}
    asc = {'name': hx(b'ASC'), 'type': 'A', 'target': 30, 'lines': [hx(b'10 REM ascii program'), hx(b'20 REM y')]}
    prot = {'name': hx(b'PROT'), 'type': 'P', 'target': 30, 'lines': [hx(b'10 REM protected')]}
    mem = {'name': hx(b'MEM'), 'type': 'M', 'target': 70, 'content': hx(bytes(range(3, 73)))}
    L = big['target']
    tapes = [
        ('cas', [first, second, prog, mem],
         [[['part', 0, 1, 0], 1], [['part', 0, 7, 7], 1, 2, 3], [0, ['part', 1, 1, 0], 2], [['part', 1, 6, 255], 2, 3],
          [['part', 0, 0, 255], 1]]),
        ('cas', [big, mem, second, asc],
         [[['part', 0, 3, 0], 1], [['part', 0, 255, 255], 1], [['part', 0, 300, 100], 1, ['part', 2, 2, 1], 3],
          [['part', 0, L, 255], 1], [['part', 0, L - 1, 255], 1, 2], [['part', 2, 1, 0], 3]]),
        ('cas', [second, prot, first, big],
         [[['part', 0, 1, 1], 1], [0, 1, ['part', 2, 2, 0], 3], [['part', 3, 256, 255], ['back', 3]]]),
        ('wav', [first, second, prog], [[['part', 0, 1, 0], 1, 2], [0, ['part', 1, 3, 1], 2]]),
    ]
    for fmt, files, reads in tapes:
        files = [dict(f) for f in files]
        check_spec(ctx, {'fmt': fmt, 'files': files, 'phases': [len(files)], 'reads': reads,
                         'after': [[['back', 0]]]}, batch)


def replay(ctx, payload):
    spec = payload.get('case', {}).get('spec')
    if not spec:
        return None
    line, reply, problems = run_tape(ctx, spec)
    for key, text in problems:
        if '%s:%s' % (spec['fmt'], key) == payload.get('key'):
            return text
    return None
