import PcbV.Model.Codepage
/-
  Lemmas about the table part of `PcbV.Model.Codepage` (dict lookups, cluster splitting,
  the converter on a single table entry) used by Props/C41.
-/
namespace PcbV.Codepage

/-! ### dict lookups -/

theorem lookupLast_mem (t : Table) (u : Cluster) (k : Bytes) (h : lookupLast t u = some k) : (k, u) ∈ t := by
  induction t with
  | nil => simp [lookupLast] at h
  | cons e r ih =>
    obtain ⟨k0, v0⟩ := e
    simp only [lookupLast] at h
    cases hr : lookupLast r u with
    | some k' =>
      rw [hr] at h
      simp only [Option.some.injEq] at h
      subst h
      exact List.mem_cons_of_mem _ (ih hr)
    | none =>
      rw [hr] at h
      by_cases hv : v0 = u
      · simp [hv] at h
        subst h; subst hv
        exact List.mem_cons_self
      · simp [hv] at h

theorem lookupLast_isSome_of_mem (t : Table) (u : Cluster) (k : Bytes) (h : (k, u) ∈ t) :
    ∃ k', lookupLast t u = some k' := by
  induction t with
  | nil => cases h
  | cons e r ih =>
    obtain ⟨k0, v0⟩ := e
    simp only [lookupLast]
    cases hr : lookupLast r u with
    | some k' => exact ⟨k', rfl⟩
    | none =>
      rcases List.mem_cons.mp h with h | h
      · injection h with h1 h2
        subst h2
        exact ⟨k0, by simp⟩
      · obtain ⟨k', hk'⟩ := ih h
        rw [hr] at hk'
        cases hk'

/-- a cluster that only one key maps to is sent back to that key -/
theorem lookupLast_of_unique (t : Table) (u : Cluster) (k : Bytes) (h : (k, u) ∈ t)
    (huniq : ∀ k', (k', u) ∈ t → k' = k) : lookupLast t u = some k := by
  obtain ⟨k', hk'⟩ := lookupLast_isSome_of_mem t u k h
  rw [hk', huniq k' (lookupLast_mem t u k' hk')]

theorem lookup_of_mem (t : Table) (k : Bytes) (u : Cluster) (hnd : (t.map Prod.fst).Nodup)
    (h : (k, u) ∈ t) : lookup t k = some u := by
  induction t with
  | nil => cases h
  | cons e r ih =>
    obtain ⟨k0, v0⟩ := e
    simp only [List.map_cons, List.nodup_cons] at hnd
    rcases List.mem_cons.mp h with h | h
    · injection h with h1 h2
      subst h1; subst h2
      simp [lookup]
    · have hne : k0 ≠ k := by
        intro he
        subst he
        exact hnd.1 (List.mem_map.mpr ⟨(k0, u), h, rfl⟩)
      simp [lookup, hne, ih hnd.2 h]

theorem lookup_none_of_not_key (t : Table) (k : Bytes) (h : ∀ e ∈ t, e.1 ≠ k) : lookup t k = none := by
  induction t with
  | nil => rfl
  | cons e r ih =>
    obtain ⟨k0, v0⟩ := e
    have h0 : k0 ≠ k := h (k0, v0) List.mem_cons_self
    simp [lookup, h0, ih (fun e he => h e (List.mem_cons_of_mem _ he))]

/-! ### `_split_unicode` on a single cluster of the table -/

theorem matchLen_pos (t : Table) (ucs : Cluster) : 1 ≤ matchLen t ucs := by
  induction t with
  | nil => simp [matchLen]
  | cons e r ih =>
    obtain ⟨k0, v0⟩ := e
    simp only [matchLen]
    split <;> omega

theorem matchLen_le (t : Table) (ucs : Cluster) (h : 1 ≤ ucs.length) : matchLen t ucs ≤ ucs.length := by
  induction t with
  | nil => simpa [matchLen] using h
  | cons e r ih =>
    obtain ⟨k0, v0⟩ := e
    simp only [matchLen]
    split
    · next hc =>
      have := List.IsPrefix.length_le (List.isPrefixOf_iff_prefix.mp hc.2.1)
      exact this
    · exact ih

theorem matchLen_ge (t : Table) (ucs : Cluster) (k : Bytes) (v : Cluster) (h : (k, v) ∈ t)
    (hl : v.length > 1) (hp : v.isPrefixOf ucs = true) : v.length ≤ matchLen t ucs := by
  induction t with
  | nil => cases h
  | cons e r ih =>
    obtain ⟨k0, v0⟩ := e
    simp only [matchLen]
    rcases List.mem_cons.mp h with h | h
    · injection h with h1 h2
      subst h2
      split
      · exact Nat.le_refl _
      · next hc =>
        simp only [hl, hp, true_and, Nat.not_lt] at hc
        omega
    · have := ih h
      split
      · next hc => omega
      · exact this

theorem matchLen_self (t : Table) (k : Bytes) (u : Cluster) (h : (k, u) ∈ t) (hne : u ≠ []) :
    matchLen t u = u.length := by
  have h1 : 1 ≤ u.length := by
    cases u with
    | nil => exact absurd rfl hne
    | cons a r => simp
  have hle := matchLen_le t u h1
  have hpos := matchLen_pos t u
  by_cases hl : u.length > 1
  · have := matchLen_ge t u k u h hl (by simp)
    omega
  · omega

theorem splitAux_nil (t : Table) (f : Nat) : splitAux t f [] = [] := by
  cases f <;> simp [splitAux]

theorem split_single (t : Table) (k : Bytes) (u : Cluster) (h : (k, u) ∈ t) (hne : u ≠ [])
    (h0 : eascii u = false) : splitAux t u.length u = [u] := by
  cases u with
  | nil => exact absurd rfl hne
  | cons c r =>
    have hm := matchLen_self t k (c :: r) h hne
    simp only [List.length_cons, splitAux, h0, Bool.false_eq_true, if_false]
    rw [hm]
    simp [splitAux_nil]

/-! ### the converter on one table entry -/

/-- a single byte comes out as one sequence, whatever the predicates say -/
theorem mark_single (p : Preds) (dbcs box : Bool) (b : Nat) (hp : p.preserve b = false) :
    (mark p dbcs box {} [b] true).2 = [[b]] := by
  cases dbcs
  · simp [mark]
  · cases box
    · by_cases hl : p.lead b = true <;>
        simp [mark, feed, process, processNobox, hp, hl, flush, flushN]
    · by_cases hl : p.lead b = true <;>
        simp [mark, feed, process, processBox, hp, case0, hl, flush, flushN]

/-- a lead byte followed by a trail byte comes out as one two-byte sequence -/
theorem mark_pair (p : Preds) (box : Bool) (l t : Nat) (hpl : p.preserve l = false)
    (hpt : p.preserve t = false) (hl : p.lead l = true) (ht : p.trail t = true) :
    (mark p true box {} [l, t] true).2 = [[l, t]] := by
  cases box
  · simp [mark, feed, process, processNobox, hpl, hpt, hl, ht, flush, flushN]
  · by_cases h0 : connects p (some l) t 0 = true
    · simp [mark, feed, process, processBox, hpl, hpt, case0, case1, whole, hl, ht, h0, flush, flushN]
    · by_cases h1 : connects p (some l) t 1 = true <;>
        simp [mark, feed, process, processBox, hpl, hpt, case0, case1, whole, hl, ht, h0, h1, flush, flushN]

/-! ### a verified injectivity checker for plain single-byte tables

  `pairs` is the table as (byte, code point) numbers, `dups` the code points that may be shared.
  `injB` uses only `Nat.beq` and Bool operations so that the kernel evaluates it quickly. -/

def memB (x : Nat) : List Nat → Bool
  | [] => false
  | y :: r => Nat.beq x y || memB x r

def memV (v : Nat) : List (Nat × Nat) → Bool
  | [] => false
  | e :: r => Nat.beq v e.2 || memV v r

def injB (dups : List Nat) : List (Nat × Nat) → Bool
  | [] => true
  | e :: r => (memB e.2 dups || !memV e.2 r) && injB dups r

theorem memB_iff (x : Nat) (l : List Nat) : memB x l = true ↔ x ∈ l := by
  induction l with
  | nil => simp [memB]
  | cons y r ih => simp [memB, ih]

theorem memV_of_mem (b v : Nat) (l : List (Nat × Nat)) (h : (b, v) ∈ l) : memV v l = true := by
  induction l with
  | nil => cases h
  | cons e r ih =>
    rcases List.mem_cons.mp h with h | h
    · subst h; simp [memV]
    · simp [memV, ih h]

theorem injB_sound (dups : List Nat) (l : List (Nat × Nat)) (h : injB dups l = true)
    (b b' v : Nat) (h1 : (b, v) ∈ l) (h2 : (b', v) ∈ l) (hv : v ∉ dups) (hk : (l.map Prod.fst).Nodup) :
    b = b' := by
  induction l with
  | nil => cases h1
  | cons e r ih =>
    simp only [injB, Bool.and_eq_true, Bool.or_eq_true, Bool.not_eq_true', memB_iff] at h
    simp only [List.map_cons, List.nodup_cons] at hk
    rcases List.mem_cons.mp h1 with g1 | g1 <;> rcases List.mem_cons.mp h2 with g2 | g2
    · rw [← g1] at g2; injection g2 with g2 _; exact g2.symm
    · subst g1
      rcases h.1 with hd | hd
      · exact absurd hd hv
      · rw [memV_of_mem b' v r g2] at hd; cases hd
    · subst g2
      rcases h.1 with hd | hd
      · exact absurd hd hv
      · rw [memV_of_mem b v r g1] at hd; cases hd
    · exact ih h.2 g1 g2 hk.2

def encPair (e : Nat × Nat) : Bytes × Cluster := ([e.1], [e.2])

/-- facts about a plain single-byte page, each checked by kernel evaluation on the generated data -/
structure PlainPage (dict : Table) (pairs : List (Nat × Nat)) (dups : List Nat) : Prop where
  table : mainOf dict = pairs.map encPair
  keys : pairs.map Prod.fst = List.range 256
  inj : injB dups pairs = true
  nosubst : substOf dict = []
  nul : pairs.head? = some (0, 0)

theorem fillOf_eq_nil (main : Table) (h : ∀ c, c < 256 → hasKey main [c] = true) : fillOf main = [] := by
  simp only [fillOf, List.map_eq_nil_iff, List.filter_eq_nil_iff, List.mem_range]
  intro c hc
  simp [h c hc]

theorem PlainPage.cpToU {dict : Table} {pairs : List (Nat × Nat)} {dups : List Nat}
    (pp : PlainPage dict pairs dups) (bp : Bool) : (build dict bp).cpToU = pairs.map encPair := by
  have hf : fillOf (mainOf dict) = [] := by
    apply fillOf_eq_nil
    intro c hc
    have hm : c ∈ pairs.map Prod.fst := by rw [pp.keys]; exact List.mem_range.mpr hc
    obtain ⟨e, he, rfl⟩ := List.mem_map.mp hm
    rw [pp.table]
    simp only [hasKey, List.any_eq_true]
    exact ⟨encPair e, List.mem_map.mpr ⟨e, he, rfl⟩, by simp [encPair]⟩
  simp only [build, hf, List.append_nil]
  exact pp.table

theorem PlainPage.keysNodup {dict : Table} {pairs : List (Nat × Nat)} {dups : List Nat}
    (pp : PlainPage dict pairs dups) : (pairs.map Prod.fst).Nodup := by
  rw [pp.keys]; exact List.nodup_range

theorem PlainPage.tableKeysNodup {dict : Table} {pairs : List (Nat × Nat)} {dups : List Nat}
    (pp : PlainPage dict pairs dups) : ((pairs.map encPair).map Prod.fst).Nodup := by
  have h := pp.keysNodup
  have : (pairs.map encPair).map Prod.fst = (pairs.map Prod.fst).map fun c => [c] := by
    simp [List.map_map, Function.comp_def, encPair]
  rw [this]
  exact List.Pairwise.map (fun c => [c]) (fun a b hab hh => hab (by simpa using hh)) h

/-! ### keys of the table built by `build` -/

theorem mainOf_key (dict : Table) (e : Bytes × Cluster) (h : e ∈ mainOf dict) :
    ∃ e0 ∈ dict, e0.1 = e.1 := by
  simp only [mainOf, List.mem_map] at h
  obtain ⟨e0, he0, rfl⟩ := h
  refine ⟨e0, he0, ?_⟩
  cases printable e0.1 <;> rfl

theorem mainOf_keys (dict : Table) : (mainOf dict).map Prod.fst = dict.map Prod.fst := by
  induction dict with
  | nil => rfl
  | cons e r ih =>
    simp only [mainOf, List.map_cons, List.map_map] at ih ⊢
    rw [ih]
    cases printable e.1 <;> rfl

theorem hasKey_iff (t : Table) (k : Bytes) : hasKey t k = true ↔ k ∈ t.map Prod.fst := by
  simp only [hasKey, List.any_eq_true, List.mem_map, beq_iff_eq]

/-! ### vocabulary of the round-trip theorems -/

def EntryShape (cp : Cp) (k : Bytes) : Prop :=
  (∃ b, k = [b]) ∨
  (∃ l t, k = [l, t] ∧ cp.dbcs = true ∧ cp.lead.contains l = true ∧ cp.trail.contains t = true)

/-- clusters `_from_unicode` looks up in the table: not an e-ASCII cluster (or NUL itself, which
    passes through as byte 0) and not shadowed by a printable-ASCII substitute glyph -/
def Plain (cp : Cp) (k : Bytes) (u : Cluster) : Prop :=
  u ≠ [] ∧ (u.head? ≠ some 0 ∨ (u = [0] ∧ k = [0])) ∧ lookupLast cp.subst u = none

section plain
variable {dict : Table} {pairs : List (Nat × Nat)} {dups : List Nat}

theorem mem_table (x : Bytes × Cluster) (h : x ∈ pairs.map encPair) :
    ∃ e ∈ pairs, x.1 = [e.1] ∧ x.2 = [e.2] := by
  obtain ⟨e, he, rfl⟩ := List.mem_map.mp h
  exact ⟨e, he, rfl, rfl⟩

theorem nul_mem (pp : PlainPage dict pairs dups) : (0, 0) ∈ pairs := by
  have h := pp.nul
  cases hp : pairs with
  | nil => rw [hp] at h; cases h
  | cons e r => rw [hp] at h; simp at h; subst h; exact List.mem_cons_self

theorem key_of_value (pp : PlainPage dict pairs dups) (bp : Bool) (k : Bytes) (b v : Nat)
    (hb : ([b], [v]) ∈ (build dict bp).cpToU) (hk : (k, [v]) ∈ (build dict bp).cpToU) (hv : v ∉ dups) :
    k = [b] := by
  rw [pp.cpToU bp] at hb hk
  obtain ⟨e, he, h1, h2⟩ := mem_table _ hb
  obtain ⟨e', he', h1', h2'⟩ := mem_table _ hk
  simp only [List.cons.injEq, and_true] at h1 h2 h2'
  simp only at h1'
  obtain ⟨eb, ev⟩ := e
  obtain ⟨eb', ev'⟩ := e'
  simp only at h1 h2 h1' h2'
  subst h1; subst h2; subst h2'
  rw [h1']
  congr 1
  exact injB_sound dups pairs pp.inj eb' b v he' he hv pp.keysNodup

theorem plain_of (pp : PlainPage dict pairs dups) (bp : Bool) (k : Bytes) (v : Nat)
    (hk : (k, [v]) ∈ (build dict bp).cpToU) (h0 : v = 0 → 0 ∉ dups) :
    Plain (build dict bp) k [v] := by
  refine ⟨by simp, ?_, by simp [build, pp.nosubst, lookupLast]⟩
  by_cases hv : v = 0
  · subst hv
    right
    have hz : ([0], [0]) ∈ (build dict bp).cpToU := by
      rw [pp.cpToU bp]; exact List.mem_map.mpr ⟨(0, 0), nul_mem pp, rfl⟩
    exact ⟨rfl, key_of_value pp bp k 0 0 hz hk (h0 rfl)⟩
  · left; simpa using hv

end plain

end PcbV.Codepage
