"""
Correspondence for the mechanically translated definitions (lean/PcbV/Gen/Translated.lean, regenerated on
every run from the current Python AST by gen/py2lean.py) and for the PcbV.PyInt operators they are built from:
the compiled Lean definitions (driver prefix `TR`, lean/PcbV/Drv/Translated.lean) are run on the same inputs as
the REAL Python code.  Together with the theorems `translated_*_eq` of Props/C02, C15, C39 (translated =
hand-written model) this ties the hand-written models to the source text: an edit of one of the translated
functions changes Translated.lean and thereby breaks a proof obligation, while a translator or PyInt
semantics error shows up here as a disagreement.

check_cycle(ctx)    Randomiser._cycle on a real Randomiser object          (C39)
check_protect(ctx)  protect / unprotect of converter/protect.py on streams  (C15)
check_intdiv(ctx)   Integer.idiv_int / Integer.imod on real Integer objects (C02)
Each also checks Python's own `^ & |` against PyInt.xor / land / lor.
"""
import binascii
import importlib
import io
import random
import struct

PREFIX = 'TR'
# order of the flags in the reply to `TR supported`
FLAGS = ['cycle', 'unprotNextIndex', 'protNextIndex', 'unprotStep', 'protStep', 'idivCore', 'imodCore']


def _boundary_ints(bits=40):
    vals = {0, 1, -1, 2, -2, 255, 256, -255, -256, -257, 0x7fff, 0x8000, -0x8000, -0x8001, 0xffff, 0x10000}
    for k in range(bits + 1):
        for d in (-1, 0, 1):
            vals.add((1 << k) + d)
            vals.add(-(1 << k) + d)
    return sorted(vals)


def _supported(ctx, names):
    """The `_supported` flags of the generated file; unsupported functions are reported, not compared
    (the theorem `translated_*_supported` is then the broken obligation)."""
    out = ctx.model(['supported'], prefix=PREFIX)
    if out is None:
        return None
    if not out[0].startswith('ok ') or len(out[0]) != 3 + len(FLAGS):
        ctx.disagree({'label': 'translated:supported', 'line': 'supported'}, 'ok <%d flags>' % len(FLAGS), out[0])
        return {}
    flags = dict(zip(FLAGS, (c == '1' for c in out[0][3:])))
    for n in names:
        ctx.count('translated:%s:%s' % (n, 'supported' if flags[n] else 'UNSUPPORTED'))
        if not flags[n]:
            ctx.notes.setdefault('translated_unsupported', []).append(n)
    return flags


class _Batch(object):
    """Collects (case, implementation reply, driver line) and compares them in one driver call."""

    def __init__(self, ctx, label):
        self.ctx, self.label = ctx, label
        # derived from VERIF_SEED only; does not advance ctx.rng, so the property's own generators are unchanged
        self.rng = random.Random('%s:%d' % (label, ctx.seed))
        self.cases, self.outs, self.lines = [], [], []

    def add(self, tag, case, impl, line):
        self.cases.append(case)
        self.outs.append(impl)
        self.lines.append(line)
        self.ctx.case(('TR', line))
        self.ctx.count('translated:' + tag)

    def pyint(self, n_random=400, bits=40):
        """Python's ^ & | on positive and negative ints against PyInt.xor/land/lor."""
        rng = self.rng
        bv = _boundary_ints(bits)
        pairs = [(rng.choice(bv), rng.choice(bv)) for _ in range(n_random)]
        pairs += [(rng.randrange(-(1 << bits), 1 << bits), rng.randrange(-(1 << bits), 1 << bits))
                  for _ in range(n_random)]
        pairs += [(rng.randrange(-300, 300), rng.randrange(-300, 300)) for _ in range(n_random // 2)]
        pairs += [(a, b) for a in (-2, -1, 0, 1, 255, -256) for b in (-2, -1, 0, 1, 255, -256)]
        for a, b in pairs:
            for op, val in (('xor', a ^ b), ('and', a & b), ('or', a | b)):
                self.add('pyint:%s:%s' % (op, 'neg' if a < 0 or b < 0 else 'nonneg'),
                         {'pyint': op, 'a': a, 'b': b}, 'ok %d' % val, '%s %d %d' % (op, a, b))

    def run(self, fix_model=None):
        """Compare with the driver's replies (optionally mapped by fix_model(case, reply))."""
        ctx = self.ctx
        if fix_model is None:
            return ctx.compare(self.cases, self.outs, self.lines, label=self.label, prefix=PREFIX)
        mouts = ctx.model(self.lines, prefix=PREFIX)
        if mouts is None:
            return 0
        n = 0
        for c, i, l, m in zip(self.cases, self.outs, self.lines, mouts):
            m = fix_model(c, m)
            if i != m:
                n += 1
                ctx.disagree({'label': self.label, 'input': c, 'line': l}, i, m)
        return n


# ---------------------------------------------------------------------------------------------
# C39: Randomiser._cycle

def check_cycle(ctx):
    from pcbasic.basic.values import values, randomiser
    flags = _supported(ctx, ['cycle'])
    if flags is None:
        return
    vs = values.Values(None, False)
    vs.set_handler(values.FloatErrorHandler(None))
    r = randomiser.Randomiser(vs)
    period = randomiser.Randomiser._period
    b = _Batch(ctx, 'translated-cycle')
    rng = b.rng
    if flags.get('cycle'):
        seeds = [0, 1, 2, 255, 256, period - 1, period, period + 1, period // 2, r._seed, -1, -period, -period - 1]
        seeds += [rng.randrange(period) for _ in range(3000)]
        seeds += [rng.choice(_boundary_ints(40)) for _ in range(300)]
        seeds += [rng.randrange(-(1 << 40), 1 << 40) for _ in range(300)]
        for s in seeds:
            r._seed = s
            r._cycle()
            b.add('cycle:' + ('state' if 0 <= s < period else 'outside'), {'cycle': s}, 'ok %d' % r._seed,
                  'cycle %d' % s)
        # a walk on the real object, each state fed to the translated definition
        r = randomiser.Randomiser(vs)
        for _ in range(500):
            s = r._seed
            r._cycle()
            b.add('cycle:walk', {'cycle': s}, 'ok %d' % r._seed, 'cycle %d' % s)
    b.pyint()
    b.run()


# ---------------------------------------------------------------------------------------------
# C15: protect / unprotect loop bodies

def _hx(b):
    return binascii.hexlify(bytes(b)).decode() or '-'


def _cipher(fn, data):
    outs = io.BytesIO()
    try:
        fn(io.BytesIO(data), outs)
    except Exception as e:  # observable; the check of C15 has its own oracle for this
        return None, type(e).__name__
    return outs.getvalue(), None


def check_protect(ctx):
    pm = importlib.import_module('pcbasic.basic.converter.protect')
    flags = _supported(ctx, ['protStep', 'unprotStep', 'protNextIndex', 'unprotNextIndex'])
    if flags is None:
        return
    b = _Batch(ctx, 'translated-protect')
    rng = b.rng
    dirs = []
    if flags.get('protStep'):
        dirs.append(('prot', pm.protect, b''))
    if flags.get('unprotStep'):
        # unprotect decodes a byte once its successor is read: one more byte follows
        dirs.append(('unprot', pm.unprotect, b'\x1a'))
    # one byte at a given stream index (index < 143: the real index never leaves 0..142)
    pairs = [(i, c) for i in (0, 1, 10, 11, 12, 13, 14, 21, 22, 25, 26, 65, 66, 130, 131, 132, 141, 142)
             for c in (0, 1, 2, 10, 11, 12, 13, 14, 127, 128, 242, 243, 244, 245, 253, 254, 255)]
    pairs += [(rng.randrange(143), rng.randrange(256)) for _ in range(1200)]
    for op, fn, tail in dirs:
        for i, c in pairs:
            filler = bytes((rng.randrange(256),)) * i
            out, exc = _cipher(fn, filler + bytes((c,)) + tail)
            impl = 'exc ' + exc if exc else ('ok %d' % out[i] if len(out) > i else 'short %d' % len(out))
            b.add('%s:byte' % op, {'cipher': op, 'index': i, 'byte': c}, impl, '%s %d %d' % (op, c, i))
    # longer streams against the iteration of the translated step and next-index
    lengths = [0, 1, 2, 142, 143, 144, 285, 286, 287, 429, 600] + [rng.randrange(0, 700) for _ in range(40)]
    for op, fn, tail in dirs:
        nxt = 'protNextIndex' if op == 'prot' else 'unprotNextIndex'
        if not flags.get(nxt):
            continue
        for ln in lengths:
            data = bytes(rng.randrange(256) for _ in range(ln))
            out, exc = _cipher(fn, data + tail)
            if exc and ln == 0:
                continue    # the empty stream is the subject of C15's own oracle (pending fix), no step is run
            impl = 'exc ' + exc if exc else 'ok ' + (','.join(str(x) for x in out) or '-')
            b.add('%s:stream' % op, {'cipher': op, 'stream': _hx(data)}, impl,
                  '%sstream %s' % ('p' if op == 'prot' else 'u', _hx(data)))
    b.pyint()
    b.run()


# ---------------------------------------------------------------------------------------------
# C02: Integer.idiv_int / Integer.imod

def check_intdiv(ctx):
    from pcbasic.basic.values import values, numbers
    from pcbasic.basic.base import error
    flags = _supported(ctx, ['idivCore', 'imodCore'])
    if flags is None:
        return
    vs = values.Values(None, False)
    vs.set_handler(values.FloatErrorHandler(None))

    def integer(n):
        return numbers.Integer(None, vs).from_bytes(struct.pack('<h', n))

    bv = sorted(set(v for k in range(16) for d in (-2, -1, 0, 1, 2) for s in (1, -1)
                    for v in [s * (1 << k) + d] if -32768 <= v <= 32767)
                | {0, 3, 7, 10, 100, 255, 256, 257, 32767, -32768, -32767, 30000, -30000})
    b = _Batch(ctx, 'translated-intdiv')
    rng = b.rng
    pairs = [(rng.choice(bv), rng.choice(bv)) for _ in range(1500)]
    pairs += [(rng.randrange(-32768, 32768), rng.randrange(-32768, 32768)) for _ in range(1000)]
    pairs += [(rng.randrange(-32768, 32768), rng.randrange(-20, 21)) for _ in range(500)]
    pairs += [(-32768, -1), (-32768, 1), (32767, -1), (-7, 2), (7, -2), (-7, -2), (7, 2), (0, -5), (-1, 32767)]
    for op, meth, flag in (('idiv', 'idiv_int', 'idivCore'), ('imod', 'imod', 'imodCore')):
        if not flags.get(flag):
            continue
        for x, y in pairs:
            if y == 0:
                continue    # the translated part starts behind the zero test
            try:
                r = getattr(integer(x), meth)(integer(y))
                impl = 'ok %d' % r.to_int()
            except error.BASICError as e:
                impl = 'err %d' % e.err
            except Exception as e:
                impl = 'exc %s' % type(e).__name__
            b.add('%s:%s' % (op, impl.split()[0]), {'op': op, 'a': x, 'b': y}, impl, '%s %d %d' % (op, x, y))
    b.pyint()

    def through_from_int(case, m):
        # the translated value is the argument of self.from_int(): range check of Integer.from_int
        if 'op' in case and m.startswith('ok '):
            q = int(m[3:])
            return m if -0x8000 <= q <= 0x7fff else 'err %d' % error.OVERFLOW
        return m
    b.run(through_from_int)


# =============================================================================================
# second batch of translated functions

# order of the flags in the reply to `TR supported2`
FLAGS2 = ['inegCore', 'iaddCore', 'igtCore', 'kbRingIndex', 'kbLength', 'kbStart', 'kbStop', 'kbFull',
          'cgaCoords', 'egaCoords', 'tandy6Coords', 'coordOk', 'vpWidthHeight', 'vpBounds', 'vpConvert',
          'vpContains', 'vpMid', 'vpCutoff', 'scalarRecordSize', 'arrayRecordSize',
          'rfEof', 'rfSeek', 'rfPutOffset']


def _supported2(ctx, names):
    out = ctx.model(['supported2'], prefix=PREFIX)
    if out is None:
        return None
    if not out[0].startswith('ok ') or len(out[0]) != 3 + len(FLAGS2):
        ctx.disagree({'label': 'translated:supported2', 'line': 'supported2'}, 'ok <%d flags>' % len(FLAGS2), out[0])
        return {}
    flags = dict(zip(FLAGS2, (c == '1' for c in out[0][3:])))
    for n in names:
        ctx.count('translated:%s:%s' % (n, 'supported' if flags[n] else 'UNSUPPORTED'))
        if not flags[n]:
            ctx.notes.setdefault('translated_unsupported', []).append(n)
    return flags


def _guard(f):
    """Reply of the real code as a string; a host exception is an observable reply."""
    try:
        return f()
    except Exception as e:
        return 'exc %s' % type(e).__name__


# ---------------------------------------------------------------------------------------------
# C02: Integer.ineg / iadd / gt on the two buffer bytes

def check_intbytes(ctx):
    from pcbasic.basic.values import values, numbers
    from pcbasic.basic.base import error
    flags = _supported2(ctx, ['inegCore', 'iaddCore', 'igtCore'])
    if flags is None:
        return
    vs = values.Values(None, False)
    vs.set_handler(values.FloatErrorHandler(None))
    b = _Batch(ctx, 'translated-intbytes')
    rng = b.rng

    def integer(w):
        return numbers.Integer(None, vs).from_bytes(struct.pack('<H', w))

    def result(f):
        try:
            r = f()
        except error.BASICError as e:
            return 'ok %d' % -e.err
        except Exception as e:
            return 'exc %s' % type(e).__name__
        if isinstance(r, bool):
            return 'ok %d' % int(r)
        if isinstance(r, numbers.Integer):
            return 'ok %d' % struct.unpack('<H', bytes(r.to_bytes()))[0]
        return 'ok %d' % int(bool(r))      # gt returns the truth value of `not(isneg)`

    bv = sorted(set(((1 << k) + d) & 0xffff for k in range(17) for d in (-2, -1, 0, 1, 2))
                | set((-(1 << k) + d) & 0xffff for k in range(17) for d in (-2, -1, 0, 1, 2))
                | {0x00ff, 0x0100, 0x7f00, 0x7fff, 0x8000, 0x80ff, 0xff00, 0xffff, 0x1234, 0xedcb})
    singles = bv + [rng.randrange(65536) for _ in range(600)]
    pairs = [(x, y) for x in bv[::3] for y in bv[::3]] + [(rng.choice(bv), rng.choice(bv)) for _ in range(800)]
    pairs += [(rng.randrange(65536), rng.randrange(65536)) for _ in range(1500)]
    if flags.get('inegCore'):
        for w in singles:
            b.add('ineg', {'op': 'ineg', 'a': w}, result(lambda: integer(w).ineg()), 'ineg %d %d' % (w % 256, w // 256))
    for op, meth, flag in (('iadd', 'iadd', 'iaddCore'), ('igt', 'gt', 'igtCore')):
        if not flags.get(flag):
            continue
        for x, y in pairs:
            b.add(op, {'op': op, 'a': x, 'b': y}, result(lambda: getattr(integer(x), meth)(integer(y))),
                  '%s %d %d %d %d' % (op, x % 256, x // 256, y % 256, y // 256))
    b.run()


# ---------------------------------------------------------------------------------------------
# C37: KeyboardBuffer ring arithmetic

class _Sink(object):
    def put(self, _):
        pass


class _Queues(object):
    audio = _Sink()
    video = _Sink()


def check_keybuf(ctx):
    from pcbasic.basic.inputs import keyboard
    flags = _supported2(ctx, ['kbRingIndex', 'kbLength', 'kbStart', 'kbStop', 'kbFull'])
    if flags is None:
        return
    b = _Batch(ctx, 'translated-keybuf')
    rng = b.rng
    states = []
    for ring in (16, 16, 16, 1, 2, 5, 15, 17, 32):
        for _ in range(60):
            ln = rng.choice([ring, ring + 1, 2 * ring - 1, 2 * ring, 2 * ring + 1, rng.randrange(ring, 5 * ring + 3)])
            start = rng.choice([0, 1, ln, max(0, ln - 1), max(0, ln - ring), max(0, ln - ring + 1), rng.randrange(0, ln + 1)])
            states.append((ring, ln, start))
    for ring, ln, start in states:
        kb = keyboard.KeyboardBuffer(_Queues(), ring, True)
        kb._buffer = [(b'%c' % (65 + i % 26), i) for i in range(ln)]
        kb._start = start
        case = {'ring': ring, 'len': ln, 'start': start}
        if flags.get('kbLength'):
            b.add('kblen', case, _guard(lambda: 'ok %d' % kb.length), 'kblen %d %d %d' % (ln, start, ring))
        if flags.get('kbStart'):
            b.add('kbstart', case, _guard(lambda: 'ok %d' % kb.start), 'kbstart %d %d' % (start, ring))
        if flags.get('kbStop'):
            b.add('kbstop', case, _guard(lambda: 'ok %d' % kb.stop), 'kbstop %d %d %d' % (ln, start, ring))
        if flags.get('kbRingIndex'):
            for index in (0, 1, ring - 1, ring, -1, rng.randrange(-2 * ring, 3 * ring)):
                b.add('kbri', dict(case, index=index), _guard(lambda: 'ok %d' % kb._ring_index(index)),
                      'kbri %d %d %d' % (ln, ring, index))
        if flags.get('kbFull'):
            # observable: with check_full a keystroke is appended exactly when the ring is not full
            before = len(kb._buffer)
            kb.append(b'x', 45)
            b.add('kbfull', case, 'ok %d' % int(len(kb._buffer) == before), 'kbfull %d %d %d' % (ln, start, ring))
    b.run()


# ---------------------------------------------------------------------------------------------
# C34: address -> (page, x, y) of the graphics memory mappers, _coord_ok

def check_coords(ctx):
    from pcbasic.basic.display import framebuffer
    flags = _supported2(ctx, ['cgaCoords', 'egaCoords', 'tandy6Coords', 'coordOk'])
    if flags is None:
        return
    b = _Batch(ctx, 'translated-coords')
    rng = b.rng
    # (pixel_height, pixel_width, video_mem_size, max_pages, interleave_times, bank_size, bitsperpixel):
    # the parameter sets of modes.py and synthetic ones
    real = {
        'cga': [(200, 320, 16384, 1, 2, 0x2000, 2), (200, 640, 16384, 1, 2, 0x2000, 1), (200, 160, 16384, 1, 2, 0x2000, 4),
                (200, 320, 32768, 2, 4, 0x2000, 4), (400, 640, 32768, 1, 4, 0x2000, 1), (348, 720, 65536, 2, 4, 0x2000, 1)],
        'ega': [(200, 320, 262144, None, 1, 0x2000, 4), (200, 640, 262144, None, 1, 0x4000, 4),
                (350, 640, 262144, None, 1, 0x8000, 4), (350, 640, 65536, None, 1, 0x8000, 2)],
        'tandy6': [(200, 640, 32768, 4, 4, 0x2000, 2)],
    }
    classes = {'cga': framebuffer.CGAMemoryMapper, 'ega': framebuffer.EGAMemoryMapper,
               'tandy6': framebuffer.Tandy6MemoryMapper}
    for kind in ('cga', 'ega', 'tandy6'):
        if not flags.get(kind + 'Coords'):
            continue
        params = list(real[kind])
        for _ in range(12):
            bpp = rng.choice([1, 2, 4, 8])
            params.append((rng.randrange(1, 500), 8 * rng.randrange(1, 100), rng.choice([16384, 32768, 65536, 262144]),
                           rng.choice([None, 1, 2, 4, 8]), rng.choice([1, 2, 4]), rng.choice([0x800, 0x2000, 0x4000, 5000]), bpp))
        for prm in params:
            mm = classes[kind](*prm)
            seg = mm._video_segment * 16
            addrs = [seg, seg + 1, seg - 1, seg + mm._page_size - 1, seg + mm._page_size, seg + mm._bank_size,
                     seg + mm._bank_size - 1, seg + mm._bytes_per_row, seg + mm._bytes_per_row - 1, 0, 1, seg - mm._page_size,
                     seg - mm._page_size - 1, 0xfffff, 0x100000]
            addrs += [rng.randrange(0, 0x110000) for _ in range(25)]
            addrs += [seg + rng.randrange(-70000, 300000) for _ in range(25)]
            for a in addrs:
                impl = _guard(lambda: 'ok %d,%d,%d' % tuple(mm._get_coords(a)))
                if kind == 'cga':
                    line = 'cga %d %d %d %d %d %d %d' % (a, mm._video_segment, mm._page_size, mm._bank_size,
                                                        mm._bytes_per_row, mm._bitsperpixel, mm._interleave_times)
                elif kind == 'ega':
                    line = 'ega %d %d %d %d' % (a, mm._video_segment, mm._page_size, mm._bytes_per_row)
                else:
                    line = 'tandy6 %d %d %d %d %d' % (a, mm._video_segment, mm._page_size, mm._bank_size, mm._bytes_per_row)
                b.add(kind + ':' + ('below' if a < seg else 'in'), {'mapper': kind, 'params': list(prm), 'addr': a}, impl, line)
            if flags.get('coordOk'):
                np_ = mm.num_pages
                for _ in range(30):
                    pg = rng.choice([-1, 0, 1, np_ - 1, np_, np_ + 1])
                    x = rng.choice([-1, 0, mm._pixel_width - 1, mm._pixel_width, rng.randrange(-5, mm._pixel_width + 5)])
                    y = rng.choice([-1, 0, mm._pixel_height - 1, mm._pixel_height, rng.randrange(-5, mm._pixel_height + 5)])
                    b.add('cok', {'mapper': kind, 'params': list(prm), 'page': pg, 'x': x, 'y': y},
                          _guard(lambda: 'ok %d' % int(bool(mm._coord_ok(pg, x, y)))),
                          'cok %d %d %d %d %d %d' % (pg, x, y, np_, mm._pixel_width, mm._pixel_height))
    b.run()


# ---------------------------------------------------------------------------------------------
# C30: GraphicsViewPort integer code

class _Pix(object):
    def __init__(self, w, h):
        self.width, self.height = w, h


def check_viewport(ctx):
    from pcbasic.basic.display import graphics
    names = ['vpWidthHeight', 'vpBounds', 'vpConvert', 'vpContains', 'vpMid', 'vpCutoff']
    flags = _supported2(ctx, names)
    if flags is None:
        return
    b = _Batch(ctx, 'translated-viewport')
    rng = b.rng
    for _ in range(250):
        w, h = rng.choice([(320, 200), (640, 200), (640, 350), (720, 348), (160, 200), (1, 1), (2, 3)])
        vp = graphics.GraphicsViewPort(_Pix(w, h))
        mode = rng.random()
        if mode < 0.2:
            pass                            # unset viewport
        else:
            xs = [rng.choice([0, 1, w - 1, w // 2, rng.randrange(0, w)]) for _ in range(2)]
            ys = [rng.choice([0, 1, h - 1, h // 2, rng.randrange(0, h)]) for _ in range(2)]
            if mode > 0.9:                  # states the real VIEW never produces are still states of the code
                xs = [rng.randrange(-50, w + 50) for _ in range(2)]
                ys = [rng.randrange(-50, h + 50) for _ in range(2)]
            vp.set(xs[0], ys[0], xs[1], ys[1], rng.random() < 0.5)
        ab = int(bool(vp._absolute))
        r = tuple(vp._rect)
        st = '%d %d %d %d %d' % ((ab,) + r)
        case = {'size': [w, h], 'absolute': ab, 'rect': list(r)}
        if flags.get('vpWidthHeight'):
            b.add('vpwh', case, _guard(lambda: 'ok %d,%d' % (vp.width, vp.height)), 'vpwh %d %d %d %d' % r)
        if flags.get('vpBounds'):
            b.add('vpbounds', case, _guard(lambda: 'ok %d,%d,%d,%d' % tuple(vp.get_bounds())), 'vpbounds ' + st)
        if flags.get('vpMid'):
            b.add('vpmid', case, _guard(lambda: 'ok %d,%d' % tuple(vp.get_mid())), 'vpmid ' + st)
        pts = [(r[0], r[1]), (r[2], r[3]), (r[2] + 1, r[3]), (r[0] - 1, r[1]), (0, 0), (-1, -1), (w, h), (w - 1, h - 1),
               (r[2] - r[0], r[3] - r[1]), (r[2] - r[0] + 1, r[3] - r[1] + 1), (-32768, 32767), (40000, -40000)]
        pts += [(rng.randrange(-w - 5, 2 * w + 5), rng.randrange(-h - 5, 2 * h + 5)) for _ in range(6)]
        for x, y in pts:
            c2 = dict(case, x=x, y=y)
            if flags.get('vpConvert'):
                b.add('vpconv', c2, _guard(lambda: 'ok %d,%d' % tuple(vp._convert_coords(x, y))), 'vpconv %s %d %d' % (st, x, y))
            if flags.get('vpContains'):
                b.add('vpcontains', c2, _guard(lambda: 'ok %d' % int(bool(vp.contains(x, y)))), 'vpcontains %s %d %d' % (st, x, y))
            if flags.get('vpCutoff'):
                b.add('vpcut', c2, _guard(lambda: 'ok %d,%d' % tuple(vp.cutoff_coord(x, y))),
                      'vpcut %s %d %d %d %d' % (st, w, h, x, y))
    b.run()


# ---------------------------------------------------------------------------------------------
# C11: record sizes of scalars and arrays

def check_recsize(ctx):
    from pcbasic.basic.memory import scalars, arrays
    flags = _supported2(ctx, ['scalarRecordSize', 'arrayRecordSize'])
    if flags is None:
        return
    b = _Batch(ctx, 'translated-recsize')
    rng = b.rng
    for n in list(range(1, 45)) + [rng.randrange(1, 300) for _ in range(30)]:
        name = b'A' * (n - 1) + rng.choice([b'%', b'!', b'#', b'$'])
        if flags.get('scalarRecordSize'):
            b.add('srec', {'name_len': n}, _guard(lambda: 'ok %d' % scalars.Scalars._record_size(name)), 'srec %d' % n)
        if flags.get('arrayRecordSize'):
            for d in (1, 2, 3, rng.randrange(1, 256)):
                b.add('arec', {'name_len': n, 'ndims': d},
                      _guard(lambda: 'ok %d' % arrays.Arrays._record_size(name, [1] * d)), 'arec %d %d' % (n, d))
    b.run()


# ---------------------------------------------------------------------------------------------
# C25: record arithmetic of RandomFile.eof / _set_record_pos / put on a real RandomFile object

class _SpyHandle(object):
    """Host file object of the given length that records every seek and write (no bytes are stored:
    record numbers go up to 2**25)."""

    def __init__(self, length):
        self.length, self.pos, self.seeks, self.writes = length, 0, [], []

    def seek(self, off, whence=0):
        if whence == 2:
            self.pos = self.length + off
        else:
            self.seeks.append(off)
            self.pos = off

    def tell(self):
        return self.pos

    def read(self, n):
        n = max(0, min(n, self.length - self.pos))
        self.pos += n
        return b'\0' * n

    def write(self, data):
        self.writes.append((self.pos, len(data)))
        self.pos += len(data)
        self.length = max(self.length, self.pos)

    def close(self):
        pass


def check_randfile(ctx):
    from pcbasic.basic.devices import diskfiles
    flags = _supported2(ctx, ['rfEof', 'rfSeek', 'rfPutOffset'])
    if flags is None:
        return

    class _Field(object):
        def __init__(self, n):
            self.buf = bytearray(n)

        def view_buffer(self):
            return memoryview(self.buf)

    class _NoLocks(object):
        def try_record_access(self, *a):
            pass

        def open_file(self, *a, **k):
            pass

        def close_file(self, *a):
            pass

    def make(reclen, length, recpos):
        h = _SpyHandle(length)
        rf = diskfiles.RandomFile.__new__(diskfiles.RandomFile)
        rf._fhandle, rf._recpos, rf._number, rf._locks = h, recpos, 1, _NoLocks()
        rf.reclen = reclen
        fld = _Field(reclen)

        class _FF(object):
            def set_buffer(self, contents):
                fld.buf[:reclen] = contents.ljust(reclen, b'\0')

            def get_buffer(self):
                return bytearray(fld.buf[:reclen])
        rf._field_file = _FF()
        return rf, h

    b = _Batch(ctx, 'translated-randfile')
    rng = b.rng
    recs = [1, 2, 3, 4, 7, 128, 129, 255, 256, 32767]
    cases = []
    for rl in recs:
        for k in (0, 1, 2, 5):
            for d in (-1, 0, 1):
                cases.append((rl, max(0, k * rl + d), k))
    for _ in range(150):
        rl = rng.choice(recs + [rng.randrange(1, 32768)])
        rp = rng.choice([0, 1, 2, rng.randrange(0, 50), rng.randrange(0, 1 << 25)])
        ln = max(0, rp * rl + rng.choice([-rl, -1, 0, 1, rl, -rng.randrange(0, 1 + rp * rl), rng.randrange(0, 5000)]))
        cases.append((rl, ln, rp))
    for rl, ln, rp in cases:
        if flags.get('rfEof'):
            def impl_eof():
                rf, h = make(rl, ln, rp)
                return 'ok %d' % (1 if rf.eof() else 0)
            b.add('rfeof:' + ('behind' if rp * rl > ln else 'at' if rp * rl == ln else 'inside'),
                  {'reclen': rl, 'lof': ln, 'recpos': rp}, _guard(impl_eof), 'rfeof %d %d %d' % (rp, rl, ln))
        if flags.get('rfSeek'):
            pos = rp + 1

            def impl_seek():
                rf, h = make(rl, ln, 3)
                rf._set_record_pos(pos)
                return 'ok %d,%d' % (h.seeks[-1], rf._recpos)
            b.add('rfseek', {'reclen': rl, 'pos': pos}, _guard(impl_seek), 'rfseek %d %d' % (pos, rl))
        if flags.get('rfPutOffset'):
            def impl_put():
                rf, h = make(rl, ln, rp)
                rf.put(None)
                (off, n), = h.writes
                if n != rl or rf._recpos != rp + 1:
                    return 'bad write length %d / recpos %d' % (n, rf._recpos)
                return 'ok %d' % off
            b.add('rfput:' + ('gap' if rp * rl > ln else 'nogap'), {'reclen': rl, 'lof': ln, 'recpos': rp},
                  _guard(impl_put), 'rfput %d %d' % (rp, rl))
    b.run()
