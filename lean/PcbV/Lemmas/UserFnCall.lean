import PcbV.Lemmas.UserFnWrite
/-
  `enter` / `leave` of `UserFn.evaluate`: the state the body runs in, and the restore.
-/
namespace PcbV.UserFn
open PcbV PcbV.Heap

/-- what `enter` establishes -/
structure Entered (f : Fn) (s s4 : St) (saved : List (Bytes × Slot)) : Prop where
  data : ∃ s1 s2 av, PostX s s1 ∧ PostX s1 s2 ∧ saved.map (·.1) = f.params ∧
    (∀ x ∈ saved, SavedEntry s1 s2 x) ∧ (∀ x ∈ av, TypedEntry x) ∧ (∀ x ∈ av, x.1 ∈ f.params) ∧
    f.idx ∉ s1.busy ∧
    s4 = { writeAll true av s2 with busy := f.idx :: (writeAll true av s2).busy }

theorem mem_zip_fst {α β : Type} (a : List α) (b : List β) (x : α) (h : x ∈ (a.zip b).map (·.1)) : x ∈ a := by
  obtain ⟨y, hy, rfl⟩ := List.mem_map.mp h
  exact (List.of_mem_zip hy).1

theorem enter_post (f : Fn) (args : List Comp) (hargs : ∀ c ∈ args, Framed c) (s : St) (hw : WF s.h) :
    match enter f args s with
    | .ok (s4, saved) => Entered f s s4 saved
    | .error (_, t) => PostX s t := by
  unfold enter
  have hzip : ∀ x ∈ f.params.zip args, Framed x.2 := fun x hx => hargs x.2 (List.of_mem_zip hx).2
  have h1 := evalArgs_post (f.params.zip args) hzip s hw
  cases hev : evalArgs (f.params.zip args) s with
  | error x => obtain ⟨e, t⟩ := x; rw [hev] at h1; exact h1
  | ok x =>
    obtain ⟨s1, av⟩ := x
    rw [hev] at h1
    obtain ⟨hp1, hty, hmem⟩ := h1
    simp only
    by_cases hb : f.idx ∈ s1.busy
    · rw [if_pos hb]; exact hp1
    · rw [if_neg hb]
      have h2 := saveAll_post f.params s1 hp1.wf
      cases hsv : saveAll f.params s1 with
      | error x => obtain ⟨e, t⟩ := x; rw [hsv] at h2; exact hp1.trans h2
      | ok x =>
        obtain ⟨s2, saved⟩ := x
        rw [hsv] at h2
        obtain ⟨hp2, hn, hs⟩ := h2
        exact ⟨s1, s2, av, hp1, hp2, hn, hs, hty, fun x hx => mem_zip_fst _ _ _ (hmem x hx), hb, rfl⟩

theorem saved_of_param {saved : List (Bytes × Slot)} {ps : List Bytes} (hn : saved.map (·.1) = ps) (m : Bytes)
    (hm : m ∈ ps) : ∃ y ∈ saved, y.1 = m := by
  rw [← hn] at hm
  obtain ⟨y, hy, he⟩ := List.mem_map.mp hm
  exact ⟨y, hy, he⟩

/-- the restore brings back a later state of the state before the binding -/
theorem leave_post (f : Fn) (s1 s2 sE : St) (av saved : List (Bytes × Slot))
    (hp2 : PostX s1 s2) (hn : saved.map (·.1) = f.params) (hs : ∀ x ∈ saved, SavedEntry s1 s2 x)
    (hty : ∀ x ∈ av, TypedEntry x) (hmem : ∀ x ∈ av, x.1 ∈ f.params) (hb : f.idx ∉ s1.busy)
    (hB : PostX { writeAll true av s2 with busy := f.idx :: (writeAll true av s2).busy } sE) :
    PostX s2 (leave f saved sE) ∧ Wr sE.h (leave f saved sE).h := by
  obtain ⟨A1, A2, A3, A4, A5⟩ := writeAll_frame true av s2 hp2.wf
  have hBe : Ext (writeAll true av s2).h sE.h := hB.ext
  have hBw : WF sE.h := hB.wf
  -- the restore loop
  have ht1 : WF ({ sE with busy := sE.busy.erase f.idx } : St).h := hBw
  obtain ⟨C1, C2, C3, C4, C5⟩ := writeAll_frame false saved { sE with busy := sE.busy.erase f.idx } ht1
  have hC2 : Wr sE.h (leave f saved sE).h := C2
  have hfind : ∀ name i, findIdx name s2.h.scalars 0 = some i → findIdx name sE.h.scalars 0 = some i := by
    intro name i hi
    apply hBe.find_idx
    rw [A2.findIdx_eq]
    exact hi
  have hL : ∀ x ∈ saved, WriteEntry { sE with busy := sE.busy.erase f.idx } (readH s1.h) (getNum s1) x := by
    intro x hx
    have := hs x hx
    obtain ⟨name, sl⟩ := x
    cases sl with
    | num q => exact this.2
    | str k =>
      obtain ⟨_, hsl, i, hi⟩ := this
      exact ⟨(A2.slotHas hsl).ext hBe, i, hfind _ _ hi⟩
  have D := writeAll_values false (readH s1.h) (getNum s1) saved { sE with busy := sE.busy.erase f.idx } ht1 hL
  -- an entry of `av` has a saved entry of the same name and kind
  have hsav_str : ∀ x ∈ av, ∀ k, x.2 = .str k → ∃ y ∈ saved, ∃ k', y.2 = .str k' ∧ y.1 = x.1 := by
    intro x hx k hk
    obtain ⟨y, hy, he⟩ := saved_of_param hn x.1 (hmem x hx)
    have h1 := hty x hx
    have h2 := hs y hy
    obtain ⟨n1, v1⟩ := x
    obtain ⟨n2, v2⟩ := y
    cases hk
    cases he
    cases v2 with
    | str k' => exact ⟨_, hy, k', rfl, rfl⟩
    | num q => exact absurd h1 h2.1
  have hsav_num : ∀ x ∈ av, ∀ q, x.2 = .num q → ∃ y ∈ saved, ∃ q', y.2 = .num q' ∧ y.1 = x.1 := by
    intro x hx q hq
    obtain ⟨y, hy, he⟩ := saved_of_param hn x.1 (hmem x hx)
    have h1 := hty x hx
    have h2 := hs y hy
    obtain ⟨n1, v1⟩ := x
    obtain ⟨n2, v2⟩ := y
    cases hq
    cases he
    cases v2 with
    | num q' => exact ⟨_, hy, q', rfl, rfl⟩
    | str k' => exact absurd h2.1 h1
  -- cells that are not a string parameter are untouched by both loops
  have huntouched : ∀ i, (¬ ∃ x ∈ saved, ∃ k, x.2 = .str k ∧ findIdx x.1 s2.h.scalars 0 = some i) →
      (writeAll true av s2).h.scalars[i]? = s2.h.scalars[i]? ∧
      (leave f saved sE).h.scalars[i]? = sE.h.scalars[i]? := by
    intro i hno
    refine ⟨A4 i ?_, C4 i ?_⟩
    · intro x hx k hk he
      obtain ⟨y, hy, k', h1, h2⟩ := hsav_str x hx k hk
      exact hno ⟨y, hy, k', h1, by rw [h2]; exact he⟩
    · intro x hx k hk he
      have := hs x hx
      obtain ⟨name, sl⟩ := x
      cases hk
      obtain ⟨_, _, j, hj⟩ := this
      have : findIdx name sE.h.scalars 0 = some j := hfind _ _ hj
      have he' : findIdx name sE.h.scalars 0 = some i := he
      rw [this] at he'
      cases he'
      exact hno ⟨_, hx, k, rfl, hj⟩
  have hgetsc : ∀ (a b : Heap) i, a.scalars[i]? = b.scalars[i]? → getLoc a (.v (.sc i)) = getLoc b (.v (.sc i)) := by
    intro a b i h
    simp [getLoc, getV, h]
  refine ⟨⟨C1, ⟨?_, ?_, ?_⟩, ?_, ?_, ?_⟩, hC2⟩
  · -- cells
    intro l p hp
    have hthrough : getLoc (writeAll true av s2).h l = getLoc s2.h l →
        getLoc (leave f saved sE).h l = getLoc sE.h l →
        ∃ p', getLoc (leave f saved sE).h l = some p' ∧ deref (leave f saved sE).h p' = deref s2.h p := by
      intro e1 e2
      obtain ⟨p1, hp1, hd1⟩ := hBe.cells l p (by rw [e1]; exact hp)
      exact ⟨p1, by rw [e2]; exact hp1, by rw [hC2.deref, hd1, A2.deref]⟩
    cases l with
    | s k => exact hthrough (A2.getLoc_s k) (hC2.getLoc_s k)
    | v l =>
      cases l with
      | el a i => exact hthrough (A2.getLoc_el a i) (hC2.getLoc_el a i)
      | sc i =>
        by_cases hpc : ∃ x ∈ saved, ∃ k, x.2 = .str k ∧ findIdx x.1 s2.h.scalars 0 = some i
        · obtain ⟨x, hx, k, hk, hi⟩ := hpc
          have hw := D x hx
          obtain ⟨name, sl⟩ := x
          cases hk
          have hw : readH (leave f saved sE).h name = readH s1.h name := hw
          have hfF : findIdx name (leave f saved sE).h.scalars 0 = some i := by
            rw [hC2.findIdx_eq]; exact hfind _ _ hi
          obtain ⟨p', hp'⟩ := findIdx_cell _ name i hfF
          refine ⟨p', hp', ?_⟩
          have e1 : readH (leave f saved sE).h name = deref (leave f saved sE).h p' := by
            simp [readH, hfF, hp']
          have e2 : readH s2.h name = deref s2.h p := by
            have : getV s2.h (.sc i) = some p := hp
            simp [readH, hi, this]
          rw [← e1, hw, ← e2]
          exact (hp2.ext.read name).symm
        · obtain ⟨u1, u2⟩ := huntouched i hpc
          exact hthrough (hgetsc _ _ i u1) (hgetsc _ _ i u2)
  · -- fresh
    intro i p' hnone hp'
    have hpc : ¬ ∃ x ∈ saved, ∃ k, x.2 = .str k ∧ findIdx x.1 s2.h.scalars 0 = some i := by
      intro ⟨x, hx, k, hk, hi⟩
      obtain ⟨q, hq⟩ := findIdx_cell s2.h x.1 i hi
      have : getLoc s2.h (.v (.sc i)) = some q := hq
      rw [hnone] at this
      cases this
    obtain ⟨u1, u2⟩ := huntouched i hpc
    rw [hgetsc _ _ i u2] at hp'
    rw [hC2.deref]
    exact hBe.fresh i p' (by rw [hgetsc _ _ i u1]; exact hnone) hp'
  · -- names
    obtain ⟨ex, hex⟩ := hBe.names
    exact ⟨ex, by rw [hC2.names, hex, A2.names]⟩
  · -- roots
    have e1 : (leave f saved sE).h.stack = sE.h.stack := hC2.stack
    have e2 : (writeAll true av s2).h.stack = s2.h.stack := A2.stack
    have := hB.le
    simp only at this
    rw [e1, ← e2]
    exact this
  · -- numeric scalars
    intro m
    by_cases hex : ∃ x ∈ saved, ∃ q, x.2 = .num q ∧ x.1 = m
    · obtain ⟨x, hx, q, hq, hm⟩ := hex
      have hw := D x hx
      obtain ⟨name, sl⟩ := x
      cases hq
      cases hm
      have hw : getNum (leave f saved sE) name = getNum s1 name := hw
      rw [hw]
      exact (hp2.nums name).symm
    · have c5 := C5 m (fun y hy q hq he => hex ⟨y, hy, q, hq, he⟩)
      have e1 : getNum (leave f saved sE) m = getNum sE m := c5
      have e2 : getNum sE m = getNum (writeAll true av s2) m := hB.nums m
      have e3 : getNum (writeAll true av s2) m = getNum s2 m := by
        apply A5 m
        intro x hx q hq he
        obtain ⟨y, hy, q', h1, h2⟩ := hsav_num x hx q hq
        exact hex ⟨y, hy, q', h1, h2.trans he⟩
      rw [e1, e2, e3]
  · -- recursion flags
    have e1 : (leave f saved sE).busy = sE.busy.erase f.idx := C3
    have e2 : sE.busy = f.idx :: (writeAll true av s2).busy := hB.busy
    rw [e1, e2, List.erase_cons_head, A3]

end PcbV.UserFn
