import PcbV.Lemmas.ProgramEdit
/-
  C13 — the stored program matches the entered lines after any edit history.
  Theorems about `PcbV.Program` (transcription of pcbasic/basic/program.py, class Program, and of
  TokenisedStream.skip_to).  `Inv` is the representation invariant: the bytes are the serialisation
  of a strictly sorted list of records with well-formed bodies, the dict is its offset table, and
  the program ends below the top of memory (so that every address is a 16-bit number).
-/
namespace PcbV.C13
open PcbV PcbV.Program PcbV.Gen

/-- `rs` is the program that the concrete state represents -/
structure Repr (s : PState) (rs : List Rec) : Prop where
  sorted : Sorted rs
  good : ∀ r ∈ rs, r.1 ≤ 65535 ∧ wfBody r.2 = true
  code : s.code = ser (s.codeStart + 1) rs
  dict : s.dict = dictOf rs
  mem : s.codeStart + 1 + size rs ≤ s.limit
  lim : s.limit ≤ 65535

def Inv (s : PState) : Prop := ∃ rs, Repr s rs

theorem Repr.goodRecs {s : PState} {rs : List Rec} (h : Repr s rs) : GoodRecs (s.codeStart + 1) rs :=
  ⟨h.good, by have := h.mem; have := h.lim; omega⟩

/-- the abstraction function reads back exactly the represented program -/
theorem abs_of_repr {s : PState} {rs : List Rec} (h : Repr s rs) : abs s = rs := by
  unfold abs; rw [h.code]; exact parse_ser _ _ h.goodRecs

theorem repr_abs {s : PState} (h : Inv s) : Repr s (abs s) := by
  obtain ⟨rs, hr⟩ := h
  rw [abs_of_repr hr]; exact hr

/-! ### the invariant holds initially and after NEW -/

theorem inv_init (cs limit : Nat) (h1 : cs + 1 ≤ limit) (h2 : limit ≤ 65535) : Inv (init cs limit) :=
  ⟨[], ⟨List.Pairwise.nil, by simp, rfl, rfl, by simpa [init, size] using h1, h2⟩⟩

theorem inv_new (s : PState) (h : Inv s) : Inv (new s) ∧ abs (new s) = [] := by
  obtain ⟨rs, hr⟩ := h
  have hrep : Repr (new s) [] :=
    ⟨List.Pairwise.nil, by simp, rfl, rfl, by have := hr.mem; simp [new, size]; omega, hr.lim⟩
  exact ⟨⟨[], hrep⟩, abs_of_repr hrep⟩

/-! ### what the invariant says about the bytes and the index (the four clauses of the design) -/

theorem mem_offs_ge {xs : List Rec} : ∀ {p : Nat} {e : Nat × Nat}, e ∈ offs p xs → p ≤ e.2 := by
  induction xs with
  | nil => intro p e h; simp [offs] at h
  | cons r t ih =>
    intro p e h
    simp only [offs, List.mem_cons] at h
    rcases h with h | h
    · rw [h]; exact Nat.le_refl _
    · have := ih h; omega

theorem pairwise_dict (rs : List Rec) (hs : Sorted rs) (hg : ∀ r ∈ rs, r.1 ≤ 65535) : ∀ p,
    (offs p rs ++ [(65536, p + size rs)]).Pairwise (fun (x y : Nat × Nat) => x.1 < y.1 ∧ x.2 < y.2) := by
  induction rs with
  | nil => intro p; simp [offs]
  | cons r t ih =>
    intro p
    have hs' : Sorted t := (List.pairwise_cons.mp hs).2
    have hlt : ∀ x ∈ t, r.1 < x.1 := (List.pairwise_cons.mp hs).1
    simp only [offs, List.cons_append, size]
    rw [List.pairwise_cons]
    refine ⟨?_, ?_⟩
    · intro e he
      rw [List.mem_append] at he
      rcases he with he | he
      · obtain ⟨x, hx, hxe⟩ := mem_offs he
        have := mem_offs_ge he
        have := hlt x hx
        simp only [recSize] at *
        constructor <;> omega
      · simp only [List.mem_singleton] at he
        subst he
        have := hg r (List.mem_cons_self ..)
        simp only [recSize]
        constructor <;> omega
    · have := ih hs' (fun x hx => hg x (List.mem_cons_of_mem _ hx)) (p + recSize r)
      have e : p + recSize r + size t = p + (recSize r + size t) := by omega
      rw [e] at this
      exact this

/-- link fields, line fields and the terminator, read along the dict:
    the record of each entry starts `00 <code_start+1+offset of the next entry : 2> <line : 2>`,
    and at the sentinel's offset the stream ends `00 00 00`. -/
def linksOk (cs : Nat) (code : Bytes) : List (Nat × Nat) → Prop
  | e1 :: e2 :: rest =>
    (code.drop e1.2).take 5 = [0, lo (cs + 1 + e2.2), hi (cs + 1 + e2.2), lo e1.1, hi e1.1] ∧
      linksOk cs code (e2 :: rest)
  | [e] => code.drop e.2 = [0, 0, 0]
  | [] => False

theorem linksOk_ser (cs : Nat) (rs : List Rec) : ∀ (pfx : Bytes) (p : Nat), pfx.length = p →
    linksOk cs (pfx ++ ser (cs + 1 + p) rs) (offs p rs ++ [(65536, p + size rs)]) := by
  induction rs with
  | nil =>
    intro pfx p hp
    simp only [offs, List.nil_append, linksOk, size, Nat.add_zero]
    rw [List.drop_left' hp]; rfl
  | cons r t ih =>
    intro pfx p hp
    have hnext := ih (pfx ++ serRecs (cs + 1 + p) [r]) (p + recSize r)
      (by simp [length_serRecs, size, hp])
    have hcode : pfx ++ ser (cs + 1 + p) (r :: t) =
        pfx ++ serRecs (cs + 1 + p) [r] ++ ser (cs + 1 + (p + recSize r)) t := by
      have := ser_append (cs + 1 + p) [r] t
      simp only [List.singleton_append, size, Nat.add_zero] at this
      rw [this, List.append_assoc, Nat.add_assoc (cs + 1)]
    rw [← hcode] at hnext
    have e : p + recSize r + size t = p + size (r :: t) := by simp only [size]; omega
    rw [e] at hnext
    have hd : (pfx ++ ser (cs + 1 + p) (r :: t)).drop p = ser (cs + 1 + p) (r :: t) := List.drop_left' hp
    cases t with
    | nil =>
      simp only [offs, List.nil_append, List.cons_append, linksOk] at hnext ⊢
      refine ⟨?_, hnext⟩
      rw [hd, ser_cons]
      simp [size, Nat.add_assoc]
    | cons r2 t2 =>
      simp only [offs, List.cons_append, linksOk] at hnext ⊢
      refine ⟨?_, hnext⟩
      rw [hd, ser_cons]
      simp [Nat.add_assoc]

theorem inv_facts (s : PState) (h : Inv s) :
    s.dict = rescan s.code ∧
    s.dict.Pairwise (fun (x y : Nat × Nat) => x.1 < y.1 ∧ x.2 < y.2) ∧
    linksOk s.codeStart s.code s.dict ∧
    (∃ pfx, s.code = pfx ++ [0, 0, 0]) := by
  obtain ⟨rs, hr⟩ := h
  refine ⟨?_, ?_, ?_, ?_⟩
  · rw [hr.code, hr.dict, rescan_ser _ _ hr.goodRecs]
  · rw [hr.dict]
    have := pairwise_dict rs hr.sorted (fun r hx => (hr.good r hx).1) 0
    simpa [dictOf] using this
  · rw [hr.code, hr.dict]
    have := linksOk_ser s.codeStart rs [] 0 rfl
    simpa [dictOf] using this
  · exact ⟨serRecs (s.codeStart + 1) rs, by rw [hr.code]; rfl⟩

/-! ### the operations, computed on the representation -/

theorem pstate_eta (t : PState) : t = ⟨t.code, t.dict, t.codeStart, t.limit⟩ := by cases t; rfl

theorem splice_eq (cs limit a b : Nat) (pre mid post new : List Rec) (hP : Parts a b pre mid post)
    (hbound : cs + 1 + size (pre ++ mid ++ post) < 65536) :
    splice ⟨ser (cs + 1) (pre ++ mid ++ post), dictOf (pre ++ mid ++ post), cs, limit⟩ a b (size pre)
        (size pre + size mid) (serRecs (cs + 1 + size pre) new) =
      ⟨ser (cs + 1) (pre ++ new ++ post),
       offs 0 pre ++ offs (size pre + size new) post ++ [(65536, size pre + size new + size post)], cs, limit⟩ := by
  have hc := splice_code cs limit a b (dictOf (pre ++ mid ++ post)) pre mid post new hbound
  have hd := splice_dict cs limit a b (ser (cs + 1) (pre ++ mid ++ post)) (serRecs (cs + 1 + size pre) new)
    pre mid post hP
  have hf := splice_fields ⟨ser (cs + 1) (pre ++ mid ++ post), dictOf (pre ++ mid ++ post), cs, limit⟩ a b
    (size pre) (size pre + size mid) (serRecs (cs + 1 + size pre) new)
  rw [length_serRecs] at hd
  rw [pstate_eta (splice _ a b _ _ _), hc, hd, hf.1, hf.2]

theorem specRemove_three (a b : Nat) (pre mid post : List Rec) (hP : Parts a b pre mid post) :
    specRemove (pre ++ mid ++ post) a b = pre ++ post := by
  unfold specRemove
  simp only [List.filter_append]
  have h1 : pre.filter (fun r => !decide (a ≤ r.1 ∧ r.1 ≤ b)) = pre := by
    rw [List.filter_eq_self]; intro r hr; have := hP.pre_lt r hr; simp; omega
  have h2 : mid.filter (fun r => !decide (a ≤ r.1 ∧ r.1 ≤ b)) = [] := by
    rw [List.filter_eq_nil_iff]; intro r hr; have := hP.mid_in r hr; simp; omega
  have h3 : post.filter (fun r => !decide (a ≤ r.1 ∧ r.1 ≤ b)) = post := by
    rw [List.filter_eq_self]; intro r hr; have := hP.post_gt r hr; simp; omega
  rw [h1, h2, h3]; simp

theorem specHas_three (a b : Nat) (pre mid post : List Rec) (hP : Parts a b pre mid post) :
    specHas (pre ++ mid ++ post) a b = !mid.isEmpty := by
  unfold specHas
  simp only [List.any_append]
  have h1 : pre.any (fun r => decide (a ≤ r.1 ∧ r.1 ≤ b)) = false := by
    rw [List.any_eq_false]; intro r hr; have := hP.pre_lt r hr; simp; omega
  have h3 : post.any (fun r => decide (a ≤ r.1 ∧ r.1 ≤ b)) = false := by
    rw [List.any_eq_false]; intro r hr; have := hP.post_gt r hr; have := hP.hab; simp; omega
  rw [h1, h3]
  cases mid with
  | nil => simp
  | cons r t => have := hP.mid_in r (List.mem_cons_self ..); simp [this]

theorem parts_of_sorted (rs : List Rec) (a b : Nat) (hab : a ≤ b) (hb : b ≤ 65535) :
    Parts a b (preOf rs a) (midOf rs a b) (postOf rs b) :=
  ⟨fun _ h => (mem_preOf h).2, fun _ h => (mem_midOf h).2, fun _ h => (mem_postOf h).2, hb, hab⟩

theorem sorted_three (rs new : List Rec) (a b : Nat) (hab : a ≤ b) (hs : Sorted rs) (hsn : Sorted new)
    (hin : ∀ x ∈ new, a ≤ x.1 ∧ x.1 ≤ b) : Sorted (preOf rs a ++ new ++ postOf rs b) := by
  unfold Sorted at *
  rw [List.pairwise_append, List.pairwise_append]
  refine ⟨⟨hs.filter _, hsn, ?_⟩, hs.filter _, ?_⟩
  · intro x hx y hy
    have := (mem_preOf hx).2; have := hin y hy; omega
  · intro x hx y hy
    have hy' := mem_postOf hy
    rw [List.mem_append] at hx
    rcases hx with hx | hx
    · have hx' := mem_preOf hx; omega
    · have := hin x hx; omega

/-- store_line computed on the representation -/
theorem store_eq (cs limit n : Nat) (body : Bytes) (pre mid post : List Rec) (hP : Parts n n pre mid post)
    (hbound : cs + 1 + size (pre ++ mid ++ post) < 65536) :
    store ⟨ser (cs + 1) (pre ++ mid ++ post), dictOf (pre ++ mid ++ post), cs, limit⟩ n body =
      if bodyEmpty body then
        (if mid.isEmpty then .error E.undefined_line_number
         else .ok ⟨ser (cs + 1) (pre ++ post), dictOf (pre ++ post), cs, limit⟩)
      else if cs + 1 + size (pre ++ (n, body) :: post) > limit then .error E.out_of_memory
      else .ok ⟨ser (cs + 1) (pre ++ (n, body) :: post), dictOf (pre ++ (n, body) :: post), cs, limit⟩ := by
  unfold store storeG
  simp only [findPos_three n n pre mid post hP]
  by_cases he : bodyEmpty body = true
  · simp only [he, Bool.true_and, if_true]
    by_cases hm : mid.isEmpty = true
    · simp [hm]
    · simp only [hm, Bool.false_eq_true, if_false]
      have := splice_eq cs limit n n pre mid post [] hP hbound
      simp only [serRecs, size, Nat.add_zero, List.append_nil] at this
      rw [this]
      simp [dictOf, offs_append, size_append]
  · simp only [he, Bool.false_and, Bool.false_eq_true, if_false]
    have hlen : (ser (cs + 1) (pre ++ mid ++ post)).length - (size pre + size mid) - 3 = size post := by
      rw [length_ser]; simp only [size_append]; omega
    rw [hlen]
    have hsz : size (pre ++ (n, body) :: post) = size pre + (5 + body.length) + size post := by
      simp only [size_append, size, recSize]; omega
    rw [hsz]
    have hcond : (cs + 1 + size pre + (5 + body.length) + size post > limit) ↔
        (cs + 1 + (size pre + (5 + body.length) + size post) > limit) := by omega
    by_cases hc : cs + 1 + (size pre + (5 + body.length) + size post) > limit
    · rw [if_pos (hcond.mpr hc), if_pos hc]
    · rw [if_neg (fun h => hc (hcond.mp h)), if_neg hc]
      have := splice_eq cs limit n n pre mid post [(n, body)] hP hbound
      simp only [serRecs, size, recSize, Nat.add_zero, List.append_nil] at this
      have e : cs + 1 + size pre + (5 + body.length) = cs + 1 + size pre + (5 + body.length) := rfl
      rw [this]
      simp only
      rw [dictSet_three n (size pre) _ _ pre post hP.pre_lt hP.post_gt hP.hb]
      simp [dictOf, offs_append, size_append, offs, size, recSize, Nat.add_assoc]

/-- delete computed on the representation -/
theorem delete_eq (cs limit a b : Nat) (pre mid post : List Rec) (hP : Parts a b pre mid post)
    (hbound : cs + 1 + size (pre ++ mid ++ post) < 65536) :
    delete ⟨ser (cs + 1) (pre ++ mid ++ post), dictOf (pre ++ mid ++ post), cs, limit⟩ a b =
      if mid.isEmpty then .error E.ifc
      else .ok ⟨ser (cs + 1) (pre ++ post), dictOf (pre ++ post), cs, limit⟩ := by
  unfold delete
  simp only [findPos_three a b pre mid post hP]
  by_cases hm : mid.isEmpty = true
  · simp [hm]
  · simp only [hm, Bool.false_eq_true, if_false]
    have := splice_eq cs limit a b pre mid post [] hP hbound
    simp only [serRecs, size, Nat.add_zero, List.append_nil] at this
    rw [this]
    simp [dictOf, offs_append, size_append]

/-- an empty selection (`a > b`, e.g. DELETE 20-10) is refused whatever the program -/
theorem delete_empty_range (s : PState) (a b : Nat) (hab : b < a) : delete s a b = .error E.ifc := by
  unfold delete findPos
  have : s.dict.filter (fun e => decide (a ≤ e.1 ∧ e.1 ≤ b)) = [] := by
    rw [List.filter_eq_nil_iff]; intro e _; simp; omega
  simp only [this]
  simp

/-! ### preservation and refinement, one operation -/

theorem store_refines (s : PState) (n : Nat) (body : Bytes) (h : Inv s) (hn : n ≤ 65535)
    (hwf : bodyEmpty body = false → wfBody body = true) :
    match store s n body with
    | .ok s' => Inv s' ∧ specStore (cap s) (abs s) n body = .ok (abs s') ∧
        s'.codeStart = s.codeStart ∧ s'.limit = s.limit
    | .error e => specStore (cap s) (abs s) n body = .error e := by
  obtain ⟨rs, hR⟩ := h
  rw [abs_of_repr hR]
  obtain ⟨code, dict, cs, limit⟩ := s
  have hcode := hR.code; have hdict := hR.dict
  simp only at hcode hdict
  subst hcode hdict
  have hmem := hR.mem; have hlim := hR.lim
  simp only at hmem hlim
  have hP := parts_of_sorted rs n n (Nat.le_refl _) hn
  have hsplit := split_sorted rs n n (Nat.le_refl _) hR.sorted
  have hgood : ∀ r ∈ preOf rs n ++ postOf rs n, r.1 ≤ 65535 ∧ wfBody r.2 = true := by
    intro r hr
    rw [List.mem_append] at hr
    rcases hr with hr | hr
    · exact hR.good r (mem_preOf hr).1
    · exact hR.good r (mem_postOf hr).1
  have hszle : size (preOf rs n ++ postOf rs n) ≤ size rs := by
    have e : size rs = size (preOf rs n ++ midOf rs n n ++ postOf rs n) := by rw [← hsplit]
    rw [e]; simp only [size_append]; omega
  have hstore := store_eq cs limit n body _ _ _ hP (by rw [← hsplit]; omega)
  rw [← hsplit] at hstore
  rw [hstore]
  unfold specStore cap
  simp only
  by_cases he : bodyEmpty body = true
  · simp only [he, if_true]
    have hhas : specHas rs n n = !(midOf rs n n).isEmpty := by
      have := specHas_three n n _ _ _ hP; rw [← hsplit] at this; exact this
    have hrem : specRemove rs n n = preOf rs n ++ postOf rs n := by
      have := specRemove_three n n _ _ _ hP; rw [← hsplit] at this; exact this
    rw [hhas, hrem]
    by_cases hm : (midOf rs n n).isEmpty = true
    · simp [hm]
    · simp only [hm, Bool.false_eq_true, if_false, Bool.not_false, if_true]
      have hrep : Repr ⟨ser (cs + 1) (preOf rs n ++ postOf rs n), dictOf (preOf rs n ++ postOf rs n), cs, limit⟩
          (preOf rs n ++ postOf rs n) :=
        ⟨by have := sorted_three rs [] n n (Nat.le_refl _) hR.sorted List.Pairwise.nil (by simp)
            simpa using this,
         hgood, rfl, rfl, by simp only; omega, hlim⟩
      refine ⟨⟨_, hrep⟩, ?_⟩
      simp [abs_of_repr hrep]
  · simp only [he, Bool.false_eq_true, if_false]
    have hins : specInsert rs n body = preOf rs n ++ (n, body) :: postOf rs n := rfl
    rw [hins]
    have hcond : (size (preOf rs n ++ (n, body) :: postOf rs n) + 3 > limit + 2 - cs) ↔
        (cs + 1 + size (preOf rs n ++ (n, body) :: postOf rs n) > limit) := by omega
    by_cases hc : cs + 1 + size (preOf rs n ++ (n, body) :: postOf rs n) > limit
    · rw [if_pos hc, if_pos (hcond.mpr hc)]
    · rw [if_neg hc, if_neg (fun h => hc (hcond.mp h))]
      have hwf' := hwf (by simpa using he)
      have hrep : Repr ⟨ser (cs + 1) (preOf rs n ++ (n, body) :: postOf rs n),
          dictOf (preOf rs n ++ (n, body) :: postOf rs n), cs, limit⟩ (preOf rs n ++ (n, body) :: postOf rs n) :=
        ⟨by have := sorted_three rs [(n, body)] n n (Nat.le_refl _) hR.sorted (List.pairwise_singleton _ _)
              (by simp)
            simpa using this,
         by
           intro r hr
           rw [List.mem_append, List.mem_cons] at hr
           rcases hr with hr | hr | hr
           · exact hR.good r (mem_preOf hr).1
           · subst hr; exact ⟨hn, hwf'⟩
           · exact hR.good r (mem_postOf hr).1,
         rfl, rfl, by simp only; omega, hlim⟩
      refine ⟨⟨_, hrep⟩, ?_⟩
      simp [abs_of_repr hrep]

theorem delete_refines (s : PState) (a b : Nat) (h : Inv s) (hb : b ≤ 65535) :
    match delete s a b with
    | .ok s' => Inv s' ∧ specDelete (abs s) a b = .ok (abs s') ∧
        s'.codeStart = s.codeStart ∧ s'.limit = s.limit
    | .error e => specDelete (abs s) a b = .error e := by
  by_cases hab : a ≤ b
  · obtain ⟨rs, hR⟩ := h
    rw [abs_of_repr hR]
    obtain ⟨code, dict, cs, limit⟩ := s
    have hcode := hR.code; have hdict := hR.dict
    simp only at hcode hdict
    subst hcode hdict
    have hmem := hR.mem; have hlim := hR.lim
    simp only at hmem hlim
    have hP := parts_of_sorted rs a b hab hb
    have hsplit := split_sorted rs a b hab hR.sorted
    have hszle : size (preOf rs a ++ postOf rs b) ≤ size rs := by
      have e : size rs = size (preOf rs a ++ midOf rs a b ++ postOf rs b) := by rw [← hsplit]
      rw [e]; simp only [size_append]; omega
    have hdel := delete_eq cs limit a b _ _ _ hP (by rw [← hsplit]; omega)
    rw [← hsplit] at hdel
    rw [hdel]
    unfold specDelete
    have hhas : specHas rs a b = !(midOf rs a b).isEmpty := by
      have := specHas_three a b _ _ _ hP; rw [← hsplit] at this; exact this
    have hrem : specRemove rs a b = preOf rs a ++ postOf rs b := by
      have := specRemove_three a b _ _ _ hP; rw [← hsplit] at this; exact this
    rw [hhas, hrem]
    by_cases hm : (midOf rs a b).isEmpty = true
    · simp [hm]
    · simp only [hm, Bool.false_eq_true, if_false, Bool.not_false, if_true]
      have hrep : Repr ⟨ser (cs + 1) (preOf rs a ++ postOf rs b), dictOf (preOf rs a ++ postOf rs b), cs, limit⟩
          (preOf rs a ++ postOf rs b) :=
        ⟨by have := sorted_three rs [] a b hab hR.sorted List.Pairwise.nil (by simp)
            simpa using this,
         by
           intro r hr
           rw [List.mem_append] at hr
           rcases hr with hr | hr
           · exact hR.good r (mem_preOf hr).1
           · exact hR.good r (mem_postOf hr).1,
         rfl, rfl, by simp only; omega, hlim⟩
      refine ⟨⟨_, hrep⟩, ?_⟩
      simp [abs_of_repr hrep]
  · rw [delete_empty_range s a b (by omega)]
    simp only
    unfold specDelete specHas
    have : (abs s).any (fun r => decide (a ≤ r.1 ∧ r.1 ≤ b)) = false := by
      rw [List.any_eq_false]; intro r _; simp; omega
    simp only [this]
    simp

/-! ### all histories -/

/-- operations the theorems speak about: 16-bit line numbers, tokeniser-like bodies -/
def OpOk : Op → Prop
  | .store n body => n ≤ 65535 ∧ (bodyEmpty body = false → wfBody body = true)
  | .delete _ b => b ≤ 65535
  | .new => True

theorem step_refines (s : PState) (op : Op) (h : Inv s) (hop : OpOk op) :
    Inv (step s op).1 ∧ abs (step s op).1 = (specStep (cap s) (abs s) op).1 ∧
      (step s op).2 = (specStep (cap s) (abs s) op).2 ∧ cap (step s op).1 = cap s := by
  cases op with
  | store n body =>
    have := store_refines s n body h hop.1 hop.2
    cases hst : store s n body with
    | ok s' =>
      rw [hst] at this
      simp only at this
      simp only [step, specStep, hst, this.2.1]
      exact ⟨this.1, trivial, trivial, by unfold cap; rw [this.2.2.1, this.2.2.2]⟩
    | error e =>
      rw [hst] at this
      simp only at this
      simp only [step, specStep, hst, this]
      exact ⟨h, trivial, trivial, trivial⟩
  | delete a b =>
    have := delete_refines s a b h hop
    cases hst : delete s a b with
    | ok s' =>
      rw [hst] at this
      simp only at this
      simp only [step, specStep, hst, this.2.1]
      exact ⟨this.1, trivial, trivial, by unfold cap; rw [this.2.2.1, this.2.2.2]⟩
    | error e =>
      rw [hst] at this
      simp only at this
      simp only [step, specStep, hst, this]
      exact ⟨h, trivial, trivial, trivial⟩
  | new =>
    have := inv_new s h
    simp only [step, specStep]
    exact ⟨this.1, this.2, trivial, rfl⟩

/-- After ANY history of well-formed operations the invariant holds, the program read back from the
    bytes is the one the specification (sorted map line → body) arrives at, and the same operations
    are refused with the same error numbers (state unchanged on error is built into `step`). -/
theorem run_refines (ops : List Op) : ∀ (s : PState), Inv s → (∀ op ∈ ops, OpOk op) →
    Inv (run s ops).1 ∧ abs (run s ops).1 = (specRun (cap s) (abs s) ops).1 ∧
      (run s ops).2 = (specRun (cap s) (abs s) ops).2 := by
  induction ops with
  | nil => intro s h _; exact ⟨h, rfl, rfl⟩
  | cons op t ih =>
    intro s h hops
    have hst := step_refines s op h (hops op (List.mem_cons_self ..))
    have := ih (step s op).1 hst.1 (fun o ho => hops o (List.mem_cons_of_mem _ ho))
    simp only [run, specRun]
    rw [hst.2.2.2, hst.2.1] at this
    rw [← hst.2.2.1]
    exact ⟨this.1, this.2.1, by rw [this.2.2]⟩

/-- a program entered from scratch -/
theorem run_from_init (cs limit : Nat) (h1 : cs + 1 ≤ limit) (h2 : limit ≤ 65535) (ops : List Op)
    (hops : ∀ op ∈ ops, OpOk op) :
    Inv (run (init cs limit) ops).1 ∧
      abs (run (init cs limit) ops).1 = (specRun (limit + 2 - cs) [] ops).1 ∧
      (run (init cs limit) ops).2 = (specRun (limit + 2 - cs) [] ops).2 := by
  have hi := inv_init cs limit h1 h2
  have := run_refines ops (init cs limit) hi hops
  have habs : abs (init cs limit) = [] := by
    obtain ⟨rs, hr⟩ := hi
    have : Repr (init cs limit) [] := ⟨List.Pairwise.nil, by simp, rfl, rfl, by simpa [init, size] using h1, h2⟩
    exact abs_of_repr this
  rw [habs] at this
  exact this

/-! ### corollaries: LIST, GOTO, the PEEK-visible chain -/

theorem recordAt_ser (pfx : Bytes) (p a : Nat) (r : Rec) (t : List Rec) (hp : pfx.length = p)
    (hr : r.1 ≤ 65535 ∧ wfBody r.2 = true) : recordAt (pfx ++ ser a (r :: t)) p = some r := by
  unfold recordAt
  rw [List.drop_left' hp, ser_cons]
  obtain ⟨tl, htl⟩ := ser_head (a + recSize r) t
  rw [htl]
  simp only [wf_scan r.2 hr.2 tl, le16_lo_hi r.1 (by omega), List.take_left]

theorem ser_cons_split (a : Nat) (r : Rec) (t : List Rec) :
    ser a (r :: t) = serRecs a [r] ++ ser (a + recSize r) t := by
  have := ser_append a [r] t
  simpa [size] using this

theorem recordAt_offs (rs : List Rec) : ∀ (pfx : Bytes) (p a : Nat), pfx.length = p →
    (∀ r ∈ rs, r.1 ≤ 65535 ∧ wfBody r.2 = true) →
    ∀ e ∈ offs p rs, ∃ r ∈ rs, r.1 = e.1 ∧ recordAt (pfx ++ ser a rs) e.2 = some r := by
  induction rs with
  | nil => intro pfx p a _ _ e he; simp [offs] at he
  | cons r t ih =>
    intro pfx p a hp hg e he
    simp only [offs, List.mem_cons] at he
    rcases he with he | he
    · subst he
      exact ⟨r, List.mem_cons_self .., rfl, recordAt_ser pfx p a r t hp (hg r (List.mem_cons_self ..))⟩
    · have := ih (pfx ++ serRecs a [r]) (p + recSize r) (a + recSize r)
        (by simp [length_serRecs, size, hp]) (fun x hx => hg x (List.mem_cons_of_mem _ hx)) e he
      obtain ⟨x, hx, hx1, hx2⟩ := this
      refine ⟨x, List.mem_cons_of_mem _ hx, hx1, ?_⟩
      rw [ser_cons_split, ← List.append_assoc]; exact hx2

theorem filterMap_recordAt (rs : List Rec) : ∀ (pfx : Bytes) (p a : Nat), pfx.length = p →
    (∀ r ∈ rs, r.1 ≤ 65535 ∧ wfBody r.2 = true) →
    ((offs p rs).map (·.2)).filterMap (recordAt (pfx ++ ser a rs)) = rs := by
  induction rs with
  | nil => intro pfx p a _ _; simp [offs]
  | cons r t ih =>
    intro pfx p a hp hg
    simp only [offs, List.map_cons, List.filterMap_cons]
    rw [recordAt_ser pfx p a r t hp (hg r (List.mem_cons_self ..))]
    simp only
    have := ih (pfx ++ serRecs a [r]) (p + recSize r) (a + recSize r)
      (by simp [length_serRecs, size, hp]) (fun x hx => hg x (List.mem_cons_of_mem _ hx))
    rw [ser_cons_split, ← List.append_assoc, this]

theorem insertSorted_le (x : Nat) (l : List Nat) (h : ∀ y ∈ l, x ≤ y) : insertSorted x l = x :: l := by
  cases l with
  | nil => rfl
  | cons y ys => simp [insertSorted, h y (List.mem_cons_self ..)]

theorem sortNat_increasing (l : List Nat) (h : l.Pairwise (· < ·)) : sortNat l = l := by
  induction l with
  | nil => rfl
  | cons x t ih =>
    have ht := (List.pairwise_cons.mp h).2
    have hx := (List.pairwise_cons.mp h).1
    unfold sortNat at ih ⊢
    simp only [List.foldr_cons]
    rw [ih ht]
    exact insertSorted_le x t (fun y hy => Nat.le_of_lt (hx y hy))

theorem positions_increasing (rs : List Rec) : ∀ p, ((offs p rs).map (·.2)).Pairwise (· < ·) := by
  induction rs with
  | nil => intro p; simp [offs]
  | cons r t ih =>
    intro p
    simp only [offs, List.map_cons, List.pairwise_cons]
    refine ⟨?_, ih _⟩
    intro q hq
    rw [List.mem_map] at hq
    obtain ⟨e, he, heq⟩ := hq
    have := mem_offs_ge he
    simp only [recSize] at this
    omega

theorem filter_dict_lines (rs : List Rec) (hg : ∀ r ∈ rs, r.1 ≤ 65535) :
    (dictOf rs).filter (fun e => decide (e.1 ≤ 65535)) = offs 0 rs := by
  unfold dictOf
  rw [List.filter_append, filter_offs_all rs 0 _ (by intro r hr q; simpa using hg r hr)]
  simp

/-- LIST (list_lines with no range) shows exactly the lines of the specification state, in
    ascending line-number order, each with the body that was stored. -/
theorem list_is_spec (s : PState) (h : Inv s) :
    listLines s = abs s ∧ (abs s).Pairwise (fun x y => x.1 < y.1) := by
  obtain ⟨rs, hr⟩ := h
  rw [abs_of_repr hr]
  refine ⟨?_, hr.sorted⟩
  unfold listLines
  have : ProgTokens.maxListLine = 65535 := rfl
  rw [hr.dict, hr.code, this, filter_dict_lines rs (fun r hx => (hr.good r hx).1),
    sortNat_increasing _ (positions_increasing rs 0)]
  have := filterMap_recordAt rs [] 0 (s.codeStart + 1) rfl hr.good
  simpa using this

theorem mem_offs_of_mem {rs : List Rec} : ∀ {p : Nat} {r : Rec}, r ∈ rs → ∃ q, (r.1, q) ∈ offs p rs := by
  induction rs with
  | nil => intro p r h; cases h
  | cons x t ih =>
    intro p r h
    rw [List.mem_cons] at h
    rcases h with h | h
    · subst h; exact ⟨p, by simp [offs]⟩
    · obtain ⟨q, hq⟩ := ih (p := p + recSize x) h
      exact ⟨q, by simp only [offs]; exact List.mem_cons_of_mem _ hq⟩

theorem sorted_unique {rs : List Rec} (hs : Sorted rs) {x y : Rec} (hx : x ∈ rs) (hy : y ∈ rs)
    (h : x.1 = y.1) : x = y := by
  induction rs with
  | nil => cases hx
  | cons r t ih =>
    have hlt := (List.pairwise_cons.mp hs).1
    have hs' := (List.pairwise_cons.mp hs).2
    rw [List.mem_cons] at hx hy
    rcases hx with hx | hx <;> rcases hy with hy | hy
    · rw [hx, hy]
    · subst hx; have := hlt y hy; omega
    · subst hy; have := hlt x hx; omega
    · exact ih hs' hx hy

/-- GOTO n (Interpreter.jump: a dict lookup): every line of the specification state is found, and
    the position found holds the record whose line field is n and whose body is the stored one;
    a number that is not a line of the program is not found (Undefined line number). -/
theorem jump_lands (s : PState) (h : Inv s) (n : Nat) (hn : n ≤ 65535) :
    (∀ body, (n, body) ∈ abs s → ∃ p, jumpPos s n = some p ∧ recordAt s.code p = some (n, body)) ∧
    (∀ p, jumpPos s n = some p → ∃ body, (n, body) ∈ abs s ∧ recordAt s.code p = some (n, body)) := by
  obtain ⟨rs, hr⟩ := h
  rw [abs_of_repr hr]
  have hrec : ∀ e ∈ offs 0 rs, ∃ r ∈ rs, r.1 = e.1 ∧ recordAt s.code e.2 = some r := by
    intro e he
    have := recordAt_offs rs [] 0 (s.codeStart + 1) rfl hr.good e he
    rw [hr.code]; simpa using this
  have hfound : ∀ p, jumpPos s n = some p → (n, p) ∈ offs 0 rs := by
    intro p hj
    unfold jumpPos at hj
    rw [Option.map_eq_some_iff] at hj
    obtain ⟨e, he, hep⟩ := hj
    have hmem := List.mem_of_find?_eq_some he
    have hkey := List.find?_some he
    simp only [beq_iff_eq] at hkey
    rw [hr.dict, dictOf, List.mem_append] at hmem
    rcases hmem with hmem | hmem
    · have : e = (n, p) := by rw [← hkey, ← hep]
      rw [← this]; exact hmem
    · simp only [List.mem_singleton] at hmem
      rw [hmem] at hkey; simp only at hkey; omega
  constructor
  · intro body hb
    obtain ⟨q, hq⟩ := mem_offs_of_mem (p := 0) hb
    have hsome : (s.dict.find? (fun e => e.1 == n)).isSome = true := by
      rw [List.find?_isSome]
      exact ⟨(n, q), by rw [hr.dict, dictOf, List.mem_append]; exact Or.inl hq, by simp⟩
    obtain ⟨e, he⟩ := Option.isSome_iff_exists.mp hsome
    have hj : jumpPos s n = some e.2 := by unfold jumpPos; rw [he]; rfl
    refine ⟨e.2, hj, ?_⟩
    obtain ⟨r, hrm, hr1, hr2⟩ := hrec (n, e.2) (hfound e.2 hj)
    have : r = (n, body) := sorted_unique hr.sorted hrm hb hr1
    rw [← this]; exact hr2
  · intro p hj
    obtain ⟨r, hrm, hr1, hr2⟩ := hrec (n, p) (hfound p hj)
    simp only at hr1 hr2
    refine ⟨r.2, ?_, ?_⟩
    · have : r = (n, r.2) := by rw [← hr1]
      rw [← this]; exact hrm
    · have : r = (n, r.2) := by rw [← hr1]
      rw [← this]; exact hr2

theorem chainAux_ser (cs : Nat) (rs : List Rec) : ∀ (pfx : Bytes) (p fuel : Nat), pfx.length = p →
    rs.length < fuel → cs + 1 + p + size rs < 65536 → (∀ r ∈ rs, r.1 ≤ 65535) →
    chainAux cs (pfx ++ ser (cs + 1 + p) rs) fuel p =
      ((offs p rs).map (fun e => (e.2, e.1)), some (p + size rs)) := by
  induction rs with
  | nil =>
    intro pfx p fuel hp hf _ _
    obtain ⟨f, rfl⟩ : ∃ f, fuel = f + 1 := ⟨fuel - 1, by simp at hf; omega⟩
    simp only [chainAux]
    rw [List.drop_left' hp]
    simp [ser, serRecs, offs, size]
  | cons r t ih =>
    intro pfx p fuel hp hf hb hg
    obtain ⟨f, rfl⟩ : ∃ f, fuel = f + 1 := ⟨fuel - 1, by simp at hf; omega⟩
    simp only [size] at hb
    have hnext := ih (pfx ++ serRecs (cs + 1 + p) [r]) (p + recSize r) f
      (by simp [length_serRecs, size, hp]) (by simp at hf; omega) (by omega)
      (fun x hx => hg x (List.mem_cons_of_mem _ hx))
    have hcode : pfx ++ ser (cs + 1 + p) (r :: t) =
        pfx ++ serRecs (cs + 1 + p) [r] ++ ser (cs + 1 + (p + recSize r)) t := by
      rw [ser_cons_split, List.append_assoc, Nat.add_assoc (cs + 1)]
    rw [← hcode] at hnext
    simp only [chainAux]
    rw [List.drop_left' hp, ser_cons]
    have hnz := lo_hi_not_zero (cs + 1 + p + recSize r) (by unfold recSize; omega) (by omega)
    simp only [if_neg hnz]
    rw [le16_lo_hi (cs + 1 + p + recSize r) (by omega),
      le16_lo_hi r.1 (by have := hg r (List.mem_cons_self ..); omega)]
    have e : cs + 1 + p + recSize r - cs - 1 = p + recSize r := by omega
    rw [e, ← ser_cons, hnext]
    simp only [offs, List.map_cons, size]
    have e2 : p + recSize r + size t = p + (recSize r + size t) := by omega
    rw [e2]

theorem map_chain_lines (rs : List Rec) : ∀ (p : Nat),
    (offs p rs).map ((fun x : Nat × Nat => x.2) ∘ fun e => (e.2, e.1)) = rs.map (·.1) := by
  induction rs with
  | nil => intro p; simp [offs]
  | cons r t ih => intro p; simp only [offs, List.map_cons, Function.comp]; rw [← ih (p + recSize r)]

/-- Following the next-address fields from code_start (what PEEK shows) visits every line of the
    specification state exactly once, in ascending order, at the offsets the dict holds, and stops
    at the record whose next-address is 0, which is the 00 00 00 terminator ending the stream. -/
theorem chain_visits_all (s : PState) (h : Inv s) :
    (chain s).1.map (·.2) = (abs s).map (·.1) ∧
    (chain s).1 = (offs 0 (abs s)).map (fun e => (e.2, e.1)) ∧
    (chain s).2 = some (size (abs s)) ∧
    s.code.drop (size (abs s)) = [0, 0, 0] := by
  obtain ⟨rs, hr⟩ := h
  rw [abs_of_repr hr]
  have hc : chain s = ((offs 0 rs).map (fun e => (e.2, e.1)), some (size rs)) := by
    unfold chain
    rw [hr.code]
    have := chainAux_ser s.codeStart rs [] 0 (ser (s.codeStart + 1) rs).length rfl
      (by rw [length_ser]; have := length_le_size rs; omega)
      (by have := hr.mem; have := hr.lim; omega) (fun r hx => (hr.good r hx).1)
    simpa using this
  refine ⟨?_, by rw [hc], by rw [hc], ?_⟩
  · rw [hc]
    simp only [List.map_map]
    exact map_chain_lines rs 0
  · rw [hr.code, ser]
    exact List.drop_left' (length_serRecs _ _)

/-- the program never outgrows memory, so every address in it is a 16-bit number -/
theorem inv_memory (s : PState) (h : Inv s) :
    s.codeStart + s.code.length ≤ s.limit + 2 ∧ s.codeStart + s.code.length < 65538 := by
  obtain ⟨rs, hr⟩ := h
  have := hr.mem; have := hr.lim
  rw [hr.code, length_ser]; omega

/-! ### the specification operations are the map updates they claim to be -/

theorem mem_specInsert (m : List Rec) (n : Nat) (body : Bytes) (r : Rec) :
    r ∈ specInsert m n body ↔ r = (n, body) ∨ (r ∈ m ∧ r.1 ≠ n) := by
  unfold specInsert
  simp only [List.mem_append, List.mem_cons, List.mem_filter, decide_eq_true_eq]
  constructor
  · rintro (⟨h1, h2⟩ | h | ⟨h1, h2⟩)
    · exact Or.inr ⟨h1, by omega⟩
    · exact Or.inl h
    · exact Or.inr ⟨h1, by omega⟩
  · rintro (h | ⟨h1, h2⟩)
    · exact Or.inr (Or.inl h)
    · by_cases hlt : r.1 < n
      · exact Or.inl ⟨h1, hlt⟩
      · exact Or.inr (Or.inr ⟨h1, by omega⟩)

theorem mem_specRemove (m : List Rec) (a b : Nat) (r : Rec) :
    r ∈ specRemove m a b ↔ r ∈ m ∧ ¬ (a ≤ r.1 ∧ r.1 ≤ b) := by
  unfold specRemove
  simp only [List.mem_filter, Bool.not_eq_true', decide_eq_false_iff_not]

/-! ### non-vacuity: tokeniser output is well-formed; the hypotheses are satisfiable -/

/-- `PRINT "A":A=256` as produced by Tokeniser.tokenise_line: the 00 in the payload of 256 is skipped -/
example : wfBody [0x91, 0x20, 0x22, 0x41, 0x22, 0x3a, 0x41, 0xe7, 0x1c, 0x00, 0x01] = true := by decide
/-- `PRINT "<8F>":A=256:GOTO 10`: a REM byte inside a string literal (repaired scanner) -/
example : wfBody [0x91, 0x20, 0x22, 0x8f, 0x22, 0x3a, 0x41, 0xe7, 0x1c, 0x00, 0x01, 0x3a, 0x89, 0x20, 0x0e, 0x0a, 0x00]
    = true := by decide
/-- `A#=1D0:REM "x`: a double constant with seven 00 bytes, then a REM with an open quote -/
example : wfBody [0x41, 0x23, 0xe7, 0x1f, 0, 0, 0, 0, 0, 0, 0, 0x81, 0x3a, 0x8f, 0x20, 0x22, 0x78] = true := by decide
/-- a bare 00, or a body ending inside a payload, is not well-formed -/
example : wfBody [0x91, 0x00, 0x41] = false ∧ wfBody [0x41, 0xe7, 0x1c, 0x05] = false := by decide

example : Inv (init 4717 65020) := inv_init _ _ (by omega) (by omega)

/-- a concrete history: every step is covered by `run_refines`, both error cases occur -/
example :
    (run (init 4717 65020) [.store 20 [0x91], .store 10 [0x91, 0x20, 0x1c, 0, 1], .store 20 [0x20], .store 20 [],
      .delete 30 40, .delete 0 65535, .new]).2 = [none, none, none, some 8, some 5, none, none] := by decide

example : ∀ op ∈ [Op.store 20 [0x91], .store 10 [0x91, 0x20, 0x1c, 0, 1], .store 20 [0x20], .delete 30 40, .new],
    OpOk op := by
  intro op hop
  simp only [List.mem_cons, List.not_mem_nil, or_false] at hop
  rcases hop with h | h | h | h | h <;> subst h <;> simp [OpOk] <;> decide

/-! ### the unrepaired code (model parameter `old := true`) violates the property -/

/-- Defect 1 (codestream.py skip_to before the repair: `elif c == tk.REM` without `and not literal`).
    After entering `20 PRINT "<8F>":A=256:GOTO 10` the invariant holds, but a fresh scan of the bytes
    with the old scanner does not give back the index: it ends line 20 inside the constant 256. -/
theorem rescan_old_counterexample :
    ∃ s : PState, Inv s ∧ rescanG true s.code ≠ s.dict ∧ rescan s.code = s.dict := by
  refine ⟨(run (init 4717 65020)
    [.store 20 [0x91, 0x20, 0x22, 0x8f, 0x22, 0x3a, 0x41, 0xe7, 0x1c, 0x00, 0x01, 0x3a, 0x89, 0x20, 0x0e, 0x0a, 0x00]]).1,
    ?_, by decide, by decide⟩
  exact (run_from_init 4717 65020 (by omega) (by omega) _ (by
    intro op hop
    simp only [List.mem_singleton] at hop
    subst hop
    exact ⟨by omega, fun _ => by decide⟩)).1

/-- Defect 2 (program.py store_line before the repair: the memory check counted only the bytes up to
    the end of the new line).  Inserting in front of an existing line is accepted although the program
    then ends beyond the top of memory; the invariant is lost (with real sizes: addresses pass 65535
    and struct.pack raises). -/
theorem store_old_memory_counterexample :
    ∃ (s s' : PState) (n : Nat) (body : Bytes), Inv s ∧ n ≤ 65535 ∧ wfBody body = true ∧
      storeG true s n body = .ok s' ∧ ¬ Inv s' ∧ store s n body = .error E.out_of_memory := by
  refine ⟨(run (init 10 30) [.store 20 [65, 65, 65, 65, 65, 65, 65, 65, 65, 65]]).1,
    (storeG true (run (init 10 30) [.store 20 [65, 65, 65, 65, 65, 65, 65, 65, 65, 65]]).1 10
      [66, 66, 66, 66, 66, 66, 66, 66, 66, 66]).toOption.getD (init 0 0), 10, [66, 66, 66, 66, 66, 66, 66, 66, 66, 66],
    ?_, by omega, by decide, by decide, ?_, by decide⟩
  · exact (run_from_init 10 30 (by omega) (by omega) _ (by
      intro op hop
      simp only [List.mem_singleton] at hop
      subst hop
      exact ⟨by omega, fun _ => by decide⟩)).1
  · intro h
    have := (inv_memory _ h).1
    revert this
    decide

/-! ### refused commands between successful ones -/

/-- A refused edit (an empty line for a missing number, DELETE selecting nothing, a line that does not
    fit in memory) leaves the concrete state -- bytes and index -- exactly as it was, so the rest of
    any history runs as if the command had not been given. -/
theorem rejected_edit_keeps_program (s : PState) (op : Op) (e : Nat) (ops : List Op)
    (h : (step s op).2 = some e) :
    (step s op).1 = s ∧ (run s (op :: ops)).1 = (run s ops).1 ∧
      (run s (op :: ops)).2 = some e :: (run s ops).2 := by
  have hs : (step s op).1 = s := by
    cases op with
    | store n body =>
      simp only [step] at h ⊢
      cases hst : store s n body with
      | ok s' => rw [hst] at h; simp at h
      | error e' => rfl
    | delete a b =>
      simp only [step] at h ⊢
      cases hst : delete s a b with
      | ok s' => rw [hst] at h; simp at h
      | error e' => rfl
    | new => simp [step] at h
  refine ⟨hs, ?_, ?_⟩
  · simp only [run]; rw [hs]
  · simp only [run]; rw [hs, h]

/-- ... and the specification refuses the same command with the same error number (Illegal function
    call, Out of memory or Undefined line number), its map unchanged; LIST after the refused command
    is the listing of the unchanged map. -/
theorem rejected_edit_spec (s : PState) (op : Op) (e : Nat) (hI : Inv s) (hop : OpOk op)
    (h : (step s op).2 = some e) :
    specStep (cap s) (abs s) op = (abs s, some e) ∧
      (e = E.ifc ∨ e = E.out_of_memory ∨ e = E.undefined_line_number) ∧
      listLines (step s op).1 = abs s := by
  have hk := (rejected_edit_keeps_program s op e [] h).1
  have hr := step_refines s op hI hop
  rw [hk] at hr
  have h2 : (specStep (cap s) (abs s) op).2 = some e := by rw [← hr.2.2.1, h]
  refine ⟨Prod.ext hr.2.1.symm h2, ?_, by rw [hk]; exact (list_is_spec s hI).1⟩
  cases op with
  | store n body =>
    simp only [specStep, specStore] at h2
    split at h2 <;> rename_i heq
    · simp at h2
    · simp only [Option.some.injEq] at h2
      subst h2
      split at heq
      · split at heq
        · cases heq
        · injection heq with heq; exact Or.inr (Or.inr heq.symm)
      · split at heq
        · injection heq with heq; exact Or.inr (Or.inl heq.symm)
        · cases heq
  | delete a b =>
    simp only [specStep, specDelete] at h2
    split at h2 <;> rename_i heq
    · simp at h2
    · simp only [Option.some.injEq] at h2
      subst h2
      split at heq
      · cases heq
      · injection heq with heq; exact Or.inl heq.symm
  | new => simp [specStep] at h2

end PcbV.C13
