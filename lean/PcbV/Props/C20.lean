import PcbV.Lemmas.UserFnCall
/-
  C20 — User-defined functions never disturb the caller's variables.

  Theorems about `PcbV.UserFn.evaluate` (model of userfunctions.py `UserFunction.evaluate/_evaluate`
  with the repairs: saved values registered as collector roots — commit 71bbc812, D17 — and the
  converted arguments and the result cloned — pending fix C20-fn-value-views) on the string heap model
  `PcbV.Heap` of C10.

  `Framed c` is the contract of an expression computation `c : St → Except (error × St) (St × value)`:
  from a well-formed heap, whatever the outcome, the heap stays well-formed, every pointer cell that
  existed (string scalars, array elements, own pointers on the root stack) still exists and reads the
  same bytes, new string scalars read empty, every numeric scalar reads the same, the recursion flags
  and the number of roots are the same, and a string result is a live pointer.  Forced collections,
  allocations in string space, variable reads, failing subexpressions and sequencing are `Framed`
  (`framed_*`), so a `Framed` body may collect garbage at any point.

  `fn_frame_framed`: for every function, `Framed` arguments and a `Framed` body, the call is `Framed`
  (so calls nest to any depth); `fn_frame` states the consequence in BASIC terms: after the call, for
  every body outcome (value, error raised by the body, by a conversion, by the recursion check or by
  an allocation), every scalar variable of either kind — including those named like parameters, and
  parameters that did not exist before, which now exist and read empty/zero — reads what it read
  before; the flags are reset and no root stays registered.

  `call_preserves_all_variables` restates it for parameters written with or without a type character
  under any history of DEFINT/DEFSNG/DEFDBL/DEFSTR statements: the names are completed with the table
  current at the call — the SAME completed names for the save, the binding and the restore
  (`saved_names_are_bound_names`).

  `restore_puts_back_the_saved_descriptor`: the restore writes the saved pointer itself, whatever the
  variable reads at that moment — the caller's variable is restored as storage, not only as a value.

  Not proved (gap, covered by the correspondence run only): that the concrete evaluator `evalE` of the
  driver (which keeps operands of `+` on the root stack, `withRoot`) is `Framed`.
-/
namespace PcbV.C20
open PcbV PcbV.Heap PcbV.UserFn

/-- the state a computation leaves, whatever the outcome -/
def after : Res (St × Val) → St
  | .ok (s, _) => s
  | .error (_, s) => s

/-- **The call is a framed computation** whenever its arguments and its body are: induction-free
    composition, so it holds for nested calls of any depth and for bodies that collect garbage. -/
theorem fn_frame_framed (f : Fn) (args : List Comp) (body : Comp)
    (hargs : ∀ c ∈ args, Framed c) (hbody : Framed body) : Framed (evaluate f args body) := by
  intro s hw
  have he := enter_post f args hargs s hw
  unfold evaluate
  simp only
  cases hen : enter f args s with
  | error x =>
    obtain ⟨e, t⟩ := x
    rw [hen] at he
    exact unwind_post s t he
  | ok x =>
    obtain ⟨s4, saved⟩ := x
    rw [hen] at he
    obtain ⟨s1, s2, av, hp1, hp2, hn, hs, hty, hmem, hb, rfl⟩ := he.data
    obtain ⟨A1, _⟩ := writeAll_frame true av s2 hp2.wf
    have hbd := hbody { writeAll true av s2 with busy := f.idx :: (writeAll true av s2).busy } A1
    simp only
    cases hbody' : body { writeAll true av s2 with busy := f.idx :: (writeAll true av s2).busy } with
    | error y =>
      obtain ⟨e, tE⟩ := y
      rw [hbody'] at hbd
      obtain ⟨hL, _⟩ := leave_post f s1 s2 tE av saved hp2 hn hs hty hmem hb hbd.1
      exact unwind_post s _ ((hp1.trans hp2).trans hL)
    | ok y =>
      obtain ⟨tE, v⟩ := y
      rw [hbody'] at hbd
      obtain ⟨hB, _, hlv⟩ := hbd
      obtain ⟨hL, hW⟩ := leave_post f s1 s2 tE av saved hp2 hn hs hty hmem hb hB
      have hfin := unwind_post s _ ((hp1.trans hp2).trans hL)
      simp only
      cases hcv : conv f.sigil v with
      | error e => exact hfin
      | ok v' =>
        refine ⟨hfin.1, hfin.2, ?_⟩
        have h1 : LiveVal tE.h v' := conv_live tE.h _ _ _ hcv hlv
        cases v' with
        | num t q => trivial
        | str p => exact hW.live p h1

/-- **fn_frame.**  After a DEF FN call — whether it delivers a value or raises any error — every string
    scalar and every numeric scalar reads exactly what it read before the call (a variable that did
    not exist reads empty / zero before and after), the recursion flags are as before, nothing stays
    registered as a collector root, and the heap is well-formed.  The body and the argument
    expressions are arbitrary framed computations: they may allocate, fail, call other functions and
    collect garbage at any point. -/
theorem fn_frame (f : Fn) (args : List Comp) (body : Comp)
    (hargs : ∀ c ∈ args, Framed c) (hbody : Framed body) (s : St) (hw : WF s.h) :
    let s' := after (evaluate f args body s)
    (∀ name, readStr s' name = readStr s name) ∧ (∀ name, getNum s' name = getNum s name) ∧
    s'.busy = s.busy ∧ s'.h.stack.length = s.h.stack.length ∧ WF s'.h := by
  have h := fn_frame_framed f args body hargs hbody s hw
  have key : ∀ t, PostX s t → t.h.stack.length = s.h.stack.length →
      (∀ name, readStr t name = readStr s name) ∧ (∀ name, getNum t name = getNum s name) ∧
      t.busy = s.busy ∧ t.h.stack.length = s.h.stack.length ∧ WF t.h := by
    intro t hp hl
    refine ⟨fun name => ?_, hp.nums, hp.busy, hl, hp.wf⟩
    rw [readStr_eq, readStr_eq]
    exact hp.ext.read name
  cases hev : evaluate f args body s with
  | error x => obtain ⟨e, t⟩ := x; rw [hev] at h; exact key t h.1 h.2
  | ok x => obtain ⟨t, v⟩ := x; rw [hev] at h; exact key t h.1 h.2.1

/-! ### the class of framed computations -/

theorem framed_pure (v : Val) (hv : ∀ h, LiveVal h v) : Framed (pureC v) :=
  fun s hw => ⟨PostX.refl s hw, rfl, hv _⟩

theorem framed_num (t : Ty) (q : Int) : Framed (pureC (.num t q)) := framed_pure _ (fun _ => trivial)

/-- a failing subexpression (Division by zero, Type mismatch, …) -/
theorem framed_fail (e : Nat) : Framed (failC e) := fun s hw => ⟨PostX.refl s hw, rfl⟩

/-- a garbage collection at this point of the expression -/
theorem framed_gc (t : Ty) (q : Int) : Framed (gcC (.num t q)) := by
  intro s hw
  unfold gcC
  obtain ⟨es, he⟩ := entriesOf_total s.h hw (rootLocs s.h)
  obtain ⟨tmp, h1⟩ := collect_shape s.h es he
  rw [h1]
  obtain ⟨a, b, c⟩ := collect_ext s.h _ hw h1
  exact ⟨⟨a, b, Nat.le_of_eq c.symm, fun _ => rfl, rfl⟩, c, trivial⟩

/-- reading a variable -/
theorem framed_read (name : Bytes) : Framed (readC name) := by
  intro s hw
  unfold readC
  by_cases hsg : sigil name = .str
  · rw [if_pos hsg]
    refine ⟨PostX.refl s hw, rfl, ?_⟩
    show Live s.h _
    cases hc : cellOf s.h name with
    | none => exact live_null _
    | some l =>
      simp only [Option.bind]
      cases hv : getV s.h l with
      | none => exact live_null _
      | some p => exact hw.live (.v l) p hv
  · rw [if_neg hsg]
    exact ⟨PostX.refl s hw, rfl, trivial⟩

theorem pop_push (h : Heap) (it : Item) : pop (push h it) = h := by
  cases h
  simp [pop, push]

/-- a new temporary in string space (possibly after a collection; Out of string space / String too
    long are framed failures) -/
theorem framed_alloc (b : Bytes) : Framed (allocC b) := by
  intro s hw
  unfold allocC allocPush
  by_cases hlen : b.length > 255
  · rw [if_pos hlen]
    exact ⟨PostX.refl s hw, rfl⟩
  · rw [if_neg hlen]
    have hc := checkFree_ext b.length Gen.E.out_of_string_space s.h hw
    cases hcf : checkFree b.length Gen.E.out_of_string_space s.h with
    | error x =>
      obtain ⟨e, t⟩ := x
      rw [hcf] at hc
      exact ⟨⟨hc.1, hc.2.1, Nat.le_of_eq hc.2.2.symm, fun _ => rfl, rfl⟩, hc.2.2⟩
    | ok t =>
      rw [hcf] at hc
      obtain ⟨hwt, het, hlt⟩ := hc
      simp only [pop_push]
      -- there is room for the string
      have hlow : lowMem t b.length = false := by
        unfold checkFree at hcf
        by_cases h1 : lowMem s.h b.length = true
        · rw [if_pos h1] at hcf
          cases hcl : collect s.h with
          | error x => rw [hcl] at hcf; cases hcf
          | ok t' =>
            rw [hcl] at hcf
            simp only at hcf
            by_cases h2 : lowMem t' b.length = true
            · rw [if_pos h2] at hcf; cases hcf
            · rw [if_neg h2] at hcf; cases hcf; simpa using h2
        · rw [if_neg h1] at hcf; cases hcf; simpa using h1
      unfold lowMem used at hlow
      simp at hlow
      have hn : b.length ≤ t.current := by omega
      have hv : t.varStart ≤ t.current - b.length + 1 := by omega
      have hwp := hwt.storeRaw_push b hn hv
      have hstack : (storeRaw t b).1.stack = t.stack := rfl
      have hgl : ∀ l, getLoc (storeRaw t b).1 l = getLoc t l := getLoc_storeRaw t b
      have hlive : ∀ p, Live (push (storeRaw t b).1 (.own (storeRaw t b).2)) p → Live (storeRaw t b).1 p :=
        fun p hl => hl
      have hwx : WF (storeRaw t b).1 := by
        refine ⟨hwp.blocks, fun l p hp => hlive p ?_⟩
        cases l with
        | v l => exact hwp.live (.v l) p (by rw [getLoc_push_v]; exact hp)
        | s k =>
          have hk : k < (storeRaw t b).1.stack.length := by
            simp only [getLoc] at hp
            cases hx : (storeRaw t b).1.stack[k]? with
            | none => rw [hx] at hp; cases hp
            | some it => exact (List.getElem?_eq_some_iff.mp hx).1
          apply hwp.live (.s k) p
          simp only [getLoc, push] at hp ⊢
          rw [List.getElem?_append_left hk]
          exact hp
      have hex : Ext t (storeRaw t b).1 := by
        refine ⟨fun l p hp => ⟨p, by rw [hgl]; exact hp, ?_⟩, ?_, ⟨[], by simp [storeRaw]⟩⟩
        · exact deref_storeRaw t b p hwt.blocks hn (hwt.live l p hp)
        · intro i p' h1 h2
          rw [hgl, h1] at h2
          cases h2
      refine ⟨⟨hwx, het.trans hex, ?_, fun _ => rfl, rfl⟩, ?_, ?_⟩
      · show s.h.stack.length ≤ (storeRaw t b).1.stack.length
        rw [hstack]; omega
      · show (storeRaw t b).1.stack.length = s.h.stack.length
        rw [hstack]; exact hlt
      · have hp : itemPtr (push (storeRaw t b).1 (.own (storeRaw t b).2))
            (topItem (push (storeRaw t b).1 (.own (storeRaw t b).2))) = (storeRaw t b).2 := by
          simp [topItem, push, itemPtr]
        show Live (storeRaw t b).1 _
        rw [hp]
        apply hlive
        apply hwp.live (.s (storeRaw t b).1.stack.length)
        simp [getLoc, push]

/-- sequencing: a framed computation followed by a framed continuation that may use its value -/
theorem framed_bind (c : Comp) (k : Val → Comp) (hc : Framed c) (hk : ∀ v, Framed (k v)) :
    Framed (fun s => match c s with
                     | .error x => .error x
                     | .ok (s1, v) => k v s1) := by
  intro s hw
  have h1 := hc s hw
  dsimp only
  cases hcs : c s with
  | error x => obtain ⟨e, t⟩ := x; rw [hcs] at h1; exact h1
  | ok x =>
    obtain ⟨s1, v⟩ := x
    rw [hcs] at h1
    obtain ⟨hp, hl, _⟩ := h1
    have h2 := hk v s1 hp.wf
    simp only
    cases hks : k v s1 with
    | error y => obtain ⟨e, t⟩ := y; rw [hks] at h2; exact ⟨hp.trans h2.1, h2.2.trans hl⟩
    | ok y => obtain ⟨t, w⟩ := y; rw [hks] at h2; exact ⟨hp.trans h2.1, h2.2.1.trans hl, h2.2.2⟩

/-! ### recursion -/

/-- the recursion flags in the state the body runs in -/
theorem flag_set_in_body (f : Fn) (args : List Comp) (hargs : ∀ c ∈ args, Framed c) (s s4 : St)
    (saved : List (Bytes × Slot)) (hw : WF s.h) (he : enter f args s = .ok (s4, saved)) :
    s4.busy = f.idx :: s.busy ∧ WF s4.h := by
  have h := enter_post f args hargs s hw
  rw [he] at h
  obtain ⟨s1, s2, av, hp1, hp2, _, _, _, _, _, rfl⟩ := h.data
  obtain ⟨A1, _, A3, _⟩ := writeAll_frame true av s2 hp2.wf
  exact ⟨by show f.idx :: (writeAll true av s2).busy = _; rw [A3, hp2.busy, hp1.busy], A1⟩

/-- **recursion_oom.**  A call of a function whose flag is set never delivers a value; once its
    arguments have been evaluated it raises Out of memory.  (The flags are unchanged afterwards by
    `fn_frame`, so a later call works.) -/
theorem recursion_oom (f : Fn) (args : List Comp) (body : Comp) (hargs : ∀ c ∈ args, Framed c) (s : St)
    (hw : WF s.h) (hbusy : f.idx ∈ s.busy) :
    match evaluate f args body s with
    | .ok _ => False
    | .error (e, _) => ∀ s1 av, evalArgs (f.params.zip args) s = .ok (s1, av) → e = Gen.E.out_of_memory := by
  have hzip : ∀ x ∈ f.params.zip args, Framed x.2 := fun x hx => hargs x.2 (List.of_mem_zip hx).2
  have h1 := evalArgs_post (f.params.zip args) hzip s hw
  unfold evaluate enter
  cases hev : evalArgs (f.params.zip args) s with
  | error x => obtain ⟨e, t⟩ := x; simp only; intro s1 av h; cases h
  | ok x =>
    obtain ⟨s1, av⟩ := x
    rw [hev] at h1
    have hb : f.idx ∈ s1.busy := by rw [h1.1.busy]; exact hbusy
    simp only [if_pos hb]
    intro _ _ _
    first | rfl | trivial

/-- an error raised by the body is the error of the call -/
theorem body_error_propagates (f : Fn) (args : List Comp) (body : Comp) (s s4 t : St)
    (saved : List (Bytes × Slot)) (e : Nat) (he : enter f args s = .ok (s4, saved))
    (hb : body s4 = .error (e, t)) : ∃ t', evaluate f args body s = .error (e, t') := by
  unfold evaluate
  simp only [he, hb]
  exact ⟨_, rfl⟩

/-- **Direct recursion**: a body that calls its own function raises Out of memory (whatever the inner
    arguments are, as long as they evaluate). -/
theorem direct_recursion_oom (f : Fn) (args args2 : List Comp) (body2 : Comp)
    (hargs : ∀ c ∈ args, Framed c) (hargs2 : ∀ c ∈ args2, Framed c) (s s4 s1 : St)
    (saved av : List (Bytes × Slot)) (hw : WF s.h) (he : enter f args s = .ok (s4, saved))
    (ha : evalArgs (f.params.zip args2) s4 = .ok (s1, av)) :
    ∃ t, evaluate f args (evaluate f args2 body2) s = .error (Gen.E.out_of_memory, t) := by
  obtain ⟨hb, hw4⟩ := flag_set_in_body f args hargs s s4 saved hw he
  have h := recursion_oom f args2 body2 hargs2 s4 hw4 (by rw [hb]; exact List.mem_cons_self ..)
  cases hin : evaluate f args2 body2 s4 with
  | ok x => rw [hin] at h; exact absurd h id
  | error x =>
    obtain ⟨e, t⟩ := x
    rw [hin] at h
    have : e = Gen.E.out_of_memory := h s1 av ha
    subst this
    exact body_error_propagates f args _ s s4 t saved _ he hin

/-- **Mutual recursion**: `f` calls `g`, whose body calls `f` again: Out of memory. -/
theorem mutual_recursion_oom (f g : Fn) (args args2 args3 : List Comp) (body3 : Comp)
    (hargs : ∀ c ∈ args, Framed c) (hargs2 : ∀ c ∈ args2, Framed c) (hargs3 : ∀ c ∈ args3, Framed c)
    (s s4 s5 s1 : St) (saved saved2 av : List (Bytes × Slot)) (hw : WF s.h)
    (he : enter f args s = .ok (s4, saved)) (he2 : enter g args2 s4 = .ok (s5, saved2))
    (ha : evalArgs (f.params.zip args3) s5 = .ok (s1, av)) :
    ∃ t, evaluate f args (evaluate g args2 (evaluate f args3 body3)) s = .error (Gen.E.out_of_memory, t) := by
  obtain ⟨hb, hw4⟩ := flag_set_in_body f args hargs s s4 saved hw he
  obtain ⟨hb5, hw5⟩ := flag_set_in_body g args2 hargs2 s4 s5 saved2 hw4 he2
  have hin5 : f.idx ∈ s5.busy := by
    rw [hb5, hb]
    exact List.mem_cons_of_mem _ (List.mem_cons_self ..)
  have h := recursion_oom f args3 body3 hargs3 s5 hw5 hin5
  cases hin : evaluate f args3 body3 s5 with
  | ok x => rw [hin] at h; exact absurd h id
  | error x =>
    obtain ⟨e, t⟩ := x
    rw [hin] at h
    have : e = Gen.E.out_of_memory := h s1 av ha
    subst this
    obtain ⟨t', ht'⟩ := body_error_propagates g args2 _ s4 s5 t saved2 _ he2 hin
    exact body_error_propagates f args _ s s4 t' saved _ he ht'

/-! ### what the body sees, what the call returns -/

theorem writeAll_append (fix : Bool) (a b : List (Bytes × Slot)) (s : St) :
    writeAll fix (a ++ b) s = writeAll fix b (writeAll fix a s) := by
  induction a generalizing s with
  | nil => rfl
  | cons x r ih => obtain ⟨n, v⟩ := x; simp only [List.cons_append, writeAll]; exact ih _

/-- **params_bound_during_body.**  The body runs in the state produced by binding the converted,
    registered arguments `av` (in order) into the saved state `s2`; for every argument entry that is
    not overridden by a later parameter of the same name, the parameter variable reads that entry's
    value: the number, or the bytes of the registered clone.  (`arg_entry_is_converted_value` says
    what the entries are.) -/
theorem params_bound_during_body (f : Fn) (av L1 L2 : List (Bytes × Slot)) (x : Bytes × Slot) (s2 : St)
    (hw : WF s2.h) (hav : av = L1 ++ x :: L2) (hlast : ∀ y ∈ L2, y.1 ≠ x.1) :
    let sB : St := { writeAll true av s2 with busy := f.idx :: (writeAll true av s2).busy }
    match x.2 with
    | .num q => getNum sB x.1 = q
    | .str k => ∀ p i, getLoc s2.h (.s k) = some p → findIdx x.1 s2.h.scalars 0 = some i →
        readStr sB x.1 = deref s2.h p := by
  obtain ⟨name, v⟩ := x
  subst hav
  simp only
  rw [writeAll_append]
  obtain ⟨B1, B2, _, _, _⟩ := writeAll_frame true L1 s2 hw
  simp only [writeAll]
  obtain ⟨f1, f2, f3, f4, f5, f6, f7⟩ := writeVar_facts true name v (writeAll true L1 s2) B1
  obtain ⟨g1, g2, g3, g4, g5⟩ := writeAll_frame true L2 (writeVar true name v (writeAll true L1 s2)) f1
  cases v with
  | num q =>
    show getNum (writeAll true L2 _) name = q
    rw [g5 name (fun y hy _ _ => hlast y hy), f6 q rfl, getNum_setNum_same]
  | str k =>
    intro p i hp hi
    rw [readStr_eq]
    show readH (writeAll true L2 _).h name = _
    have hi1 : findIdx name (writeAll true L1 s2).h.scalars 0 = some i := by rw [B2.findIdx_eq]; exact hi
    have hcell : (writeAll true L2 (writeVar true name (.str k) (writeAll true L1 s2))).h.scalars[i]?
        = (writeVar true name (.str k) (writeAll true L1 s2)).h.scalars[i]? := by
      apply g4 i
      intro y hy k' _ he
      rw [f2.findIdx_eq] at he
      exact hlast y hy (findIdx_inj _ _ _ i he hi1)
    have hgv := f7 k i rfl hi1
    have hfi : findIdx name (writeAll true L2 (writeVar true name (.str k) (writeAll true L1 s2))).h.scalars 0
        = some i := by rw [g2.findIdx_eq, f2.findIdx_eq]; exact hi1
    have hgv2 : getV (writeAll true L2 (writeVar true name (.str k) (writeAll true L1 s2))).h (.sc i)
        = some (slotPtr (writeAll true L1 s2).h k) := by
      simp only [getV] at hgv ⊢
      rw [hcell]; exact hgv
    have hsp : slotPtr (writeAll true L1 s2).h k = p :=
      slotPtr_of_getLoc _ k p (by rw [B2.getLoc_s]; exact hp)
    simp only [readH, hfi, hgv2, Option.getD, hsp]
    rw [g2.deref, f2.deref, B2.deref]

/-- **The restore puts back the saved DESCRIPTOR itself** — unconditionally, whatever the variable reads
    at that moment (for instance the same text as the saved value, because the argument had it): after
    `leave`, the pointer cell of a string parameter holds the pointer of its registered clone (the
    caller's own string, relocated by collections if any), so the caller's variable never ends up
    sharing the argument's storage; a numeric parameter holds the saved number.  (For a repeated name
    the last saved entry is written last; all entries of one name are clones of the same cell.) -/
theorem restore_puts_back_the_saved_descriptor (f : Fn) (saved L1 L2 : List (Bytes × Slot))
    (x : Bytes × Slot) (t : St) (hw : WF t.h) (hsv : saved = L1 ++ x :: L2) (hlast : ∀ y ∈ L2, y.1 ≠ x.1) :
    match x.2 with
    | .num q => getNum (leave f saved t) x.1 = q
    | .str k => ∀ p i, getLoc t.h (.s k) = some p → findIdx x.1 t.h.scalars 0 = some i →
        getV (leave f saved t).h (.sc i) = some p := by
  obtain ⟨name, v⟩ := x
  subst hsv
  unfold leave
  rw [writeAll_append]
  have hw0 : WF ({ t with busy := t.busy.erase f.idx } : St).h := hw
  obtain ⟨B1, B2, _, _, _⟩ := writeAll_frame false L1 { t with busy := t.busy.erase f.idx } hw0
  simp only [writeAll]
  obtain ⟨f1, f2, f3, f4, f5, f6, f7⟩ :=
    writeVar_facts false name v (writeAll false L1 { t with busy := t.busy.erase f.idx }) B1
  obtain ⟨g1, g2, g3, g4, g5⟩ :=
    writeAll_frame false L2 (writeVar false name v (writeAll false L1 { t with busy := t.busy.erase f.idx })) f1
  cases v with
  | num q =>
    show getNum (writeAll false L2 _) name = q
    rw [g5 name (fun y hy _ _ => hlast y hy), f6 q rfl, getNum_setNum_same]
  | str k =>
    intro p i hp hi
    have hi1 : findIdx name (writeAll false L1 { t with busy := t.busy.erase f.idx }).h.scalars 0 = some i := by
      rw [B2.findIdx_eq]; exact hi
    have hcell : (writeAll false L2 (writeVar false name (.str k)
          (writeAll false L1 { t with busy := t.busy.erase f.idx }))).h.scalars[i]?
        = (writeVar false name (.str k) (writeAll false L1 { t with busy := t.busy.erase f.idx })).h.scalars[i]? := by
      apply g4 i
      intro y hy k' _ he
      rw [f2.findIdx_eq] at he
      exact hlast y hy (findIdx_inj _ _ _ i he hi1)
    have hgv := f7 k i rfl hi1
    have hsp : slotPtr (writeAll false L1 { t with busy := t.busy.erase f.idx }).h k = p :=
      slotPtr_of_getLoc _ k p (by rw [B2.getLoc_s]; exact hp)
    simp only [getV] at hgv ⊢
    rw [hcell, hgv, hsp]

/-- the first entry of the argument list is the converted value of the first argument expression (and
    the rest is the argument list of the remaining parameters, evaluated afterwards) -/
theorem arg_entry_is_converted_value (name : Bytes) (c : Comp) (r : List (Bytes × Comp)) (s s1 : St)
    (av : List (Bytes × Slot)) (h : evalArgs ((name, c) :: r) s = .ok (s1, av)) :
    ∃ s' v v', c s = .ok (s', v) ∧ conv (sigil name) v = .ok v' ∧
      ((∃ t q rest, v' = .num t q ∧ av = (name, .num q) :: rest ∧ evalArgs r s' = .ok (s1, rest)) ∨
       (∃ p rest, v' = .str p ∧ av = (name, .str s'.h.stack.length) :: rest ∧
          getLoc (pushRoot s' p).h (.s s'.h.stack.length) = some p ∧
          evalArgs r (pushRoot s' p) = .ok (s1, rest))) := by
  simp only [evalArgs] at h
  cases hc : c s with
  | error x => rw [hc] at h; cases h
  | ok x =>
    obtain ⟨s', v⟩ := x
    rw [hc] at h
    simp only at h
    cases hcv : conv (sigil name) v with
    | error e => rw [hcv] at h; cases h
    | ok v' =>
      rw [hcv] at h
      refine ⟨s', v, v', rfl, hcv, ?_⟩
      cases v' with
      | num t q =>
        simp only at h
        cases hr : evalArgs r s' with
        | error y => rw [hr] at h; cases h
        | ok y =>
          obtain ⟨s2, rest⟩ := y
          rw [hr] at h
          cases h
          exact Or.inl ⟨t, q, rest, rfl, rfl, rfl⟩
      | str p =>
        simp only at h
        cases hr : evalArgs r (pushRoot s' p) with
        | error y => rw [hr] at h; cases h
        | ok y =>
          obtain ⟨s2, rest⟩ := y
          rw [hr] at h
          cases h
          exact Or.inr ⟨p, rest, rfl, rfl, by simp [getLoc, pushRoot, push], hr⟩

/-- a write never touches string space (no well-formedness needed) -/
theorem writeVar_wr (fix : Bool) (name : Bytes) (v : Slot) (t : St) : Wr t.h (writeVar fix name v t).h := by
  cases v with
  | num q => exact Wr.refl _
  | str k =>
    have key : ∀ h0, Wr t.h h0 →
        Wr t.h (match cellOf h0 name with
                | some l => ({ t with h := setV h0 l (slotPtr h0 k) } : St)
                | none => t).h := by
      intro h0 w0
      cases hf : findIdx name h0.scalars 0 with
      | none => simp only [cellOf, hf, Option.map]; exact Wr.refl _
      | some i => simp only [cellOf, hf, Option.map]; exact w0.trans (setV_sc_wr h0 i _).1
    cases fix with
    | true => exact key (fixTemps t.h) (fixTemps_wr t.h).1
    | false => exact key t.h (Wr.refl _)

/-- **The result is the converted value of the body**, read when the body finished — not a view of a
    parameter variable that the restore overwrites: a string result reads in the final state what it
    read at the end of the body. -/
theorem result_is_body_value (f : Fn) (args : List Comp) (body : Comp) (s s' : St) (r : Val)
    (h : evaluate f args body s = .ok (s', r)) :
    ∃ s4 saved tE v, enter f args s = .ok (s4, saved) ∧ body s4 = .ok (tE, v) ∧ conv f.sigil v = .ok r ∧
      ∀ p, r = .str p → deref s'.h p = deref tE.h p := by
  unfold evaluate at h
  simp only at h
  cases he : enter f args s with
  | error x => rw [he] at h; cases h
  | ok x =>
    obtain ⟨s4, saved⟩ := x
    rw [he] at h
    simp only at h
    cases hb : body s4 with
    | error y => rw [hb] at h; cases h
    | ok y =>
      obtain ⟨tE, v⟩ := y
      rw [hb] at h
      simp only at h
      cases hcv : conv f.sigil v with
      | error e => rw [hcv] at h; cases h
      | ok v' =>
        rw [hcv] at h
        cases h
        refine ⟨s4, saved, tE, v, rfl, hb, hcv, ?_⟩
        intro p _
        -- the restore only writes pointer cells
        have : Wr tE.h (leave f saved tE).h := by
          have hgen : ∀ (L : List (Bytes × Slot)) (t : St), Wr t.h (writeAll false L t).h := by
            intro L
            induction L with
            | nil => intro t; exact Wr.refl _
            | cons x r ih =>
              intro t
              obtain ⟨n, sl⟩ := x
              simp only [writeAll]
              exact Wr.trans (writeVar_wr false n sl t) (ih _)
          show Wr tE.h (writeAll false saved { tE with busy := tE.busy.erase f.idx }).h
          exact hgen saved { tE with busy := tE.busy.erase f.idx }
        exact deref_congr tE.h _ p this.vs this.cs this.code this.strs

/-- **call_preserves_all_variables** — the same for a function whose parameters are written with or
    without type characters, under ANY history of DEFINT/DEFSNG/DEFDBL/DEFSTR statements executed
    before the call (before the DEF FN, between DEF FN and the first call, between calls): the names
    are completed with the table current at the call, for the save, the binding and the restore alike,
    and no variable of any type and any name reads differently afterwards. -/
theorem call_preserves_all_variables (hist : List (Ty × Nat × Nat)) (idx : Nat) (fname : Bytes)
    (params : List Bytes) (args : List Comp) (body : Comp)
    (hargs : ∀ c ∈ args, Framed c) (hbody : Framed body) (s : St) (hw : WF s.h) :
    let dt : DefTy := hist.foldl (fun d x => setDefTy d x.1 x.2.1 x.2.2) defTy0
    let f : Fn := ⟨idx, sigil fname, params.map (completeName dt)⟩
    let s' := after (evaluate f args body s)
    (∀ name, readStr s' name = readStr s name) ∧ (∀ name, getNum s' name = getNum s name) ∧
    s'.busy = s.busy ∧ s'.h.stack.length = s.h.stack.length ∧ WF s'.h :=
  fn_frame _ args body hargs hbody s hw

/-- the variables saved (and restored) are exactly the parameter names of the call, and every variable
    that is bound is one of them: save, bind and restore use one and the same completion of the names -/
theorem saved_names_are_bound_names (f : Fn) (args : List Comp) (s s4 : St) (saved : List (Bytes × Slot))
    (he : enter f args s = .ok (s4, saved)) :
    saved.map (·.1) = f.params ∧
    ∃ s1 s2 av, evalArgs (f.params.zip args) s = .ok (s1, av) ∧ saveAll f.params s1 = .ok (s2, saved) ∧
      s4 = { writeAll true av s2 with busy := f.idx :: (writeAll true av s2).busy } ∧
      av.map (·.1) = (f.params.zip args).map (·.1) := by
  have hnames : ∀ (ps : List Bytes) (t t' : St) (l : List (Bytes × Slot)),
      saveAll ps t = .ok (t', l) → l.map (·.1) = ps := by
    intro ps
    induction ps with
    | nil => intro t t' l h; simp only [saveAll] at h; cases h; rfl
    | cons n r ih =>
      intro t t' l h
      simp only [saveAll] at h
      cases hev : ensureVar n t with
      | error x => rw [hev] at h; cases h
      | ok t1 =>
        rw [hev] at h
        simp only at h
        split at h
        · cases hs : saveAll r (pushRoot t1 (((cellOf t1.h n).bind (getV t1.h)).getD Ptr.null)) with
          | error x => rw [hs] at h; cases h
          | ok x => obtain ⟨t2, l2⟩ := x; rw [hs] at h; cases h; simp [ih _ _ _ hs]
        · cases hs : saveAll r t1 with
          | error x => rw [hs] at h; cases h
          | ok x => obtain ⟨t2, l2⟩ := x; rw [hs] at h; cases h; simp [ih _ _ _ hs]
  have hargsn : ∀ (L : List (Bytes × Comp)) (t t' : St) (l : List (Bytes × Slot)),
      evalArgs L t = .ok (t', l) → l.map (·.1) = L.map (·.1) := by
    intro L
    induction L with
    | nil => intro t t' l h; simp only [evalArgs] at h; cases h; rfl
    | cons a r ih =>
      intro t t' l h
      obtain ⟨n, c⟩ := a
      obtain ⟨s', v, v', _, _, hcase⟩ := arg_entry_is_converted_value n c r t t' l h
      rcases hcase with ⟨_, q, rest, _, hl, hr⟩ | ⟨p, rest, _, hl, _, hr⟩
      · rw [hl]; simp [ih _ _ _ hr]
      · rw [hl]; simp [ih _ _ _ hr]
  unfold enter at he
  cases hev : evalArgs (f.params.zip args) s with
  | error x => rw [hev] at he; cases he
  | ok x =>
    obtain ⟨s1, av⟩ := x
    rw [hev] at he
    simp only at he
    split at he
    · cases he
    · cases hsv : saveAll f.params s1 with
      | error x => rw [hsv] at he; cases he
      | ok y =>
        obtain ⟨s2, sv⟩ := y
        rw [hsv] at he
        cases he
        exact ⟨hnames _ _ _ _ hsv, s1, s2, av, rfl, hsv, rfl, hargsn _ _ _ _ hev⟩

/-! ### non-vacuity -/

def xS : Bytes := [88, 36]     -- X$
def xN : Bytes := [88, 33]     -- X!
def yN : Bytes := [89, 33]     -- Y!

/-- a small machine: code at 10.., variables from 96, 1000 bytes, stack 100; the program text holds the
    literal "q" at address 20; X$ = "ca" lives in string space -/
def demo : St :=
  { h := { (init 10 96 1000 100 [(20, [113])]) with
           scalars := [(xS, ⟨2, 897⟩)], scalBytes := 6, strs := [(897, [99, 97])], current := 896, temp := 896 },
    nums := [(xN, 28)], busy := [] }

theorem demo_WF : WF demo.h := by
  constructor
  · show Blocks 896 898 [(897, [99, 97])]
    simp [Blocks]
  · intro l p hp
    cases l with
    | s k => simp [getLoc, demo, init] at hp
    | v l =>
      cases l with
      | el a i => simp [getLoc, getV, demo, init] at hp
      | sc i =>
        cases i with
        | zero =>
          simp [getLoc, getV, demo, init] at hp
          subst hp
          intro _ _
          exact ⟨[99, 97], rfl, rfl⟩
        | succ n => simp [getLoc, getV, demo, init] at hp

def fnA : Fn := ⟨0, .str, [xS]⟩

/-- the body `<collection> : X$` — a garbage collection while X$ is bound, then the parameter -/
def bodyDemo : Comp := fun s =>
  match gcC (.num .sng 0) s with
  | .error x => .error x
  | .ok (s1, _) => readC xS s1

theorem bodyDemo_framed : Framed bodyDemo :=
  framed_bind _ (fun _ => readC xS) (framed_gc _ _) (fun _ => framed_read _)

/-- the hypotheses of `fn_frame` are satisfiable (`demo_WF`, `framed_alloc`, `bodyDemo_framed`), and
    on this instance the call FNA$("q"-temporary) returns "q" while X$ still reads "ca", X! reads 7,
    no flag is set and no root is left — although the body collected garbage while X$ was bound -/
example : (match evaluate fnA [allocC [113]] bodyDemo demo with
           | .ok (s', .str p) => (deref s'.h p, readStr s' xS, getNum s' xN, s'.busy, s'.h.stack.length)
           | _ => ([], [], 0, [1], 1)) = ([113], [99, 97], 28, [], 0) := by decide +kernel

example : let s' := after (evaluate fnA [allocC [113]] bodyDemo demo)
    (∀ name, readStr s' name = readStr demo name) ∧ (∀ name, getNum s' name = getNum demo name) ∧
    s'.busy = demo.busy ∧ s'.h.stack.length = demo.h.stack.length ∧ WF s'.h :=
  fn_frame fnA [allocC [113]] bodyDemo
    (fun c hc => by cases hc with
                    | head => exact framed_alloc _
                    | tail _ h => cases h) bodyDemo_framed demo demo_WF

/-- recursion: inside the body the flag is set, a nested call fails with Out of memory (7), and
    afterwards the function can be called again -/
example : (match evaluate fnA [allocC [113]] (evaluate fnA [allocC [114]] bodyDemo) demo with
           | .error (e, s') => (e, s'.busy, readStr s' xS)
           | .ok _ => (0, [], [])) = (7, [], [99, 97]) := by decide +kernel

/-! ### the code before the repairs -/

/-- **D17** (before commit 71bbc812): the saved parameter value is a cloned pointer that is not a
    collector root.  Same call as above: the collection inside the body discards the caller's "ca",
    the restore writes the stale pointer, X$ now reads garbage (here: nothing) and the next collection
    dereferences a detached string (Python KeyError, model error 999).  The repaired `evaluate` keeps
    the value. -/
theorem D17_counterexample :
    (match evaluateOldSave fnA [allocC [113]] bodyDemo demo with
     | .ok (s', _) => (readStr s' xS, match collect s'.h with
                                       | .ok _ => 0
                                       | .error (e, _) => e)
     | .error _ => ([0], 0)) = ([], crash) ∧
    (match evaluate fnA [allocC [113]] bodyDemo demo with
     | .ok (s', _) => (readStr s' xS, match collect s'.h with
                                       | .ok _ => 0
                                       | .error (e, _) => e)
     | .error _ => ([0], 1)) = ([99, 97], 0) := by decide +kernel

def numDemo : St := { demo with nums := [(xN, 4), (yN, 40)] }

/-- before the pending fix C20-fn-value-views: `10 DEF FNA(X)=X : X=7 : PRINT FNA(1)` — the body's
    value is a view of the parameter variable, read after the `finally` restored the caller's 7 (28
    quarter units); the repaired `evaluate` returns the argument 1 (4 quarter units). -/
theorem result_view_counterexample :
    (evaluateOldViews [xN] [.val (.num .sng 4)] (.view xN) demo).2 = .inl 28 ∧
    (match evaluate ⟨0, .sng, [xN]⟩ [pureC (.num .sng 4)] (readC xN) demo with
     | .ok (_, .num _ q) => q
     | _ => 0) = 4 := by decide +kernel

/-- before the pending fix: `DEF FNS(Y,X)=… : X=1 : Y=10 : FNS(X,Y)` — the arguments are views of X
    and Y; binding Y first overwrites what the second argument shows, so the body sees X = 1 instead
    of 10 (4 instead of 40 quarter units); the repaired `evaluate` binds the converted copies. -/
theorem arg_view_counterexample :
    getNum (bodyStateOldViews [yN, xN] [.view xN, .view yN] numDemo) xN = 4 ∧
    (match evaluate ⟨0, .sng, [yN, xN]⟩ [readC xN, readC yN] (readC xN) numDemo with
     | .ok (_, .num _ q) => q
     | _ => 0) = 40 := by decide +kernel

end PcbV.C20
